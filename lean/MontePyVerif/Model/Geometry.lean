import MontePyVerif.Spec.Geometry
/-! # Model.Geometry — executable model of MontePy's geometry trees (property C02)

Mirrors, function by function, the code of `montepy/surfaces/half_space.py` *after* the `fix:` commits
of branch fix-C02, the geometry rules of `montepy/input_parser/cell_parser.py` as a tree shape (`GT`),
`syntax_node.py: GeometryTree.format / PaddingNode.format`, `Cell.__invert__`, `Surface.__pos__/__neg__`.

The only thing imported from the Spec is the character alphabet `GCh` (a data type, no function), so that
model output and Spec input are the same type.

Representation.  Python shares syntax nodes between a `HalfSpace` and the `GeometryTree` of its parent
(`parent.node.nodes["left"]` is a chain of `_SHIFT` trees that ends in `child.node`).  The model stores the
chain (`lchain`/`rchain`) in the parent's node together with the identity (`ltarget`/`rtarget`) of the node
it ends in; `_encloses` (an `is` test in Python) is the comparison of that identity with the child's node id.
Fresh nodes take their id from a counter.

Not modelled: `UnitHalfSpace._update_node` re-formatting a leaf whose divider number or side was changed
(`ValueNode.format` of an edited value: properties C04/C05); `update_pointers`, `_add_new_children_to_cell`,
`remove_duplicate_surfaces` (C16/C18); aliasing of one HalfSpace object inside two trees. -/
namespace MontePyVerif.Geometry
open MontePyVerif.Spec.Geometry (GCh)

/-- syntax_node.py: an element of `PaddingNode.nodes`: a string or a `CommentNode` (only its length matters). -/
inductive PItem where
  | str (cs : List GCh)
  | cmt (len : Nat)
  deriving DecidableEq, Repr

abbrev Pad := List PItem

def PItem.format : PItem → List GCh
  | .str cs => cs
  | .cmt _ => [.cmt]

/-- syntax_node.py:PaddingNode.format -/
def Pad.format (p : Pad) : List GCh := p.flatMap PItem.format

def optFmt : Option Pad → List GCh
  | none => []
  | some p => p.format

/-- syntax_node.py:ValueNode of a geometry leaf whose value is unchanged: `format` = token ++ padding.
    `value`/`neg` are `ValueNode.value` / `is_negative` as computed by MontePy from the token. -/
structure VN where
  id : Nat
  tok : List GCh
  pad : Option Pad
  value : Nat
  neg : Bool
  deriving DecidableEq, Repr

/-- a `_SHIFT` GeometryTree: "geom parens" `{start_pad, left, end_pad}` or a bare "shift" `{left}` -/
structure Wrap where
  id : Nat
  sp : Option Pad
  ep : Option Pad
  deriving DecidableEq, Repr

inductive Key where
  | left | operator | right | endPad
  deriving DecidableEq, Repr

inductive BOp where
  | inter | union
  deriving DecidableEq, Repr

/-- the GeometryTree of a HalfSpace: ordered key list (Python dict order), operator padding, optional
    end_pad, and the two links to the children's nodes. -/
structure GN where
  id : Nat
  order : List Key
  opr : Pad
  ep : Option Pad
  lchain : List Wrap
  ltarget : Nat
  rchain : List Wrap
  rtarget : Nat
  deriving DecidableEq, Repr

/-- half_space.py:HalfSpace / UnitHalfSpace with the attached syntax node (`_node`), if any. -/
inductive HS where
  | unit (div : Nat) (side : Bool) (isCell : Bool) (node : Option VN)
  | compl (l : HS) (node : Option GN)
  | bin (o : BOp) (l r : HS) (node : Option GN)
  deriving Repr

/-- the syntax tree of a geometry as `CellParser` builds it (geometry_expr / term / factor / factory) -/
inductive GT where
  | val (v : VN)
  | shift (w : Wrap) (left : GT)
  | compl (id : Nat) (order : List Key) (opr : Pad) (ep : Option Pad) (left : GT)
  | bin (id : Nat) (o : BOp) (order : List Key) (opr : Pad) (ep : Option Pad) (left right : GT)
  deriving Repr

/-! ## meaning of the object the API exposes -/

open MontePyVerif.Spec.Geometry (Env) in
/-- the Boolean function of a HalfSpace tree: `side = true` is the positive sense; a cell leaf is "inside
    that cell" (it only occurs under a complement). -/
def HS.eval (ρ : Env) : HS → Bool
  | .unit d s c _ => if c then ρ true d else (ρ false d == s)
  | .compl l _ => !(l.eval ρ)
  | .bin .inter l r _ => l.eval ρ && r.eval ρ
  | .bin .union l r _ => l.eval ρ || r.eval ρ

/-- half_space.py:HalfSpace.__str__ / UnitHalfSpace.__str__ (used to compare tree shapes) -/
def HS.str : HS → String
  | .unit d s c _ => (if s || c then (if c then "" else "+") else "-") ++ toString d
  | .compl l _ => "#" ++ l.str
  | .bin .inter l r _ => "(" ++ l.str ++ "*" ++ r.str ++ ")"
  | .bin .union l r _ => "(" ++ l.str ++ ":" ++ r.str ++ ")"

/-! ## syntax_node.py: GeometryTree.format -/

def wrapFmt : List Wrap → List GCh → List GCh
  | [], t => t
  | w :: ws, t => optFmt w.sp ++ wrapFmt ws t ++ optFmt w.ep

/-- text of the parser's tree (every character of the input is in exactly one leaf or padding) -/
def GT.format : GT → List GCh
  | .val v => v.tok ++ optFmt v.pad
  | .shift w l => optFmt w.sp ++ l.format ++ optFmt w.ep
  | .compl _ order opr ep l => order.flatMap fun
      | .operator => opr.format | .left => l.format | .endPad => optFmt ep | .right => []
  | .bin _ _ order opr ep l r => order.flatMap fun
      | .operator => opr.format | .left => l.format | .right => r.format | .endPad => optFmt ep

/-- `HalfSpace.node.format()`: the dict is walked in insertion order; the links are the chains around the
    children's own nodes. A HalfSpace without node has no text. -/
def HS.fmt : HS → List GCh
  | .unit _ _ _ (some v) => v.tok ++ optFmt v.pad
  | .unit _ _ _ none => []
  | .compl l (some g) => g.order.flatMap fun
      | .operator => g.opr.format | .left => wrapFmt g.lchain l.fmt | .endPad => optFmt g.ep | .right => []
  | .compl _ none => []
  | .bin _ l r (some g) => g.order.flatMap fun
      | .operator => g.opr.format | .left => wrapFmt g.lchain l.fmt
      | .right => wrapFmt g.rchain r.fmt | .endPad => optFmt g.ep
  | .bin _ _ _ none => []

/-! ## half_space.py: parse_input_node -/

def GT.id : GT → Nat
  | .val v => v.id
  | .shift w _ => w.id
  | .compl id .. => id
  | .bin id .. => id

/-- the `_SHIFT` trees between a tree and the first node that is not a shift, and that node's identity -/
def chainOf : GT → List Wrap × Nat
  | .shift w l => let (c, t) := chainOf l; (w :: c, t)
  | g => ([], g.id)

/-- half_space.py:HalfSpace.parse_input_node + UnitHalfSpace.parse_input_node.
    `_SHIFT` nodes are skipped (`return sides[0]`); a value directly below a complement is a cell. -/
def parseInputNode : GT → HS
  | .val v => .unit v.value (!v.neg) false (some v)
  | .shift _ l => parseInputNode l
  | .compl id order opr ep l =>
      let child := match l with
        | .val v => HS.unit v.value true true (some v)
        | l => parseInputNode l
      let (c, t) := chainOf l
      .compl child (some ⟨id, order, opr, ep, c, t, [], 0⟩)
  | .bin id o order opr ep l r =>
      let (lc, lt) := chainOf l
      let (rc, rt) := chainOf r
      .bin o (parseInputNode l) (parseInputNode r) (some ⟨id, order, opr, ep, lc, lt, rc, rt⟩)

/-! ## operators -/

/-- surface.py:Surface.__pos__ / __neg__ -/
def surfaceSide (n : Nat) (positive : Bool) : HS := .unit n positive false none
/-- cell.py:Cell.__invert__ -/
def cellInvert (n : Nat) : HS := .compl (.unit n true true none) none
/-- half_space.py:HalfSpace.__and__ -/
def HS.and (a b : HS) : HS := .bin .inter a b none
/-- half_space.py:HalfSpace.__or__ -/
def HS.or (a b : HS) : HS := .bin .union a b none
/-- half_space.py:HalfSpace.__invert__ -/
def HS.invert (a : HS) : HS := .compl a none

/-- half_space.py:HalfSpace.__iand__ (repaired): the operand goes into the tree only along intersections;
    the node objects on the way are mutated in place, so they keep their syntax nodes. -/
def HS.iand : HS → HS → HS
  | .bin .inter l (.unit d s c vn) n, x => .bin .inter l (.bin .inter (.unit d s c vn) x none) n
  | .bin .inter l r n, x => .bin .inter l (r.iand x) n
  | h, x => .bin .inter h x none

/-- half_space.py:HalfSpace.__ior__ (repaired) -/
def HS.ior : HS → HS → HS
  | .bin .union l (.unit d s c vn) n, x => .bin .union l (.bin .union (.unit d s c vn) x none) n
  | .bin .union l r n, x => .bin .union l (r.ior x) n
  | h, x => .bin .union h x none

/-! ## half_space.py: _ensure_has_nodes, _link_child and helpers -/

def HS.nodeId : HS → Option Nat
  | .unit _ _ _ n => n.map (·.id)
  | .compl _ n => n.map (·.id)
  | .bin _ _ _ n => n.map (·.id)

def digitsAux : Nat → Nat → List GCh → List GCh
  | 0, _, acc => acc
  | f + 1, n, acc => if n < 10 then .digit n :: acc else digitsAux f (n / 10) (.digit (n % 10) :: acc)

/-- decimal digits of a number (`"{value:d}"`) -/
def natDigits (n : Nat) : List GCh := digitsAux (n + 1) n []

/-- the comment state behind a text: a comment hides everything up to the next line end -/
def cmtAfter : Bool → List GCh → Bool
  | c, [] => c
  | true, x :: xs => cmtAfter (x != .nl) xs
  | false, x :: xs => cmtAfter (x == .cmt) xs

/-- half_space.py:_ends_in_comment (on the text; Python walks the padding elements in text order, value tokens
    hold neither comments nor line ends) -/
def endsInComment (t : List GCh) : Bool := cmtAfter false t

/-- the two `append`s of `_end_trailing_comment` (BLANK_SPACE_CONTINUE = 5) -/
def Pad.endComment (p : Pad) : Pad := p ++ [.str [.nl], .str (List.replicate 5 .sp)]

/-- half_space.py:_end_trailing_comment, part 1: walk down the `_SHIFT` chain; `some` when the last
    dict value of one of them is its `end_pad` (the walk ends there). -/
def endChain : List Wrap → Option (List Wrap)
  | [] => none
  | w :: ws =>
      match w.ep with
      | some p => some ({ w with ep := some p.endComment } :: ws)
      | none => (endChain ws).map (w :: ·)

/-- half_space.py:_end_trailing_comment, part 2: the last value of the node's dict, recursively. -/
def endNode : HS → HS
  | .unit d s c (some v) => .unit d s c (some { v with pad := some ((v.pad.getD []).endComment) })
  | .unit d s c none => .unit d s c none
  | .compl l (some g) =>
      match g.order.getLast? with
      | some .endPad => .compl l (some { g with ep := g.ep.map Pad.endComment })
      | some .operator => .compl l (some { g with opr := g.opr.endComment })
      | some .left =>
          match endChain g.lchain with
          | some c => .compl l (some { g with lchain := c })
          | none => .compl (endNode l) (some g)
      | _ => .compl l (some g)
  | .compl l none => .compl l none
  | .bin o l r (some g) =>
      match g.order.getLast? with
      | some .endPad => .bin o l r (some { g with ep := g.ep.map Pad.endComment })
      | some .operator => .bin o l r (some { g with opr := g.opr.endComment })
      | some .left =>
          match endChain g.lchain with
          | some c => .bin o l r (some { g with lchain := c })
          | none => .bin o (endNode l) r (some g)
      | some .right =>
          match endChain g.rchain with
          | some c => .bin o l r (some { g with rchain := c })
          | none => .bin o l (endNode r) (some g)
      | none => .bin o l r (some g)
  | .bin o l r none => .bin o l r none

/-- half_space.py:_end_trailing_comment on a link (chain around a child's node) -/
def endLink (chain : List Wrap) (child : HS) : List Wrap × HS :=
  if endsInComment (wrapFmt chain child.fmt) then
    match endChain chain with
    | some c => (c, child)
    | none => (chain, endNode child)
  else (chain, child)

/-- half_space.py:_has_parentheses (of one `_SHIFT` tree): first item of start_pad is "(", of end_pad ")" -/
def Wrap.isParens (w : Wrap) : Bool :=
  match w.sp, w.ep with
  | some (.str [.lp] :: _), some (.str [.rp] :: _) => true
  | _, _ => false

/-- half_space.py:_has_parentheses of a link -/
def hasParens : List Wrap → Bool
  | w :: _ => w.isParens
  | [] => false

/-- half_space.py:HalfSpace._needs_parentheses; `parent = none` is the complement. -/
def needsParens (parent : Option BOp) (child : HS) : Bool :=
  match parent, child with
  | none, .unit _ _ true _ => false
  | none, _ => true
  | some _, .unit .. => false
  | some .inter, .bin .union .. => true
  | some _, _ => false

theorem endChain_length {ws c : List Wrap} (h : endChain ws = some c) : c.length = ws.length := by
  induction ws generalizing c with
  | nil => simp [endChain] at h
  | cons w ws ih =>
    simp only [endChain] at h
    split at h
    · cases h; rfl
    · cases hh : endChain ws with
      | none => simp [hh] at h
      | some c' => simp [hh] at h; subst h; simp [ih hh]

theorem endLink_length (ws : List Wrap) (h : HS) : (endLink ws h).1.length = ws.length := by
  unfold endLink
  split
  · split
    · rename_i c hc; exact endChain_length hc
    · rfl
  · rfl

/-- half_space.py:_end_comments_in_parentheses: in front of every ")" of the chain the comment line is ended.
    The Python loop walks the chain once; `fuel` is the number of trees still to visit. -/
def closeParensAux : Nat → List Wrap → HS → List Wrap × HS
  | 0, ws, h => (ws, h)
  | _, [], h => ([], h)
  | n + 1, w :: ws, h =>
      let r := if w.ep.isSome then endLink ws h else (ws, h)
      let r2 := closeParensAux n r.1 r.2
      (w :: r2.1, r2.2)

def closeParens (ws : List Wrap) (h : HS) : List Wrap × HS := closeParensAux ws.length ws h

/-- sufficiency of the fuel: any amount of at least the chain's length gives the same result -/
theorem closeParensAux_fuel (n : Nat) (ws : List Wrap) (h : HS) (hn : ws.length ≤ n) :
    closeParensAux n ws h = closeParensAux ws.length ws h := by
  induction n generalizing ws h with
  | zero =>
    have : ws = [] := by cases ws with
      | nil => rfl
      | cons w ws => simp at hn
    subst this; rfl
  | succ n ih =>
    cases ws with
    | nil => simp [closeParensAux]
    | cons w ws =>
      simp only [List.length_cons] at hn
      simp only [closeParensAux, List.length_cons]
      have hl : (if w.ep.isSome then endLink ws h else (ws, h)).1.length = ws.length := by
        split
        · exact endLink_length ws h
        · rfl
      rw [ih _ _ (by rw [hl]; omega), hl]

/-- half_space.py:HalfSpace._link_child. Returns the new link, its target, the (possibly touched) child
    and the id counter. `follow` = "key == left and self.right is not None". -/
def linkChild (ctr : Nat) (parent : Option BOp) (follow : Bool) (chain : List Wrap) (target : Nat) (child : HS) :
    List Wrap × Nat × HS × Nat :=
  let cid := child.nodeId.getD 0
  let link := if target = cid then chain else []
  let np := needsParens parent child && !hasParens link
  let link := if np then ⟨ctr, some [.str [.lp]], some [.str [.rp]]⟩ :: link else link
  let lc := closeParens link child
  let lc := if follow then endLink lc.1 lc.2 else lc
  (lc.1, cid, lc.2, if np then ctr + 1 else ctr)

/-- half_space.py:HalfSpace._ensure_has_nodes / UnitHalfSpace._ensure_has_nodes -/
def ensureHasNodes : Nat → HS → HS × Nat
  | c, .unit d s ic none =>
      (.unit d s ic (some ⟨c, (if s || ic then [] else [.minus]) ++ natDigits d, none, d, !(s || ic)⟩), c + 1)
  | c, .unit d s ic (some v) => (.unit d s ic (some v), c)
  | c, .compl l n =>
      let (l, c) := ensureHasNodes c l
      let (g, c) := match n with
        | some g => (g, c)
        | none => (⟨c, [.operator, .left], [.str [.sp, .hash]], none, [], l.nodeId.getD 0, [], 0⟩, c + 1)
      let (chain, tgt, l, c) := linkChild c none false g.lchain g.ltarget l
      (.compl l (some { g with lchain := chain, ltarget := tgt }), c)
  | c, .bin o l r n =>
      let (l, c) := ensureHasNodes c l
      let (r, c) := ensureHasNodes c r
      let (g, c) := match n with
        | some g => (g, c)
        | none =>
            let opr : Pad := match o with
              | .inter => [.str [.sp]]
              | .union => [.str [.sp, .colon, .sp]]
            (⟨c, [.left, .operator, .right], opr, none, [], l.nodeId.getD 0, [], r.nodeId.getD 0⟩, c + 1)
      let (lchain, lt, l, c) := linkChild c (some o) true g.lchain g.ltarget l
      let (rchain, rt, r, c) := linkChild c (some o) false g.rchain g.rtarget r
      (.bin o l r (some { g with lchain := lchain, ltarget := lt, rchain := rchain, rtarget := rt }), c)

/-! ## half_space.py: _update_node and __switch_operator -/

/-- the text of the padding outside comments (`"".join(n for n in nodes if isinstance(n, str))`) -/
def strChars (p : Pad) : List GCh := p.flatMap fun
  | .str cs => cs
  | .cmt _ => []

def blankSym : GCh → GCh
  | .hash => .sp
  | .colon => .sp
  | c => c

def PItem.len : PItem → Nat
  | .str cs => cs.length
  | .cmt n => n

/-- blanks that are not behind a comment on the same line: (offset, item index, char index);
    also the total length and whether the padding ends inside a comment. -/
def visibleBlanks (p : Pad) : List (Nat × Nat × Nat) × Nat × Bool :=
  let step := fun (acc : List (Nat × Nat × Nat) × Nat × Bool × Nat) (it : PItem) =>
    let (bl, off, inc, i) := acc
    match it with
    | .cmt n => (bl, off + n, true, i + 1)
    | .str cs =>
        if cs = [.nl] then (bl, off + 1, false, i + 1)
        else if inc then (bl, off + cs.length, inc, i + 1)
        else
          let found := (List.range cs.length).filterMap fun j =>
            if cs[j]? = some .sp then some (off + j, i, j) else none
          (bl ++ found, off + cs.length, inc, i + 1)
  let r := p.foldl step ([], 0, false, 0)
  (r.1, r.2.1, r.2.2.1)

def setItem (p : Pad) (i : Nat) (f : List GCh → List GCh) : Pad :=
  (List.range p.length).zip p |>.map fun (k, it) =>
    match it with
    | .str cs => if k = i then .str (f cs) else it
    | it => it

def absDiff (a b : Nat) : Nat := if a ≤ b then b - a else a - b

/-- half_space.py:HalfSpace.__switch_operator (repaired). `sym = none` is the blank. -/
def switchOperator (p : Pad) (sym : Option GCh) : Pad :=
  let nodes : Pad := p.map fun
    | .str cs => .str (cs.map blankSym)
    | it => it
  match sym with
  | none => nodes
  | some s =>
    let (blanks, total, inCmt) := visibleBlanks nodes
    if s = .hash then
      match blanks.getLast? with
      | some (off, i, j) =>
          if off + 1 = total then setItem nodes i (fun cs => cs.take j ++ [.hash])
          else (if inCmt then nodes ++ [.str [.nl], .str (List.replicate 5 .sp)] else nodes) ++ [.str [.hash]]
      | none => (if inCmt then nodes ++ [.str [.nl], .str (List.replicate 5 .sp)] else nodes) ++ [.str [.hash]]
    else
      match blanks with
      | [] => .str [s] :: nodes
      | b :: bs =>
          let mid := total / 2
          let best := bs.foldl (fun (m : Nat × Nat × Nat) (x : Nat × Nat × Nat) =>
            if absDiff x.1 mid < absDiff m.1 mid then x else m) b
          setItem nodes best.2.1 (fun cs => cs.take best.2.2 ++ [s] ++ cs.drop (best.2.2 + 1))

def isSpaceCh : GCh → Bool
  | .sp => true
  | .nl => true
  | _ => false

/-- half_space.py:HalfSpace._update_node, intersection and union -/
def updateNodeBin (o : BOp) (g : GN) : GN :=
  let out := strChars g.opr
  match o with
  | .inter =>
      let sw := out.contains .colon || out.contains .hash
      let opr := if sw then switchOperator g.opr none else g.opr
      let out := if sw then out.map blankSym else out
      if !(out.any isSpaceCh || hasParens g.lchain || hasParens g.rchain) then { g with opr := .str [.sp] :: opr }
      else { g with opr := opr }
  | .union => if out.contains .colon then g else { g with opr := switchOperator g.opr (some .colon) }

/-- half_space.py:HalfSpace._update_node, complement (a rebuilt node has the keys operator, left only) -/
def updateNodeCompl (g : GN) : GN :=
  if (strChars g.opr).contains .hash then g
  else { g with opr := switchOperator g.opr (some .hash), order := [.operator, .left], ep := none }

/-- `_update_node` on every HalfSpace of the tree (the recursion of `_update_values`) -/
def updateAll : HS → HS
  | .unit d s c n => .unit d s c n
  | .compl l n => .compl (updateAll l) (n.map updateNodeCompl)
  | .bin o l r n => .bin o (updateAll l) (updateAll r) (n.map (updateNodeBin o))

/-- half_space.py:HalfSpace._update_values as called by cell.py:Cell._update_values.
    (Python re-runs `_ensure_has_nodes` on every subtree; it changes nothing the second time.) -/
def updateValues (ctr : Nat) (h : HS) : HS × Nat :=
  let (h, c) := ensureHasNodes ctr h
  (updateAll h, c)

/-- cell.py: `Cell._geometry` together with `Cell._tree["geometry"]`: the chain of `_SHIFT` trees the parser
    put around the root (`chain`, ending in the node with identity `target`). -/
structure CG where
  chain : List Wrap
  target : Nat
  hs : HS
  deriving Repr

/-- cell.py:Cell._parse_geometry -/
def parseCell (g : GT) : CG := ⟨(chainOf g).1, (chainOf g).2, parseInputNode g⟩

/-- cell.py: the geometry setter (`cell.geometry = h`); the syntax tree is only touched at the next write -/
def CG.set (c : CG) (h : HS) : CG := { c with hs := h }

/-- cell.py:Cell._update_values, geometry part (repaired): the entry of the cell's tree is kept while it
    still encloses the geometry's node, otherwise it becomes that node. -/
def CG.update (ctr : Nat) (c : CG) : CG × Nat :=
  let (h, n) := updateValues ctr c.hs
  if c.target = h.nodeId.getD 0 then
    let r := closeParens c.chain h
    (⟨r.1, c.target, r.2⟩, n)
  else (⟨[], h.nodeId.getD 0, h⟩, n)

/-- the geometry part of `Cell._tree.format()` -/
def CG.fmt (c : CG) : List GCh := wrapFmt c.chain c.hs.fmt

/-- `Cell.format_for_mcnp_input`, geometry part: `_update_values`, then `format`. -/
def writeGeometry (ctr : Nat) (c : CG) : List GCh × CG × Nat :=
  let (c, n) := c.update ctr
  (c.fmt, c, n)

end MontePyVerif.Geometry
