/-! # Model.LR — the LR stack machine of `sly/yacc.py: Parser.parse`, over arbitrary (action, goto) tables

One definition per piece of the Python loop; symbols, states and productions are `Nat` ids.

* token id `0` is `$end` (`lookahead = YaccSymbol(); lookahead.type = '$end'` when the token stream is exhausted);
* an action cell is the integer `t` SLY stores: `t > 0` shift to state `t`, `t < 0` reduce by production `-t`,
  `t = 0` accept;
* a *defaulted* state (`LRTable.__init__`: the row holds exactly one cell and it is a reduce) reduces without
  looking at the lookahead (`t = defaulted_states[self.state]`).

What is modelled: the run of `parse` up to (and excluding) the first syntax error.  The first `t is None` calls
the `error()` hook; MontePy's hook (`parser_base.py: MCNP_Parser.error`) records the error in the log and
`MCNP_Parser.parse` then returns `None` whatever the panic-mode recovery of SLY does afterwards.  So the model stops
there with `Res.reject` (reductions so far, number of unconsumed tokens; the offending token is the first of them,
or `$end` when none is left).  A table lookup on which Python would raise (`prod[-t]` out of range, empty state
stack, `goto[state][name]` KeyError) is `Res.crash`; it is excluded for well-formed tables, never observed.

Termination: a step either consumes a token or reduces, and the number of reductions between two shifts is not
bounded by the input alone, so `run` takes fuel; `Run` is the same machine as a relation (no fuel), `run_sound` /
`run_complete` tie the two, and the theorems of `Props/C12LR.lean` are about `Run`.
-/
namespace MontePyVerif.LR

/-- `sly/yacc.py: LRTable` + `Grammar.Productions` as `Parser.parse` uses them -/
structure Tables where
  /-- number of terminals; ids `< nTerm` are terminals, `0` is `$end` -/
  nTerm : Nat
  /-- `Grammar.Start` -/
  start : Nat
  /-- `Grammar.Productions`: (lhs, rhs); index 0 is the augmented `S' → start` -/
  prods : Array (Nat × List Nat)
  /-- `LRTable.lr_action`: row of a state = association list token ↦ t -/
  action : Array (List (Nat × Int))
  /-- `LRTable.lr_goto` -/
  goto : Array (List (Nat × Nat))

/-- `dict.get` on an association list -/
def assoc {β : Type} (k : Nat) : List (Nat × β) → Option β
  | [] => none
  | (k', v) :: rest => if k' = k then some v else assoc k rest

theorem assoc_mem {β : Type} {k : Nat} {v : β} : ∀ {l : List (Nat × β)}, assoc k l = some v → (k, v) ∈ l
  | [], h => by simp [assoc] at h
  | (k', v') :: rest, h => by
    unfold assoc at h
    split at h
    · next e => cases h; subst e; exact List.mem_cons_self
    · exact List.mem_cons_of_mem _ (assoc_mem h)

/-- the machine state of `parse`: `statestack` (top first) and the tokens not yet consumed.  `symstack` is not
    kept: `parse` never reads the TYPE of a stacked symbol outside error recovery. -/
structure Config where
  stack : List Nat
  input : List Nat
deriving Repr, DecidableEq

/-- `lookahead.type`: the next token, `$end` (= 0) when the stream is exhausted -/
def lookahead (inp : List Nat) : Nat := inp.headD 0

def row (t : Tables) (s : Nat) : List (Nat × Int) := t.action.getD s []

/-- `LRTable.__init__`: `rules = list(actions.values()); if len(rules) == 1 and rules[0] < 0: defaulted_states[state] = rules[0]` -/
def defaulted (t : Tables) (s : Nat) : Option Int :=
  match row t s with
  | [(_, a)] => if a < 0 then some a else none
  | _ => none

/-- the `t` of one iteration of the loop: `defaulted_states[state]` or `actions[state].get(ltype)` -/
def actionOf (t : Tables) (s la : Nat) : Option Int :=
  match defaulted t s with
  | some a => some a
  | none => assoc la (row t s)

inductive StepRes
  | shift (c : Config)
  | reduce (p : Nat) (c : Config)
  | accept
  | error
  | crash
deriving Repr, DecidableEq

/-- one iteration of `while True:` in `Parser.parse` -/
def step (t : Tables) (c : Config) : StepRes :=
  match c.stack with
  | [] => .crash
  | s :: _ =>
    match actionOf t s (lookahead c.input) with
    | none => .error
    | some a =>
      if 0 < a then
        -- `statestack.append(t); symstack.append(lookahead); lookahead = None`
        .shift ⟨a.toNat :: c.stack, c.input.tail⟩
      else if a < 0 then
        -- `p = prod[-t]; del statestack[-plen:]; state = goto[statestack[-1]][pname]; statestack.append(state)`
        match t.prods[(-a).toNat]? with
        | none => .crash
        | some (lhs, rhs) =>
          match c.stack.drop rhs.length with
          | [] => .crash
          | s' :: below =>
            match assoc lhs (t.goto.getD s' []) with
            | none => .crash
            | some g => .reduce (-a).toNat ⟨g :: s' :: below, c.input⟩
      else .accept

/-- what a run of `parse` gives: the production indices reduced, in order (a right-most derivation in reverse) -/
inductive Res
  | accept (reds : List Nat)
  /-- first syntax error: `remaining` tokens were not consumed (the offending one is the first of them; `$end` if 0) -/
  | reject (reds : List Nat) (remaining : Nat)
  | crash (reds : List Nat)
  | outOfFuel
deriving Repr, DecidableEq

def Res.cons (p : Nat) : Res → Res
  | .accept r => .accept (p :: r)
  | .reject r n => .reject (p :: r) n
  | .crash r => .crash (p :: r)
  | .outOfFuel => .outOfFuel

/-- the loop, with fuel -/
def run (t : Tables) : Nat → Config → Res
  | 0, _ => .outOfFuel
  | fuel + 1, c =>
    match step t c with
    | .shift c' => run t fuel c'
    | .reduce p c' => (run t fuel c').cons p
    | .accept => .accept []
    | .error => .reject [] c.input.length
    | .crash => .crash []

/-- `restart()`: `statestack = [0]` -/
def init (toks : List Nat) : Config := ⟨[0], toks⟩

/-- `Parser.parse(tokens)` -/
def parse (t : Tables) (fuel : Nat) (toks : List Nat) : Res := run t fuel (init toks)

/-- the same machine as a relation: no fuel -/
inductive Run (t : Tables) : Config → Res → Prop
  | shift {c c' : Config} {r : Res} : step t c = .shift c' → Run t c' r → Run t c r
  | reduce {c c' : Config} {p : Nat} {r : Res} : step t c = .reduce p c' → Run t c' r → Run t c (r.cons p)
  | accept {c : Config} : step t c = .accept → Run t c (.accept [])
  | error {c : Config} : step t c = .error → Run t c (.reject [] c.input.length)
  | crash {c : Config} : step t c = .crash → Run t c (.crash [])

theorem Res.cons_ne_outOfFuel {p : Nat} {r : Res} (h : r ≠ .outOfFuel) : r.cons p ≠ .outOfFuel := by
  cases r <;> simp_all [Res.cons]

/-- whatever `run` answers with fuel left is a run of the relation -/
theorem run_sound (t : Tables) : ∀ (fuel : Nat) (c : Config) (r : Res),
    run t fuel c = r → r ≠ .outOfFuel → Run t c r := by
  intro fuel
  induction fuel with
  | zero => intro c r h hne; simp [run] at h; exact absurd h.symm hne
  | succ n ih =>
    intro c r h hne
    unfold run at h
    split at h
    · next c' hs => exact Run.shift hs (ih c' r h hne)
    · next p c' hs =>
      subst h
      have : run t n c' ≠ .outOfFuel := by
        intro e; rw [e] at hne; exact hne rfl
      exact Run.reduce hs (ih c' _ rfl this)
    · next hs => subst h; exact Run.accept hs
    · next hs => subst h; exact Run.error hs
    · next hs => subst h; exact Run.crash hs

/-- the relation is a function: the machine is deterministic -/
theorem Run.det {t : Tables} {c : Config} {r r' : Res} (h : Run t c r) : Run t c r' → r = r' := by
  induction h generalizing r' with
  | shift hs _ ih =>
    intro h'
    cases h' with
    | shift hs' hr' => rw [hs] at hs'; cases hs'; exact ih hr'
    | reduce hs' _ => rw [hs] at hs'; cases hs'
    | accept hs' => rw [hs] at hs'; cases hs'
    | error hs' => rw [hs] at hs'; cases hs'
    | crash hs' => rw [hs] at hs'; cases hs'
  | reduce hs _ ih =>
    intro h'
    cases h' with
    | shift hs' _ => rw [hs] at hs'; cases hs'
    | reduce hs' hr' => rw [hs] at hs'; cases hs'; rw [ih hr']
    | accept hs' => rw [hs] at hs'; cases hs'
    | error hs' => rw [hs] at hs'; cases hs'
    | crash hs' => rw [hs] at hs'; cases hs'
  | accept hs =>
    intro h'
    cases h' with
    | shift hs' _ => rw [hs] at hs'; cases hs'
    | reduce hs' _ => rw [hs] at hs'; cases hs'
    | accept _ => rfl
    | error hs' => rw [hs] at hs'; cases hs'
    | crash hs' => rw [hs] at hs'; cases hs'
  | error hs =>
    intro h'
    cases h' with
    | shift hs' _ => rw [hs] at hs'; cases hs'
    | reduce hs' _ => rw [hs] at hs'; cases hs'
    | accept hs' => rw [hs] at hs'; cases hs'
    | error _ => rfl
    | crash hs' => rw [hs] at hs'; cases hs'
  | crash hs =>
    intro h'
    cases h' with
    | shift hs' _ => rw [hs] at hs'; cases hs'
    | reduce hs' _ => rw [hs] at hs'; cases hs'
    | accept hs' => rw [hs] at hs'; cases hs'
    | error hs' => rw [hs] at hs'; cases hs'
    | crash _ => rfl

/-- every run of the relation is found by `run` with enough fuel (and then with any larger fuel) -/
theorem run_complete {t : Tables} {c : Config} {r : Res} (h : Run t c r) :
    ∃ n, ∀ fuel, n ≤ fuel → run t fuel c = r := by
  induction h with
  | shift hs _ ih =>
    obtain ⟨n, hn⟩ := ih
    refine ⟨n + 1, fun fuel hf => ?_⟩
    obtain ⟨k, rfl⟩ : ∃ k, fuel = k + 1 := ⟨fuel - 1, by omega⟩
    simp only [run, hs]; exact hn k (by omega)
  | reduce hs _ ih =>
    obtain ⟨n, hn⟩ := ih
    refine ⟨n + 1, fun fuel hf => ?_⟩
    obtain ⟨k, rfl⟩ : ∃ k, fuel = k + 1 := ⟨fuel - 1, by omega⟩
    simp only [run, hs]; rw [hn k (by omega)]
  | accept hs =>
    refine ⟨1, fun fuel hf => ?_⟩
    obtain ⟨k, rfl⟩ : ∃ k, fuel = k + 1 := ⟨fuel - 1, by omega⟩
    simp only [run, hs]
  | error hs =>
    refine ⟨1, fun fuel hf => ?_⟩
    obtain ⟨k, rfl⟩ : ∃ k, fuel = k + 1 := ⟨fuel - 1, by omega⟩
    simp only [run, hs]
  | crash hs =>
    refine ⟨1, fun fuel hf => ?_⟩
    obtain ⟨k, rfl⟩ : ∃ k, fuel = k + 1 := ⟨fuel - 1, by omega⟩
    simp only [run, hs]

/-- fuel does not change an answer: two fuels that both suffice give the same result -/
theorem run_fuel_irrelevant (t : Tables) (f f' : Nat) (c : Config)
    (h : run t f c ≠ .outOfFuel) (h' : run t f' c ≠ .outOfFuel) : run t f c = run t f' c :=
  (run_sound t f c _ rfl h).det (run_sound t f' c _ rfl h')

end MontePyVerif.LR
