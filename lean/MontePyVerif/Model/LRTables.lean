import MontePyVerif.Model.LR
import MontePyVerif.Gen.LrTables
/-! # Model.LRTables — the dumped SLY tables (`Gen/LrTables.lean`) as `LR.Tables`

The translator writes one Nat per table cell (`tools/extractors/lr_tables.py`: `code * 1000 + symbol id`); this file
decodes them into the integers `sly/yacc.py` stores (`t > 0` shift, `t < 0` reduce, `0` accept).
-/
namespace MontePyVerif.LR
open MontePyVerif.Gen.LrTables

/-- `lr_tables.py: act_code` backwards: 0 ↦ accept (0), 2p ↦ reduce p (-p), 2s+1 ↦ shift s (s) -/
def decAct (code : Nat) : Int :=
  if code % 2 = 1 then Int.ofNat (code / 2) else - Int.ofNat (code / 2)

def decActionCell (c : Nat) : Nat × Int := (c % cellBase, decAct (c / cellBase))
def decGotoCell (c : Nat) : Nat × Nat := (c % cellBase, c / cellBase)
def decProd (l : List Nat) : Nat × List Nat := (l.headD 0, l.tail)

/-- the tables of a dumped parser class -/
def ofDump (d : LrDump) : Tables where
  nTerm := d.nTerm
  start := d.start
  prods := (d.prods.map decProd).toArray
  action := (d.action.map (·.map decActionCell)).toArray
  goto := (d.goto.map (·.map decGotoCell)).toArray

/-- token name → id (`none`: not a symbol of this parser's grammar; the real parser has no column for it either) -/
def symId (d : LrDump) (name : String) : Option Nat :=
  let i := d.symbols.idxOf name
  if i < d.symbols.length then some i else none

def symName (d : LrDump) (i : Nat) : String := d.symbols.getD i "?"

/-- `(lhs, rhs)` by names, production 0 (the augmented one) dropped: the shape of `Gen.Grammar.ParserTable.productions` -/
def namedProds (d : LrDump) : List (String × List String) :=
  (d.prods.drop 1).map fun l => (symName d (l.headD 0), l.tail.map (symName d))

end MontePyVerif.LR
