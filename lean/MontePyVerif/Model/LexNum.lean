/-! # Model.LexNum — the token-level decision of `tokens.py` on a NUMERIC word

A hand-written matcher for the rules that compete when the lexer stands at a word that begins with a sign, a digit
or a point, in the order of SLY's master regular expression (`Gen/Tokens.lean: mCNPLexerRules`):

    ZAID          \d{4,6}\.(\d{2}(?!e[+\-]?\d)[a-z]|\d{3}[a-z]{2})          + MCNP_Lexer.ZAID (context flag)
    THERMAL_LAW   [a-z]…                         cannot start at a sign, digit or point: not a competitor
    NUMBER_WORD   [+\-]?\d+(?!e[+\-]?\d)[a-z]+  |  [+\-]?(\d+\.?\d*|\.\d+)(e[+\-]?\d+|[+\-]\d+)?m(?![a-z])
                                                                          + MCNP_Lexer.NUMBER_WORD / _parse_shortcut
    NUMBER        [+\-]?[0-9]+\.?[0-9]*E?[+\-]?[0-9]*  |  [+\-]?[0-9]*\.?[0-9]+E?[+\-]?[0-9]*    + MCNP_Lexer.NUMBER
    TEXT          [+\-]?[0-9]*\.?[0-9]*E?[+\-]?[0-9]*[ijrml]+[a-z\./]* | …   reached only if NUMBER matches nothing

Python's `re` semantics are what is modelled: the FIRST rule (and inside a rule the first alternative) that
matches at the position wins, and its extent is the one the backtracking engine finds.  Each matcher below
returns that extent; the comments say why the greedy path is the only one that can succeed (after a shorter
digit run the next character is a digit or a point, which none of the continuations accepts).

The lexers are case-insensitive (`re.IGNORECASE`), and every decision looks only at the KIND of a character:
the model first maps characters to kinds (`kind`), then works on lists of kinds.  A digit keeps one bit:
whether it is `0` (the NUMBER rule re-types a zero as NULL).

The four pattern sources above are pinned against `Gen/Tokens.lean` in `Props/C12.lean` (`C12_lexnum_patterns`):
a changed pattern re-opens the proofs.  The model is tied to the real lexers by the unit U-lexnum.
-/
namespace MontePyVerif.LexNum

/-- what a character is to the numeric rules -/
inductive K
  | dig (zero : Bool) | dot | plus | minus
  | e | m | i | j | r | l | o | g | letter   -- `letter`: any other of a-z
  | other                                    -- anything else (never part of a numeric word)
  deriving DecidableEq, Repr

/-- characters to kinds (after `str.lower()`) -/
def kind (c : Char) : K :=
  let c := c.toLower
  if c == '0' then .dig true else if c.isDigit then .dig false
  else if c == '.' then .dot else if c == '+' then .plus else if c == '-' then .minus
  else if c == 'e' then .e else if c == 'm' then .m else if c == 'i' then .i else if c == 'j' then .j
  else if c == 'r' then .r else if c == 'l' then .l else if c == 'o' then .o else if c == 'g' then .g
  else if c.isLower then .letter else .other

def kinds (s : String) : List K := s.toList.map kind

namespace K
/-- `[a-z]` -/
def isLetter : K → Bool
  | e | m | i | j | r | l | o | g | letter => true
  | _ => false
def isDig : K → Bool
  | dig _ => true
  | _ => false
def isSign : K → Bool
  | plus | minus => true
  | _ => false
end K

/-- length of the leading digit run (`\d*` greedy) and what follows it -/
def cntD : List K → Nat
  | .dig _ :: t => cntD t + 1
  | _ => 0
def skipD : List K → List K
  | .dig _ :: t => skipD t
  | s => s

/-- length of the leading letter run (`[a-z]*` greedy) -/
def cntL : List K → Nat
  | k :: t => if k.isLetter then cntL t + 1 else 0
  | [] => 0

/-- `[+\-]?` -/
def cntS : List K → Nat
  | k :: _ => if k.isSign then 1 else 0
  | [] => 0
def skipS : List K → List K
  | k :: t => if k.isSign then t else k :: t
  | [] => []

def headIsDig : List K → Bool
  | k :: _ => k.isDig
  | [] => false
def headIsLetter : List K → Bool
  | k :: _ => k.isLetter
  | [] => false

/-- the look-ahead guard `(?!e[+\-]?\d)`: true = the guard lets the match go on -/
def expGuard : List K → Bool
  | .e :: t => !headIsDig (skipS t)
  | _ => true

/-- ZAID: `\d{4,6}` must be the WHOLE digit run (a shorter one is followed by a digit, not by the point) -/
def matchZaid (s : List K) : Option Nat :=
  let n := cntD s
  if 4 ≤ n && n ≤ 6 then
    match skipD s with
    | .dot :: .dig _ :: .dig _ :: c :: r3 =>
      if c.isLetter && expGuard (c :: r3) then some (n + 4)
      else if c.isDig && headIsLetter r3 && headIsLetter r3.tail then some (n + 6)
      else none
    | _ => none
  else none

/-- NUMBER_WORD, first pattern: sign, the whole digit run, the guard, the whole letter run -/
def matchNW1 (s : List K) : Option Nat :=
  let t := skipS s
  let n := cntD t
  let r := skipD t
  if n = 0 || cntL r = 0 || !expGuard r then none else some (cntS s + n + cntL r)

/-- `(\d+\.?\d*|\.\d+)` greedy: its length -/
def mantissa (t : List K) : Option Nat :=
  if cntD t > 0 then
    match skipD t with
    | .dot :: r => some (cntD t + 1 + cntD r)
    | _ => some (cntD t)
  else
    match t with
    | .dot :: r => if cntD r = 0 then none else some (1 + cntD r)
    | _ => none

/-- `(e[+\-]?\d+|[+\-]\d+)?` greedy: its length (0 when the group does not match) -/
def optExp : List K → Nat
  | .e :: t => if cntD (skipS t) = 0 then 0 else 1 + cntS t + cntD (skipS t)
  | .plus :: t => if cntD t = 0 then 0 else 1 + cntD t
  | .minus :: t => if cntD t = 0 then 0 else 1 + cntD t
  | _ => 0

/-- NUMBER_WORD, second pattern: a multiply shortcut whose factor is not an integer -/
def matchNW2 (s : List K) : Option Nat :=
  let t := skipS s
  match mantissa t with
  | none => none
  | some mlen =>
    let r := t.drop mlen
    match r.drop (optExp r) with
    | .m :: r' => if headIsLetter r' then none else some (cntS s + mlen + optExp r + 1)
    | _ => none

/-- `E?[+\-]?[0-9]*` greedy (every part is optional: no backtracking) -/
def numTail : List K → Nat
  | .e :: t => 1 + cntS t + cntD (skipS t)
  | s => cntS s + cntD (skipS s)

/-- NUMBER: the first pattern whenever a digit follows the optional sign, else the second, which then needs the
    point and a digit (with a leading digit the first pattern has already matched: alternation order) -/
def matchNumber (s : List K) : Option Nat :=
  let t := skipS s
  if cntD t > 0 then
    match skipD t with
    | .dot :: r => some (cntS s + cntD t + 1 + cntD r + numTail (skipD r))
    | r => some (cntS s + cntD t + numTail r)
  else
    match t with
    | .dot :: r => if cntD r = 0 then none else some (cntS s + 1 + cntD r + numTail (skipD r))
    | _ => none

/-- `tokens.py:MCNP_Lexer._parse_shortcut` on a token (`_EXPRESSIONS` in dict order; each is anchored `^…$`) -/
def isMultiply (tok : List K) : Bool :=
  let t := skipS tok
  match mantissa t with
  | none => false
  | some mlen => let r := t.drop mlen; r.drop (numTail r) == [.m]

def parseShortcut (tok : List K) : Option String :=
  let r := skipD tok
  if r == [.i] then some "INTERPOLATE"
  else if r == [.j] then some "JUMP"
  else if r == [.l, .o, .g] || r == [.i, .l, .o, .g] then some "LOG_INTERPOLATE"
  else if isMultiply tok then some "MULTIPLY"
  else if r == [.r] then some "REPEAT"
  else none

/-- `tokens.py:MCNP_Lexer.NUMBER_WORD` -/
def numberWordFn (tok : List K) : String :=
  match parseShortcut tok with
  | some t => "NUM_" ++ t
  | none => "NUMBER_WORD"

/-- the digits and points in front of a NUMBER token's exponent part -/
def mantPart : List K → List K
  | .dig z :: t => .dig z :: mantPart t
  | .dot :: t => .dot :: mantPart t
  | _ => []

/-- `tokens.py:MCNP_Lexer.NUMBER` with `utilities.py:fortran_float`: the token is a float iff its exponent part is
    empty or ends in a digit (`1e`, `1.5-` raise ValueError); it is NULL iff every digit of its significand is 0.
    (Underflow of `float` — `1e-999` — is outside the model; G bounds the magnitude.) -/
def numberFn (tok : List K) : String :=
  let t := skipS tok
  let mp := mantPart t
  let tail := t.drop mp.length
  if !(tail.isEmpty || headIsDig tail.reverse) then "ValueError"
  else if mp.all (fun k => k != .dig false) then "NULL" else "NUMBER"

/-- `tokens.py:MCNP_Lexer.ZAID`: `4145.81m` is the multiply shortcut unless the input lists nuclides -/
def zaidFn (listsNuclides : Bool) (tok : List K) : String :=
  match tok.reverse with
  | .m :: k :: _ => if k.isDig && !listsNuclides then "NUM_MULTIPLY" else "ZAID"
  | _ => "ZAID"

/-- The decision at a word that starts with a sign, a digit or a point: (token type, matched length).
    `none`: none of the modelled rules matches (the word is left to TEXT and the rules after it). -/
def classify (listsNuclides : Bool) (s : List K) : Option (String × Nat) :=
  if headIsLetter s then none   -- THERMAL_LAW / TEXT territory, not modelled here
  else
    match matchZaid s with
    | some n => some (zaidFn listsNuclides (s.take n), n)
    | none =>
      match matchNW1 s with
      | some n => some (numberWordFn (s.take n), n)
      | none =>
        match matchNW2 s with
        | some n => some (numberWordFn (s.take n), n)
        | none =>
          match matchNumber s with
          | some n => some (numberFn (s.take n), n)
          | none => none

/-- on a string -/
def classifyString (listsNuclides : Bool) (s : String) : Option (String × Nat) := classify listsNuclides (kinds s)

end MontePyVerif.LexNum
