import MontePyVerif.Model.Regex
import MontePyVerif.Gen.LexRules
import MontePyVerif.Gen.Constants
/-! # Model.Lexer — SLY's tokenizer loop and the action functions of `montepy/input_parser/tokens.py`

The regular expressions are NOT written here: they are `Gen/LexRules.lean` (CPython's parse of the working tree's
patterns) run by `Model/Regex.lean`.  What is hand-modelled, function by function:

    sly/lex.py:Lexer.tokenize            lexStep / lexLoop / lex   (master regex = ordered alternation of the rules;
                                          the FIRST rule that matches wins, not the longest; no rule → a literal
                                          character is a token of its own; else `error` → LexError)
    tokens.py:MCNP_Lexer.COMMENT         actComment     (column test; give-back of all but the letter to TEXT)
    tokens.py:MCNP_Lexer.SOURCE_COMMENT / TALLY_COMMENT   actColumnComment (find_column; ValueError)
    tokens.py:MCNP_Lexer.find_column     findColumn
    tokens.py:MCNP_Lexer.SPACE           expandTabs     (str.expandtabs(constants.TABSIZE))
    tokens.py:MCNP_Lexer.ZAID            actZaid        (+ _lists_nuclides → listsNuclides)
    tokens.py:MCNP_Lexer.NUMBER_WORD     actNumberWord  (+ _parse_shortcut → parseShortcut)
    tokens.py:MCNP_Lexer.NUMBER          actNumber      (+ utilities.py:fortran_float → fortranFloatIsZero)
    tokens.py:MCNP_Lexer.TEXT            baseText
    tokens.py:ParticleLexer.TEXT         particleText   (+ _expects_particle → expectsParticle)
    tokens.py:SurfaceLexer.TEXT          surfaceText
    tokens.py:DataLexer.PARTICLE_SPECIAL, DOLLAR_COMMENT, MESSAGE      identity
    utilities.py:is_comment              isComment
    mcnp_input.py:ParsingNode.input_text inputText
    mcnp_input.py:Input.tokenize         inputTokenize  (one-token delay, final newline stripped, LexError → ParsingError)

The text is a `List Char` over ASCII (see `Model/Regex.lean`).  `self.lineno` is not modelled (no token value or type
depends on it).  The state of the loop is (text before the position, reversed; text from the position on).
-/
namespace MontePyVerif.Lexer
open MontePyVerif.Regex

abbrev Text := List Char

/-- what a lexer class is made of (`Gen/LexRules.lean`) -/
structure LexerSpec where
  ic : Bool
  rules : List (String × Re)
  literals : List Char
  funcs : List (String × String)
  keywords : List String
  particles : List String
  surfaceTypes : List String
  exprs : List (String × Bool × Re)
  nuclide : Re
  nuclideIc : Bool

/-- a token as SLY yields it; `raw` is the text the lexer consumed for it (`value` differs from it only for
    SPACE: expandtabs) and `index` is `t.index` -/
structure Token where
  type : String
  value : Text
  raw : Text
  index : Nat
  deriving Repr, DecidableEq

inductive Outcome
  | ok
  | lexError      -- sly.lex.LexError (Input.tokenize turns it into ParsingError)
  | valueError    -- raised by an action function
  | stuck         -- SLY would not advance (a rule matched the empty string): excluded for the generated rules
  | unmodelled    -- an action function this model does not know (a new function in tokens.py)
  | fuel          -- never returned by `lex` (theorem `lex_fuel`)
  deriving Repr, DecidableEq

/-! ## Python string helpers -/

def lowerT (s : Text) : Text := s.map lower

/-- `s.split(d)` for a single character -/
def splitOn (d : Char) : Text → List Text
  | [] => [[]]
  | c :: t =>
    if c == d then [] :: splitOn d t
    else match splitOn d t with
      | l :: ls => (c :: l) :: ls
      | [] => [[c]]

/-- `line.split("$")[0]` -/
def beforeDollar (l : Text) : Text := l.takeWhile (· != '$')

/-- `s.split()[0]` if there is a word -/
def firstWord (l : Text) : Option Text :=
  match (l.dropWhile isSpace).takeWhile (fun c => !isSpace c) with
  | [] => none
  | w => some w

/-- `utilities.py:is_comment` -/
def isComment (line : Text) : Bool :=
  let indent := (line.takeWhile (· == ' ')).length
  if indent ≥ MontePyVerif.Gen.blankSpaceContinue then false
  else
    match (line.drop indent).take 2 with
    | [c] => upper c == 'C'
    | [c, d] => upper c == 'C' && isSpace d
    | _ => false

/-- the first word of the input proper in `text[:t.index]` (comment lines and empty lines may precede it) -/
def firstWordOfInput : List Text → Option Text
  | [] => none
  | l :: ls =>
    if isComment l then firstWordOfInput ls
    else match firstWord (beforeDollar l) with
      | some w => some w
      | none => firstWordOfInput ls

/-- `str.expandtabs(tabsize)`: the column restarts after `\n` and `\r`, and counts from the start of the STRING -/
def expandTabsFrom (tab : Nat) : Nat → Text → Text
  | _, [] => []
  | col, c :: t =>
    if c == '\t' then
      if tab > 0 then
        let incr := tab - col % tab
        List.replicate incr ' ' ++ expandTabsFrom tab (col + incr) t
      else expandTabsFrom tab col t
    else c :: expandTabsFrom tab (if c == '\n' || c == '\r' then 0 else col + 1) t

def expandTabs (s : Text) : Text := expandTabsFrom MontePyVerif.Gen.tabSize 0 s

/-! ## `utilities.py:fortran_float` as far as the NUMBER action needs it: does it raise, is the value zero -/

def digitsVal (ds : Text) : Nat := ds.foldl (fun a c => a * 10 + (c.toNat - '0'.toNat)) 0

/-- `float(s)` for the plain spellings `[+-]? (d+ [. d*] | . d+) ([eE] [+-]? d+)?` (the NUMBER rule can produce
    nothing else that `float` accepts): (significand digits as a number, how many there are, decimal exponent) -/
def parseFloat (s : Text) : Option (Nat × Nat × Int) :=
  let s := match s with
    | c :: t => if c == '+' || c == '-' then t else s
    | [] => s
  let ip := s.takeWhile isDigit
  let r := s.drop ip.length
  let (fp, r) := match r with
    | '.' :: r' => let fp := r'.takeWhile isDigit; (fp, r'.drop fp.length)
    | _ => ([], r)
  if ip.isEmpty && fp.isEmpty then none
  else
    let mant := ip ++ fp
    match r with
    | [] => some (digitsVal mant, mant.length, - (fp.length : Int))
    | e :: r' =>
      if e == 'e' || e == 'E' then
        let (neg, ds) := match r' with
          | c :: t => if c == '-' then (true, t) else if c == '+' then (false, t) else (false, r')
          | [] => (false, r')
        if ds.isEmpty || !ds.all isDigit then none
        else
          let ex : Int := digitsVal ds
          some (digitsVal mant, mant.length, (if neg then -ex else ex) - (fp.length : Int))
      else none

/-- `re.sub(r"([\d.])([-+])", r"\1E\2", s)` -/
def insertE : Text → Text
  | c :: d :: t =>
    if (isDigit c || c == '.') && (d == '+' || d == '-') then c :: 'E' :: d :: insertE t
    else c :: insertE (d :: t)
  | s => s

/-- is the IEEE double nearest to `m · 10^e` zero?  (`float` rounds correctly, ties to even: everything up to and
    including half of the smallest subnormal, 2^-1075, becomes 0.0; an overflow becomes `inf`, not an error) -/
def roundsToZero (m digits : Nat) (e : Int) : Bool :=
  if m == 0 then true
  else if e ≥ 0 then false
  else
    let k := e.natAbs
    -- m < 10^digits: from k ≥ digits + 324 on, m / 10^k < 10^-324 < 2^-1075
    if k ≥ digits + 324 then true
    else m * 2 ^ 1075 ≤ 10 ^ k

/-- `fortran_float(s) == 0`; `none`: ValueError -/
def fortranFloatIsZero (s : Text) : Option Bool :=
  match parseFloat s with
  | some (m, d, e) => some (roundsToZero m d e)
  | none =>
    match parseFloat (insertE s) with
    | some (m, d, e) => some (roundsToZero m d e)
    | none => none

/-! ## the action functions -/

/-- the result of an action: the token's type and value and how many characters of the text it keeps
    (`self.index - t.index`), or an exception -/
inductive ActRes
  | tok (type : String) (value : Text) (keep : Nat)
  | valueError
  | unmodelled
  deriving Repr, DecidableEq

def inList (xs : List String) (v : Text) : Bool := xs.any (fun x => x.toList == v)

/-- `tokens.py:MCNP_Lexer._parse_shortcut` -/
def parseShortcut (spec : LexerSpec) (value : Text) : Option String :=
  (spec.exprs.find? (fun e => isMatch e.2.1 e.2.2 value)).map (·.1)

/-- `tokens.py:MCNP_Lexer.TEXT`: the new type -/
def baseText (spec : LexerSpec) (value : Text) : String :=
  match parseShortcut spec value with
  | some ty => ty
  | none => if inList spec.keywords (lowerT value) then "KEYWORD" else "TEXT"

/-- `tokens.py:MCNP_Lexer._lists_nuclides`; `rb` is `text[:t.index]` reversed -/
def listsNuclides (spec : LexerSpec) (rb : Text) : Bool :=
  match firstWordOfInput (splitOn '\n' rb.reverse) with
  | some w => isMatch spec.nuclideIc spec.nuclide w
  | none => false

def isAlnum (c : Char) : Bool := isAlpha c || isDigit c

/-- `" ".join(line.split("$")[0] for line in before.split("\n") if not is_comment(line))` -/
def properText (lines : List Text) : Text :=
  " ".toList.intercalate ((lines.filter (fun l => !isComment l)).map beforeDollar)

/-- `tokens.py:ParticleLexer._expects_particle`.  `re.sub(r"[\s&=]+$", "", proper)` removes the trailing run of
    blanks, `&` and `=` (`proper` has no newline, so `$` is the end): on the reversed text, a `dropWhile`. -/
def expectsParticle (rb : Text) : Bool :=
  (match rb with
   | c :: _ => c == ':' || c == ','
   | [] => false)
  ||
  (let lines := splitOn '\n' rb.reverse
   (match firstWordOfInput lines with
    | some w => lowerT w == "mode".toList
    | none => false)
   ||
   (let rkey := lowerT ((properText lines).reverse.dropWhile (fun c => isSpace c || c == '&' || c == '='))
    match rkey with
    | 'r' :: 'a' :: 'p' :: rest =>
      (match rest with
       | c :: _ => !isAlnum c
       | [] => true)
    | _ => false))

/-- `tokens.py:ParticleLexer.TEXT` -/
def particleText (spec : LexerSpec) (rb value : Text) : String :=
  let ty := baseText spec value
  let lv := lowerT value
  if inList spec.particles lv && expectsParticle rb then "PARTICLE"
  else if inList spec.keywords lv then "KEYWORD"
  else if inList spec.particles lv then "PARTICLE"
  else ty

/-- `tokens.py:SurfaceLexer.TEXT` -/
def surfaceText (spec : LexerSpec) (value : Text) : String :=
  let ty := baseText spec value
  if inList spec.surfaceTypes (lowerT value) then "SURFACE_TYPE" else ty

/-- the TEXT method of the class (`self.TEXT`: dynamic dispatch), by the qualified name SLY registered -/
def textType (spec : LexerSpec) (rb value : Text) : Option String :=
  match spec.funcs.lookup "TEXT" with
  | some "MCNP_Lexer.TEXT" => some (baseText spec value)
  | some "ParticleLexer.TEXT" => some (particleText spec rb value)
  | some "SurfaceLexer.TEXT" => some (surfaceText spec value)
  | _ => none

/-- `tokens.py:MCNP_Lexer.find_column` -/
def findColumn (rb : Text) : Nat :=
  if rb.contains '\n' then (rb.takeWhile (· != '\n')).length + 1 else rb.length

/-- `tokens.py:MCNP_Lexer.COMMENT` -/
def actComment (spec : LexerSpec) (rb value : Text) : ActRes :=
  let before := rb.takeWhile (· != '\n')     -- text[line_start : t.index], reversed
  if before.length < 5 && before.all isSpace then .tok "COMMENT" value value.length
  else
    match textType spec rb (value.take 1) with
    | some ty => .tok ty (value.take 1) 1
    | none => .unmodelled

/-- `tokens.py:MCNP_Lexer.SOURCE_COMMENT`, `TALLY_COMMENT` -/
def actColumnComment (name : String) (rb value : Text) : ActRes :=
  if findColumn rb ≤ 5 then .tok name value value.length else .valueError

/-- `tokens.py:MCNP_Lexer.ZAID` -/
def actZaid (spec : LexerSpec) (rb value : Text) : ActRes :=
  match value.reverse with
  | c :: d :: _ =>
    if (c == 'm' || c == 'M') && isDigit d && !listsNuclides spec rb then .tok "NUM_MULTIPLY" value value.length
    else .tok "ZAID" value value.length
  | _ => .tok "ZAID" value value.length

/-- `tokens.py:MCNP_Lexer.NUMBER_WORD` -/
def actNumberWord (spec : LexerSpec) (value : Text) : ActRes :=
  match parseShortcut spec value with
  | some ty => .tok ("NUM_" ++ ty) value value.length
  | none => .tok "NUMBER_WORD" value value.length

/-- `tokens.py:MCNP_Lexer.NUMBER` -/
def actNumber (value : Text) : ActRes :=
  match fortranFloatIsZero value with
  | none => .valueError
  | some true => .tok "NULL" value value.length
  | some false => .tok "NUMBER" value value.length

/-- the function SLY calls for a matched rule (`_token_funcs[tok.type](self, tok)`) -/
def action (spec : LexerSpec) (name : String) (rb value : Text) : ActRes :=
  match spec.funcs.lookup name with
  | none => .tok name value value.length
  | some "MCNP_Lexer.DOLLAR_COMMENT" => .tok name value value.length
  | some "MCNP_Lexer.MESSAGE" => .tok name value value.length
  | some "DataLexer.PARTICLE_SPECIAL" => .tok name value value.length
  | some "MCNP_Lexer.COMMENT" => actComment spec rb value
  | some "MCNP_Lexer.SOURCE_COMMENT" => actColumnComment name rb value
  | some "MCNP_Lexer.TALLY_COMMENT" => actColumnComment name rb value
  | some "MCNP_Lexer.SPACE" => .tok name (expandTabs value) value.length
  | some "MCNP_Lexer.ZAID" => actZaid spec rb value
  | some "MCNP_Lexer.NUMBER_WORD" => actNumberWord spec value
  | some "MCNP_Lexer.NUMBER" => actNumber value
  | some "MCNP_Lexer.TEXT" => .tok (baseText spec value) value value.length
  | some "ParticleLexer.TEXT" => .tok (particleText spec rb value) value value.length
  | some "SurfaceLexer.TEXT" => .tok (surfaceText spec value) value value.length
  | some _ => .unmodelled

/-! ## SLY's loop -/

/-- the master regular expression at the front of `s`: the first rule (in order) that matches, and the remainder -/
def firstRule (ic : Bool) : List (String × Re) → Text → Option (String × Text)
  | [], _ => none
  | (n, r) :: rs, s =>
    match matchFront ic r s with
    | some rest => some (n, rest)
    | none => firstRule ic rs s

inductive StepRes
  | tok (type : String) (value : Text) (keep : Nat)
  | stop (o : Outcome)
  deriving Repr, DecidableEq

/-- one turn of `sly/lex.py:Lexer.tokenize`'s `while True` at a position that is not the end of the text
    (`c :: t` is the text from the position on) -/
def lexStep (spec : LexerSpec) (rb : Text) (c : Char) (t : Text) : StepRes :=
  match firstRule spec.ic spec.rules (c :: t) with
  | some (name, rest) =>
    let value := (c :: t).take ((c :: t).length - rest.length)
    if value.isEmpty then .stop .stuck
    else
      match action spec name rb value with
      | .tok ty v keep => .tok ty v keep
      | .valueError => .stop .valueError
      | .unmodelled => .stop .unmodelled
  | none => if spec.literals.contains c then .tok (String.singleton c) [c] 1 else .stop .lexError

def lexLoop (spec : LexerSpec) : Nat → Text → Text → List Token × Outcome
  | _, _, [] => ([], .ok)
  | 0, _, _ :: _ => ([], .fuel)
  | fuel + 1, rb, c :: t =>
    match lexStep spec rb c t with
    | .stop o => ([], o)
    | .tok ty v keep =>
      if keep == 0 then ([], .stuck)
      else
        let raw := (c :: t).take keep
        let r := lexLoop spec fuel (raw.reverse ++ rb) ((c :: t).drop keep)
        ({ type := ty, value := v, raw := raw, index := rb.length } :: r.1, r.2)

/-- `sly/lex.py:Lexer.tokenize(text)`: the tokens yielded before the generator ends or raises -/
def lex (spec : LexerSpec) (text : Text) : List Token × Outcome := lexLoop spec text.length [] text

/-! ## `mcnp_input.py:Input.tokenize` -/

/-- `mcnp_input.py:ParsingNode.input_text` -/
def inputText (lines : List Text) : Text := "\n".toList.intercalate lines ++ ['\n']

/-- `str.rstrip("\n")` -/
def rstripNL (v : Text) : Text := (v.reverse.dropWhile (· == '\n')).reverse

/-- `mcnp_input.py:Input.tokenize` on the text: a token is handed on when its successor has been read; the last
    one loses its trailing newlines (and is dropped when nothing is left); when the lexer raises, the token that
    was waiting is never handed on.  LexError becomes ParsingError there (same outcome constructor). -/
def tokenizeText (spec : LexerSpec) (text : Text) : List Token × Outcome :=
  match lex spec text with
  | (ts, .ok) =>
    match ts.getLast? with
    | none => ([], .ok)
    | some last =>
      let v := rstripNL last.value
      (ts.dropLast ++ (if v.isEmpty then [] else [{ last with value := v }]), .ok)
  | (ts, o) => (ts.dropLast, o)

def inputTokenize (spec : LexerSpec) (lines : List Text) : List Token × Outcome :=
  tokenizeText spec (inputText lines)

/-! ## the five lexer classes -/
open MontePyVerif.Gen.LexRules in
def mkSpec (ic : Bool) (rules : List (String × Re)) (lits : List Char) (funcs : List (String × String))
    (kw pa su : List String) : LexerSpec :=
  { ic := ic, rules := rules, literals := lits, funcs := funcs, keywords := kw, particles := pa, surfaceTypes := su,
    exprs := shortcutExpressions, nuclide := nuclideInputs, nuclideIc := nuclideInputsIc }

open MontePyVerif.Gen.LexRules in
def mcnpLexer : LexerSpec :=
  mkSpec mCNPLexerIc mCNPLexerRules mCNPLexerLiterals mCNPLexerFuncs mCNPLexerKeywords mCNPLexerParticles mCNPLexerSurfaceTypes
open MontePyVerif.Gen.LexRules in
def particleLexer : LexerSpec :=
  mkSpec particleLexerIc particleLexerRules particleLexerLiterals particleLexerFuncs particleLexerKeywords particleLexerParticles particleLexerSurfaceTypes
open MontePyVerif.Gen.LexRules in
def cellLexer : LexerSpec :=
  mkSpec cellLexerIc cellLexerRules cellLexerLiterals cellLexerFuncs cellLexerKeywords cellLexerParticles cellLexerSurfaceTypes
open MontePyVerif.Gen.LexRules in
def dataLexer : LexerSpec :=
  mkSpec dataLexerIc dataLexerRules dataLexerLiterals dataLexerFuncs dataLexerKeywords dataLexerParticles dataLexerSurfaceTypes
open MontePyVerif.Gen.LexRules in
def surfaceLexer : LexerSpec :=
  mkSpec surfaceLexerIc surfaceLexerRules surfaceLexerLiterals surfaceLexerFuncs surfaceLexerKeywords surfaceLexerParticles surfaceLexerSurfaceTypes

end MontePyVerif.Lexer
