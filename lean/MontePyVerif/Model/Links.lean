/-!
# Model of MontePy's object graph: forward links, the per-cell containers and the reverse look-ups (C16)

Python objects are `ObjId`s, one id space per class (cells, surfaces, materials, universes,
transforms).  A cell's geometry is a tree `HS` whose every node carries the `_cell` back-pointer
that `HalfSpace`/`UnitHalfSpace` objects carry; a tree belongs to one cell (a `HalfSpace` object
shared between two cells is *not* modelled).  Besides the tree every cell has the separately
maintained containers `surfs` (`cell.surfaces`) and `comps` (`cell.complements`).

The number cache of `NumberedObjectCollection` is not repeated here (it is the subject of
`Model/Collection.lean` and C06, whose theorems say that look-up by number is look-up among the
current members): a collection is its member list, `append` raises `NumberConflictError` when a
member has the number.  Membership tests follow the repaired code: `x in collection`, `remove`,
`Material.cells` and the collecting in `add_cell_children_to_problem` all go by object identity.

Every function returns the state *at the point where Python stops* together with the error, if any.
The model follows the repaired code (`fix:` commits of C16).  No imports: used by the compiled driver.
-/

namespace MontePyVerif.Links

abbrev ObjId := Nat

inductive Err | typeError | valueError | numberConflict | brokenLink | keyError | attributeError
  deriving DecidableEq, Repr

/-- `HalfSpace` (`compl`, `bin`) and `UnitHalfSpace` (`leaf`) with their `_cell` back-pointer. -/
inductive HS where
  | leaf (isCell : Bool) (div : ObjId) (side : Bool) (cell : Option ObjId)
  | compl (l : HS) (cell : Option ObjId)
  | bin (union : Bool) (l r : HS) (cell : Option ObjId)
  deriving Repr, Inhabited, DecidableEq

namespace HS

def cellPtr : HS → Option ObjId
  | leaf _ _ _ c => c
  | compl _ c => c
  | bin _ _ _ c => c

def isLeaf : HS → Bool
  | leaf .. => true
  | _ => false

/-- half_space.py:HalfSpace._set_cell, UnitHalfSpace._set_cell -/
def setCell (c : ObjId) : HS → HS
  | leaf ic d s _ => leaf ic d s (some c)
  | compl l _ => compl (l.setCell c) (some c)
  | bin u l r _ => bin u (l.setCell c) (r.setCell c) (some c)

/-- half_space.py:_get_leaf_objects, the surfaces, left to right -/
def surfs : HS → List ObjId
  | leaf ic d _ _ => if ic then [] else [d]
  | compl l _ => l.surfs
  | bin _ l r _ => l.surfs ++ r.surfs

/-- half_space.py:_get_leaf_objects, the cells, left to right -/
def comps : HS → List ObjId
  | leaf ic d _ _ => if ic then [d] else []
  | compl l _ => l.comps
  | bin _ l r _ => l.comps ++ r.comps

/-- every node of the tree points at cell `c` -/
def allCell (c : ObjId) : HS → Bool
  | leaf _ _ _ p => p == some c
  | compl l p => p == some c && l.allCell c
  | bin _ l r p => p == some c && l.allCell c && r.allCell c

/-- `node.left` / `node.right` followed along a path (`false` = left, `true` = right) -/
def get? : HS → List Bool → Option HS
  | h, [] => some h
  | compl l _, false :: p => l.get? p
  | bin _ l _ _, false :: p => l.get? p
  | bin _ _ r _, true :: p => r.get? p
  | _, _ :: _ => none

/-- the tree after the node at `path` has been mutated into / replaced by `n` -/
def set : HS → List Bool → HS → HS
  | _, [], n => n
  | compl l c, false :: p, n => compl (l.set p n) c
  | bin u l r c, false :: p, n => bin u (l.set p n) r c
  | bin u l r c, true :: p, n => bin u l (r.set p n) c
  | h, _ :: _, _ => h

end HS

inductive Kind | cell | surface | material | universe | transform
  deriving DecidableEq, Repr

structure CellSt where
  geom : Option HS := none
  /-- `cell.surfaces._objects` -/
  surfs : List ObjId := []
  /-- `cell.complements._objects` -/
  comps : List ObjId := []
  mat : Option ObjId := none
  univ : Option ObjId := none
  /-- `cell.fill.universe` -/
  fill : Option ObjId := none
  /-- `cell._problem` is the problem -/
  link : Bool := false
  /-- `cell.surfaces._problem` / `cell.complements._problem` is the problem (set by
      `Cell.link_to_problem`; the containers that `Cell.update_pointers` makes inherit the cell's link:
      repaired code) -/
  contLinked : Bool := false
  /-- `cell.old_mat_number`: the material number of the cell card as read (0 for a new `Cell()`) -/
  oldMat : Int := 0
  deriving Inhabited

structure St where
  cellOf : ObjId → CellSt
  cnum : ObjId → Int
  snum : ObjId → Int
  mnum : ObjId → Int
  unum : ObjId → Int
  tnum : ObjId → Int
  /-- `surface.transform` -/
  strans : ObjId → Option ObjId
  slink : ObjId → Bool
  mlink : ObjId → Bool
  ulink : ObjId → Bool
  tlink : ObjId → Bool
  /-- `problem.cells`, `.surfaces`, `.materials`, `.universes`, `.transforms` (member lists);
      after the repairs every one of these collections stays linked to the problem -/
  cells : List ObjId
  surfaces : List ObjId
  materials : List ObjId
  universes : List ObjId
  transforms : List ObjId
  /-- the materials / transforms that are in `problem.data_inputs` (what `write_to_file` iterates) -/
  dataM : List ObjId
  dataT : List ObjId
  /-- the object came into the pool linked to ANOTHER problem (a `copy.deepcopy` of a member drags a hidden copy
      of the whole problem along; an object that is or was a member of a second problem).  Static: no modelled
      operation links anything to another problem; the flag only matters while the object is not linked to this
      problem (see `St.linkOf`). -/
  other : Kind → ObjId → Bool

abbrev Res := St × Option Err

def upd {α : Type} (f : ObjId → α) (k : ObjId) (v : α) : ObjId → α := fun x => if x = k then v else f x

def St.updCell (st : St) (c : ObjId) (f : CellSt → CellSt) : St :=
  { st with cellOf := upd st.cellOf c (f (st.cellOf c)) }

/-- `s in surfaces_collection`: numbered_object_collection.py:__contains__ (repaired code: identity, an equal
    copy of a member is not a member) -/
def memS (_st : St) (s : ObjId) (l : List ObjId) : Bool := l.contains s

/-- cell.py:Cell.link_to_problem: the cell, its two containers, and (repaired code) what the cell already
    points at — the surfaces it holds, its material, its universe — are linked to the problem -/
def St.linkCell (st : St) (o : ObjId) : St :=
  let cs := st.cellOf o
  { st.updCell o (fun cs => { cs with link := true, contLinked := true }) with
    slink := fun x => if cs.surfs.contains x then true else st.slink x,
    mlink := fun x => if cs.mat == some x then true else st.mlink x,
    ulink := fun x => if cs.univ == some x then true else st.ulink x }

/-- numbered_object_collection.py:append on `cell.surfaces` (links the surface when the container is linked) -/
def cellSurfAppend (st : St) (c s : ObjId) : Res :=
  let cs := st.cellOf c
  if cs.surfs.any (fun x => st.snum x == st.snum s) then (st, some .numberConflict)
  else ({ st.updCell c (fun cs => { cs with surfs := cs.surfs ++ [s] }) with
            slink := if cs.contLinked then upd st.slink s true else st.slink }, none)

/-- numbered_object_collection.py:append on `cell.complements`; a linked container links the cell,
    i.e. cell.py:Cell.link_to_problem, which also links *its* containers -/
def cellCompAppend (st : St) (c d : ObjId) : Res :=
  let cs := st.cellOf c
  if cs.comps.any (fun x => st.cnum x == st.cnum d) then (st, some .numberConflict)
  else
    let st1 := st.updCell c (fun cs => { cs with comps := cs.comps ++ [d] })
    (if cs.contLinked then st1.linkCell d else st1, none)

/-- the loop of half_space.py:_add_new_children_to_cell over the surfaces -/
def addSurfs (c : ObjId) : List ObjId → St → Res
  | [], st => (st, none)
  | s :: t, st =>
    if memS st s (st.cellOf c).surfs then addSurfs c t st
    else match cellSurfAppend st c s with
      | (st1, none) => addSurfs c t st1
      | r => r

/-- the loop of half_space.py:_add_new_children_to_cell over the cells (identity membership) -/
def addComps (c : ObjId) : List ObjId → St → Res
  | [], st => (st, none)
  | d :: t, st =>
    if (st.cellOf c).comps.contains d then addComps c t st
    else match cellCompAppend st c d with
      | (st1, none) => addComps c t st1
      | r => r

/-- first pass of half_space.py:_add_new_children_to_cell over the cells of the new tree: the ones that
    have to be appended (`acc`, a Python `set`: identity), or `none` when the container holds another cell with
    the number of a new one, or two new ones share a number -/
def newComps (st : St) (c : ObjId) : List ObjId → List ObjId → Option (List ObjId)
  | [], acc => some acc
  | d :: t, acc =>
    if (st.cellOf c).comps.contains d || acc.contains d then newComps st c t acc
    else if (st.cellOf c).comps.any (fun x => st.cnum x == st.cnum d) || acc.any (fun x => st.cnum x == st.cnum d)
      then none
    else newComps st c t (acc ++ [d])

/-- the same for the surfaces (membership in the container and in the `set` is `==`) -/
def newSurfs (st : St) (c : ObjId) : List ObjId → List ObjId → Option (List ObjId)
  | [], acc => some acc
  | s :: t, acc =>
    if memS st s (st.cellOf c).surfs || memS st s acc then newSurfs st c t acc
    else if (st.cellOf c).surfs.any (fun x => st.snum x == st.snum s) || acc.any (fun x => st.snum x == st.snum s)
      then none
    else newSurfs st c t (acc ++ [s])

/-- half_space.py:HalfSpace._add_new_children_to_cell for cell `c` (repaired code: every new divider is
    checked before the first one is appended, so a `NumberConflictError` leaves the cell as it was; then the
    cells, then the surfaces are appended — these appends cannot fail any more). -/
def addChildren (st : St) (c : ObjId) (other : HS) : Res :=
  match newComps st c other.comps [], newSurfs st c other.surfs [] with
  | some nc, some ns =>
    match addComps c nc st with
    | (st1, none) => addSurfs c ns st1
    | r => r
  | _, _ => (st, some .numberConflict)

/-- half_space.py:_link_child_to_cell (validator of `left`, `right`): `self._cell = ptr`.  The dividers are
    registered first; only then the child is pointed at the cell (`_set_cell`).  Returns the child as it is
    afterwards. -/
def linkChild (st : St) (ptr : Option ObjId) (child : HS) : Res × HS :=
  match ptr with
  | none => ((st, none), child)
  | some c =>
    match addChildren st c child with
    | (st1, none) => ((st1, none), child.setCell c)
    | r => (r, child)

/-- cell.py:geometry.setter with cell.py:_link_geometry_to_cell as validator -/
def setGeometry (st : St) (c : ObjId) (g : HS) : Res :=
  match addChildren st c g with
  | (st1, none) => (st1.updCell c (fun cs => { cs with geom := some (g.setCell c) }), none)
  | r => r

/-- what `__iand__` hands to the `right` setter: the object the recursive call returned -/
def retOr (r1 : HS) : Option HS → HS
  | none => r1
  | some n => n

/-- the end of half_space.py:HalfSpace.__iand__ / __ior__ on a node (`left = l`, `_cell = p`) whose right
    side `r1` is not a leaf: `self.right = newRight` (setter with validator), then
    `self._add_new_children_to_cell(other)`. -/
def iopTail (u0 : Bool) (l : HS) (p : Option ObjId) (other : HS) (st1 : St) (r1 newRight : HS) :
    Res × HS × Option HS :=
  match linkChild st1 p newRight with
  | ((st2, some e), _) =>
    -- the setter raised before anything was registered: `self.right` keeps the old object
    ((st2, some e), .bin u0 l r1 p, none)
  | ((st2, none), r2) =>
    match p with
    | none => ((st2, none), .bin u0 l r2 p, none)
    | some c =>
      match addChildren st2 c other with
      | (st3, e) => ((st3, e), .bin u0 l r2 p, none)

/-- half_space.py:HalfSpace.__iand__ (`u = false`) / __ior__ (`u = true`) called on the (sub)tree `self`.
    Only a node whose own operator is the one being applied takes the operand in (in place, down the right
    spine); a leaf, a complement and a node with the other operator return the new object `self <op> other`.
    Result: state and error, the tree `self` as mutated in place, and the returned object
    (`none` = `self` itself was returned, `some n` = a new object `n`). -/
def iop (u : Bool) (st : St) : HS → HS → Res × HS × Option HS
  | .leaf ic d s p, other => ((st, none), .leaf ic d s p, some (.bin u (.leaf ic d s p) other none))
  | .compl l p, other => ((st, none), .compl l p, some (.bin u (.compl l p) other none))
  | .bin u0 l r p, other =>
    if u0 != u then ((st, none), .bin u0 l r p, some (.bin u (.bin u0 l r p) other none))
    else
      match r with
      | .leaf ic d s q =>
        -- self.right = self.right & other
        match linkChild st p (.bin u (.leaf ic d s q) other none) with
        | ((st1, none), child) => ((st1, none), .bin u0 l child p, none)
        | ((st1, some e), _) => ((st1, some e), .bin u0 l (.leaf ic d s q) p, none)
      | r =>
        -- self.right &= other ; self._add_new_children_to_cell(other)
        match iop u st r other with
        | ((st1, some e), r1, _) => ((st1, some e), .bin u0 l r1 p, none)
        | ((st1, none), r1, ret) => iopTail u0 l p other st1 r1 (retOr r1 ret)

/-- `cell.geometry &= other` / `|= other`: `__iand__` on the geometry, then the geometry setter. -/
def iopCell (u : Bool) (st : St) (c : ObjId) (other : HS) : Res :=
  match (st.cellOf c).geom with
  | none => (st, some .typeError)
  | some g =>
    match iop u st g other with
    | ((st1, some e), g1, _) => (st1.updCell c (fun cs => { cs with geom := some g1 }), some e)
    | ((st1, none), g1, ret) =>
      let st2 := st1.updCell c (fun cs => { cs with geom := some g1 })
      setGeometry st2 c (match ret with | none => g1 | some n => n)

/-- `g = cell.geometry; g &= other` (no assignment back to the cell): only the in-place effect. -/
def iopAlias (u : Bool) (st : St) (c : ObjId) (other : HS) : Res :=
  match (st.cellOf c).geom with
  | none => (st, some .typeError)
  | some g =>
    match iop u st g other with
    | ((st1, e), g1, _) => (st1.updCell c (fun cs => { cs with geom := some g1 }), e)

/-- the first half of the repaired half_space.py:UnitHalfSpace.divider.setter: the new divider is
    registered with the cell the leaf points at (`self._cell = p`) unless it is `in` the container -/
def registerDivider (st : St) (p : Option ObjId) (ic : Bool) (d : ObjId) : Res :=
  match p with
  | none => (st, none)
  | some c' =>
    if ic then (if (st.cellOf c').comps.contains d then (st, none) else cellCompAppend st c' d)
    else (if memS st d (st.cellOf c').surfs then (st, none) else cellSurfAppend st c' d)

/-- the second half: `self._divider = div` (only reached when nothing was raised) -/
def replaceDivider (c : ObjId) (path : List Bool) (newLeaf : HS) : Res → Res
  | (st1, none) =>
    -- re-read the geometry: the append may have touched this very cell record
    match (st1.cellOf c).geom with
    | some g1 => (st1.updCell c (fun cs => { cs with geom := some (g1.set path newLeaf) }), none)
    | none => (st1, none)
  | r => r

/-- half_space.py:UnitHalfSpace.divider.setter on the node at `path` of `cell.geometry`
    (repaired code: the container is updated first, then `_divider`). -/
def setDivider (st : St) (c : ObjId) (path : List Bool) (divIsCell : Bool) (d : ObjId) : Res :=
  match (st.cellOf c).geom with
  | none => (st, some .attributeError)
  | some g =>
    match g.get? path with
    | some (.leaf ic _ side p) =>
      if ic != divIsCell then (st, some .typeError)
      else replaceDivider c path (.leaf ic d side p) (registerDivider st p ic d)
    | _ => (st, some .attributeError)

/-- `node.left = new` / `node.right = new` on the node at `path` (utilities.py:make_prop_pointer setter
    with half_space.py:_link_child_to_cell as validator) -/
def setChild (st : St) (c : ObjId) (path : List Bool) (right : Bool) (new : HS) : Res :=
  match (st.cellOf c).geom with
  | none => (st, some .attributeError)
  | some g =>
    match g.get? path with
    | some (.bin u l r p) =>
      match linkChild st p new with
      | ((st1, none), n') =>
        (st1.updCell c (fun cs => { cs with geom := some (g.set path (if right then .bin u l n' p else .bin u n' r p)) }), none)
      | ((st1, some e), _) => (st1, some e)
    | some (.compl _ p) =>
      -- a complement has no right side: `right = x` would make an ill-formed node; the harness only sets `left`
      if right then (st, some .valueError)
      else match linkChild st p new with
        | ((st1, none), n') => (st1.updCell c (fun cs => { cs with geom := some (g.set path (.compl n' p)) }), none)
        | ((st1, some e), _) => (st1, some e)
    | _ => (st, some .attributeError)

/-- cell.py:material (make_prop_pointer, `None` allowed; validator cell.py:_link_pointee_to_problem: a cell
    that is linked to the problem links the material) -/
def setMaterial (st : St) (c : ObjId) (m : Option ObjId) : Res :=
  ({ st.updCell c (fun cs => { cs with mat := m }) with
      mlink := fun x => if (st.cellOf c).link && m == some x then true else st.mlink x }, none)

/-- cell.py:universe.setter (a cell that is linked to the problem links the universe) -/
def setUniverse (st : St) (c : ObjId) (u : ObjId) : Res :=
  ({ st.updCell c (fun cs => { cs with univ := some u }) with
      ulink := fun x => if (st.cellOf c).link && u == x then true else st.ulink x }, none)

/-- universe.py:Universe.claim with a list of cells (`Cells(list)` raises on a repeated number) -/
def claim (st : St) (u : ObjId) (cs : List ObjId) : Res :=
  if (cs.map st.cnum).Nodup then (cs.foldl (fun s c => (setUniverse s c u).1) st, none)
  else (st, some .numberConflict)

/-- fill.py:Fill.universe.setter (single universe) -/
def setFill (st : St) (c : ObjId) (u : Option ObjId) : Res :=
  (st.updCell c (fun cs => { cs with fill := u }), none)

def St.members (st : St) : Kind → List ObjId
  | .cell => st.cells | .surface => st.surfaces | .material => st.materials
  | .universe => st.universes | .transform => st.transforms

def St.num (st : St) : Kind → ObjId → Int
  | .cell => st.cnum | .surface => st.snum | .material => st.mnum
  | .universe => st.unum | .transform => st.tnum

def St.linked (st : St) : Kind → ObjId → Bool
  | .cell => fun c => (st.cellOf c).link | .surface => st.slink | .material => st.mlink
  | .universe => st.ulink | .transform => st.tlink

/-- which problem an object's `_problem` points at -/
inductive PId | here | elsewhere
  deriving DecidableEq, Repr

/-- `obj._problem`: this problem when the object has been linked to it (whatever it was linked to before:
    linking *re-links*), else the other problem it came with, else nothing -/
def St.linkOf (st : St) (k : Kind) (o : ObjId) : Option PId :=
  if st.linked k o then some .here else if st.other k o then some .elsewhere else none

def St.setMembers (st : St) (k : Kind) (l : List ObjId) : St :=
  match k with
  | .cell => { st with cells := l } | .surface => { st with surfaces := l }
  | .material => { st with materials := l } | .universe => { st with universes := l }
  | .transform => { st with transforms := l }

def St.setNum (st : St) (k : Kind) (o : ObjId) (n : Int) : St :=
  match k with
  | .cell => { st with cnum := upd st.cnum o n } | .surface => { st with snum := upd st.snum o n }
  | .material => { st with mnum := upd st.mnum o n } | .universe => { st with unum := upd st.unum o n }
  | .transform => { st with tnum := upd st.tnum o n }

/-- mcnp_object.py:link_to_problem; for a cell cell.py:Cell.link_to_problem (its containers too) -/
def St.setLinked (st : St) (k : Kind) (o : ObjId) : St :=
  match k with
  | .cell => st.linkCell o
  | .surface => { st with slink := upd st.slink o true } | .material => { st with mlink := upd st.mlink o true }
  | .universe => { st with ulink := upd st.ulink o true } | .transform => { st with tlink := upd st.tlink o true }

/-- the number setters (`_number_validator`, `_enforce_numbers`, `_enforce_number`, `Universe.number`):
    a linked object is checked against the problem's collection of its class -/
def setNumber (st : St) (k : Kind) (o : ObjId) (n : Int) : Res :=
  if n ≤ 0 then (st, some .valueError)
  else if st.linked k o && (st.members k).any (fun x => st.num k x == n) then (st, some .numberConflict)
  else (st.setNum k o n, none)

/-- numbered_object_collection.py:append on a collection of the problem -/
def collAppend (st : St) (k : Kind) (o : ObjId) : Res :=
  if (st.members k).any (fun x => st.num k x == st.num k o) then (st, some .numberConflict)
  else ((st.setMembers k (st.members k ++ [o])).setLinked k o, none)

/-- first member equal (`==`) to `o`: what `list.index` finds -/
def indexOfEq (eq : ObjId → ObjId → Bool) (o : ObjId) : List ObjId → Option ObjId
  | [] => none
  | x :: t => if eq o x then some x else indexOfEq eq o t

/-- numbered_object_collection.py:remove (repaired code: the member that *is* the object; `ValueError` when absent) -/
def collRemove (st : St) (k : Kind) (o : ObjId) : Res :=
  match indexOfEq (fun a b => a == b) o (st.members k) with
  | none => (st, some .valueError)
  | some x => (st.setMembers k ((st.members k).erase x), none)

/-- numbered_object_collection.py:extend and __iadd__ with a list: every new object is checked against the members
    and against the ones before it in the list (`NumberConflictError`, nothing changed), then all are appended and
    linked to the problem (for a cell: cell.py:Cell.link_to_problem) -/
def collExtend (st : St) (k : Kind) (os : List ObjId) : Res :=
  if ((st.members k ++ os).map (st.num k)).Nodup then
    (os.foldl (fun s o => s.setLinked k o) (st.setMembers k (st.members k ++ os)), none)
  else (st, some .numberConflict)

/-- `while number in self.numbers: number += 1` of numbered_object_collection.py:request_number -/
def freeNumber (nums : List Int) : Nat → Int → Int
  | 0, n => n
  | fuel + 1, n => if nums.contains n then freeNumber nums fuel (n + 1) else n

/-- numbered_object_collection.py:append_renumber (step 1): a member is left alone; otherwise the object is
    linked first, then appended, on a number conflict it is renumbered to the next free number and appended -/
def appendRenumber (st : St) (k : Kind) (o : ObjId) : Res :=
  if (st.members k).contains o then (st, none)
  else
    let st1 := st.setLinked k o
    if (st1.members k).any (fun x => st1.num k x == st1.num k o) then
      let n := freeNumber ((st1.members k).map (st1.num k)) ((st1.members k).length + 1) (st1.num k o)
      if n ≤ 0 then (st1, some .valueError) else collAppend (st1.setNum k o n) k o
    else collAppend st1 k o

/-- mcnp_problem.py:materials.setter with a list (repaired code: collection and members are linked);
    `data_inputs` is not touched -/
def setMaterials (st : St) (ms : List ObjId) : Res :=
  if (ms.map st.mnum).Nodup then
    ({ st with materials := ms, mlink := fun x => if ms.contains x then true else st.mlink x }, none)
  else (st, some .numberConflict)

/-- mcnp_problem.py:cells.setter with a list: `Cells(list)`, `clear()`, `extend()` -/
def setCells (st : St) (cs : List ObjId) : Res :=
  if (cs.map st.cnum).Nodup then
    (cs.foldl (fun s c => s.setLinked .cell c) { st with cells := cs }, none)
  else (st, some .numberConflict)

/-- insert keeping the list sorted by number (`sorted(set)` – ties only between objects that make the
    constructor raise, so their relative order is never observed) -/
def insertByNum (num : ObjId → Int) (o : ObjId) : List ObjId → List ObjId
  | [] => [o]
  | x :: t => if num o < num x then o :: x :: t else x :: insertByNum num o t

def sortByNum (num : ObjId → Int) (l : List ObjId) : List ObjId := l.foldr (insertByNum num) []

/-- adding to the identity-keyed dict of add_cell_children_to_problem (`eq` is identity in every use) -/
def setAdd (eq : ObjId → ObjId → Bool) (acc : List ObjId) (o : ObjId) : List ObjId :=
  if acc.any (fun x => eq o x) then acc else acc ++ [o]

/-- `for cell in cells: the_set.update(items(cell))` starting from the set `acc` -/
def collect (eq : ObjId → ObjId → Bool) (items : ObjId → List ObjId) (cells acc : List ObjId) : List ObjId :=
  cells.foldl (fun acc c => (items c).foldl (setAdd eq) acc) acc

/-- mcnp_problem.py:add_cell_children_to_problem (repaired code: the three collections are built first,
    linked to the problem, every member is linked; a numbering conflict changes nothing).  Surfaces come from
    `cell.surfaces`, transforms from the `transform` of those surfaces, materials from `cell.material`. -/
def addCellChildren (st : St) : Res :=
  let surfSet := collect (fun x y => x == y) (fun c => (st.cellOf c).surfs) st.cells st.surfaces
  let transSet := collect (fun x y => x == y) (fun c => (st.cellOf c).surfs.filterMap st.strans) st.cells st.transforms
  let matSet := collect (fun x y => x == y) (fun c => (st.cellOf c).mat.toList) st.cells st.materials
  if ¬ (surfSet.map st.snum).Nodup ∨ ¬ (matSet.map st.mnum).Nodup ∨ ¬ (transSet.map st.tnum).Nodup then
    (st, some .numberConflict)
  else
    ({ st with
        surfaces := sortByNum st.snum surfSet, materials := sortByNum st.mnum matSet,
        transforms := sortByNum st.tnum transSet,
        slink := fun x => if surfSet.contains x then true else st.slink x,
        mlink := fun x => if matSet.contains x then true else st.mlink x,
        tlink := fun x => if transSet.contains x then true else st.tlink x,
        dataM := matSet.foldl (setAdd (fun x y => x == y)) st.dataM,
        dataT := transSet.foldl (setAdd (fun x y => x == y)) st.dataT }, none)

/-! ### pointers from numbers (after reading, and again inside `remove_duplicate_surfaces`) -/

def firstWith (num : ObjId → Int) (n : Int) : List ObjId → Option ObjId
  | [] => none
  | o :: t => if num o = n then some o else firstWith num n t

/-- a geometry as parsed: leaves hold numbers -/
inductive PHS where
  | leaf (isCell : Bool) (num : Int) (side : Bool)
  | compl (l : PHS)
  | bin (union : Bool) (l r : PHS)
  deriving Repr, Inhabited

/-- half_space.py:HalfSpace.update_pointers / UnitHalfSpace.update_pointers on a freshly parsed tree:
    numbers become objects, every node gets `_cell`, the divider is appended to the cell's container
    unless it is `in` it already. -/
def updatePointersP (c : ObjId) : PHS → St → Res × Option HS
  | .leaf ic n side, st =>
    if ic then
      match firstWith st.cnum n st.cells with
      | none => ((st, some .brokenLink), none)
      | some d =>
        let r := if (st.cellOf c).comps.contains d then (st, none) else cellCompAppend st c d
        (r, some (.leaf ic d side (some c)))
    else
      match firstWith st.snum n st.surfaces with
      | none => ((st, some .brokenLink), none)
      | some s =>
        let r := if memS st s (st.cellOf c).surfs then (st, none) else cellSurfAppend st c s
        (r, some (.leaf ic s side (some c)))
  | .compl l, st =>
    match updatePointersP c l st with
    | ((st1, none), some l') => ((st1, none), some (.compl l' (some c)))
    | (r, _) => (r, none)
  | .bin u l r, st =>
    match updatePointersP c l st with
    | ((st1, none), some l') =>
      match updatePointersP c r st1 with
      | ((st2, none), some r') => ((st2, none), some (.bin u l' r' (some c)))
      | (res, _) => (res, none)
    | (res, _) => (res, none)

structure PCell where
  num : Int
  /-- material number of the cell card; 0 = void -/
  mat : Int
  geom : PHS
  /-- `u=` of the cell card -/
  univ : Option Int
  /-- `fill=` of the cell card -/
  fill : Option Int

/-- the material part of cell.py:Cell.update_pointers: `old_mat_number` is looked up among the problem's
    materials (`BrokenObjectLinkError` when absent), 0 is void -/
def resolveMaterial (st : St) (c : ObjId) (n : Int) : Res :=
  let st0 := st.updCell c (fun cs => { cs with oldMat := n })
  if n > 0 then
    match firstWith st0.mnum n st0.materials with
    | some m => (st0.updCell c (fun cs => { cs with mat := some m }), none)
    | none => (st0, some .brokenLink)
  else (st0.updCell c (fun cs => { cs with mat := none }), none)

/-- cell.py:Cell.update_pointers after reading: material by number, new containers (linked like the cell:
    repaired code), geometry. -/
def cellUpdatePointers (st : St) (c : ObjId) (pc : PCell) : Res :=
  match resolveMaterial st c pc.mat with
  | (st1, none) =>
    match updatePointersP c pc.geom (st1.updCell c (fun cs => { cs with surfs := [], comps := [], contLinked := cs.link })) with
    | ((st2, none), some g) => (st2.updCell c (fun cs => { cs with geom := some g }), none)
    | (res, _) => res
  | r => r

/-- universe_input.py:UniverseInput.push_to_cells, the loop over the cells: the universe with the
    cell's number is looked up among `problem.universes`, or created, linked and appended.  New
    universes take the next free id `nextU`. -/
def pushUniverses : List (ObjId × PCell) → St → ObjId → St × ObjId
  | [], st, nextU => (st, nextU)
  | (c, pc) :: t, st, nextU =>
    let n := pc.univ.getD 0
    match firstWith st.unum n st.universes with
    | some u => pushUniverses t (st.updCell c (fun cs => { cs with univ := some u })) nextU
    | none =>
      let st1 := { st with unum := upd st.unum nextU n, ulink := upd st.ulink nextU true,
                           universes := st.universes ++ [nextU] }
      pushUniverses t (st1.updCell c (fun cs => { cs with univ := some nextU })) (nextU + 1)

/-- fill.py:Fill.push_to_cells for every cell (`problem.universes[number]`; `BrokenObjectLinkError` when absent) -/
def pushFills : List (ObjId × PCell) → St → Res
  | [], st => (st, none)
  | (c, pc) :: t, st =>
    match pc.fill with
    | none => pushFills t st
    | some n =>
      match firstWith st.unum n st.universes with
      | some u => pushFills t (st.updCell c (fun cs => { cs with fill := some u }))
      | none => (st, some .brokenLink)

def updateAllCells : List (ObjId × PCell) → St → Res
  | [], st => (st, none)
  | (c, pc) :: t, st =>
    match cellUpdatePointers st c pc with
    | (st1, none) => updateAllCells t st1
    | r => r

def appendAll (k : Kind) : List ObjId → St → Res
  | [], st => (st, none)
  | o :: t, st =>
    match collAppend st k o with
    | (st1, none) => appendAll k t st1
    | r => r

/-- The object pool before anything is read: numbers and shapes of every object that will ever exist
    in the case, nothing linked, empty problem. -/
def St.blank (cnum snum mnum unum tnum : ObjId → Int)
    (strans : ObjId → Option ObjId) (other : Kind → ObjId → Bool := fun _ _ => false) : St :=
  { cellOf := fun _ => {}, cnum, snum, mnum, unum, tnum, strans,
    slink := fun _ => false, mlink := fun _ => false, ulink := fun _ => false, tlink := fun _ => false,
    cells := [], surfaces := [], materials := [], universes := [], transforms := [], dataM := [], dataT := [], other }

/-- mcnp_problem.py:parse_input as far as links go: every object is linked and appended to its collection
    (cells `0..`, surfaces, materials and transforms in file order; materials and transforms also go to
    `data_inputs`), then `__update_internal_pointers`: `Cells.update_pointers` (every cell), then the
    universe and fill cards are pushed to the cells.  `nextU` is the first free universe id. -/
def load (st : St) (pcs : List PCell) (nSurf nMat nTrans : Nat) (nextU : ObjId) : Res × ObjId :=
  let cids := List.range pcs.length
  match appendAll .cell cids st with
  | (st1, none) =>
    match appendAll .surface (List.range nSurf) st1 with
    | (st2, none) =>
      match appendAll .material (List.range nMat) st2 with
      | (st3, none) =>
        match appendAll .transform (List.range nTrans) st3 with
        | (st4, none) =>
          let st5 := { st4 with dataM := List.range nMat, dataT := List.range nTrans }
          let zipped := cids.zip pcs
          match updateAllCells zipped st5 with
          | (st6, none) =>
            let (st7, nu) := pushUniverses zipped st6 nextU
            (pushFills zipped st7, nu)
          | r => (r, nextU)
        | r => (r, nextU)
      | r => (r, nextU)
    | r => (r, nextU)
  | r => (r, nextU)

/-- mcnp_problem.py:remove_duplicate_surfaces when `find_duplicate_surfaces` finds nothing: no link is
    touched (since the repair of C18 the link pass is not run a second time).  With duplicates the dividers
    are re-pointed through the divider setter (C18's subject; the driver does not compare such a step). -/
def reupdate (st : St) : Res := (st, none)

/-! ### reverse look-ups: the generators, as the filters they compute -/

/-- surface.py:Surface.cells -/
def surfaceCells (st : St) (s : ObjId) : List ObjId :=
  if st.slink s then st.cells.filter (fun c => memS st s (st.cellOf c).surfs) else []

/-- material.py:Material.cells (repaired code: `cell.material is self`) -/
def materialCells (st : St) (m : ObjId) : List ObjId :=
  if st.mlink m then st.cells.filter (fun c => match (st.cellOf c).mat with
    | some m' => m' == m
    | none => false) else []

/-- universe.py:Universe.cells (`cell.universe == self`, identity) -/
def universeCells (st : St) (u : ObjId) : List ObjId :=
  if st.ulink u then st.cells.filter (fun c => (st.cellOf c).univ == some u) else []

/-- cell.py:Cell.cells_complementing_this -/
def cellsComplementing (st : St) (c : ObjId) : List ObjId :=
  if (st.cellOf c).link then st.cells.filter (fun d => d != c && (st.cellOf d).comps.contains c) else []

/-! ### edit histories -/

inductive Op
  | setGeometry (c : ObjId) (g : HS)
  | iopCell (union : Bool) (c : ObjId) (g : HS)
  | iopAlias (union : Bool) (c : ObjId) (g : HS)
  | setDivider (c : ObjId) (path : List Bool) (isCell : Bool) (d : ObjId)
  | setChild (c : ObjId) (path : List Bool) (right : Bool) (g : HS)
  | setMaterial (c : ObjId) (m : Option ObjId)
  | setUniverse (c u : ObjId)
  | claim (u : ObjId) (cs : List ObjId)
  | setFill (c : ObjId) (u : Option ObjId)
  | setNumber (k : Kind) (o : ObjId) (n : Int)
  | append (k : Kind) (o : ObjId)
  | remove (k : Kind) (o : ObjId)
  | extend (k : Kind) (os : List ObjId)
  | appendRenumber (k : Kind) (o : ObjId)
  | setMaterials (ms : List ObjId)
  | setCells (cs : List ObjId)
  | addCellChildren
  | reupdate
  deriving Repr, DecidableEq

def step (st : St) : Op → Res
  | .setGeometry c g => setGeometry st c g
  | .iopCell u c g => iopCell u st c g
  | .iopAlias u c g => iopAlias u st c g
  | .setDivider c p ic d => setDivider st c p ic d
  | .setChild c p r g => setChild st c p r g
  | .setMaterial c m => setMaterial st c m
  | .setUniverse c u => setUniverse st c u
  | .claim u cs => claim st u cs
  | .setFill c u => setFill st c u
  | .setNumber k o n => setNumber st k o n
  | .append k o => collAppend st k o
  | .remove k o => collRemove st k o
  | .extend k os => collExtend st k os
  | .appendRenumber k o => appendRenumber st k o
  | .setMaterials ms => setMaterials st ms
  | .setCells cs => setCells st cs
  | .addCellChildren => addCellChildren st
  | .reupdate => reupdate st

def run (st : St) (ops : List Op) : St := ops.foldl (fun s op => (step s op).1) st

end MontePyVerif.Links
