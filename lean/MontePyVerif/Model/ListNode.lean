import MontePyVerif.Model.Shortcut
/-!
# Model of `montepy/input_parser/syntax_node.py: ListNode` — `update_with_new_values`, `_expand_shortcuts`, `format` (C08)

`new_vals_cache` (a dict `id(node) ↦ node | shortcut`, ordered like `new_vals`) is represented by the list it is
finally read out as: `out`, the items decided so far, most recent first, where a shortcut occupying several
consecutive positions is ONE item holding its deque.  This is the representation `update_with_new_values` itself
converts the cache to at its end (`for key, node in new_vals_cache.items(): ...` appends a shortcut once per run).
It is faithful because a shortcut only ever owns consecutive positions: forward expansion takes position `i`,
reverse expansion takes positions `i-1, i-2, ... > last_end`, and `last_end` is moved behind every shortcut that
stops.  The correspondence check compares the final node list (shortcut identity and covered node ids) and the
text with the real code on every case.
-/
namespace MontePyVerif.Model.ListNode
open MontePyVerif.Model.Shortcut

inductive Item
  | leaf (l : Leaf)
  | sc (sid : Int) (s : Sc)
  deriving Repr

/-- `ListNode.__iter__` for one node -/
def Item.leaves : Item → List Leaf
  | .leaf l => [l]
  | .sc _ s => s.nodes

/-- `list(ListNode)` -/
def flatten (items : List Item) : List Leaf := (items.map Item.leaves).flatten

/-- the items decided so far, most recent first -/
def flatRev : List Item → List Leaf
  | [] => []
  | x :: rest => flatRev rest ++ x.leaves

/-- `ShortcutNode(p=None, short_type=Shortcuts.JUMP)` -/
def orphanJump : Sc :=
  { kind := .jmp, nodes := [], full := false, sBegin := 0, sEnd := 0, sSpacing := 0, lBegin := 1, lEnd := 1, lN := 0,
    origLen := 0, letter := "J", omit1 := true, numTok := none, numOg := none, midPad := " ", endPad := " ",
    mulTxt := "", mulWritten := none }

structure PassSt where
  out : List Item
  /-- `shortcut is not None`: the head of `out` is the shortcut being expanded -/
  cur : Bool
  lastEnd : Nat
  i : Nat
  deriving Repr

/-- `_expand_shortcuts.check_for_orphan_jump` after the value has been left alone (`shortcut is None`) -/
def checkForOrphanJump (out : List Item) (v : Leaf) : List Item × Bool :=
  if v.val.isNone then
    let (ok, s) := consumeEdgeNode { orphanJump with runIds := [v.id] } v true false
    if ok then (Item.sc (-1) s :: out, true) else (Item.leaf v :: out, true)
  else (Item.leaf v :: out, false)

/-- `_expand_shortcuts.try_reverse_expansion`: `budget` = number of positions in `new_vals[i-1 : last_end : -1]` -/
def tryReverseExpansion (s : Sc) : Nat → List Item → Sc × List Item
  | 0, out => (s, out)
  | budget + 1, out =>
    match out with
    | Item.leaf l :: rest =>
      let (ok, s') := guardedConsume s l false false
      if ok then tryReverseExpansion s' budget rest else (s', out)
    | _ => (s, out)

/-- one round of the loop of `ListNode._expand_shortcuts` for a site no (usable) shortcut is bound to -/
def stepPlain (st : PassSt) (v : Leaf) : PassSt :=
  let i := st.i
  match st.cur, st.out with
  | true, Item.sc sid s :: rest =>
    let (ok, s1) := guardedConsume s v true (i == st.lastEnd + 1 && st.lastEnd != 0)
    if ok then { st with out := Item.sc sid s1 :: rest, i := i + 1 }
    else
      let (out', cur') := checkForOrphanJump (Item.sc sid s1 :: rest) v
      { out := out', cur := cur', lastEnd := i - 1, i := i + 1 }
  | _, _ =>
    let (out', cur') := checkForOrphanJump st.out v
    { st with out := out', cur := cur', i := i + 1 }

/-- one round of the loop of `ListNode._expand_shortcuts`; `bound` = the cache holds a shortcut at this site.
    A bound shortcut that cannot take the value at its own site is dropped and the round goes on as if no
    shortcut were bound here. -/
def stepPass (st : PassSt) (v : Leaf) (bound : Option (Int × Sc)) : PassSt :=
  let i := st.i
  match bound with
  | some (sid, s) =>
    let lastEnd := if st.cur then i - 1 else st.lastEnd
    let (ok, s1) := consumeEdgeNode s v true (i == lastEnd + 1 && lastEnd != 0)
    if ok then
      let budget := if i > 1 then (i - 1) - lastEnd else 0
      let (s2, out2) := tryReverseExpansion s1 budget st.out
      { out := Item.sc sid s2 :: out2, cur := true, lastEnd := lastEnd, i := i + 1 }
    else stepPlain st v
  | none => stepPlain st v

/-- `ListNode._expand_shortcuts` -/
def expandShortcuts : List (Leaf × Option (Int × Sc)) → PassSt → PassSt
  | [], st => st
  | (v, b) :: rest, st => expandShortcuts rest (stepPass st v b)

/-- `update_with_new_values`, first loop, one shortcut: it is bound to the first of its nodes that is still
    present, and emptied -/
def bindOne (vals : List Leaf) (slots : List (Leaf × Option (Int × Sc))) (p : Int × Sc) :
    List (Leaf × Option (Int × Sc)) :=
  match p.2.nodes.find? (fun n => vals.any (fun v => v.id == n.id)) with
  | none => slots
  | some n => slots.map (fun q =>
      if q.1.id == n.id then
        (q.1, some (p.1, { p.2 with nodes := [], boundAsProduct := p.2.nodes.length == 1,
                                    runIds := p.2.nodes.map (·.id) }))
      else q)

/-- `update_with_new_values`, first loop -/
def bindShortcuts (shortcuts : List (Int × Sc)) (vals : List Leaf) : List (Leaf × Option (Int × Sc)) :=
  shortcuts.foldl (bindOne vals) (vals.map (fun v => (v, none)))

/-- the final pops, on the items most recent first: every trailing shortcut that is a jump the user left off -/
def popRev : List Item → List Item
  | Item.sc sid s :: rest => if s.kind == Kind.jmp && s.origLen == 0 then popRev rest else Item.sc sid s :: rest
  | out => out

/-- "pop off the final shortcuts that are jumps the user left off" -/
def popTrailingJump (items : List Item) : List Item := (popRev items.reverse).reverse

/-- `ListNode.update_with_new_values` -/
def updateWithNewValues (shortcuts : List (Int × Sc)) (vals : List Leaf) : List Item :=
  if vals.isEmpty then []
  else
    let st := expandShortcuts (bindShortcuts shortcuts vals) { out := [], cur := false, lastEnd := 0, i := 0 }
    popTrailingJump st.out.reverse

/-- `ListNode._keep_own_nodes`, the loop: a new node that is not a node of the list is replaced by the original node
    at its position when that one holds exactly its value and type and is not handed in itself -/
def keepZip (ownIds newIds : List Nat) : List Leaf → List Leaf → List Leaf
  | _, [] => []
  | [], vs => vs
  | o :: own, v :: vs =>
    (if !ownIds.contains v.id && !newIds.contains o.id && o.ty == v.ty && o.val == v.val then o else v)
      :: keepZip ownIds newIds own vs

/-- `ListNode._keep_own_nodes`; `own` = `list(self)` before the update -/
def keepOwnNodes (own vals : List Leaf) : List Leaf :=
  keepZip (own.map (·.id)) (vals.map (·.id)) own vals

/-- `ListNode.update_with_new_values` as a whole: own nodes stand in for copies, then the list is rebuilt -/
def updateWithNewValuesFull (shortcuts : List (Int × Sc)) (own vals : List Leaf) : List Item :=
  updateWithNewValues shortcuts (keepOwnNodes own vals)

/-! ## `ListNode.format` -/

def Item.numeric : Item → Bool
  | .leaf l => l.ty ≤ 1
  | .sc _ _ => true

structure FmtSt where
  text : String
  words : List Word
  last : Option Item
  /-- `_written_tail` of the previous node when it is a shortcut -/
  carried : Option Rat

/-- one round of the loop of `ListNode.format`; `isLast` = (`i == length - 1`) -/
def formatStep (st : FmtSt) (it : Item) (isLast : Bool) : FmtSt :=
  match it with
  | .leaf l =>
    let t := if l.padNone && !isLast && !l.neverPad then l.txtPad else l.txt
    let joined := match st.last with
      | some p => if p.numeric && it.numeric then joinEntries st.text t else st.text ++ t
      | none => st.text ++ t
    { text := joined, words := st.words ++ [Word.num l], last := some it, carried := none }
  | .sc _ s =>
    let f := Shortcut.format s (match st.last with | some (.sc _ _) => st.carried | _ => none)
    let joined := match st.last with
      | some p => if p.numeric then joinEntries st.text f.text else st.text ++ f.text
      | none => st.text ++ f.text
    { text := joined, words := st.words ++ f.words, last := some it, carried := f.tail }

def formatLoop : List Item → FmtSt → FmtSt
  | [], st => st
  | [x], st => formatStep st x true
  | x :: y :: rest, st => formatLoop (y :: rest) (formatStep st x false)

/-- `ListNode.format` -/
def format (items : List Item) : FmtSt := formatLoop items { text := "", words := [], last := none, carried := none }

end MontePyVerif.Model.ListNode
