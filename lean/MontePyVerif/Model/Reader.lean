import MontePyVerif.Gen.Constants
/-!
# Model of MontePy's line reader and read-card queue (C20, C11)

Mirrors, function by function (after the `fix:` commits listed in `known_findings.json`):

* `montepy/input_parser/input_file.py`: `MCNP_InputFile.__iter__`, `_clean_line`, `open` (read side);
* `montepy/utilities.py`: `is_comment`;
* `montepy/input_parser/input_syntax_reader.py`: `read_input_syntax`, `read_front_matters`, `read_data`
  with its closures `flush_block` / `flush_input`, the module-global `reading_queue`;
* `montepy/input_parser/mcnp_input.py`: `ReadInput.is_read_input`, `ReadInput.file_name`
  (the SLY `ReadParser` is *abstracted*: see `parseRead`);
* `posixpath.dirname`, `posixpath.join` as used for the sub-file paths.

Strings are `List Char` (`Str`); a physical line carries its `"\n"` exactly as Python's file iterator delivers it.
A generator is a list of `Event`s in the order the effects happen (a yield, an append to `reading_queue`,
a warning, an `open`, a raise); nothing follows a raise.  Only Lean core is imported (the driver is compiled).
-/
namespace MontePyVerif.Reader

abbrev Str := List Char

/-! ## Python `str` primitives on the code points that survive `_clean_line` (< 127) -/

/-- `str.isspace` of one character: blank, `\t \n \v \f \r`, and the separators `\x1c`-`\x1f`. -/
def pyIsSpace (c : Char) : Bool :=
  c == ' ' || (9 ≤ c.toNat && c.toNat ≤ 13) || (28 ≤ c.toNat && c.toNat ≤ 31)

/-- `s.lstrip()` -/
def lstrip (s : Str) : Str := s.dropWhile pyIsSpace
/-- `s.rstrip()` -/
def rstrip (s : Str) : Str := (s.reverse.dropWhile pyIsSpace).reverse
/-- `s.strip()` -/
def strip (s : Str) : Str := lstrip (rstrip s)
/-- `s.upper()` / `s.lower()` (ASCII) -/
def upper (s : Str) : Str := s.map Char.toUpper
def lower (s : Str) : Str := s.map Char.toLower

/-- `s.startswith(p)` -/
def startsWith : Str → Str → Bool
  | _, [] => true
  | [], _ :: _ => false
  | c :: s, d :: p => c == d && startsWith s p

/-- `s.endswith(p)` -/
def endsWith (s p : Str) : Bool := startsWith s.reverse p.reverse

/-- `s.expandtabs(tab)`: the column restarts after `\n` and `\r`. -/
def expandtabsAux (tab : Nat) : Nat → Str → Str
  | _, [] => []
  | col, c :: t =>
    if c == '\t' then
      let incr := tab - col % tab
      List.replicate incr ' ' ++ expandtabsAux tab (col + incr) t
    else c :: expandtabsAux tab (if c == '\n' || c == '\r' then 0 else col + 1) t

def expandtabs (tab : Nat) (s : Str) : Str := expandtabsAux tab 0 s

/-- `s.split()`: maximal runs of non-space characters. -/
def pySplitAux : Str → Str → List Str
  | [], [] => []
  | [], cur => [cur.reverse]
  | c :: t, cur =>
    if pyIsSpace c then (if cur.isEmpty then pySplitAux t [] else cur.reverse :: pySplitAux t [])
    else pySplitAux t (c :: cur)

def pySplit (s : Str) : List Str := pySplitAux s []

/-! ## `input_file.py` -/

/-- `MCNP_InputFile._clean_line`: bytes ≥ `ASCII_CEILING` become blanks, then
    `.replace("\r\n", "\n").replace("\r", "\n")`. -/
def fixNewlines : Str → Str
  | [] => []
  | '\r' :: '\n' :: t => '\n' :: fixNewlines t
  | '\r' :: t => '\n' :: fixNewlines t
  | c :: t => c :: fixNewlines t

def cleanByte (b : Nat) : Char := if b < Gen.asciiCeiling then Char.ofNat b else ' '

def cleanLine (bytes : List Nat) : Str := fixNewlines (bytes.map cleanByte)

/-- iteration over a file opened `"rb"`: lines end at byte 10 and keep it. -/
def splitLinesAux : List Nat → List Nat → List (List Nat)
  | [], [] => []
  | [], cur => [cur.reverse]
  | b :: t, cur => if b == 10 then (b :: cur).reverse :: splitLinesAux t [] else splitLinesAux t (b :: cur)

def splitLines (bytes : List Nat) : List (List Nat) := splitLinesAux bytes []

/-- `MCNP_InputFile.__iter__` with `replace=True` (the default of `read_input`). -/
def fileLines (bytes : List Nat) : List Str := (splitLines bytes).map cleanLine

/-! ## `utilities.py:is_comment` (after fix 7785a97: MCNP's column rule) -/

/-- `ch.upper() == "C"` for a code point below 127 -/
def isUpperC (c : Char) : Bool := c == 'c' || c == 'C'

def isComment (line : Str) : Bool :=
  let indent := (line.takeWhile (· == ' ')).length
  if indent ≥ Gen.blankSpaceContinue then false
  else match line.drop indent with
    | [] => false
    | [c] => isUpperC c
    | c :: d :: _ => isUpperC c && pyIsSpace d

/-! ## blocks, events, errors -/

inductive BlockType | cell | surface | data
  deriving DecidableEq, Repr, Inhabited

def BlockType.value : BlockType → Nat
  | .cell => 0 | .surface => 1 | .data => 2

/-- `BlockType(n)` for `n < 3` -/
def BlockType.ofValue : Nat → BlockType
  | 0 => .cell | 1 => .surface | _ => .data

inductive Err
  /-- `ParsingError`: an input whose first word is `read` that `ReadParser` rejects -/
  | parsing
  /-- `MalformedInputError`: a read input that closes a cycle (fix 8561374) -/
  | malformed
  /-- `UnsupportedFeature`: vertical input format -/
  | unsupported
  | fileNotFound
  /-- not an outcome of the code: the queue loop of the model ran out of fuel (see `C20_term`) -/
  | outOfFuel
  deriving DecidableEq, Repr

/-- an entry of `reading_queue`: `(block_type, file_name, parent, read_chain)` -/
structure QEntry where
  bt : BlockType
  name : Str
  parent : Str
  chain : List Str
  deriving DecidableEq, Repr

inductive Event
  /-- `yield Message(raw_lines, lines)` -/
  | message (raw : List Str) (lines : List Str)
  /-- `yield Title([line], line)` -/
  | title (line : Str)
  /-- `yield input` -/
  | input (bt : BlockType) (lines : List Str)
  /-- `yield None` (a read input is hidden from the caller) -/
  | none
  /-- `reading_queue.append(...)` -/
  | enqueue (e : QEntry)
  /-- `warnings.warn(..., LineOverRunWarning)` -/
  | warn
  /-- `open(path, "rb")` -/
  | openFile (path : Str)
  | raise (e : Err)
  deriving DecidableEq, Repr

def Event.isRaise : Event → Bool
  | .raise _ => true
  | _ => false

def hasRaise (evs : List Event) : Bool := evs.any Event.isRaise

/-- the entries appended to `reading_queue` by a run -/
def enqueued : List Event → List QEntry
  | [] => []
  | .enqueue e :: t => e :: enqueued t
  | _ :: t => enqueued t

/-! ## `posixpath` -/

/-- `os.path.dirname` -/
def dirname (p : Str) : Str :=
  let head := (p.reverse.dropWhile (· != '/')).reverse
  if !head.isEmpty && !(head.all (· == '/')) then (head.reverse.dropWhile (· == '/')).reverse else head

/-- `os.path.join(a, b)` -/
def joinPath (a b : Str) : Str :=
  if startsWith b ['/'] then b
  else if a.isEmpty || endsWith a ['/'] then a ++ b
  else a ++ '/' :: b

/-! ## `mcnp_input.py:ReadInput` -/

/-- `ReadInput.is_read_input` -/
def isReadInput (lines : List Str) : Bool :=
  match lines.find? (fun l => !isComment l) with
  | Option.none => false
  | some l =>
    match pySplit l with
    | [] => false
    | w :: _ => lower w == ['r', 'e', 'a', 'd']

/-- text of a line in front of a `$` comment -/
def beforeDollar (l : Str) : Str := l.takeWhile (· != '$')

/-- the words of one stored line as a parser sees them: blank-separated; the `$` comment and a final `&` are padding -/
def lineWordsM (r : Str) : List Str :=
  let d := beforeDollar r
  if endsWith (rstrip d) [' ', '&'] then (pySplit d).dropLast else pySplit d

/-- the words of an input: C comment lines are padding -/
def inputWordsM (lines : List Str) : List Str := (lines.filter (fun l => !isComment l)).flatMap lineWordsM

/-- in key/value position `=` separates like a blank -/
def splitEqM (w : Str) : List Str := pySplit (w.map (fun c => if c == '=' then ' ' else c))

/-- *Abstraction* of `ReadParser` + `ReadInput.file_name`, for an input whose first word is `read`.
    The SLY lexer/parser is not modelled; on the word level the accepted shape is `read file <name>` where `=`
    counts as a blank, `&`, `$` comments and C comment lines are padding, and keywords compare
    case-insensitively.  Everything else is rejected (`ParsingError`).  The harness feeds only shapes on which
    this abstraction was validated against the real parser (see design_notes/C20.md). -/
def parseRead (lines : List Str) : Option Str :=
  match inputWordsM lines with
  | [] => Option.none
  | _ :: rest =>
    match rest.flatMap splitEqM with
    | [f, name] => if lower f == ['f', 'i', 'l', 'e'] then some name else Option.none
    | _ => Option.none

/-! ## `input_syntax_reader.py` -/

/-- what `read_data` is called with -/
structure Cfg where
  /-- `get_max_line_length(mcnp_version)` -/
  lineLength : Nat
  /-- `block_type` argument (`CELL` when `None`) -/
  firstBlock : BlockType
  /-- `fh.path` -/
  path : Str
  /-- `ancestors + (fh.path,)`: the files whose read inputs led here, top-level file first, this file last -/
  chain : List Str
  deriving Repr

def Cfg.topDir (cfg : Cfg) : Str := dirname (cfg.chain.headD cfg.path)

/-- the local variables of `read_data` that live across loop iterations -/
structure LState where
  blockCounter : Nat
  blockType : BlockType
  continueInput : Bool
  hasNonComments : Bool
  /-- `input_raw_lines` -/
  raw : List Str
  deriving Repr

/-- `read_data.flush_input`: effects in order; `input_raw_lines` is reset by the caller. -/
def flushInput (cfg : Cfg) (bt : BlockType) (raw : List Str) : List Event :=
  if isReadInput raw then
    match parseRead raw with
    | Option.none => [.raise .parsing]
    | some name =>
      if cfg.chain.contains (joinPath cfg.topDir name) then [.raise .malformed]
      else [.enqueue ⟨bt, name, cfg.path, cfg.chain⟩, .none]
  else [.input bt raw]

/-- `read_data.flush_block` -/
def flushBlock (cfg : Cfg) (st : LState) : List Event × LState :=
  let evs := if st.raw.isEmpty then [] else flushInput cfg st.blockType st.raw
  let counter := st.blockCounter + 1
  let bt := if cfg.firstBlock.value + counter < 3 then BlockType.ofValue (cfg.firstBlock.value + counter) else st.blockType
  (evs, { st with raw := [], blockCounter := counter, blockType := bt })

/-- the "if a new input" condition of `read_data` -/
def startsNew (st : LState) (line : Str) (lineIsComment : Bool) : Bool :=
  !(strip (line.take Gen.blankSpaceContinue)).isEmpty && !st.continueInput && !lineIsComment
    && st.hasNonComments && !st.raw.isEmpty

/-- `line.rstrip().endswith(" &") and "$" not in line` (fixes 7bc85a8, 75939b5) -/
def continues (cut : Str) : Bool := endsWith (rstrip cut) [' ', '&'] && !cut.contains '$'

/-- the rest of one loop iteration for a non-blank line, after the "new input" flush produced `evs1`
    and left `raw1` in `input_raw_lines` -/
def stepData (cfg : Cfg) (st : LState) (line : Str) (lineIsComment : Bool) (evs1 : List Event)
    (raw1 : List Str) : List Event × LState :=
  if hasRaise evs1 then (evs1, st)
  else if (line.take Gen.blankSpaceContinue).contains '#' && !lineIsComment then
    (evs1 ++ [.raise .unsupported], st)
  else
    let cut := line.take cfg.lineLength
    let evs2 := if cut.length != line.length then [Event.warn] else []
    -- fix 0e3e134: a C comment line leaves `continue_input` alone
    let cont := if lineIsComment then st.continueInput else continues cut
    (evs1 ++ evs2,
     { st with continueInput := cont, hasNonComments := st.hasNonComments || !lineIsComment,
               raw := raw1 ++ [rstrip cut] })

/-- one iteration of `for line in fh` in `read_data` -/
def stepLine (cfg : Cfg) (st : LState) (line0 : Str) : List Event × LState :=
  let line := expandtabs Gen.tabSize line0
  let lineIsComment := isComment line
  if (strip line).isEmpty then
    ((flushBlock cfg st).1, { (flushBlock cfg st).2 with hasNonComments := false })
  else if startsNew st line lineIsComment then
    stepData cfg st line lineIsComment (flushInput cfg st.blockType st.raw) []
  else stepData cfg st line lineIsComment [] st.raw

/-- the loop of `read_data` followed by the final `flush_block` -/
def goLines (cfg : Cfg) : LState → List Str → List Event
  | st, [] => (flushBlock cfg st).1
  | st, l :: ls =>
    let (evs, st') := stepLine cfg st l
    if hasRaise evs then evs else evs ++ goLines cfg st' ls

def initState (cfg : Cfg) : LState :=
  { blockCounter := 0, blockType := cfg.firstBlock, continueInput := false, hasNonComments := false, raw := [] }

/-- `read_data(fh, version, block_type, recursion=True, ancestors)`: the part before the queue loop -/
def readData (cfg : Cfg) (lines : List Str) : List Event := goLines cfg (initState cfg) lines

/-- `read_front_matters`: the events and the lines left in the file handle -/
def messageLoop : List Str → List Str → List Str → List Event × List Str
  | [], _, _ => ([], [])
  | l :: rest, raw, lines =>
    if !(strip l).isEmpty then messageLoop rest (raw ++ [rstrip l]) (lines ++ [l])
    else
      let msg := Event.message raw (lines.map rstrip)
      match rest with
      | [] => ([msg], [])
      | t :: rest' => ([msg, .title t], rest')

def readFrontMatters : List Str → List Event × List Str
  | [] => ([], [])
  | l0 :: rest =>
    if startsWith (upper l0) ['M', 'E', 'S', 'S', 'A', 'G', 'E', ':'] then messageLoop rest [rstrip l0] [l0.drop 9]
    else ([.title l0], rest)

/-- a file system: what `open(path, "rb").read()` gives, `none` = `FileNotFoundError` -/
abbrev FS := Str → Option (List Nat)

/-- `while reading_queue:` of the top-level `read_data` (fuel: see `C20_term`) -/
def queueLoop (lineLength : Nat) (fs : FS) (dir : Str) : Nat → List QEntry → List Event
  | _, [] => []
  | 0, _ :: _ => [.raise .outOfFuel]
  | fuel + 1, e :: rest =>
    let path := joinPath dir e.name
    .openFile path ::
      match fs path with
      | Option.none => [.raise .fileNotFound]
      | some bytes =>
        let evs := readData ⟨lineLength, e.bt, path, e.chain ++ [path]⟩ (fileLines bytes)
        if hasRaise evs then evs else evs ++ queueLoop lineLength fs dir fuel (rest ++ enqueued evs)

/-- `read_input_syntax(MCNP_InputFile(main), version)` consumed to the end -/
def readAll (lineLength : Nat) (fuel : Nat) (fs : FS) (main : Str) : List Event :=
  .openFile main ::
    match fs main with
    | Option.none => [.raise .fileNotFound]
    | some bytes =>
      let (front, rest) := readFrontMatters (fileLines bytes)
      let evs := readData ⟨lineLength, .cell, main, [main]⟩ rest
      front ++ (if hasRaise evs then evs else evs ++ queueLoop lineLength fs (dirname main) fuel (enqueued evs))

/-- `constants.get_max_line_length` on the table extracted from the source -/
def maxLineLength (v : Nat × Nat × Nat) : Option Nat :=
  let ge (a b : Nat × Nat × Nat) : Bool :=
    a.1 > b.1 || (a.1 == b.1 && (a.2.1 > b.2.1 || (a.2.1 == b.2.1 && a.2.2 ≥ b.2.2)))
  if ge v Gen.defaultVersion then (Gen.lineLength.find? (·.1 == Gen.defaultVersion)).map (·.2)
  else (Gen.lineLength.find? (·.1 == v)).map (·.2)

end MontePyVerif.Reader
