/-! # Model.Regex — a backtracking regular-expression engine with the semantics of CPython's `re` (sre)

The engine the lexer model (`Model/Lexer.lean`) runs.  The patterns it runs are NOT written here: the translator
plug-in `tools/extractors/lexer_rules.py` parses every pattern of `tokens.py` with CPython's own parser
(`re._parser.parse`) and emits the parse tree as terms of `Re` into `Gen/LexRules.lean`.

What is modelled (sre opcode → constructor):

    LITERAL c                      lit c            (NOT_LITERAL c → set true [ch c])
    ANY                            any              (no DOTALL: every character but the newline)
    IN [...] (LITERAL, RANGE, CATEGORY, NEGATE)      set neg items
    sequence                       cat              (the empty sequence is eps)
    BRANCH                         alt              ORDERED: Python reports the first alternative that lets the
                                                    rest of the pattern match
    MAX_REPEAT min max body        rep body min max greedy: one more iteration is tried before the continuation
    SUBPATTERN                     transparent (no back-references are used)
    ASSERT_NOT (look-ahead)        nla
    AT_END                         eol              (`$` without MULTILINE: at the end, or before a final newline)
    AT_BEGINNING                   dropped by the translator where it is the first item of a pattern used with
                                                    `re.match` (true there by construction); refused anywhere else

Semantics: `ends ic r s` is the list of the remainders of `s` after a match of `r` at the front of `s`, in the
order Python's backtracking engine would try them.  What `re.match` reports is the head of that list.
`m` is the same search in continuation-passing style (it stops at the first success); `m_eq_findSome` (in
`Props/C12Lexer.lean`) proves `m ic r s k = (ends ic r s).findSome? k`.

Case-insensitive matching (`re.IGNORECASE`, flag `ic`) and the category escapes are those of sre on ASCII text:
MontePy opens its input with the ASCII codec (`input_file.py:MCNP_InputFile.open`; other characters are replaced
before the lexer sees them), so the model's alphabet is the 128 ASCII characters.  On ASCII, a set item matches
`c` case-insensitively iff it contains `c`, `lower c` or `upper c` (sre: the set is lowered at compile time and is
asked about `lower c`), `\s` is 9–13, 28–31 and 32 (`Py_UNICODE_ISSPACE`), `\d` is 0–9, `\w` is `[A-Za-z0-9_]`.

Repetition and empty iterations: sre refuses an iteration that consumed nothing once the minimum count is
reached.  Here EVERY iteration must consume a character (`s'.length < s.length`); the two agree whenever the
body cannot match the empty string, which `Re.repOk` checks statically and `Props/C12Lexer.lean` proves sufficient
(`ends_lt_of_not_nullable`) — the translator refuses a nullable repetition body, and `repOk` of every generated
rule is a theorem there.  The recursion of a repetition runs on a fuel equal to the length of the text;
`repEnds_fuel` proves any fuel ≥ that length gives the same answer.
-/
namespace MontePyVerif.Regex

/-- ASCII `str.lower` / `str.upper` of one character -/
def lower (c : Char) : Char := if 'A' ≤ c ∧ c ≤ 'Z' then Char.ofNat (c.toNat + 32) else c
def upper (c : Char) : Char := if 'a' ≤ c ∧ c ≤ 'z' then Char.ofNat (c.toNat - 32) else c

/-- `\d` on ASCII -/
def isDigit (c : Char) : Bool := '0' ≤ c && c ≤ '9'
/-- `\s`, `str.isspace`, the blanks of `str.split()` / `str.strip()` on ASCII: 9–13, 28–31, 32 -/
def isSpace (c : Char) : Bool :=
  let n := c.toNat
  (9 ≤ n && n ≤ 13) || (28 ≤ n && n ≤ 32)
def isAlpha (c : Char) : Bool := ('a' ≤ c && c ≤ 'z') || ('A' ≤ c && c ≤ 'Z')
/-- `\w` on ASCII -/
def isWord (c : Char) : Bool := isAlpha c || isDigit c || c == '_'

/-- category escapes (`\d \s \w` and their complements) -/
inductive Cat
  | digit | space | word | notDigit | notSpace | notWord
  deriving DecidableEq, Repr

def Cat.has : Cat → Char → Bool
  | .digit, c => isDigit c
  | .space, c => isSpace c
  | .word, c => isWord c
  | .notDigit, c => !isDigit c
  | .notSpace, c => !isSpace c
  | .notWord, c => !isWord c

/-- the members of a character set -/
inductive Item
  | ch (c : Char)
  | range (lo hi : Char)
  | cat (k : Cat)
  deriving DecidableEq, Repr

def Item.has : Item → Char → Bool
  | .ch p, c => p == c
  | .range lo hi, c => lo ≤ c && c ≤ hi
  | .cat k, c => k.has c

/-- membership in the positive part of a set (before NEGATE) -/
def itemsHave (ic : Bool) (items : List Item) (c : Char) : Bool :=
  items.any (fun it => it.has c || (ic && (it.has (lower c) || it.has (upper c))))

/-- LITERAL against a character -/
def litEq (ic : Bool) (p c : Char) : Bool := p == c || (ic && lower p == lower c)

inductive Re
  | eps
  | lit (c : Char)
  | any
  | set (neg : Bool) (items : List Item)
  | cat (a b : Re)
  | alt (a b : Re)
  | rep (r : Re) (min : Nat) (max : Option Nat)
  | nla (r : Re)
  | eol
  deriving Repr

/-- one character that satisfies `p` -/
def step1 (p : Char → Bool) : List Char → List (List Char)
  | c :: t => if p c then [t] else []
  | [] => []

/-- greedy repetition of `step`, `mn` to `mx` times, every iteration consuming at least one character.
    More iterations first (greedy), then — when the minimum is reached — stopping here. -/
def repEnds (step : List Char → List (List Char)) : Nat → Nat → Option Nat → List Char → List (List Char)
  | 0, mn, _, s => if mn == 0 then [s] else []
  | fuel + 1, mn, mx, s =>
    (if mx == some 0 then []
     else (step s).flatMap (fun s' =>
       if s'.length < s.length then repEnds step fuel (mn - 1) (mx.map (· - 1)) s' else []))
    ++ (if mn == 0 then [s] else [])

/-- every remainder after a match of `r` at the front of the text, in Python's order of preference -/
def ends (ic : Bool) : Re → List Char → List (List Char)
  | .eps, s => [s]
  | .lit p, s => step1 (litEq ic p) s
  | .any, s => step1 (fun c => c != '\n') s
  | .set neg items, s => step1 (fun c => neg != itemsHave ic items c) s
  | .cat a b, s => (ends ic a s).flatMap (fun s' => ends ic b s')
  | .alt a b, s => ends ic a s ++ ends ic b s
  | .rep r mn mx, s => repEnds (fun s' => ends ic r s') s.length mn mx s
  | .nla r, s => if (ends ic r s).isEmpty then [s] else []
  | .eol, s => if s.isEmpty || s == ['\n'] then [s] else []

/-- what `re.match` reports: the remainder after the preferred match -/
def matchSpec (ic : Bool) (r : Re) (s : List Char) : Option (List Char) := (ends ic r s).head?

/-! ## the same search, stopping at the first success (what the compiled driver runs) -/

def step1M {α : Type} (p : Char → Bool) (s : List Char) (k : List Char → Option α) : Option α :=
  match s with
  | c :: t => if p c then k t else none
  | [] => none

def repM {α : Type} (step : List Char → (List Char → Option α) → Option α) :
    Nat → Nat → Option Nat → List Char → (List Char → Option α) → Option α
  | 0, mn, _, s, k => if mn == 0 then k s else none
  | fuel + 1, mn, mx, s, k =>
    match (if mx == some 0 then none
           else step s (fun s' =>
             if s'.length < s.length then repM step fuel (mn - 1) (mx.map (· - 1)) s' k else none)) with
    | some a => some a
    | none => if mn == 0 then k s else none

def m {α : Type} (ic : Bool) : Re → List Char → (List Char → Option α) → Option α
  | .eps, s, k => k s
  | .lit p, s, k => step1M (litEq ic p) s k
  | .any, s, k => step1M (fun c => c != '\n') s k
  | .set neg items, s, k => step1M (fun c => neg != itemsHave ic items c) s k
  | .cat a b, s, k => m ic a s (fun s' => m ic b s' k)
  | .alt a b, s, k =>
    match m ic a s k with
    | some x => some x
    | none => m ic b s k
  | .rep r mn mx, s, k => repM (fun s' k' => m ic r s' k') s.length mn mx s k
  | .nla r, s, k => if (ends ic r s).isEmpty then k s else none
  | .eol, s, k => if s.isEmpty || s == ['\n'] then k s else none

/-- `re.match(r, s)`: the remainder after the match, `none` when there is none -/
def matchFront (ic : Bool) (r : Re) (s : List Char) : Option (List Char) := m ic r s some

/-- `re.match(r, s) is not None` -/
def isMatch (ic : Bool) (r : Re) (s : List Char) : Bool := (matchFront ic r s).isSome

/-! ## static facts about a pattern -/

/-- may `r` match the empty string?  (an over-approximation: a look-ahead and `$` count as nullable) -/
def Re.nullable : Re → Bool
  | .eps => true
  | .lit _ => false
  | .any => false
  | .set _ _ => false
  | .cat a b => a.nullable && b.nullable
  | .alt a b => a.nullable || b.nullable
  | .rep r mn _ => mn == 0 || r.nullable
  | .nla _ => true
  | .eol => true

/-- no repetition has a body that may match the empty string (then "every iteration consumes" is sre's rule) -/
def Re.repOk : Re → Bool
  | .cat a b => a.repOk && b.repOk
  | .alt a b => a.repOk && b.repOk
  | .rep r _ _ => !r.nullable && r.repOk
  | .nla r => r.repOk
  | _ => true

end MontePyVerif.Regex
