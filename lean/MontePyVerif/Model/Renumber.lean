import MontePyVerif.Model.Collection
import MontePyVerif.Spec.Refs
/-!
# Model of MontePy's object links and of the numbers written at every modelled reference site (C04)

Objects have an identity (`ObjId`, per kind) and a mutable number that lives in the numbered
collection of their kind (`Model/Collection.lean`, the model proved under C06).  References hold
`ObjId`s, never numbers.  `write` re-reads the pointee's number at each of the nine reference sites
of property C04, one definition per `_update_values` of the code:

| site                         | Python                                                            | Lean                       |
|------------------------------|-------------------------------------------------------------------|----------------------------|
| surface / `#n` in geometry   | `half_space.py:UnitHalfSpace._update_node`                        | `unitHalfSpaceUpdateNode`  |
| material number of a cell    | `cell.py:Cell._update_values`                                     | `cellUpdateValues`         |
| MT card                      | `thermal_scattering.py:ThermalScatteringLaw._update_values`       | `thermalUpdateValues`      |
| transform / periodic pointer | `surface.py:Surface._update_values`                               | `surfaceUpdateValues`      |
| `U` (cell block)             | `universe_input.py:UniverseInput._update_cell_values`             | `universeUpdateCellValues` |
| `U` (data block)             | `universe_input.py:UniverseInput._collect_new_values/_tree_value` | `universeCollectNewValues` |
| `FILL` (cell block)          | `fill.py:Fill._update_cell_values/_update_cell_universes`         | `fillUpdateCellValues`     |
| `FILL` (data block)          | `fill.py:Fill._tree_value` via `CellModifierInput._collect_new_values` | `fillCollectNewValues` |
| transform number in `FILL`   | `fill.py:Fill._update_cell_values` (payload[0].value = transform.number) | `fillUpdateCellValues` |

`link` models the resolution of numbers into pointers after reading
(`mcnp_problem.py:__update_internal_pointers`, `Cell.update_pointers`, `UnitHalfSpace.update_pointers`,
`Surface.update_pointers`, `ThermalScatteringLaw.update_pointers`, `UniverseInput.push_to_cells`,
`Fill.push_to_cells`).  `setNumber` is the number setter of the five classes, i.e.
`Collection.setNumber` on the collection of the kind.

NOT modelled (outside property C04): `TRCL=n`, tally bins, `SDEF cel=`: MontePy keeps these as plain
numbers; everything that is not a number or a reference (densities, constants, comments, layout).
No imports beyond the collection model: the file is used by the compiled driver.
-/
namespace MontePyVerif.Renumber
open MontePyVerif.Collection
open MontePyVerif.Spec.Refs (WCell WSurf WMat WFile)

inductive Kind | cell | surf | mat | tr | univ
  deriving DecidableEq, Repr

/-- `UnitHalfSpace`: `_is_cell`, `_divider` (the side does not matter for references) -/
structure Leaf where
  isCell : Bool
  target : ObjId
  deriving DecidableEq, Repr

/-- pointer fields of a `Cell` after linking -/
structure CellL where
  /-- `Cell._material` -/
  mat : Option ObjId
  /-- the `UnitHalfSpace` leaves of `Cell._geometry`, in the order they are written -/
  geom : List Leaf
  /-- `Cell._universe._universe` (always set by `push_to_cells`; universe 0 is an object too) -/
  univ : ObjId
  /-- `Cell._fill._universe` (one element) or `Cell._fill._universes` flattened in writing order; `[]` = no fill -/
  fill : List ObjId
  /-- `Cell._fill._transform` when it is a numbered transform (`fill=5 (3)`) -/
  fillTr : Option ObjId

/-- pointer fields of a `Surface` -/
structure SurfL where
  /-- `Surface._transform` -/
  tr : Option ObjId
  /-- `Surface._periodic_surface` -/
  per : Option ObjId

/-- pointer fields of a `Material` -/
structure MatL where
  /-- `Material._thermal_scattering._parent_material` (`none`: the material has no MT card) -/
  mt : Option ObjId

/-- The linked problem: five numbered collections (`problem.cells`, `.surfaces`, `.materials`,
    `.transforms`, `.universes`) and the pointer fields of their members. -/
structure Prob where
  cells : St
  surfs : St
  mats : St
  trs : St
  univs : St
  cell : ObjId → CellL
  surf : ObjId → SurfL
  mat : ObjId → MatL
  /-- `problem.print_in_data_block["U"]` -/
  uData : Bool
  /-- `problem.print_in_data_block["FILL"]` -/
  fillData : Bool

def Prob.coll (p : Prob) : Kind → St
  | .cell => p.cells | .surf => p.surfs | .mat => p.mats | .tr => p.trs | .univ => p.univs

def Prob.setColl (p : Prob) (k : Kind) (s : St) : Prob :=
  match k with
  | .cell => { p with cells := s } | .surf => { p with surfs := s } | .mat => { p with mats := s }
  | .tr => { p with trs := s } | .univ => { p with univs := s }

/-- the current number of an object (`obj.number`) -/
def Prob.num (p : Prob) (k : Kind) (o : ObjId) : Int := (p.coll k).num o

/-- `obj.number = n` for an object of kind `k`: the validators `_number_validator` (cell.py,
    material.py), `_enforce_numbers` (surface.py), `_enforce_number` (transform.py) and
    `Universe.number.setter` all are `Collection.setNumber` on the problem's collection of the kind. -/
def setNumber (p : Prob) (k : Kind) (o : ObjId) (n : Int) : Prob × Out :=
  let r := Collection.setNumber (p.coll k) o n
  (p.setColl k r.1, r.2)

structure Op where
  kind : Kind
  obj : ObjId
  n : Int
  deriving Repr

def step (p : Prob) (op : Op) : Prob × Out := setNumber p op.kind op.obj op.n

/-- a history of number assignments (rejected ones leave the numbers as they are and go on) -/
def run (p : Prob) (ops : List Op) : Prob := ops.foldl (fun p op => (step p op).1) p

/-! ## Operations that are not number assignments and keep every reference

C04's histories may contain, between the renumberings and before the write, operations of the API that do not
assign a number and do not take a reference away: `problem.add_cell_children_to_problem()`, removing and appending
the last member of a collection again, and `cell.geometry = cell.geometry & ±surface` / `& ~cell` (adds one leaf).
All of them reach `link_to_problem` of existing objects.  In the code that method only sets `_problem`: the links
(`Surface._transform`, `Surface._periodic_surface`, ...) are resolved ONCE after reading (`link`) and never
looked up by number again. -/

/-- mcnp_object.py:MCNP_Object.link_to_problem (`Surface`, `Material`, `Transform` do not override it):
    `self._problem = problem` — the pointer fields of the surface are what they were -/
def surfaceLinkToProblem (p : Prob) (s : ObjId) : SurfL := p.surf s

/-- Python `sorted(objects)` with `__lt__` = `number <` (surface.py:Surface.__lt__, data_input.py:DataInput.__lt__
    inside one mnemonic): stable insertion -/
def insertByNum (num : ObjId → Int) (o : ObjId) : List ObjId → List ObjId
  | [] => [o]
  | x :: t => if num o ≤ num x then o :: x :: t else x :: insertByNum num o t

def sortByNum (num : ObjId → Int) (l : List ObjId) : List ObjId := l.foldr (insertByNum num) []

/-- `unique(objects)` of mcnp_problem.py:add_cell_children_to_problem: the first occurrence of every object, by identity -/
def uniqueById : List ObjId → List ObjId → List ObjId
  | acc, [] => acc
  | acc, o :: t => if o ∈ acc then uniqueById acc t else uniqueById (acc ++ [o]) t

/-- `Surfaces(objects, problem=self)` + `obj.link_to_problem(self)` for every member: a new collection of the same
    objects (the numbers live in the objects), cache filled by `__init__`; `none` = `NumberConflictError` -/
def rebuild (s : St) (os : List ObjId) : Option St :=
  if (os.map s.num).Nodup then
    some { s with owned := true, objs := os, cache := setAll s.num [] os, link := fun x => if x ∈ os then true else s.link x }
  else none

/-- `cell.surfaces` of the cells in order: the surface leaves of the geometries -/
def cellSurfaces (p : Prob) : List ObjId :=
  p.cells.objs.flatMap (fun c => ((p.cell c).geom.filter (fun l => !l.isCell)).map (·.target))

/-- mcnp_problem.py:MCNP_Problem.add_cell_children_to_problem — the surfaces, materials and transforms of the problem
    and of its cells, `unique` by identity and `sorted` by number, become the new collections (all built before any
    is replaced: a number conflict changes nothing); every member is linked to the problem again
    (`surfaceLinkToProblem`: no pointer field changes). -/
def addCellChildrenToProblem (p : Prob) : Prob × Out :=
  let surfaces := sortByNum p.surfs.num (uniqueById [] (p.surfs.objs ++ cellSurfaces p))
  let materials := sortByNum p.mats.num (uniqueById [] (p.mats.objs ++ p.cells.objs.filterMap (fun c => (p.cell c).mat)))
  let transforms := sortByNum p.trs.num (uniqueById [] (p.trs.objs ++ (cellSurfaces p).filterMap (fun s => (p.surf s).tr)))
  match rebuild p.surfs surfaces, rebuild p.mats materials, rebuild p.trs transforms with
  | some s', some m', some t' => ({ p with surfs := s', mats := m', trs := t', surf := surfaceLinkToProblem p }, .ok)
  | _, _, _ => (p, .err .numberConflict)

/-- `cell.geometry = cell.geometry & ±surface` / `& ~cell` (cell.py:Cell.geometry setter,
    half_space.py:HalfSpace._add_new_children_to_cell): one more leaf behind the others; a divider that is new to the
    cell is appended to `cell.surfaces` / `cell.complements` (free-standing collections) and linked to the problem —
    no pointer field of the divider changes -/
def addLeaf (p : Prob) (c : ObjId) (l : Leaf) : Prob :=
  { p with cell := fun x => if x = c then { p.cell c with geom := (p.cell c).geom ++ [l] } else p.cell x }

/-- `coll.remove(last); coll.append(last)` on the problem's collection of kind `k` (the collection model of C06) -/
def reappendLast (p : Prob) (k : Kind) : Prob × Out :=
  match (p.coll k).objs.getLast? with
  | none => (p, .err .indexError)
  | some o =>
    let r := Collection.remove (p.coll k) o
    let a := Collection.append r.1 o
    (p.setColl k a.1, a.2)

/-- one operation of a history: a number assignment or one of the reference-preserving operations -/
inductive Edit
  | num (op : Op)
  | relink
  | addLeaf (c : ObjId) (l : Leaf)

def stepE (p : Prob) : Edit → Prob × Out
  | .num op => step p op
  | .relink => addCellChildrenToProblem p
  | .addLeaf c l => (addLeaf p c l, .ok)

def runE (p : Prob) (es : List Edit) : Prob := es.foldl (fun p e => (stepE p e).1) p

/-! ## The written file (numbers only; the types are `Spec/Refs.lean`'s: the file is the interface) -/

/-- half_space.py:UnitHalfSpace._update_node — `self._node.value = self.divider.number` -/
def unitHalfSpaceUpdateNode (p : Prob) (l : Leaf) : Bool × Int :=
  (l.isCell, if l.isCell then p.cells.num l.target else p.surfs.num l.target)

/-- universe_input.py:UniverseInput._update_cell_values + has_information + CellModifierInput.format_for_mcnp_input:
    written in the cell block iff `U` is not printed in the data block and the universe is not 0 -/
def universeUpdateCellValues (p : Prob) (c : ObjId) : Option Int :=
  if p.uData = false ∧ p.univs.num (p.cell c).univ ≠ 0 then some (p.univs.num (p.cell c).univ) else none

/-- fill.py:Fill._update_cell_universes — `self.universe.number` / `self.universes[i][j][k].number` -/
def fillUpdateCellUniverses (p : Prob) (c : ObjId) : List Int :=
  if p.fillData = false then (p.cell c).fill.map p.univs.num else []

/-- fill.py:Fill._update_cell_values — `payload[0].value = self.transform.number`
    (only written together with the fill itself) -/
def fillUpdateCellTransform (p : Prob) (c : ObjId) : Option Int :=
  if p.fillData = false ∧ (p.cell c).fill ≠ [] then (p.cell c).fillTr.map p.trs.num else none

/-- cell.py:Cell._update_values — `mat_num = self.material.number` or 0, geometry, cell modifiers -/
def cellUpdateValues (p : Prob) (c : ObjId) : WCell :=
  { number := p.cells.num c
    mat := match (p.cell c).mat with | some m => p.mats.num m | none => 0
    geom := (p.cell c).geom.map (unitHalfSpaceUpdateNode p)
    u := universeUpdateCellValues p c
    fill := fillUpdateCellUniverses p c
    fillTr := fillUpdateCellTransform p c }

/-- surface.py:Surface._update_values — the transform wins over the periodic surface;
    with neither the pointer node is left alone (there is none after linking a surface without pointer) -/
def surfaceUpdateValues (p : Prob) (s : ObjId) : WSurf :=
  { number := p.surfs.num s
    tr := (p.surf s).tr.map p.trs.num
    per := match (p.surf s).tr with | some _ => none | none => (p.surf s).per.map p.surfs.num }

/-- thermal_scattering.py:ThermalScatteringLaw._update_values — `classifier.number = parent_material.number`;
    material.py:Material.format_for_mcnp_input writes the MT card behind its material -/
def thermalUpdateValues (p : Prob) (m : ObjId) : WMat :=
  { number := p.mats.num m, mt := (p.mat m).mt.map p.mats.num }

/-- universe_input.py:UniverseInput._collect_new_values (`_tree_value`: `val.value = self.universe.number`;
    0 becomes a jump) + `_is_worth_printing` -/
def universeCollectNewValues (p : Prob) : Option (List Int) :=
  if p.uData = true ∧ p.cells.objs.any (fun c => p.univs.num (p.cell c).univ ≠ 0) then
    some (p.cells.objs.map (fun c => p.univs.num (p.cell c).univ))
  else none

/-- fill.py:Fill._tree_value via cell_modifier.py:CellModifierInput._collect_new_values
    (`val.value = self.universe.number if self.universe else None`) + `_is_worth_printing` -/
def fillCollectNewValues (p : Prob) : Option (List (Option Int)) :=
  if p.fillData = true ∧ p.cells.objs.any (fun c => (p.cell c).fill ≠ []) then
    some (p.cells.objs.map (fun c => (p.cell c).fill.head?.map p.univs.num))
  else none

/-- mcnp_problem.py:write_to_file restricted to numbers: every object in collection order -/
def write (p : Prob) : WFile :=
  { cells := p.cells.objs.map (cellUpdateValues p)
    surfs := p.surfs.objs.map (surfaceUpdateValues p)
    mats := p.mats.objs.map (thermalUpdateValues p)
    trs := p.trs.objs.map p.trs.num
    uCard := universeCollectNewValues p
    fillCard := fillCollectNewValues p }

/-! ## Histories with writes in between (round 7, seeded C04f) -/

/-- one item of a history in which the problem is also written on the way: an edit, or
    `mcnp_problem.py:MCNP_Problem.write_to_file` (`none`) -/
abbrev Item := Option Edit

/-- `write_to_file` in the middle of a history: the file of that moment is `write p`, and the problem is the same
    afterwards — numbers, members, pointer fields.  What a write leaves behind are the values of the syntax-tree
    nodes; every `_update_values` / `_update_node` / `_tree_value` above assigns them from the pointers
    unconditionally, so no later write reads what an earlier one left (they are not part of the state). -/
def stepW (acc : Prob × List WFile) : Item → Prob × List WFile
  | none => (acc.1, acc.2 ++ [write acc.1])
  | some e => ((stepE acc.1 e).1, acc.2)

/-- the final problem and the files written on the way, in order -/
def runW (p : Prob) (is : List Item) : Prob × List WFile := is.foldl stepW (p, [])

/-! ## Linking after reading -/

/-- a collection as `MCNP_Problem.parse_input` leaves it: members in file order, object `i` is card `i`.
    The number cache starts empty (under C06's invariant look-ups do not depend on it). -/
def mkColl (nums : List Int) : St :=
  { owned := true, objs := List.range nums.length, cache := [], num := fun o => nums.getD o 0, link := fun _ => true }

/-- `collection[number]` at link time (`KeyError` = `none`) -/
def lookup (s : St) (n : Int) : Option ObjId := (Collection.get s n).2

/-- universe_input.py:UniverseInput.push_to_cells — one `Universe` per distinct number, in the order
    the cells use them (`if uni_num not in universes.numbers: universes.append(Universe(uni_num))`) -/
def pushUniverses : List Int → List Int → List Int
  | acc, [] => acc
  | acc, u :: t => if u ∈ acc then pushUniverses acc t else pushUniverses (acc ++ [u]) t

/-- cell.py:Cell.old_universe_number after universe_input.py:UniverseInput.push_to_cells handed the data-block
    nodes to the cells: cell-block entry, else data-block card, else 0 (`u=-n` is universe `n`, not truncated) -/
def oldUniverseNumber (wf : WFile) (i : Nat) : Int :=
  match (wf.cells[i]?).bind (·.u) with
  | some n => n
  | none => match wf.uCard with
    | some l => l.getD i 0
    | none => 0

/-- fill.py:Fill.old_universe_number(s) after Fill.push_to_cells handed the data-block nodes to the cells -/
def oldFillNumbers (wf : WFile) (i : Nat) : List Int :=
  match wf.cells[i]? with
  | none => []
  | some c =>
    if c.fill ≠ [] then c.fill
    else match wf.fillCard with
      | some l => (match l[i]? with | some (some n) => [n] | _ => [])
      | none => []

def optBind {α β} (o : Option α) (f : α → Option β) : Option (Option β) :=
  match o with
  | none => some none
  | some a => match f a with
    | none => none
    | some b => some (some b)

/-- half_space.py:UnitHalfSpace.update_pointers — `self._divider = container[self._divider]` with the cells
    (for `#n`) or the surfaces as container -/
def linkLeaf (cells surfs : St) (l : Bool × Int) : Option Leaf :=
  (lookup (if l.1 then cells else surfs) l.2).map (fun t => { isCell := l.1, target := t })

/-- cell.py:Cell.update_pointers (`materials[self.old_mat_number]`), half_space.py:UnitHalfSpace.update_pointers
    (`container[self._divider]`), universe_input.py:UniverseInput.push_to_cells (`universes[uni_num]`),
    fill.py:Fill.push_to_cells (`universes[number]`, `transforms[self.old_transform_number]`) for cell card `i` -/
def linkCell (wf : WFile) (cells surfs mats trs univs : St) (i : Nat) : Option CellL := do
  let c ← wf.cells[i]?
  let mat ← if c.mat = 0 then some none else (lookup mats c.mat).map some
  let geom ← c.geom.mapM (linkLeaf cells surfs)
  let univ ← lookup univs (oldUniverseNumber wf i)
  let fill ← (oldFillNumbers wf i).mapM (lookup univs)
  let fillTr ← optBind c.fillTr (lookup trs)
  pure { mat, geom, univ, fill, fillTr }

/-- surface.py:Surface.update_pointers -/
def linkSurf (surfs trs : St) (s : WSurf) : Option SurfL := do
  let tr ← optBind s.tr (lookup trs)
  let per ← optBind s.per (lookup surfs)
  pure { tr, per }

/-- thermal_scattering.py:ThermalScatteringLaw.update_pointers (the MT card is attached to the material
    with its number by material.py:Material.update_pointers) -/
def linkMat (mats : St) (m : WMat) : Option MatL := do
  let mt ← optBind m.mt (lookup mats)
  pure { mt }

/-- mcnp_problem.py:__update_internal_pointers; `none` = `BrokenObjectLinkError` / `KeyError` while linking -/
def link (wf : WFile) : Option Prob :=
  let cells := mkColl (wf.cells.map (·.number))
  let surfs := mkColl (wf.surfs.map (·.number))
  let mats := mkColl (wf.mats.map (·.number))
  let trs := mkColl wf.trs
  let univs := mkColl (pushUniverses [] ((List.range wf.cells.length).map (oldUniverseNumber wf)))
  match (List.range wf.cells.length).mapM (linkCell wf cells surfs mats trs univs),
        wf.surfs.mapM (linkSurf surfs trs), wf.mats.mapM (linkMat mats) with
  | some cellL, some surfL, some matL =>
    some { cells, surfs, mats, trs, univs,
           cell := fun o => cellL.getD o { mat := none, geom := [], univ := 0, fill := [], fillTr := none },
           surf := fun o => surfL.getD o { tr := none, per := none },
           mat := fun o => matL.getD o { mt := none },
           uData := wf.uCard.isSome, fillData := wf.fillCard.isSome }
  | _, _, _ => none

end MontePyVerif.Renumber
