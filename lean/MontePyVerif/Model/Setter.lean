import MontePyVerif.Gen.SetterDecls
/-!
# Model of MontePy's property setters and multi-step mutators (C14)

Part A — the two *generated* setter templates of `montepy/utilities.py`
(`make_prop_val_node`, `make_prop_pointer`) as an interpreter of step lists.  The step lists
themselves are extracted from the source (`Gen/SetterDecls.lean`), so the order
"type check → conversion → validator → assignment" is the code's, not this file's.

Part B — every hand-written setter / multi-step mutator the property anchors in, one definition
per Python function, in its ACTUAL statement order.  Every function returns `Res σ`:
`ok s'` (the call returned) or `err e s'` where `s'` is the state *at the raise point*.
The model follows the repaired code (`fix:` commits of branch fix-C14).

Python values are abstracted to what the checks look at (`Atom`, `Val`).  No imports outside
Lean core and the generated table: the file is used by the compiled driver.
-/

namespace MontePyVerif.Setter

open MontePyVerif.Gen

/-- exception classes as far as the harness distinguishes them (class names, section 2.4) -/
inductive Err
  | typeError | valueError | numberConflict | keyError | particleNotInProblem | overflowError | other
  deriving DecidableEq, Repr

/-- result of a call: returned, or raised with the state at the raise point -/
inductive Res (σ : Type)
  | ok (s : σ)
  | err (e : Err) (s : σ)
  deriving DecidableEq, Repr

def Res.state {σ : Type} : Res σ → σ
  | .ok s => s
  | .err _ s => s

def Res.isErr {σ : Type} : Res σ → Bool
  | .ok _ => false
  | .err _ _ => true

/-! ## Python values -/

/-- a scalar Python value, abstracted -/
inductive Atom
  | none
  | bool (b : Bool)
  | int (n : Int)
  /-- an `int` too large for `float()` (e.g. `10**400`) -/
  | hugeInt
  | float (q : Rat)
  | nan
  /-- a `str`; `some k`: it names member `k` of the enum the callee converts it to
      (`Particle`, `SurfaceType`); `none`: it names no member -/
  | str (code : Option Nat)
  | particle (p : Nat)
  /-- an instance of the MontePy class `cls` (exact class name) with number `num`;
      `flag`: `Transform.hidden_transform` for transforms, "is a member of the problem" otherwise -/
  | obj (cls : String) (num : Int) (flag : Bool)
  deriving DecidableEq, Repr

/-- what kind of object the divider of a geometry leaf is -/
inductive DivKind | cell | surface | other
  deriving DecidableEq, Repr

/-- one leaf (`UnitHalfSpace`) of a geometry tree, left to right, as `_add_new_children_to_cell` looks at it -/
structure Leaf where
  /-- the leaf's `is_cell` flag: which container of the cell the divider goes to -/
  asCell : Bool
  /-- what the divider object really is (`other`: an unresolved `int`, or anything else) -/
  kind : DivKind
  num : Int
  /-- `divider in parent` for the container the flag selects (`==` of the divider classes) -/
  member : Bool
  /-- identity of the divider object: leaves with the same divider share it -/
  oid : Nat
  deriving DecidableEq, Repr

/-- an argument of a call -/
inductive Val
  | atom (a : Atom)
  /-- a `HalfSpace` tree: its text (`str`) and its leaves -/
  | geom (text : String) (leaves : List Leaf)
  | list (xs : List Atom)
  | tuple (xs : List Atom)
  | set (xs : List Atom)
  /-- a `str` as `Mode.set` reads it: `split()` into particle names -/
  | words (xs : List (Option Nat))
  | ndarray (xs : List Rat)
  /-- a numbered collection of class `cls` (`Cells`, `Materials`); `isSelf`: it *is* the problem's own -/
  | coll (cls : String) (xs : List Atom) (isSelf : Bool)
  | dict
  deriving Repr

/-- `isinstance(a, numbers.Number)` -/
def Atom.isNumber : Atom → Bool
  | .bool _ | .int _ | .hugeInt | .float _ | .nan => true
  | _ => false

/-- `isinstance(a, int)` (a `bool` is an `int`) and its value -/
def Atom.asInt? : Atom → Option Int
  | .bool b => some (if b then 1 else 0)
  | .int n => some n
  | _ => Option.none

/-- the exact value of a number where it has one that fits a double -/
def Atom.asRat? : Atom → Option Rat
  | .bool b => some (if b then 1 else 0)
  | .int n => some n
  | .float q => some q
  | _ => Option.none

/-- `a < 0` for a number (`nan < 0` is `False`; a huge int is taken positive) -/
def Atom.isNeg (a : Atom) : Bool :=
  match a.asRat? with
  | some q => decide (q < 0)
  | Option.none => false

/-- `float(a)` for a number -/
def Atom.toFloat (a : Atom) : Except Err Atom :=
  match a with
  | .bool b => .ok (.float (if b then 1 else 0))
  | .int n => .ok (.float n)
  | .float q => .ok (.float q)
  | .nan => .ok .nan
  | .hugeInt => .error .overflowError
  | _ => .error .typeError

/-! ## Part A — generated setters -/

/-- what one generated property is made of (the arguments of `make_prop_*`), semantically -/
structure GenCtx (σ α : Type) where
  /-- `isinstance(value, types)`; `types = ()` stands for `type(self)`, hence the state argument -/
  isInst : σ → α → Bool
  /-- `base_type(value)` when `base_type` is given and the value is not one already -/
  convert : α → Except Err α
  /-- `validator(self, value)`: returns (possibly having changed the state: `_link_geometry_to_cell`,
      `_link_child_to_cell` add the new dividers to the cell) or raises, with the state at the raise point -/
  validate : σ → α → Res σ
  /-- `node.value = value` / `setattr(self, hidden_param, value)` -/
  assign : σ → α → σ
  /-- pre-repair code only: `types = type(self)` written into the closure shared by all instances -/
  latch : σ → σ

/-- can this statement raise? -/
def stepRaises : SetterStep → Bool
  | .isinstance | .convert | .validate | .other => true
  | _ => false

/-- does this statement change state that outlives the call?  (A validator may: the geometry validators do.) -/
def stepAssigns : SetterStep → Bool
  | .latchTypes | .assign | .validate | .other => true
  | _ => false

/-- utilities.py: `setter` of `make_prop_val_node` / `make_prop_pointer`, statement by statement -/
def runSteps {σ α : Type} (c : GenCtx σ α) : List SetterStep → σ → α → Res σ
  | [], s, _ => .ok s
  | st :: rest, s, v =>
    match st with
    | .resolveTypes => runSteps c rest s v
    | .fetch => runSteps c rest s v
    | .latchTypes => runSteps c rest (c.latch s) v
    | .isinstance => if c.isInst s v then runSteps c rest s v else .err .typeError s
    | .convert =>
      match c.convert v with
      | .ok v' => runSteps c rest s v'
      | .error e => .err e s
    | .validate =>
      match c.validate s v with
      | .ok s1 => runSteps c rest s1 v
      | .err e s1 => .err e s1
    | .assign => runSteps c rest (c.assign s v) v
    -- a statement the translator does not recognise: assume the worst (it assigns, then raises)
    | .other => .err .other (c.assign s v)

/-- the order property the theorem needs: once a statement has assigned, nothing can raise.  The validator
    is the one statement that may do both; it is required to be all-or-nothing by itself
    (hypothesis `ValidatorAtomic` of `C14_generated`), and nothing may raise after it. -/
def safeOrder : List SetterStep → Bool
  | [] => true
  | st :: rest =>
    if stepAssigns st then (st == .validate || !stepRaises st) && rest.all (fun t => !stepRaises t)
    else safeOrder rest

/-- a validator that raises leaves the state as it was -/
def ValidatorAtomic {σ α : Type} (c : GenCtx σ α) : Prop :=
  ∀ (s : σ) (v : α) (e : Err) (s' : σ), c.validate s v = .err e s' → s' = s

/-! ### concrete instance used by the correspondence: one object, one hidden attribute -/

/-- the object a generated setter is called on, as far as the setter looks at it -/
structure GObj where
  /-- exact class name of `self` -/
  cls : String
  /-- the value behind `hidden_param` -/
  value : Atom
  /-- `self._problem` is set -/
  linked : Bool
  /-- the numbers in use in the collection the number validators consult -/
  taken : List Int
  deriving Repr

/-- subclass relation among the classes that occur as `types` (reflexive closure is in `isSub`) -/
def superOf : String → List String
  | "AxisPlane" | "CylinderOnAxis" | "CylinderParAxis" | "GeneralPlane" => ["Surface"]
  | "UnitHalfSpace" => ["HalfSpace"]
  | _ => []

def isSub (c d : String) : Bool := c == d || (superOf c).contains d

/-- `isinstance(a, <class named n>)` -/
def isInstName (a : Atom) (n : String) : Bool :=
  match a with
  | .none => n == "NoneType"
  | .bool _ => n == "bool" || n == "int"
  | .int _ | .hugeInt => n == "int"
  | .float _ | .nan => n == "float"
  | .str _ => n == "str"
  | .particle _ => n == "Particle"
  | .obj c _ _ => isSub c n

/-- `base_type(value)` by the name of `base_type` -/
def convertBy (pointer : Bool) (base : Option String) (a : Atom) : Except Err Atom :=
  match base with
  | Option.none => .ok a
  | some b =>
    -- make_prop_val_node skips `None`; make_prop_pointer does not
    if !pointer && a == .none then .ok a
    else if isInstName a b then .ok a
    else match b with
      | "float" => a.toFloat
      | "int" =>
        match a with
        | .float q => .ok (.int q.floor)   -- int() truncates; the harness only sends non-negative floats here
        | .nan => .error .valueError
        | _ => .error .typeError
      | _ =>
        -- an Enum class (`Lattice`, `SurfaceType`): look-up by value
        match a with
        | .str (some k) => .ok (.obj b k true)
        | .int n => if n = 1 ∨ n = 2 then .ok (.obj b n true) else .error .valueError   -- Lattice(1|2)
        | _ => .error .valueError

/-- the validators, by function name -/
def validateBy (name : Option String) (s : GObj) (a : Atom) : Option Err :=
  match name with
  | Option.none => Option.none
  | some "_number_validator" | some "_enforce_numbers" | some "_enforce_number" =>
    match a.asInt? with
    | Option.none => some .typeError
    | some n =>
      if n ≤ 0 then some .valueError
      else if s.linked && s.taken.contains n then some .numberConflict
      else Option.none
  | some "_enforce_positive_radius" =>
    -- `value < 0`: `None < 0` is a TypeError
    if a == .none then some .typeError else if a.isNeg then some .valueError else Option.none
  | some "_ensure_positive" =>
    -- volume.py (repaired): `value is not None and value < 0` — `None` unsets the volume
    if a == .none then Option.none else if a.isNeg then some .valueError else Option.none
  | some "_enforce_positive" =>
    match a.asRat? with
    | some q => if q ≤ 0 then some .valueError else Option.none
    | Option.none => Option.none   -- nan <= 0 is False
  | some _ => Option.none   -- `_link_geometry_to_cell` and unknown validators: never raise in the model

def declCtx (d : SetterDecl) : GenCtx GObj Atom where
  isInst := fun s a =>
    match d.types with
    | .emptyTuple => (match a with | .obj c _ _ => isSub c s.cls | _ => false)
    | _ => d.typeNames.any (isInstName a)
  convert := convertBy d.pointer d.baseType
  validate := fun s a => match validateBy d.validator s a with
    | Option.none => .ok s
    | some e => .err e s
  assign := fun s a => { s with value := a }
  latch := fun s => s

/-- the generated setter of declaration `d`, with the statement order of the code -/
def genSetter (d : SetterDecl) (s : GObj) (a : Atom) : Res GObj :=
  runSteps (declCtx d) (if d.pointer then pointerSteps else valNodeSteps) s a

/-! ## Part B — hand-written setters and multi-step mutators -/

structure CellSt where
  number : Int
  isAtomDens : Bool
  density : Option Rat
  /-- `cell.importance._particle_importances`: particle ↦ value, sorted by particle -/
  imps : List (Nat × Rat)
  /-- number of `cell.universe` -/
  univ : Int
  notTruncated : Bool
  fillMulti : Bool
  fillUniverse : Option Int
  fillHasUniverses : Bool
  fillTransform : Option Int
  fillHidden : Bool
  /-- `str(cell.geometry)` -/
  geometry : String
  /-- numbers of `cell.complements`, in order -/
  complements : List Int
  /-- numbers of `cell.surfaces`, in order -/
  surfaces : List Int
  deriving DecidableEq, Repr

structure SurfSt where
  number : Int
  constants : List Rat
  reflecting : Bool
  white : Bool
  deriving DecidableEq, Repr

structure TrSt where
  number : Int
  displacement : List Rat
  rotation : List Rat
  deriving DecidableEq, Repr

/-- the part of an `MCNP_Problem` the modelled mutators read or write -/
structure World where
  /-- `problem.mode._particles`, a set: sorted, duplicate-free -/
  mode : List Nat
  cells : List CellSt
  surfaces : List SurfSt
  transforms : List TrSt
  /-- numbers of `problem.universes`, in order -/
  universes : List Int
  /-- numbers of `problem.materials`, in order -/
  materials : List Int
  version : List Int
  deriving DecidableEq, Repr

/-- `set.add` on a sorted duplicate-free list -/
def setAdd (p : Nat) : List Nat → List Nat
  | [] => [p]
  | q :: t => if p < q then p :: q :: t else if p = q then q :: t else q :: setAdd p t

def assocSet (k : Nat) (v : Rat) : List (Nat × Rat) → List (Nat × Rat)
  | [] => [(k, v)]
  | (k', v') :: t => if k < k' then (k, v) :: (k', v') :: t else if k = k' then (k, v) :: t else (k', v') :: assocSet k v t

def assocHas (k : Nat) (l : List (Nat × Rat)) : Bool := l.any (fun p => p.1 == k)

/-- apply a mutator of one element of a list, keeping the state at the raise point -/
def atIdx {α : Type} (l : List α) (i : Nat) (f : α → Res α) : Res (List α) :=
  match l[i]? with
  | Option.none => .err .other l
  | some c =>
    match f c with
    | .ok c' => .ok (l.set i c')
    | .err e c' => .err e (l.set i c')

def onCells (w : World) (i : Nat) (f : CellSt → Res CellSt) : Res World :=
  match atIdx w.cells i f with
  | .ok cs => .ok { w with cells := cs }
  | .err e cs => .err e { w with cells := cs }

def onSurfaces (w : World) (i : Nat) (f : SurfSt → Res SurfSt) : Res World :=
  match atIdx w.surfaces i f with
  | .ok ss => .ok { w with surfaces := ss }
  | .err e ss => .err e { w with surfaces := ss }

def onTransforms (w : World) (i : Nat) (f : TrSt → Res TrSt) : Res World :=
  match atIdx w.transforms i f with
  | .ok ts => .ok { w with transforms := ts }
  | .err e ts => .err e { w with transforms := ts }

/-! ### mode.py -/

/-- mode.py:Mode._parse_and_override_particle_modes — the parsing loop (repaired code: into a
    local set; the mode is overridden only after the loop) -/
def parseModes : List Atom → List Nat → Except Err (List Nat)
  | [], acc => .ok acc
  | .str (some p) :: t, acc => parseModes t (setAdd p acc)
  | .str Option.none :: _, _ => .error .valueError
  | _ :: _, _ => .error .typeError

/-- the first loop of `Mode.set` over a list/set: element types, and "is every element a str" -/
def modeScan : List Atom → Bool → Except Err Bool
  | [], isStr => .ok isStr
  | .str _ :: t, isStr => modeScan t isStr
  | .particle _ :: t, _ => modeScan t false
  | _ :: _, _ => .error .typeError

/-- the `else` branch of `Mode.set`: every element must be a Particle -/
def modeParticles : List Atom → List Nat → Except Err (List Nat)
  | [], acc => .ok acc
  | .particle p :: t, acc => modeParticles t (setAdd p acc)
  | _ :: _, _ => .error .valueError

def modeSetList (w : World) (xs : List Atom) : Res World :=
  match modeScan xs true with
  | .error e => .err e w
  | .ok true =>
    match parseModes xs [] with
    | .error e => .err e w
    | .ok ps => .ok { w with mode := ps }
  | .ok false =>
    match modeParticles xs [] with
    | .error e => .err e w
    | .ok ps => .ok { w with mode := ps }

/-- mode.py:Mode.set -/
def modeSet (w : World) : Val → Res World
  | .list xs => modeSetList w xs
  | .set xs => modeSetList w xs
  | .words ws =>
    match parseModes (ws.map Atom.str) [] with
    | .error e => .err e w
    | .ok ps => .ok { w with mode := ps }
  | .atom (.str c) =>
    match parseModes [Atom.str c] [] with
    | .error e => .err e w
    | .ok ps => .ok { w with mode := ps }
  | _ => .err .typeError w

/-- mode.py:Mode.add -/
def modeAdd (w : World) : Val → Res World
  | .atom (.particle p) => .ok { w with mode := setAdd p w.mode }
  | .atom (.str (some p)) => .ok { w with mode := setAdd p w.mode }
  | .atom (.str Option.none) => .err .valueError w
  | _ => .err .typeError w

/-- mode.py:Mode.remove -/
def modeRemove (w : World) (v : Val) : Res World :=
  let go (p : Nat) : Res World :=
    if w.mode.contains p then .ok { w with mode := w.mode.filter (fun q => q != p) } else .err .keyError w
  match v with
  | .atom (.particle p) => go p
  | .atom (.str (some p)) => go p
  | .atom (.str Option.none) => .err .valueError w
  | _ => .err .typeError w

/-! ### importance.py, cells.py -/

/-- importance.py:Importance.__setitem__ (also the per-particle setters `importance.neutron = x`) -/
def impSetItem (mode : List Nat) (particle : Val) (v : Val) (c : CellSt) : Res CellSt :=
  match particle with
  | .atom (.particle p) =>
    if !mode.contains p then .err .particleNotInProblem c
    else match v with
      | .atom a =>
        if !a.isNumber then .err .typeError c
        else if a.isNeg then .err .valueError c
        else match a.asRat? with
          | some q => .ok { c with imps := assocSet p q c.imps }
          | Option.none => .ok c   -- nan / huge int: stored as given; not representable here
      | _ => .err .typeError c
  | _ => .err .typeError c

/-- the checks of `Importance.all` depend on the value only -/
def impAllRejects : Val → Option Err
  | .atom a =>
    if !a.isNumber then some .typeError
    else match a.toFloat with
      | .error e => some e
      | .ok f => if f.isNeg then some .valueError else Option.none
  | _ => some .typeError

/-- the assignment loop of `Importance.all` over the particles of the mode (repaired code: a
    particle the cell has no importance for yet gets one, as in `__setitem__`) -/
def impAllLoop (q : Rat) : List Nat → List (Nat × Rat) → List (Nat × Rat)
  | [], imps => imps
  | p :: t, imps => impAllLoop q t (assocSet p q imps)

/-- importance.py:Importance.all (setter) -/
def impAll (mode : List Nat) (v : Val) (c : CellSt) : Res CellSt :=
  match impAllRejects v with
  | some e => .err e c
  | Option.none =>
    match v with
    | .atom a =>
      match a.asRat? with
      | some q => .ok { c with imps := impAllLoop q mode c.imps }
      | Option.none => .ok c
    | _ => .ok c

/-- importance.py:Importance.__delitem__ -/
def impDel (particle : Val) (c : CellSt) : Res CellSt :=
  match particle with
  | .atom (.particle p) =>
    if assocHas p c.imps then .ok { c with imps := c.imps.filter (fun x => x.1 != p) } else .err .keyError c
  | _ => .err .typeError c

/-- the first loop of `set_equal_importance`: the vacuum cells as a set of cell numbers -/
def vacuumNumbers (nums : List Int) : List Atom → List Int → Except Err (List Int)
  | [], acc => .ok acc
  | a :: t, acc =>
    match a with
    | .obj cls n _ => if isSub cls "Cell" then vacuumNumbers nums t (n :: acc) else .error .typeError
    | _ =>
      match a.asInt? with
      | some n => if nums.contains n then vacuumNumbers nums t (n :: acc) else .error .keyError
      | Option.none => .error .typeError

/-- the second loop: `for cell in self: if cell not in vacuum_cells: cell.importance.all = importance`
    — the state at the raise point keeps the cells already set -/
def equalLoop (mode : List Nat) (v : Val) (vac : List Int) : List CellSt → Res (List CellSt)
  | [] => .ok []
  | c :: t =>
    if vac.contains c.number then
      match equalLoop mode v vac t with
      | .ok t' => .ok (c :: t')
      | .err e t' => .err e (c :: t')
    else
      match impAll mode v c with
      | .err e c' => .err e (c' :: t)
      | .ok c' =>
        match equalLoop mode v vac t with
        | .ok t' => .ok (c' :: t')
        | .err e t' => .err e (c' :: t')

/-- the third loop: `for cell in vacuum_cells: cell.importance.all = 0.0` (cannot raise) -/
def vacuumLoop (mode : List Nat) (vac : List Int) (cs : List CellSt) : List CellSt :=
  cs.map (fun c => if vac.contains c.number then { c with imps := impAllLoop 0 mode c.imps } else c)

/-- cells.py:Cells.set_equal_importance -/
def setEqualImportance (w : World) (v : Val) (vacuum : Val) : Res World :=
  let go (xs : List Atom) : Res World :=
    match vacuumNumbers (w.cells.map (·.number)) xs [] with
    | .error e => .err e w
    | .ok vac =>
      match equalLoop w.mode v vac w.cells with
      | .err e cs => .err e { w with cells := cs }
      | .ok cs => .ok { w with cells := vacuumLoop w.mode vac cs }
  match vacuum with
  | .list xs => go xs
  | .tuple xs => go xs
  | .set xs => go xs
  | _ => .err .typeError w

/-! ### universe.py -/

/-- universe.py:Universe.number (setter); the universes of a problem are linked to it -/
def universeNumber (w : World) (i : Nat) (v : Val) : Res World :=
  match w.universes[i]? with
  | Option.none => .err .other w
  | some old =>
    match v with
    | .atom a =>
      match a.asInt? with
      | Option.none => .err .typeError w
      | some n =>
        if n ≤ 0 then .err .valueError w
        else if w.universes.contains n then .err .numberConflict w
        else .ok { w with universes := w.universes.set i n,
                          -- cells point at the Universe *object*: every view of its number follows
                          cells := w.cells.map (fun c =>
                            let c1 := if c.univ = old then { c with univ := n } else c
                            if c1.fillUniverse = some old then { c1 with fillUniverse := some n } else c1) }
    | _ => .err .typeError w

/-- `Cells(list)` as used by `claim` and the `cells` setter: element types, numbers used twice -/
def buildCells : List Atom → List Int → Except Err (List Int)
  | [], acc => .ok acc.reverse
  | .obj cls n _ :: t, acc =>
    if !isSub cls "Cell" then .error .typeError
    else if acc.contains n then .error .numberConflict
    else buildCells t (n :: acc)
  | _ :: _, _ => .error .typeError

/-- universe.py:Universe.claim -/
def claim (w : World) (i : Nat) (v : Val) : Res World :=
  match w.universes[i]? with
  | Option.none => .err .other w
  | some u =>
    let assign (nums : List Int) : Res World :=
      .ok { w with cells := w.cells.map (fun c => if nums.contains c.number then { c with univ := u } else c) }
    match v with
    | .atom (.obj cls n _) => if isSub cls "Cell" then assign [n] else .err .typeError w
    | .list xs =>
      match buildCells xs [] with
      | .error e => .err e w
      | .ok nums => assign nums
    | .coll cls xs _ =>
      if cls == "Cells" then
        assign (xs.filterMap (fun a => match a with | .obj _ n _ => some n | _ => Option.none))
      else .err .typeError w
    | _ => .err .typeError w

/-! ### surface.py, cylinder_par_axis.py -/

/-- the validation loop of `surface_constants`: every element a `float` -/
def allFloats : List Atom → Option (List Rat)
  | [] => some []
  | .float q :: t => (allFloats t).map (q :: ·)
  | _ :: _ => Option.none

/-- surface.py:Surface.surface_constants (setter): validates all, then assigns all -/
def surfaceConstants (v : Val) (s : SurfSt) : Res SurfSt :=
  match v with
  | .list xs =>
    if xs.length ≠ s.constants.length then .err .valueError s
    else match allFloats xs with
      | Option.none => .err .typeError s
      | some qs => .ok { s with constants := qs }
  | _ => .err .typeError s

/-- surface.py:Surface.is_reflecting (setter) -/
def isReflecting (v : Val) (s : SurfSt) : Res SurfSt :=
  match v with
  | .atom (.bool b) => .ok { s with reflecting := b }
  | _ => .err .typeError s

/-- surface.py:Surface.is_white_boundary (setter) -/
def isWhiteBoundary (v : Val) (s : SurfSt) : Res SurfSt :=
  match v with
  | .atom (.bool b) => .ok { s with white := b }
  | _ => .err .typeError s

/-- the validation loop of `coordinates`: every element a `float` or an `int` -/
def allNumbers : List Atom → Option (List Rat)
  | [] => some []
  | a :: t =>
    match a with
    | .float q => (allNumbers t).map (q :: ·)
    | .int n => (allNumbers t).map ((n : Rat) :: ·)
    | .bool b => (allNumbers t).map ((if b then 1 else 0 : Rat) :: ·)
    | _ => Option.none

/-- cylinder_par_axis.py:CylinderParAxis.coordinates (setter): the two coordinates are the first
    two surface constants -/
def coordinates (v : Val) (s : SurfSt) : Res SurfSt :=
  let go (xs : List Atom) : Res SurfSt :=
    if xs.length ≠ 2 then .err .valueError s
    else match allNumbers xs with
      | Option.none => .err .typeError s
      | some qs => .ok { s with constants := qs ++ s.constants.drop 2 }
  match v with
  | .list xs => go xs
  | .tuple xs => go xs
  | _ => .err .typeError s

/-! ### cell.py -/

/-- cell.py:Cell.atom_density / Cell.mass_density (setters; repaired code converts first) -/
def setDensity (atom : Bool) (v : Val) (c : CellSt) : Res CellSt :=
  match v with
  | .atom a =>
    if !a.isNumber then .err .typeError c
    else if a.isNeg then .err .valueError c
    else match a.toFloat with
      | .error e => .err e c
      | .ok f =>
        match f.asRat? with
        | some q => .ok { c with isAtomDens := atom, density := some q }
        | Option.none => .ok { c with isAtomDens := atom }
  | _ => .err .typeError c

/-- cell.py:Cell.universe (setter) -/
def cellUniverse (v : Val) (c : CellSt) : Res CellSt :=
  match v with
  | .atom (.obj cls n _) => if isSub cls "Universe" then .ok { c with univ := n } else .err .typeError c
  | _ => .err .typeError c

/-- cell.py:Cell.not_truncated (setter) -/
def notTruncated (v : Val) (c : CellSt) : Res CellSt :=
  match v with
  | .atom (.bool b) =>
    if c.univ = 0 ∧ b = true then .err .valueError c else .ok { c with notTruncated := b }
  | _ => .err .typeError c

/-! ### half_space.py: the validator behind `Cell.geometry`, `HalfSpace.left/right`, `&=`, `|=` -/

/-- the first loop of `_add_new_children_to_cell`: the dividers as objects, left to right, into the
    two containers (`cells` for leaves flagged `is_cell`, `surfaces` otherwise), repeats by identity dropped -/
def splitLeaves : List Leaf → List Leaf → List Leaf → List Leaf × List Leaf
  | [], cs, ss => (cs.reverse, ss.reverse)
  | l :: t, cs, ss =>
    if l.asCell then
      (if cs.any (fun x => x.oid == l.oid) then splitLeaves t cs ss else splitLeaves t (l :: cs) ss)
    else
      (if ss.any (fun x => x.oid == l.oid) then splitLeaves t cs ss else splitLeaves t cs (l :: ss))

/-- phase 1 for one container: kind of every divider (repaired code), then for the new ones the number
    against the members and against the new ones before it; returns the numbers to add, in order -/
def checkContainer (want : DivKind) (parent : List Int) : List Leaf → List Int → Except Err (List Int)
  | [], acc => .ok acc.reverse
  | l :: t, acc =>
    if l.kind != want then .error .typeError
    else if l.member then checkContainer want parent t acc
    else if parent.contains l.num then .error .numberConflict
    else if acc.contains l.num then .error .numberConflict
    else checkContainer want parent t (l.num :: acc)

/-- half_space.py:HalfSpace._add_new_children_to_cell — two-phase: BOTH containers are checked before
    the first divider is added to either (phase 2, the appends of checked dividers, cannot raise) -/
def addNewChildren (c : CellSt) (leaves : List Leaf) : Res CellSt :=
  let sp := splitLeaves leaves [] []
  match checkContainer .cell c.complements sp.1 [] with
  | .error e => .err e c
  | .ok addC =>
    match checkContainer .surface c.surfaces sp.2 [] with
    | .error e => .err e c
    | .ok addS => .ok { c with complements := c.complements ++ addC, surfaces := c.surfaces ++ addS }

/-- NOT the code: the "one `extend` per container" shape (each extend all-or-nothing, the pair not).
    Kept as the witness of what `C14_geometry_validator_atomic` excludes (seeded change C14c). -/
def addNewChildrenPerContainer (c : CellSt) (leaves : List Leaf) : Res CellSt :=
  let sp := splitLeaves leaves [] []
  match checkContainer .cell c.complements sp.1 [] with
  | .error e => .err e c
  | .ok addC =>
    let c1 := { c with complements := c.complements ++ addC }
    match checkContainer .surface c1.surfaces sp.2 [] with
    | .error e => .err e c1
    | .ok addS => .ok { c1 with surfaces := c1.surfaces ++ addS }

/-- the `Cell.geometry` property as `make_prop_pointer` builds it: types `HalfSpace`, no `base_type`,
    validator `_link_geometry_to_cell` (= `_add_new_children_to_cell`, then `_set_cell`) -/
def geomCtx : GenCtx CellSt Val where
  isInst := fun _ v => match v with | .geom _ _ => true | _ => false
  convert := fun v => .ok v
  validate := fun c v => match v with | .geom _ leaves => addNewChildren c leaves | _ => .ok c
  assign := fun c v => match v with | .geom text _ => { c with geometry := text } | _ => c
  latch := fun c => c

/-- cell.py:Cell.geometry (setter): the generated pointer setter, statement order from the source -/
def cellGeometry (v : Val) (c : CellSt) : Res CellSt := runSteps geomCtx pointerSteps c v

/-- `HalfSpace.left = v`, `HalfSpace.right = v` (validator `_link_child_to_cell`), `geometry &= v`,
    `geometry |= v` on a geometry tied to a cell, as far as the cell's containers go: the new children
    are added by the same validator before anything is assigned; the tree itself is not modelled -/
def geomChild (v : Val) (c : CellSt) : Res CellSt :=
  match v with
  | .geom _ leaves => addNewChildren c leaves
  | _ => .err .typeError c

/-! ### fill.py -/

/-- fill.py:Fill.universe (setter) -/
def fillUniverse (v : Val) (c : CellSt) : Res CellSt :=
  match v with
  | .atom .none => if c.fillMulti then .err .valueError c else .ok { c with fillUniverse := Option.none }
  | .atom (.obj cls n _) =>
    if !isSub cls "Universe" then .err .typeError c
    else if c.fillMulti then .err .valueError c
    else .ok { c with fillUniverse := some n }
  | _ => .err .typeError c

/-- fill.py:Fill.universes (setter) -/
def fillUniverses (v : Val) (c : CellSt) : Res CellSt :=
  match v with
  | .atom .none => if !c.fillMulti then .err .valueError c else .ok { c with fillHasUniverses := false }
  | .ndarray _ => if !c.fillMulti then .err .valueError c else .ok { c with fillHasUniverses := true }
  | _ => .err .typeError c

/-- fill.py:Fill.multiple_universes (setter) -/
def fillMultiple (v : Val) (c : CellSt) : Res CellSt :=
  match v with
  | .atom (.bool b) => .ok { c with fillMulti := b }
  | _ => .err .typeError c

/-- fill.py:Fill.transform (setter): two assignments, nothing can raise between them -/
def fillTransform (v : Val) (c : CellSt) : Res CellSt :=
  match v with
  | .atom .none => .ok { c with fillTransform := Option.none, fillHidden := false }
  | .atom (.obj cls n hidden) =>
    if isSub cls "Transform" then .ok { c with fillTransform := some n, fillHidden := hidden } else .err .typeError c
  | _ => .err .typeError c

/-! ### transform.py -/

/-- transform.py:Transform.displacement_vector (setter) -/
def displacementVector (v : Val) (t : TrSt) : Res TrSt :=
  match v with
  | .ndarray xs => if xs.length ≠ 3 then .err .valueError t else .ok { t with displacement := xs }
  | _ => .err .typeError t

/-- transform.py:Transform.rotation_matrix (setter) -/
def rotationMatrix (v : Val) (t : TrSt) : Res TrSt :=
  match v with
  | .ndarray xs => if xs.length < 5 ∨ xs.length > 9 then .err .valueError t else .ok { t with rotation := xs }
  | _ => .err .typeError t

/-! ### mcnp_problem.py -/

def findCell (cs : List CellSt) (n : Int) : Option CellSt := cs.find? (fun c => c.number = n)

/-- the numbers of a list of objects, provided they are all of class `cls` and pairwise distinct
    (`NumberedObjectCollection.__init__`) -/
def buildColl (cls : String) : List Atom → List Int → Except Err (List Int)
  | [], acc => .ok acc.reverse
  | .obj c n _ :: t, acc =>
    if !isSub c cls then .error .typeError
    else if acc.contains n then .error .numberConflict
    else buildColl cls t (n :: acc)
  | _ :: _, _ => .error .typeError

/-- mcnp_problem.py:MCNP_Problem.cells (setter; repaired code re-checks a `Cells` argument before
    `clear()`), for arguments made of cells of this problem -/
def problemCells (w : World) (v : Val) : Res World :=
  let install (nums : List Int) : Res World := .ok { w with cells := nums.filterMap (findCell w.cells) }
  match v with
  | .list xs =>
    match buildColl "Cell" xs [] with
    | .error e => .err e w
    | .ok nums => install nums
  | .coll cls xs isSelf =>
    if cls != "Cells" then .err .typeError w
    else if isSelf then .ok w
    else match buildColl "Cell" xs [] with
      | .error e => .err e w
      | .ok nums => install nums
  | _ => .err .typeError w

/-- mcnp_problem.py:MCNP_Problem.materials (setter) -/
def problemMaterials (w : World) (v : Val) : Res World :=
  match v with
  | .list xs =>
    match buildColl "Material" xs [] with
    | .error e => .err e w
    | .ok nums => .ok { w with materials := nums }
  | .coll cls xs _ =>
    if cls != "Materials" then .err .typeError w
    else .ok { w with materials := xs.filterMap (fun a => match a with | .obj _ n _ => some n | _ => Option.none) }
  | _ => .err .typeError w

/-- Python tuple comparison `a < b` on int tuples -/
def tupleLt : List Int → List Int → Bool
  | [], [] => false
  | [], _ :: _ => true
  | _ :: _, [] => false
  | x :: xs, y :: ys => if x < y then true else if y < x then false else tupleLt xs ys

def allInts : List Atom → Option (List Int)
  | [] => some []
  | a :: t => match a.asInt? with
    | some n => (allInts t).map (n :: ·)
    | Option.none => Option.none

/-- mcnp_problem.py:MCNP_Problem.mcnp_version (setter), for tuples of ints and non-tuples -/
def mcnpVersion (w : World) (v : Val) : Res World :=
  match v with
  | .tuple xs =>
    match allInts xs with
    | Option.none => .err .typeError w
    | some ns => if tupleLt ns [5, 1, 60] then .err .valueError w else .ok { w with version := ns }
  | _ => .err .typeError w

/-! ### all modelled mutators as one transition function -/

inductive Op
  | modeSet (v : Val) | modeAdd (v : Val) | modeRemove (v : Val)
  | impSet (cell : Nat) (particle v : Val) | impAll (cell : Nat) (v : Val) | impDel (cell : Nat) (particle : Val)
  | setEqualImportance (v vacuum : Val)
  | universeNumber (u : Nat) (v : Val) | claim (u : Nat) (v : Val)
  | surfaceConstants (s : Nat) (v : Val) | isReflecting (s : Nat) (v : Val) | isWhite (s : Nat) (v : Val)
  | coordinates (s : Nat) (v : Val)
  | atomDensity (c : Nat) (v : Val) | massDensity (c : Nat) (v : Val)
  | cellUniverse (c : Nat) (v : Val) | notTruncated (c : Nat) (v : Val)
  | fillUniverse (c : Nat) (v : Val) | fillUniverses (c : Nat) (v : Val) | fillMultiple (c : Nat) (v : Val)
  | fillTransform (c : Nat) (v : Val)
  | cellGeometry (c : Nat) (v : Val) | geomChild (c : Nat) (v : Val)
  | displacement (t : Nat) (v : Val) | rotation (t : Nat) (v : Val)
  | problemCells (v : Val) | problemMaterials (v : Val) | mcnpVersion (v : Val)
  deriving Repr

def step (w : World) : Op → Res World
  | .modeSet v => modeSet w v
  | .modeAdd v => modeAdd w v
  | .modeRemove v => modeRemove w v
  | .impSet c p v => onCells w c (impSetItem w.mode p v)
  | .impAll c v => onCells w c (impAll w.mode v)
  | .impDel c p => onCells w c (impDel p)
  | .setEqualImportance v vac => setEqualImportance w v vac
  | .universeNumber u v => universeNumber w u v
  | .claim u v => claim w u v
  | .surfaceConstants s v => onSurfaces w s (surfaceConstants v)
  | .isReflecting s v => onSurfaces w s (isReflecting v)
  | .isWhite s v => onSurfaces w s (isWhiteBoundary v)
  | .coordinates s v => onSurfaces w s (coordinates v)
  | .atomDensity c v => onCells w c (setDensity true v)
  | .massDensity c v => onCells w c (setDensity false v)
  | .cellUniverse c v => onCells w c (cellUniverse v)
  | .notTruncated c v => onCells w c (notTruncated v)
  | .fillUniverse c v => onCells w c (fillUniverse v)
  | .fillUniverses c v => onCells w c (fillUniverses v)
  | .fillMultiple c v => onCells w c (fillMultiple v)
  | .fillTransform c v => onCells w c (fillTransform v)
  | .cellGeometry c v => onCells w c (cellGeometry v)
  | .geomChild c v => onCells w c (geomChild v)
  | .displacement t v => onTransforms w t (displacementVector v)
  | .rotation t v => onTransforms w t (rotationMatrix v)
  | .problemCells v => problemCells w v
  | .problemMaterials v => problemMaterials w v
  | .mcnpVersion v => mcnpVersion w v

/-- an edit script: rejected calls are skipped over as Python's `except` would (the state at the
    raise point is what the script continues from) -/
def run (w : World) (ops : List Op) : World := ops.foldl (fun w op => (step w op).state) w

/-! ### pre-repair variants, kept as witnesses of what the theorems exclude -/

/-- mode.py:Mode._parse_and_override_particle_modes before the repair: `self._particles = set()`
    first, then `add` one by one — the state at the raise point is the half-built mode -/
def parseModesOld (w : World) : List Atom → Res World
  | [] => .ok w
  | .str (some p) :: t => parseModesOld { w with mode := setAdd p w.mode } t
  | .str Option.none :: _ => .err .valueError w
  | _ :: _ => .err .typeError w

def modeSetOld (w : World) (ws : List (Option Nat)) : Res World :=
  parseModesOld { w with mode := [] } (ws.map Atom.str)

end MontePyVerif.Setter
