import MontePyVerif.Gen.Constants
/-!
# Model of `montepy/input_parser/syntax_node.py: ShortcutNode` (C08)

One definition per Python method of the *repaired* code (fix: commits of branch fix-C08).  A `ValueNode` is a
`Leaf`: identity (`id`), value as an exact rational (`none` = `None`, i.e. a jump), type tag, and its own text as
`ValueNode.format()` returns it (opaque here: number formatting is the subject of C05).  A `ShortcutNode` is an
`Sc`: type, the deque of covered nodes, `_full`, the interpolation state remembered from parsing, and what
formatting needs of `_original` / `_num_node` / `end_padding`.

Numbers: exact rationals of the doubles.  `10**x` / `math.log` of LOG_INTERPOLATE are not computable on rationals:
the model decides the same closeness on the algebraic relation `y^N ≈ e^N * ratio` with the tolerance scaled by `N`
(DESIGN 1.3); decisions can differ from the code only in a band of relative width ~1e-15 around the threshold.
No imports besides the generated constants: the file is used by the compiled driver.
-/
namespace MontePyVerif.Model.Shortcut

/-- `shortcuts.py: Shortcuts` -/
inductive Kind | rep | jmp | mul | lin | log
  deriving DecidableEq, Repr

structure Leaf where
  id : Nat
  /-- `ValueNode.value`; `none` = `None` (a jump) -/
  val : Option Rat
  /-- `ValueNode.type`: 0 = float, 1 = int, anything else = another class -/
  ty : Nat
  /-- `ValueNode.format()` as the node stands -/
  txt : String
  /-- `ValueNode.format()` once `ListNode.format` has given a node without padding the padding `" "` -/
  txtPad : String
  padNone : Bool
  neverPad : Bool
  /-- the node is new to the list, or its value changed since the list was last rebuilt (`ListNode._fresh_ids`) -/
  fresh : Bool := true
  deriving Repr

structure Sc where
  kind : Kind
  /-- `ShortcutNode._nodes` (a deque) -/
  nodes : List Leaf
  /-- `_full` (multiply directly after another shortcut takes one value only) -/
  full : Bool
  /-- `_begin`, `_end`, `_spacing` of a linear interpolate, as parsed -/
  sBegin : Rat
  sEnd : Rat
  sSpacing : Rat
  /-- the two ends and the count of a logarithmic interpolate, as parsed (`10**_begin`, `10**_end`) -/
  lBegin : Rat
  lEnd : Rat
  lN : Nat
  /-- `len(_original)` -/
  origLen : Nat
  /-- the letter(s) the shortcut is written with (case taken from `_original`) -/
  letter : String
  /-- a count of 1 is left out (`"1" not in _original[..]`) -/
  omit1 : Bool
  /-- `_num_node`: token and original value of the count -/
  numTok : Option String
  numOg : Option Int
  /-- `_original[2].format()` of an interpolate (the padding before its closing number), `" "` by default -/
  midPad : String
  /-- `end_padding.format()` (`""` when there is none) -/
  endPad : String
  /-- multiply: `_num_node.format()` for the factor of this write, and the number that text denotes -/
  mulTxt : String
  mulWritten : Option Rat
  /-- multiply: the factor it was written with (`_num_node._og_value`) -/
  mulOg : Option Rat := none
  /-- `_bound_as_product`: when it was bound it held a single node (a multiply written without a base of its own) -/
  boundAsProduct : Bool := false
  /-- `_bound_run`: the ids of the nodes it stood for when it was bound (it may always take those again) -/
  runIds : List Nat := []
  /-- `_own_start`: it was read with a first value of its own and is written with it -/
  ownStart : Bool := false
  deriving Repr

def relTol : Rat := mkRat Gen.relTolNum Gen.relTolDen
def absTol : Rat := mkRat Gen.absTolNum Gen.absTolDen

def rabs (x : Rat) : Rat := if x < 0 then -x else x

/-- `math.isclose(a, b, rel_tol=rel_tol, abs_tol=abs_tol)` (CPython's `math_isclose_impl`) -/
def isclose (a b : Rat) : Bool :=
  if a = b then true
  else
    let diff := rabs (b - a)
    decide (diff ≤ rabs (relTol * b)) || decide (diff ≤ rabs (relTol * a)) || decide (diff ≤ absTol)

/-- `math.isclose(a, b, rel_tol, abs_tol=rel_tol * scale)`: a linearly interpolated value is compared on the scale of
    its interpolation (`_interpolation_abs_tol`) -/
def iscloseScale (a b scale : Rat) : Bool :=
  isclose a b || decide (rabs (b - a) ≤ relTol * scale)

def scaleOf (a b : Rat) : Rat := if rabs a < rabs b then rabs b else rabs a

/-- closeness of `y` to the positive number whose `n`-th power is `t` (stands for `isclose(10**(..), y)`) -/
def powClose (y : Rat) (n : Nat) (t : Rat) : Bool :=
  let p := y ^ n
  decide (0 < y) && decide (rabs (p - t) ≤ (n : Rat) * relTol * (if p < t then t else p))

/-- `ShortcutNode._is_same_repeat_value` -/
def isSameRepeatValue (edge node : Leaf) : Bool :=
  if edge.ty ≠ node.ty then false
  else match edge.val, node.val with
    | some a, some b => if edge.ty ≤ 1 then isclose a b else a == b
    | _, _ => false

/-- `ShortcutNode._is_valid_interpolate_edge`; `fwd` = (`direction == 1`) -/
def isValidInterpolateEdge (s : Sc) (node : Leaf) (fwd : Bool) : Bool :=
  match node.val with
  | none => false
  | some y =>
    if s.kind == Kind.log then
      match (if fwd then s.nodes.getLast? else s.nodes.head?) with
      | none =>
        -- forward also: the first node of an interpolation written without its first value is one step in
        isclose (if fwd then s.lBegin else s.lEnd) y ||
          (fwd && powClose y (s.lN + 1) (s.lBegin ^ (s.lN + 1) * (s.lEnd / s.lBegin)))
      | some e =>
        match e.val with
        | none => false
        | some ev =>
          let n := s.lN + 1
          let ratio := if fwd then s.lEnd / s.lBegin else s.lBegin / s.lEnd
          powClose y n (ev ^ n * ratio)
    else
      match (if fwd then s.nodes.getLast? else s.nodes.head?) with
      | none =>
        iscloseScale (if fwd then s.sBegin else s.sEnd) y (scaleOf s.sBegin s.sEnd) ||
          (fwd && iscloseScale (s.sBegin + s.sSpacing) y (scaleOf s.sBegin s.sEnd))
      | some e =>
        match e.val with
        | none => false
        | some ev => iscloseScale (if fwd then ev + s.sSpacing else ev - s.sSpacing) y (scaleOf s.sBegin s.sEnd)

/-- `ShortcutNode._is_product`: `p` is `b` times the factor the multiply was written with -/
def isProduct (s : Sc) (b p : Rat) : Bool :=
  match s.mulOg with
  | some f => isclose (b * f) p
  | none => false

/-- `ShortcutNode._can_consume_node`; returns the shortcut too because MULTIPLY updates `_full` -/
def canConsumeNode (s : Sc) (node : Leaf) (fwd : Bool) (lastEdgeShortcut : Bool) : Bool × Sc :=
  match s.kind with
  | .jmp => (node.val.isNone, s)
  | .rep =>
    match s.nodes with
    | [] => (node.val.isSome, s)
    | first :: _ =>
      if fwd then (isSameRepeatValue first node, s)
      else (s.nodes.all (fun o => isSameRepeatValue o node), s)
  | .lin | .log => (isValidInterpolateEdge s node fwd, s)
  | .mul =>
    if node.val.isNone then (false, s)
    else match s.nodes with
      | [] => (true, { s with full := s.boundAsProduct })
      | [bn] =>
        -- it only grows at its end, and only by base times the factor it was written with (`_is_product`)
        (!s.full && fwd && (match bn.val, node.val with
          | some b, some p => isProduct s b p
          | _, _ => false), s)
      | _ => (false, s)

/-- `ListNode._may_take`: one of the nodes the shortcut stood for so far, or a fresh node -/
def mayTake (s : Sc) (v : Leaf) : Bool := s.runIds.contains v.id || v.fresh

/-- `ShortcutNode.consume_edge_node` -/
def consumeEdgeNode (s : Sc) (node : Leaf) (fwd : Bool) (lastEdgeShortcut : Bool) : Bool × Sc :=
  let (ok, s') := canConsumeNode s node fwd lastEdgeShortcut
  if ok then (true, { s' with nodes := if fwd then s'.nodes ++ [node] else node :: s'.nodes })
  else (false, s')

/-- `self._may_take(shortcut, value) and shortcut.consume_edge_node(value, ...)` (growth of a shortcut) -/
def guardedConsume (s : Sc) (node : Leaf) (fwd : Bool) (lastEdgeShortcut : Bool) : Bool × Sc :=
  if mayTake s node then consumeEdgeNode s node fwd lastEdgeShortcut else (false, s)

/-! ## Formatting -/

/-- one word of the written list, structured (the theorems talk about these) -/
inductive Word
  | num (l : Leaf)
  | rep (n : Nat) (shown : Bool)
  | mul (x : Rat)
  | jmp (n : Nat) (shown : Bool)
  | lin (n : Nat) (shown : Bool)
  | log (n : Nat) (shown : Bool)
  deriving Repr

/-- `ListNode._join_entries` -/
def isSpaceChar (c : Char) : Bool := c == ' ' || c == '\n' || c == '\t' || c == '\r' || c == '\x0b' || c == '\x0c'

def lastLine (cs : List Char) : List Char := (cs.reverse.takeWhile (· != '\n')).reverse

/-- `ListNode._COMMENT_LINE.match`: ` {0,4}[cC]( |$)` -/
def isCommentLine (cs : List Char) : Bool :=
  let lead := cs.takeWhile (· == ' ')
  lead.length ≤ 4 &&
    match cs.dropWhile (· == ' ') with
    | c :: r => (c == 'c' || c == 'C') && (match r with | [] => true | d :: _ => d == ' ')
    | [] => false

def joinEntries (front text : String) : String :=
  if front.isEmpty || text.isEmpty then front ++ text
  else
    let fl := front.toList
    let ll := lastLine fl
    -- an entry can not follow a comment on the same line
    let front' := if ll.contains '$' || (fl.contains '\n' && isCommentLine ll) then front ++ "\n" else front
    match front'.toList.getLast?, text.toList.head? with
    | some a, some b =>
      if a == '\n' then
        -- behind a line break the entry must stay a continuation: at least BLANK_SPACE_CONTINUE leading blanks
        let lead := (text.toList.takeWhile (· == ' ')).length
        if lead < Gen.blankSpaceContinue then
          front' ++ String.ofList (List.replicate (Gen.blankSpaceContinue - lead) ' ') ++ text
        else front' ++ text
      else if !isSpaceChar a && !isSpaceChar b then front' ++ " " ++ text
      else front' ++ text
    | _, _ => front' ++ text

def zeroPad (len : Nat) (s : String) : String :=
  String.ofList (List.replicate (len - s.length) '0') ++ s

/-- `self._num_node.value = n; self._num_node.format()` for an integer count -/
def formatCount (s : Sc) (n : Nat) : String :=
  if s.numOg == some (n : Int) then s.numTok.getD (toString n)
  else
    match s.numTok with
    | some tok =>
      -- `_reverse_engineer_formatting`: a token with leading zeros keeps its width
      if tok.length > 1 && tok.toList.head? == some '0' then zeroPad tok.length (toString n) else toString n
    | none => toString n

def countText (s : Sc) (n : Nat) : String × Bool :=
  if n == 1 && s.omit1 then ("", false) else (formatCount s n, true)

structure Fmt where
  text : String
  words : List Word
  /-- `_written_tail`: the value of the last entry the text expands to (what a following shortcut continues from) -/
  tail : Option Rat
  deriving Repr

/-- `ShortcutNode._format_explicit` -/
def formatExplicit (s : Sc) : Fmt :=
  { text := s.nodes.foldl (fun acc l => joinEntries acc l.txt) ""
    words := s.nodes.map Word.num
    tail := match s.nodes.getLast? with | some l => l.val | none => none }

/-- `ShortcutNode._format_jump` -/
def formatJump (s : Sc) : Fmt :=
  let n := s.nodes.length
  if n == 0 then { text := "", words := [], tail := none }
  else
    let (c, shown) := countText s n
    { text := c ++ s.letter, words := [Word.jmp n shown], tail := none }

/-- `ShortcutNode._all_repeat` -/
def allRepeat (value : Rat) (nodes : List Leaf) : Bool :=
  nodes.all fun l => match l.val with
    | none => false
    | some y => if l.ty ≤ 1 then isclose value y else value == y

/-- `ShortcutNode._format_repeat`; `none` = the shortcut text would not denote the nodes -/
def formatRepeat (s : Sc) (carried : Option Rat) : Option Fmt :=
  let leading : Option Rat := match carried with
    | some c => if s.nodes.length ≥ 1 && allRepeat c s.nodes then some c else none
    | none => none
  match leading with
  | some c =>
    let n := s.nodes.length
    let (ct, shown) := countText s n
    some { text := joinEntries "" (ct ++ s.letter), words := [Word.rep n shown], tail := some c }
  | none =>
    match s.nodes with
    | first :: rest =>
      match first.val with
      | some a =>
        if rest.length ≥ 1 && allRepeat a rest then
          let n := rest.length
          let (ct, shown) := countText s n
          some { text := joinEntries first.txt (ct ++ s.letter), words := [Word.num first, Word.rep n shown], tail := some a }
        else none
      | none => none
    | [] => none

/-- `ShortcutNode._format_multiply` -/
def formatMultiply (s : Sc) (carried : Option Rat) : Option Fmt :=
  let pick : Option (Option Rat × Option Leaf × Option Rat) :=
    match carried, s.nodes with
    | some c, [p] => some (some c, none, p.val)
    | _, [a, p] => some (a.val, some a, p.val)
    | _, _ => none
  match pick with
  | none => none
  | some (base, first, product) =>
    match base, product, s.mulWritten with
    | some b, some p, some w =>
      -- only the multiply that was written is written again (`_is_product`)
      if !isProduct s b p then none
      else
        let written := b * w
        if isclose written p then
          let ft := match first with | some f => f.txt | none => ""
          some { text := joinEntries ft (s.mulTxt ++ s.letter)
                 words := (match first with | some f => [Word.num f] | none => []) ++ [Word.mul w]
                 tail := some written }
        else none
    | _, _, _ => none

/-- the loop of `_is_interpolation` (`for i, node in enumerate(nodes)`, from index `i` on), linear -/
def linOk (b spacing scale : Rat) : Nat → List Leaf → Bool
  | _, [] => true
  | i, l :: ls =>
    (match l.val with
      | some y => iscloseScale (b + spacing * ((i + 1 : Nat) : Rat)) y scale
      | none => false) && linOk b spacing scale (i + 1) ls

/-- the loop of `_is_interpolation`, logarithmic -/
def logOk (b e : Rat) (number : Nat) : Nat → List Leaf → Bool
  | _, [] => true
  | i, l :: ls =>
    (match l.val with
      | some y => powClose y number (b ^ (number - (i + 1)) * e ^ (i + 1))
      | none => false) && logOk b e number (i + 1) ls

/-- `ShortcutNode._is_interpolation` -/
def isInterpolation (s : Sc) (begin_ : Option Rat) (nodes : List Leaf) : Bool :=
  match begin_, nodes.getLast? with
  | some b, some lastL =>
    match lastL.val with
    | none => false
    | some e =>
      if nodes.any (fun l => l.val.isNone) then false
      else if s.kind == Kind.log then
        if b ≤ 0 || e ≤ 0 then false else logOk b e nodes.length 0 nodes
      else linOk b ((e - b) / (nodes.length : Rat)) (scaleOf b e) 0 nodes
  | _, _ => false

/-- the text `_format_interpolate` returns once it has decided on start, count and closing node -/
def mkInterp (s : Sc) (start : Option Leaf) (numInterp : Nat) (endL : Leaf) : Fmt :=
  let ct := countText s numInterp
  let st := match start with | some f => f.txt | none => ""
  { text := joinEntries st (ct.1 ++ s.letter ++ s.midPad ++ endL.txt)
    words := (match start with | some f => [Word.num f] | none => []) ++
      [if s.kind == Kind.log then Word.log numInterp ct.2 else Word.lin numInterp ct.2, Word.num endL]
    tail := endL.val }

/-- `ShortcutNode._format_interpolate` -/
def formatInterpolate (s : Sc) (carried : Option Rat) : Option Fmt :=
  if carried.isSome && isInterpolation s carried s.nodes then
    match s.nodes.getLast? with
    | some e => some (mkInterp s none (s.nodes.length - 1) e)
    | none => none
  else
    match s.nodes with
    | first :: rest =>
      if rest.length ≥ 1 && isInterpolation s first.val rest then
        match rest.getLast? with
        | some e => some (mkInterp s (some first) (rest.length - 1) e)
        | none => none
      else none
    | [] => none

/-- `ShortcutNode.format(leading_node)`; `carried` = `leading_node._written_tail` -/
def format (s : Sc) (carried0 : Option Rat) : Fmt :=
  -- a shortcut read with a first value of its own is written with it (`_own_start`)
  let carried : Option Rat := if s.ownStart then none else carried0
  let r : Option Fmt := match s.kind with
    | .jmp => some (formatJump s)
    | .rep => formatRepeat s carried
    | .mul => formatMultiply s carried
    | .lin | .log => formatInterpolate s carried
  let f := match r with | some f => f | none => formatExplicit s
  { f with text := f.text ++ s.endPad }

end MontePyVerif.Model.Shortcut
