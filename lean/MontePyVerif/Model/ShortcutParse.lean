/-!
# Model of the parse-time expansion of shortcuts (C08_expand)

`parser_base.py: number_sequence / shortcut_sequence / shortcut_phrase` build the list, and
`syntax_node.py: ShortcutNode.__init__ → _expand_repeat / _expand_multiply / _expand_jump / _expand_interpolate`
create the virtual value nodes (the code after the fix: commits of branch fix-C08: runs of three or more shortcuts,
interpolation closing on zero).  Tokens come from the (unmodelled) lexer; the harness sends the token list of the
very text the real parser is given and compares node structure and values.

A value node's value is a `PVal`: a number, a jump (`None`), or — for LOG_INTERPOLATE — the symbolic value
`logv a b n k` standing for the double `10 ** (log10 a + (log10 b - log10 a)/(n+1) * k)` (not computable on rationals;
the correspondence checks the real double against the defining relation, DESIGN 1.3).
`none` = the parser rejects the list (SLY syntax error, or the `ValueError`s "... cannot follow a jump",
`math domain error`).  No imports.
-/
namespace MontePyVerif.Model.ShortcutParse

/-- a token of a numeric list as the lexer hands it to the grammar (`NUMBER`/`NULL`, `REPEAT`/`NUM_REPEAT`, ...) -/
inductive PTok
  | num (x : Rat)
  | rep (n : Option Nat)
  | mul (x : Rat)
  | jmp (n : Option Nat)
  | lin (n : Option Nat)
  | log (n : Option Nat)
  deriving Repr, DecidableEq

inductive PVal
  | num (x : Rat)
  | jump
  | logv (a b : Rat) (n k : Nat)
  deriving Repr, DecidableEq

inductive PKind | rep | jmp | mul | lin | log
  deriving Repr, DecidableEq

/-- a node of the parsed `ListNode`: a `ValueNode` or a `ShortcutNode` with its (virtual) nodes -/
inductive PItem
  | value (x : Rat)
  | sc (k : PKind) (nodes : List PVal)
  deriving Repr, DecidableEq

def PItem.vals : PItem → List PVal
  | .value x => [PVal.num x]
  | .sc _ ns => ns

/-- `list(ListNode)` -/
def flatP (items : List PItem) : List PVal := (items.map PItem.vals).flatten

/-- the nodes built so far, most recent first -/
def flatRevP : List PItem → List PVal
  | [] => []
  | x :: rest => flatRevP rest ++ x.vals

/-- `ShortcutNode._get_last_value_node(p[0]).value` when it is a number; `none` when there is nothing before the
    shortcut (syntax error), when it is a jump ("... cannot follow a jump") or when the previous shortcut covers
    nothing (`0J`, `0R`: IndexError) -/
def lastNum : List PItem → Option Rat
  | [] => none
  | it :: _ => match it.vals.getLast? with
    | some (PVal.num x) => some x
    | _ => none

/-- `ShortcutNode._get_last_node(p)`: a value directly before the shortcut becomes the shortcut's first node (the
    grammar reduces it to `shortcut_start`, it is not a list node of its own) -/
def absorb : List PItem → List PVal × List PItem
  | PItem.value x :: rest => ([PVal.num x], rest)
  | acc => ([], acc)

/-- `ShortcutNode._expand_repeat` -/
def expandRepeat (acc : List PItem) (n : Option Nat) : Option (List PItem) :=
  match lastNum acc with
  | none => none
  | some a => some (PItem.sc .rep ((absorb acc).1 ++ List.replicate (n.getD 1) (PVal.num a)) :: (absorb acc).2)

/-- `ShortcutNode._expand_multiply` -/
def expandMultiply (acc : List PItem) (x : Rat) : Option (List PItem) :=
  match lastNum acc with
  | none => none
  | some a => some (PItem.sc .mul ((absorb acc).1 ++ [PVal.num (a * x)]) :: (absorb acc).2)

/-- `ShortcutNode._expand_jump` -/
def expandJump (acc : List PItem) (n : Option Nat) : List PItem :=
  PItem.sc .jmp (List.replicate (n.getD 1) PVal.jump) :: acc

/-- `ShortcutNode._expand_interpolate`; `e` = the closing number -/
def expandInterpolate (acc : List PItem) (n : Option Nat) (isLog : Bool) (e : Rat) : Option (List PItem) :=
  match lastNum acc with
  | none => none
  | some b =>
    let number := n.getD 1
    if isLog && (decide (b ≤ 0) || decide (e ≤ 0)) then none  -- math.log: ValueError("math domain error")
    else
      let spacing := (e - b) / ((number + 1 : Nat) : Rat)
      let mids := (List.range number).map fun i =>
        if isLog then PVal.logv b e number (i + 1) else PVal.num (b + spacing * ((i + 1 : Nat) : Rat))
      some (PItem.sc (if isLog then .log else .lin) ((absorb acc).1 ++ mids ++ [PVal.num e]) :: (absorb acc).2)

/-- `number_sequence` over the token list; `acc` = the nodes so far, most recent first -/
def parseAux : List PTok → List PItem → Option (List PItem)
  | [], acc => some acc.reverse
  | .num x :: ts, acc => parseAux ts (PItem.value x :: acc)
  | .jmp n :: ts, acc => parseAux ts (expandJump acc n)
  | .rep n :: ts, acc => match expandRepeat acc n with
    | some acc' => parseAux ts acc'
    | none => none
  | .mul x :: ts, acc => match expandMultiply acc x with
    | some acc' => parseAux ts acc'
    | none => none
  | .lin n :: .num e :: ts, acc => match expandInterpolate acc n false e with
    | some acc' => parseAux ts acc'
    | none => none
  | .log n :: .num e :: ts, acc => match expandInterpolate acc n true e with
    | some acc' => parseAux ts acc'
    | none => none
  | .lin _ :: _, _ => none
  | .log _ :: _, _ => none

/-- the parsed node list, or `none` when the list is rejected -/
def parseList (ts : List PTok) : Option (List PItem) := parseAux ts []

end MontePyVerif.Model.ShortcutParse
