/-!
# Model of how `Transform._update_values` decides, entry by entry, between a jump and a number

`montepy/data_inputs/transform.py` (with the repairs 488762e, c66d5a9 and the one of round 7: entries left off).  Only the 12 numbers are modelled: which of
them are written as a number and which stay a jump; the spelling of a number is `Model/ValueFormat.lean`, the
modifier (`*`) is written from the same `is_in_degrees` the defaults are taken from, the direction flag M is C03's.
A node is the `value` of a `ValueNode` of `self.data` after shortcut expansion: `none` is a jump.
-/
namespace MontePyVerif.TransformWrite

/-- the transform at the time it is written -/
structure State where
  /-- `_is_in_degrees` as it is **now** (public setter `is_in_degrees`); the modifier is written from it -/
  inDegrees : Bool
  /-- `_is_main_to_aux` -/
  mainToAux : Bool
  /-- `[node.value for node in self.data]`: the entries of the card that was read (`none` = jump), M included -/
  nodes : List (Option Rat)
  /-- `displacement_vector` -/
  disp : List Rat
  /-- `rotation_matrix` (flat, 0 or 5..9 entries through the setter, any number up to 9 from a card) -/
  rot : List Rat
deriving Repr

/-- transform.py:Transform._default_entry — the value MCNP takes for an entry that is jumped over, in the unit the
    transform has now -/
def defaultEntry (inDegrees : Bool) (position : Nat) : Rat :=
  if position < 3 then 0
  else
    let onDiagonal := (position - 3) % 4 == 0
    if inDegrees then (if onDiagonal then 0 else 90) else (if onDiagonal then 1 else 0)

/-- transform.py:Transform._update_values — the two `for ... in zip(values, list_iter)` loops over one iterator of
    `self.data` and the loop that appends new nodes for the values the card had no entry for.  `k` is the position
    of the head value among the 12 numbers.  A jump stays a jump while its entry has the default value. -/
def updateFrom (inDegrees : Bool) : Nat → List (Option Rat) → List Rat → List (Option Rat)
  | _, _, [] => []
  | k, [], v :: vs => some v :: updateFrom inDegrees (k + 1) [] vs
  | k, n :: ns, v :: vs =>
    (if n.isNone && decide (v = defaultEntry inDegrees k) then none else some v) :: updateFrom inDegrees (k + 1) ns vs

/-- transform.py:Transform._update_values — `needs_rotation` -/
def needsRotation (s : State) : Bool :=
  s.rot.any (fun x => decide (x ≠ 0)) || decide (8 ≤ s.nodes.length) || !s.mainToAux

/-- transform.py:Transform._update_values — `flat_pack`: the matrix, or the default rotation in front of M -/
def flatPack (s : State) : List Rat :=
  if s.rot.isEmpty && !s.mainToAux then
    (if s.inDegrees then [0, 90, 90, 90, 0, 90, 90, 90, 0] else [1, 0, 0, 0, 1, 0, 0, 0, 1])
  else s.rot

/-- the numbers `_update_values` walks over: the displacement, then the rotation when it is written -/
def heldNumbers (s : State) : List Rat :=
  s.disp ++ (if needsRotation s then flatPack s else [])

/-- all values are the defaults of their positions, from position `k` on -/
def allDefaultFrom (inDegrees : Bool) : Nat → List Rat → Bool
  | _, [] => true
  | k, v :: vs => decide (v = defaultEntry inDegrees k) && allDefaultFrom inDegrees (k + 1) vs

/-- transform.py:Transform._update_values — `left_off`: the displacement entries behind the last node of the card
    (a write drops the jumps at the end of an input, `ListNode.update_with_new_values`) stay left off when none of
    them, nor a rotation behind them, is needed -/
def leftOffStays (s : State) : Bool :=
  !needsRotation s && allDefaultFrom s.inDegrees s.nodes.length (s.disp.drop s.nodes.length)

/-- transform.py:Transform._update_values — the entries of the 12 numbers as they are written (`none` = jump):
    every held number gets its node (the node of the card, or a new one) unless the left-off entries stay left off -/
def writtenEntries (s : State) : List (Option Rat) :=
  let full := updateFrom s.inDegrees 0 s.nodes (heldNumbers s)
  if leftOffStays s then full.take s.nodes.length else full

/-! ## histories: what a user does to a transform between writes

`Transform.rotation_matrix` / `displacement_vector` hand out the array the transform holds (no copy), so besides the
setters an entry can be assigned in place (`t.rotation_matrix[k] = v`).  `_update_values` keeps no memory of an
earlier write other than the nodes of the card: what it writes is a function of the state it finds. -/

/-- one step of a history -/
inductive Edit where
  /-- `t.is_in_degrees = b` -/
  | setDegrees (b : Bool)
  /-- transform.py:Transform.rotation_matrix (setter) — `ValueError` unless 5..9 entries (state at the raise point) -/
  | setRotation (m : List Rat)
  /-- transform.py:Transform.displacement_vector (setter) — `ValueError` unless 3 entries -/
  | setDisplacement (d : List Rat)
  /-- `t.rotation_matrix[k] = v` on the array the getter returns (`IndexError` behind the end: nothing changes) -/
  | rotationAt (k : Nat) (v : Rat)
  /-- `t.displacement_vector[k] = v` on the array the getter returns -/
  | displacementAt (k : Nat) (v : Rat)
  /-- a write (`format_for_mcnp_input` → `_update_values`): of the state only the nodes of the card change; which
      nodes the write leaves (`ListNode.update_with_new_values` drops jumps at the end, C08) is not fixed here: any list -/
  | write (nodesAfter : List (Option Rat))
deriving Repr

/-- the state after one step -/
def applyEdit (s : State) : Edit → State
  | .setDegrees b => { s with inDegrees := b }
  | .setRotation m => if 5 ≤ m.length ∧ m.length ≤ 9 then { s with rot := m } else s
  | .setDisplacement d => if d.length = 3 then { s with disp := d } else s
  | .rotationAt k v => { s with rot := s.rot.set k v }
  | .displacementAt k v => { s with disp := s.disp.set k v }
  | .write nodesAfter => { s with nodes := nodesAfter }

/-- the state after a history (a fold over its steps) -/
def run (s : State) (es : List Edit) : State := es.foldl applyEdit s

/-- a step that is not a write -/
def Edit.isWrite : Edit → Bool
  | .write _ => true
  | _ => false

/-- the history without its writes -/
def dropWrites (es : List Edit) : List Edit := es.filter (fun e => !e.isWrite)

/-- what the transform holds, apart from the nodes of its card -/
def held (s : State) : Bool × Bool × List Rat × List Rat := (s.inDegrees, s.mainToAux, s.disp, s.rot)

/-- the entries every write of a history produces, in order (the nodes each write finds are those the write before left) -/
def writesOf (s : State) : List Edit → List (State × List (Option Rat))
  | [] => []
  | e :: es => (if e.isWrite then [(s, writtenEntries s)] else []) ++ writesOf (applyEdit s e) es

end MontePyVerif.TransformWrite
