import MontePyVerif.Gen.Constants
import MontePyVerif.Gen.ValueFormat
/-!
# Model of `montepy/input_parser/syntax_node.py:ValueNode` (value, `_value_changed`, reverse
engineering of the token's format, `format`), of `montepy/utilities.py:fortran_float` and of the part
of CPython's `format()` that `ValueNode.format` uses (C05; also C03, C08).

Numbers are exact: a Python `float`/`int` is a sign bit and a non-negative rational (`Num`), so that
`-0.0` exists and so that CPython's *correctly rounded* `format` of a double is modelled exactly
(round-half-even of the exact value at the last kept digit).  Text is `List Char`.

A formatted number is first a `Dec` (sign, all digits as one natural number, how many of them follow
the point, optional exponent) and then rendered; the theorems of `Props/C05.lean` are proved on `Dec`
(arithmetic) and on the rendering (text) separately.

Not modelled: `str`/enum typed nodes, tokens that are Python `int` objects on a `float` node (the code
raises `TypeError`), `inf`/`nan`, underscores inside numbers, the `LineExpansionWarning` side effect.
The model follows the code after the `fix:` commits listed in `known_findings.json` (C05).
No imports outside core: the file is used by the compiled driver.
-/

namespace MontePyVerif.ValueFormat
open MontePyVerif

abbrev Text := List Char

/-! ## Python numbers -/

/-- a Python `int` or `float`: sign bit, magnitude (≥ 0), and whether it is a Python `int`
    (an `int` zero has no sign). -/
structure Num where
  neg : Bool
  mag : Rat
  isInt : Bool := false
  deriving DecidableEq, Repr

def Num.toRat (x : Num) : Rat := if x.neg then -x.mag else x.mag

def ratAbs (q : Rat) : Rat := if q < 0 then -q else q

def Num.ofRat (q : Rat) (isInt : Bool := false) : Num := ⟨decide (q < 0), ratAbs q, isInt⟩

def Num.ofInt (k : Int) : Num := ⟨decide (k < 0), (k.natAbs : Rat), true⟩

/-- `abs(x)` -/
def Num.abs (x : Num) : Num := { x with neg := false }

/-- `-x` (`-0` is `0` for an `int`, `-0.0` for a `float`) -/
def Num.negate (x : Num) : Num :=
  if x.isInt && x.mag == 0 then { x with neg := false } else { x with neg := !x.neg }

/-- `x < 0` -/
def Num.ltZero (x : Num) : Bool := x.neg && decide (0 < x.mag)

def relTol : Rat := mkRat Gen.relTolNum Gen.relTolDen
def absTol : Rat := mkRat Gen.absTolNum Gen.absTolDen

/-- `math.isclose(a, b, rel_tol=rel_tol, abs_tol=abs_tol)` on exact values (CPython: `a == b`, else
    `diff <= |rel_tol*b| or diff <= |rel_tol*a| or diff <= abs_tol`). -/
def isClose (a b : Rat) : Bool :=
  a == b || (let diff := ratAbs (b - a)
             decide (diff ≤ ratAbs (relTol * b)) || decide (diff ≤ ratAbs (relTol * a)) || decide (diff ≤ absTol))

/-- round half to even of `num/den`, `den > 0` (Python `round`, and the rounding of `format`). -/
def roundHE (num den : Int) : Int :=
  let q := num / den
  let r := num % den
  if 2 * r < den then q else if 2 * r > den then q + 1 else if q % 2 = 0 then q else q + 1

/-- `round(x)` for a float -/
def Num.round (x : Num) : Int :=
  let r := roundHE x.mag.num x.mag.den
  if x.neg then -r else r

/-- `int(x)`: truncation towards zero -/
def Num.trunc (x : Num) : Int :=
  let r := x.mag.num / x.mag.den
  if x.neg then -r else r

/-- `10 ** k` as a rational, `k` any integer -/
def pow10Rat (k : Int) : Rat :=
  match k with
  | .ofNat j => ((10 ^ j : Nat) : Rat)
  | .negSucc j => 1 / ((10 ^ (j + 1) : Nat) : Rat)

/-! ## CPython `format(x, ".{p}f" | ".{p}e" | ".{p}g" | "d")` on exact values -/

/-- round-half-even of `(n/d)·10^k` (`n/d ≥ 0`, `d > 0`) -/
def scaleRound (n d : Nat) (k : Int) : Nat :=
  match k with
  | .ofNat j => (roundHE ((n * 10 ^ j : Nat) : Int) (d : Int)).toNat
  | .negSucc j => (roundHE (n : Int) ((d * 10 ^ (j + 1) : Nat) : Int)).toNat

def ndigits (n : Nat) : Nat := (Nat.toDigits 10 n).length

/-- is `10^e ≤ n/d` ? -/
def geP10 (n d : Nat) (e : Int) : Bool :=
  match e with
  | .ofNat j => decide (d * 10 ^ j ≤ n)
  | .negSucc j => decide (d ≤ n * 10 ^ (j + 1))

/-- the decimal exponent `e` of `n/d > 0`: `10^e ≤ n/d < 10^(e+1)` -/
def exp10 (n d : Nat) : Int :=
  let e0 : Int := (ndigits n : Int) - (ndigits d : Int)
  if geP10 n d e0 then e0 else e0 - 1

/-- `p+1` significant digits of `n/d`: `(N, e)` with value `N·10^(e-p)`, `10^p ≤ N < 10^(p+1)`;
    zero gives `(0, 0)`. A carry out of the rounding (`9.99…` → `10.0…`) moves the exponent. -/
def sciDigits (n d : Nat) (p : Nat) : Nat × Int :=
  if n = 0 then (0, 0) else
  let e := exp10 n d
  let N := scaleRound n d ((p : Int) - e)
  if 10 ^ (p + 1) ≤ N then (N / 10, e + 1) else (N, e)

/-- a formatted number before it is laid out as text: value `±m·10^(exp-frac)` -/
structure Dec where
  neg : Bool
  /-- all digits, as one number -/
  m : Nat
  /-- how many digits follow the point -/
  frac : Nat
  /-- the exponent, when one is printed -/
  exp : Option Int
  deriving DecidableEq, Repr

def Dec.value (d : Dec) : Rat :=
  let v := (d.m : Rat) * pow10Rat (d.exp.getD 0 - (d.frac : Int))
  if d.neg then -v else v

/-- `.{p}f` -/
def decF (x : Num) (p : Nat) : Dec :=
  ⟨x.neg, scaleRound x.mag.num.toNat x.mag.den p, p, none⟩

/-- `.{p}e` -/
def decE (x : Num) (p : Nat) : Dec :=
  let r := sciDigits x.mag.num.toNat x.mag.den p
  ⟨x.neg, r.1, p, some r.2⟩

/-- removal of trailing zeros after the point (`g` without `#`) -/
def stripZeros : Nat → Nat → Nat × Nat
  | m, 0 => (m, 0)
  | m, f + 1 => if m % 10 = 0 then stripZeros (m / 10) f else (m, f + 1)

/-- `.{p}g`: `P = max p 1` significant digits, fixed layout when `-4 ≤ exp < P`, zeros stripped -/
def decG (x : Num) (p : Nat) : Dec :=
  let P := if p = 0 then 1 else p
  let r := sciDigits x.mag.num.toNat x.mag.den (P - 1)
  if -4 ≤ r.2 ∧ r.2 < (P : Int) then
    let s := stripZeros r.1 ((P : Int) - 1 - r.2).toNat
    ⟨x.neg, s.1, s.2, none⟩
  else
    let s := stripZeros r.1 (P - 1)
    ⟨x.neg, s.1, s.2, some r.2⟩

/-- the sign character of the format-spec options `-`, `+`, ` ` -/
def signText (sign : Char) (neg : Bool) : Text :=
  if neg then ['-'] else if sign = '+' then ['+'] else if sign = ' ' then [' '] else []

def zfill (w : Nat) (s : Text) : Text := List.replicate (w - s.length) '0' ++ s

def intDigits (d : Dec) : Text := Nat.toDigits 10 (d.m / 10 ^ d.frac)

def fracDigits (d : Dec) : Text := zfill d.frac (Nat.toDigits 10 (d.m % 10 ^ d.frac))

/-- digits with the point (Python never writes a bare trailing point) -/
def mantissa (d : Dec) : Text :=
  intDigits d ++ (if d.frac = 0 then [] else '.' :: fracDigits d)

def expSign (e : Int) : Char := if e < 0 then '-' else '+'

/-- CPython's exponent: `e`, sign, at least two digits -/
def pyExpText (e : Int) : Text := 'e' :: expSign e :: zfill 2 (Nat.toDigits 10 e.natAbs)

def pyBody (d : Dec) : Text :=
  mantissa d ++ (match d.exp with | none => [] | some e => pyExpText e)

/-- number of fill zeros of `0=<sign><width>` -/
def fillZeros (width : Nat) (s body : Text) : Nat := width - s.length - body.length

/-- `"{value:0={sign}0{width}.{p}<f|g>}".format(...)` laid out from its `Dec` -/
def renderPy (sign : Char) (width : Nat) (d : Dec) : Text :=
  let s := signText sign d.neg
  let b := pyBody d
  s ++ List.replicate (fillZeros width s b) '0' ++ b

/-- `"{value:0={sign}{width}d}".format(value=k)` -/
def fmtD (sign : Char) (width : Nat) (k : Int) : Text :=
  renderPy sign width ⟨decide (k < 0), k.natAbs, 0, none⟩

/-! ## `utilities.py:fortran_float` -/

def isWs (c : Char) : Bool := c = ' ' || c = '\t' || c = '\n' || c = '\r' || c = '\x0b' || c = '\x0c'

/-- states of the reader of `float(str)`: leading blanks, after the sign, integer digits, fraction
    digits, after `e`, after the exponent's sign, exponent digits, trailing blanks, rejected -/
inductive FPh | lead | signed | int | frac | expStart | expSigned | exp | trail | bad
  deriving DecidableEq, Repr

structure FSt where
  ph : FPh := .lead
  neg : Bool := false
  mant : Nat := 0
  nfrac : Nat := 0
  ndig : Nat := 0
  eneg : Bool := false
  ex : Nat := 0
  deriving Repr

def digitVal (c : Char) : Nat := c.toNat - '0'.toNat

/-- one character of `float(str)` -/
def fstep (s : FSt) (c : Char) : FSt :=
  if c.isDigit then
    match s.ph with
    | .lead | .signed | .int => { s with ph := .int, mant := 10 * s.mant + digitVal c, ndig := s.ndig + 1 }
    | .frac => { s with mant := 10 * s.mant + digitVal c, nfrac := s.nfrac + 1, ndig := s.ndig + 1 }
    | .expStart | .expSigned | .exp => { s with ph := .exp, ex := 10 * s.ex + digitVal c }
    | _ => { s with ph := .bad }
  else if c = '+' || c = '-' then
    match s.ph with
    | .lead => { s with ph := .signed, neg := c = '-' }
    | .expStart => { s with ph := .expSigned, eneg := c = '-' }
    | _ => { s with ph := .bad }
  else if c = '.' then
    match s.ph with
    | .lead | .signed | .int => { s with ph := .frac }
    | _ => { s with ph := .bad }
  else if c = 'e' || c = 'E' then
    match s.ph with
    | .int | .frac => if s.ndig = 0 then { s with ph := .bad } else { s with ph := .expStart }
    | _ => { s with ph := .bad }
  else if isWs c then
    match s.ph with
    | .lead => s
    | .int | .frac => if s.ndig = 0 then { s with ph := .bad } else { s with ph := .trail }
    | .exp | .trail => { s with ph := .trail }
    | _ => { s with ph := .bad }
  else { s with ph := .bad }

def FSt.result (s : FSt) : Option Rat :=
  let v (e : Int) : Rat :=
    let q := (s.mant : Rat) * pow10Rat (e - (s.nfrac : Int))
    if s.neg then -q else q
  match s.ph with
  | .int | .frac | .trail => if s.ndig = 0 then none else some (v (if s.eneg then -(s.ex : Int) else (s.ex : Int)))
  | .exp => some (v (if s.eneg then -(s.ex : Int) else (s.ex : Int)))
  | _ => none

/-- `float(str)` for finite decimal literals (`None` = `ValueError`; `inf`, `nan`, `1_0` are not modelled) -/
def pyFloat (t : Text) : Option Rat := (t.foldl fstep {}).result

/-- `re.sub(r"([\d.])([-+])", r"\1E\2", s)` (repaired: a significand may end in a dot) -/
def insertE : Text → Text
  | [] => []
  | [c] => [c]
  | c :: c' :: r =>
    if (c.isDigit || c = '.') && (c' = '+' || c' = '-') then c :: 'E' :: c' :: insertE r
    else c :: insertE (c' :: r)

/-- `utilities.py:fortran_float` (`None` = `ValueError`) -/
def fortranFloat (t : Text) : Option Rat :=
  match pyFloat t with
  | some v => some v
  | none => pyFloat (insertE t)

/-- `int(str)` for decimal literals: optional sign and digits, blanks around -/
def pyInt (t : Text) : Option Int :=
  let s := t.foldl fstep {}
  match s.ph with
  | .int | .trail => if s.nfrac = 0 ∧ s.ex = 0 ∧ s.ndig ≠ 0 ∧ !(t.any (fun c => c = '.' || c = 'e' || c = 'E'))
      then some (if s.neg then -(s.mant : Int) else (s.mant : Int)) else none
  | _ => none

/-! ## `ValueNode` -/

/-- one element of `PaddingNode.nodes`: a run of blanks, `"\n"`, or a comment -/
inductive PadItem
  | spaces (n : Nat)
  | newline
  | comment (text : Text)
  deriving DecidableEq, Repr

def PadItem.format : PadItem → Text
  | .spaces n => List.replicate n ' '
  | .newline => ['\n']
  | .comment t => t

/-- syntax_node.py:PaddingNode.is_space (for an item) -/
def PadItem.isSpace : PadItem → Bool
  | .spaces _ => true
  | _ => false

/-- syntax_node.py:PaddingNode.format -/
def padFormat (p : List PadItem) : Text := (p.map PadItem.format).flatten

/-- the token a `ValueNode` was built from -/
inductive Tok
  | none
  | jump
  | str (s : Text)
  deriving DecidableEq, Repr

inductive Ty | float | int
  deriving DecidableEq, Repr

/-- the exponent marker found in the token (`_formatter["divider"]`): none (Fortran `1.5-3`), `e` or `E` -/
inductive Div | none | lower | upper
  deriving DecidableEq, Repr

def Div.text : Div → Text
  | .none => []
  | .lower => ['e']
  | .upper => ['E']

def Div.ofString (s : String) : Div := if s = "E" then .upper else if s = "" then .none else .lower

/-- `ValueNode._formatter` -/
structure Formatter where
  valueLength : Nat
  precision : Nat
  zeroPadding : Nat
  sign : Char
  divider : Div
  exponentLength : Nat
  exponentZeroPad : Nat
  asInt : Bool
  isScientific : Bool
  deriving DecidableEq, Repr

/-- `ValueNode._FORMATTERS[float].copy()` -/
def floatDefaults : Formatter :=
  { valueLength := Gen.floatDefaultValueLength, precision := Gen.floatDefaultPrecision,
    zeroPadding := Gen.floatDefaultZeroPadding, sign := Gen.floatDefaultSign,
    divider := Div.ofString Gen.floatDefaultDivider, exponentLength := Gen.floatDefaultExponentLength,
    exponentZeroPad := Gen.floatDefaultExponentZeroPad, asInt := Gen.floatDefaultAsInt,
    isScientific := Gen.floatDefaultIsScientific }

/-- `ValueNode._FORMATTERS[int].copy()` (the float-only keys are absent in Python and never read) -/
def intDefaults : Formatter :=
  { floatDefaults with valueLength := Gen.intDefaultValueLength, zeroPadding := Gen.intDefaultZeroPadding,
                       sign := Gen.intDefaultSign }

structure Node where
  token : Tok
  ty : Ty
  /-- `None`, or the items of the `PaddingNode` -/
  padding : Option (List PadItem)
  neverPad : Bool
  value : Option Num
  ogValue : Option Num
  isNegId : Bool
  isNegVal : Bool
  isNeg : Option Bool
  fmt : Formatter
  isReversed : Bool
  deriving Repr

/-- syntax_node.py:ValueNode.__init__ (`none` = the constructor raises `ValueError`) -/
def mkNode (token : Tok) (ty : Ty) (padding : Option (List PadItem)) (neverPad : Bool := false) : Option Node :=
  let mk (v : Option Num) : Node :=
    { token, ty, padding, neverPad, value := v, ogValue := v, isNegId := false, isNegVal := false,
      isNeg := none, fmt := (match ty with | .float => floatDefaults | .int => intDefaults), isReversed := false }
  match token with
  | .none | .jump => some (mk none)
  | .str s =>
    match ty with
    | .float => (fortranFloat s).map (fun q => mk (some (Num.ofRat q)))
    | .int => (pyInt s).map (fun k => mk (some (Num.ofInt k)))

/-- syntax_node.py:ValueNode.is_negatable_float (setter, `True`) -/
def setNegatableFloat (n : Node) : Node :=
  match n.value with
  | some v => { n with isNeg := some v.ltZero, value := some v.abs, isNegVal := true }
  | none => { n with isNeg := none, isNegVal := true }

/-- syntax_node.py:ValueNode.is_negatable_identifier (setter, `True`) with `_convert_to_int`
    (`none` = `ValueError`: the token is not integral) -/
def setNegatableId (n : Node) : Option Node :=
  let conv : Option (Option Num) :=
    match n.token with
    | .str s =>
      match pyInt s with
      | some k => some (some (Num.ofInt k))
      | none =>
        -- "1.0" → 1 : `parts = token.split("."); int(parts[1]) == 0 → int(parts[0])`
        let ip := s.takeWhile (· ≠ '.')
        let rest := s.dropWhile (· ≠ '.')
        match rest with
        | '.' :: fp =>
          match pyInt fp, pyInt ip with
          | some 0, some k => some (some (Num.ofInt k))
          | _, _ => none
        | _ => none
    | _ => some n.value
  conv.map fun v =>
    let n := { n with ty := .int, value := v, fmt := intDefaults }
    match v with
    | some v => { n with isNeg := some v.ltZero, value := some v.abs, isNegId := true }
    | none => { n with isNeg := none, isNegId := true }

/-- syntax_node.py:ValueNode.is_negative (getter) -/
def isNegative (n : Node) : Option Bool := if n.isNegId || n.isNegVal then n.isNeg else none

/-- syntax_node.py:ValueNode.is_negative (setter) -/
def setIsNegative (n : Node) (b : Option Bool) : Node :=
  if n.isNegId || n.isNegVal then { n with isNeg := b } else n

/-- syntax_node.py:ValueNode.value (setter) with `_check_if_needs_end_padding` -/
def setValue (n : Node) (v : Option Num) : Node :=
  let v := match isNegative n, v with
    | some _, some x => some x.abs
    | _, _ => v
  let padding :=
    if v.isNone || n.value.isSome || n.neverPad then n.padding
    else match n.padding with
      | none => some [PadItem.spaces 1]
      | some p => some p
  { n with value := v, padding }

/-- syntax_node.py:ValueNode._print_value -/
def printValue (n : Node) : Option Num :=
  match isNegative n with
  | some true => n.value.map Num.negate
  | _ => n.value

/-- syntax_node.py:ValueNode._value_changed -/
def valueChanged (n : Node) : Bool :=
  match n.value, n.ogValue with
  | none, none => false
  | none, some _ => true
  | some _, none => true
  | some _, some og =>
    match printValue n with
    | some pv => !isClose pv.toRat og.toRat
    | none => true

/-- the text of the token as `f"{self._token}"` writes it -/
def Tok.text : Tok → Text
  | .none => "None".toList
  | .jump => ['J']
  | .str s => s

def isSignCh (c : Char) : Bool := c = '+' || c = '-'

/-- `ValueNode._SCIENTIFIC_FINDER.match(token)`: `(significand digits, dots, digits, divider, exponent)` -/
def sciMatch (t : Text) : Option (Text × Text × Text × Div × Text) :=
  let t := match t with | c :: r => if isSignCh c then r else t | [] => t
  let d1 := t.takeWhile Char.isDigit
  let r := t.dropWhile Char.isDigit
  if d1.isEmpty then none else
  let dots := r.takeWhile (· = '.')
  let r := r.dropWhile (· = '.')
  let d2 := r.takeWhile Char.isDigit
  let r := r.dropWhile Char.isDigit
  match r with
  | c :: r' =>
    if c = 'e' || c = 'E' then
      let r'' := match r' with | c' :: q => if isSignCh c' then q else r' | [] => r'
      let ex := r''.takeWhile Char.isDigit
      if ex.isEmpty then none else some (d1, dots, d2, (if c = 'e' then Div.lower else Div.upper), ex)
    else if isSignCh c then
      let ex := r'.takeWhile Char.isDigit
      if ex.isEmpty then none else some (d1, dots, d2, Div.none, ex)
    else none
  | [] => none

/-- number of `"."` in a text and the part after the first one (`str.split(".")`) -/
def afterFirstDot (t : Text) : Text := (t.dropWhile (· ≠ '.')).drop 1
def countDots (t : Text) : Nat := t.count '.'

/-- syntax_node.py:ValueNode._reverse_engineer_float -/
def reverseEngineerFloat (f : Formatter) (tok : Text) : Formatter :=
  match sciMatch tok with
  | some (_, dots, d2, divider, ex) =>
    let f := { f with isScientific := true, divider := divider, zeroPadding := f.zeroPadding + 4 }
    let f := if ex.dropWhile (· = '0') ≠ ex then { f with exponentLength := ex.length, exponentZeroPad := ex.length } else f
    if dots.length = 1 then { f with precision := d2.length }
    else { f with precision := Gen.floatDefaultPrecision, asInt := true }
  | none =>
    let f := { f with isScientific := false }
    if countDots tok = 1 then { f with precision := (afterFirstDot tok).length }
    else { f with precision := Gen.floatDefaultPrecision, asInt := true }

/-- syntax_node.py:ValueNode._reverse_engineer_formatting -/
def reverseEngineerFormatting (n : Node) : Node :=
  if n.isReversed then n else
  match n.token with
  | .none => n
  | tok =>
    let t : Text := match tok with | .jump => ['J'] | .str s => s | .none => []
    let f := { n.fmt with valueLength := t.length }
    let f := match n.padding with
      | some (.spaces k :: _) => { f with valueLength := f.valueLength + k }
      | _ => f
    let noZeroPad := t.dropWhile (fun c => c = '0' || c = '+' || c = '-')
    let delta := t.length - noZeroPad.length
    let signed := match t with | c :: _ => isSignCh c | [] => false
    let delta := if signed then delta - 1 else delta
    let f := match t with
      | '+' :: _ => { f with sign := '+' }
      | '-' :: _ => { f with sign := ' ' }
      | _ => f
    let f := if delta > 0 then { f with zeroPadding := t.length } else f
    let f := if n.ty = .float then reverseEngineerFloat f t else f
    { n with fmt := f, isReversed := true }

/-- syntax_node.py:ValueNode._can_float_to_int_happen (on the node's `value`) -/
def canFloatToIntHappen (n : Node) : Bool :=
  if n.ty ≠ .float || !n.fmt.asInt then false else
  match n.value with
  | some v => isClose (v.round : Rat) v.toRat
  | none => false

inductive FStyle | g | e | f
  deriving DecidableEq, Repr

/-- `range(a, b)` -/
def pyRange (a b : Nat) : List Nat := List.range' a (b - a)

/-- syntax_node.py:ValueNode._float_styles -/
def floatStyles (n : Node) : List (FStyle × Nat) :=
  let p := n.fmt.precision
  let most := Gen.maxPrecision
  if !n.isReversed then (pyRange p (max p most + 1)).map (fun q => (FStyle.g, q))
  else if n.fmt.isScientific then (pyRange p (max p (most - 1) + 1)).map (fun q => (FStyle.e, q))
  else if n.fmt.asInt then (pyRange 6 (most + 1)).map (fun q => (FStyle.g, q))
  else (pyRange p (max p most + 1)).map (fun q => (FStyle.f, q)) ++ (pyRange 1 (most + 1)).map (fun q => (FStyle.g, q))

/-- the `"e"` branch of `_format_float_as`: CPython's text with the divider replaced and the exponent
    re-written with the token's zero padding -/
def renderSci (f : Formatter) (d : Dec) : Text :=
  let s := signText f.sign d.neg
  let e := d.exp.getD 0
  let ed := zfill f.exponentZeroPad (Nat.toDigits 10 e.natAbs)
  let ed := ed ++ List.replicate (f.exponentLength - ed.length) ' '
  s ++ List.replicate (fillZeros f.zeroPadding s (pyBody d)) '0' ++ mantissa d ++ f.divider.text ++ [expSign e] ++ ed

/-- syntax_node.py:ValueNode._format_float_as -/
def formatFloatAs (f : Formatter) (x : Num) (sp : FStyle × Nat) : Text :=
  match sp.1 with
  | .e => renderSci f (decE x sp.2)
  | .g => renderPy f.sign f.zeroPadding (decG x sp.2)
  | .f => renderPy f.sign f.zeroPadding (decF x sp.2)

/-- `math.isclose(fortran_float(temp), value, ...)`, `False` when `fortran_float` raises -/
def readsBack (t : Text) (x : Num) : Bool :=
  match fortranFloat t with
  | some y => isClose y x.toRat
  | none => false

/-- the loop of `_format_float`: the first candidate that reads back, else the last one -/
def pickFirst (x : Num) : List Text → Text
  | [] => []
  | [t] => t
  | t :: r => if readsBack t x then t else pickFirst x r

/-- syntax_node.py:ValueNode._format_float -/
def formatFloat (n : Node) (x : Num) : Text :=
  pickFirst x ((floatStyles n).map (formatFloatAs n.fmt x))

/-- the number part (`temp`) of `ValueNode.format` for a changed, non-`None` value -/
def formatTemp (n : Node) (x : Num) : Text :=
  if n.ty = .int then fmtD n.fmt.sign n.fmt.zeroPadding x.trunc
  else if canFloatToIntHappen n then fmtD n.fmt.sign n.fmt.zeroPadding x.round
  else formatFloat n x

/-- the padding part of `ValueNode.format`: `(pad_str, extra_pad_str)` -/
def padStrings (n : Node) (tempLen : Nat) : Text × Text :=
  match n.padding with
  | none | some [] => ([], [])
  | some (.spaces _ :: rest) =>
    let saving := match rest with
      | .spaces _ :: _ => true
      | .newline :: _ => true
      | _ => false
    (if tempLen ≥ n.fmt.valueLength && !saving then [' '] else [], padFormat rest)
  | some items => ([], padFormat items)

/-- `"{temp:<{value_length}}"` -/
def ljust (t : Text) (w : Nat) : Text := t ++ List.replicate (w - t.length) ' '

/-- syntax_node.py:ValueNode.format; returns the node as well (reverse engineering mutates it) -/
def format (n : Node) : Node × Text :=
  if !valueChanged n then
    (n, n.token.text ++ (match n.padding with | some p => padFormat p | none => []))
  else
  match n.value with
  | none => (n, [])
  | some _ =>
    let n := reverseEngineerFormatting n
    match printValue n with
    | none => (n, [])
    | some x =>
      let temp := formatTemp n x
      let ps := padStrings n temp.length
      (n, ljust temp n.fmt.valueLength ++ ps.1 ++ ps.2)

end MontePyVerif.ValueFormat
