import MontePyVerif.Gen.Constants
import MontePyVerif.Gen.PyText
/-!
# Model.Wrap — how MontePy lays a formatted input out into physical lines (property C10)

Mirrors, function by function, the code as repaired by the `fix:` commits of branch fix-C10:

* `montepy/constants.py`            `get_max_line_length`
* `montepy/mcnp_object.py`          `MCNP_Object.wrap_string_for_mcnp`, `_wrap_line`, `_is_comment_line`
* `textwrap.py` (CPython 3.12)      `TextWrapper._munge_whitespace`, `_split` (with `break_on_hyphens=False`:
                                    `wordsep_simple_re`), `_wrap_chunks`, `_handle_long_word`
                                    (configuration: `drop_whitespace=False`, `break_long_words=True`,
                                    `break_on_hyphens=False`, `max_lines=None`, `fix_sentence_endings=False`)
* `str.splitlines`, `str.strip` (as a truth value), `str.expandtabs`, `str.partition("$")`
* `montepy/cell.py`                 `Cell.format_for_mcnp_input` (the assembly loop) and its `cleanup_last_line`
* `montepy/input_parser/mcnp_input.py`  `Message.format_for_mcnp_input`, `Title.format_for_mcnp_input`

Strings are `List Char`.  Python `int`s that can only be non-negative here (lengths, widths after
`max(0, ·)`) are `Nat`; the one subtraction that can go negative in Python (`width = self.width - len(indent)`)
is truncated at 0, which takes the same branches because chunks are never empty (`_split` filters them).
No imports outside the generated tables.
-/
namespace MontePyVerif.Wrap
open MontePyVerif

abbrev Str := List Char

/-! ## character classes of the Python runtime (tables generated from the interpreter) -/

/-- `c.isspace()` -/
def pyIsSpace (c : Char) : Bool := Gen.pySpaceCodes.contains c.toNat
/-- `c` is a boundary of `str.splitlines()` -/
def pyIsLineBreak (c : Char) : Bool := Gen.pyLineBreakCodes.contains c.toNat
/-- `c in textwrap._whitespace` -/
def isTwWs (c : Char) : Bool := Gen.textwrapWhitespaceCodes.contains c.toNat

def blanks (n : Nat) : Str := List.replicate n ' '

/-! ## str methods -/

/-- `str.splitlines()`: cut at every boundary, `\r\n` is one boundary, no empty last line. -/
def splitLinesAux : Str → Str → List Str
  | [], cur => if cur.isEmpty then [] else [cur.reverse]
  | '\r' :: '\n' :: rest, cur => cur.reverse :: splitLinesAux rest []
  | c :: rest, cur =>
    if pyIsLineBreak c then cur.reverse :: splitLinesAux rest []
    else splitLinesAux rest (c :: cur)

def splitLines (s : Str) : List Str := splitLinesAux s []

/-- truth value of `line.strip()` -/
def stripNonEmpty (l : Str) : Bool := l.any (fun c => !pyIsSpace c)

/-- `str.expandtabs(tabsize)`; `col` is the running column (reset by `\n` and `\r`). -/
def expandTabsAux (tabsize : Nat) : Nat → Str → Str
  | _, [] => []
  | col, c :: rest =>
    if c == '\t' then
      if tabsize > 0 then
        let incr := tabsize - col % tabsize
        blanks incr ++ expandTabsAux tabsize (col + incr) rest
      else expandTabsAux tabsize col rest
    else if c == '\n' || c == '\r' then c :: expandTabsAux tabsize 0 rest
    else c :: expandTabsAux tabsize (col + 1) rest

def expandTabs (tabsize : Nat) (s : Str) : Str := expandTabsAux tabsize 0 s

/-- `len(line) - len(line.lstrip(" "))` -/
def leadBlanks : Str → Nat
  | ' ' :: rest => leadBlanks rest + 1
  | _ => 0

/-- `line.partition("$")` → (before, found, after) -/
def partitionDollar : Str → Str × Bool × Str
  | [] => ([], false, [])
  | c :: rest =>
    if c == '$' then ([], true, rest)
    else let r := partitionDollar rest; (c :: r.1, r.2.1, r.2.2)

/-! ## textwrap.TextWrapper -/

/-- textwrap.py:TextWrapper._munge_whitespace (expand_tabs, replace_whitespace both default True) -/
def munge (text : Str) : Str :=
  let t := if Gen.textwrapExpandTabs then expandTabs Gen.textwrapTabsize text else text
  if Gen.textwrapReplaceWhitespace then t.map (fun c => if isTwWs c then ' ' else c) else t

/-- textwrap.py:TextWrapper._split with `break_on_hyphens=False`: `wordsep_simple_re.split`, empty strings removed:
    the maximal runs of whitespace and of non-whitespace, in order. -/
def splitChunks : Str → List Str
  | [] => []
  | c :: rest =>
    match splitChunks rest with
    | (d :: ds) :: more => if isTwWs c == isTwWs d then (c :: d :: ds) :: more else [c] :: (d :: ds) :: more
    | [] :: more => [c] :: more
    | [] => [[c]]

/-- the inner `while chunks:` of `_wrap_chunks`: move chunks onto the current line while they fit. -/
def fillLine (width : Nat) : Nat → List Str → List Str × List Str
  | _, [] => ([], [])
  | curLen, c :: rest =>
    if curLen + c.length ≤ width then
      let r := fillLine width (curLen + c.length) rest
      (c :: r.1, r.2)
    else ([], c :: rest)

/-- after the inner loop: `_handle_long_word` (`break_long_words=True`, `break_on_hyphens=False`) when the
    next chunk is too long for any line.  `taken` = `cur_line`, `rest` = the chunks still on the stack. -/
def finishLine (width : Nat) (taken : List Str) : List Str → List Str × List Str
  | c :: rest' =>
    if c.length > width then
      -- textwrap.py:TextWrapper._handle_long_word
      let spaceLeft := if width < 1 then 1 else width - taken.flatten.length
      (taken ++ [c.take spaceLeft], c.drop spaceLeft :: rest')
    else (taken, c :: rest')
  | [] => (taken, [])

/-- one pass of the outer loop of `_wrap_chunks`: the pieces of the current line (`cur_line`) and the
    chunks that remain. -/
def oneLine (width : Nat) (chunks : List Str) : List Str × List Str :=
  finishLine width (fillLine width 0 chunks).1 (fillLine width 0 chunks).2

/-- termination measure of `_wrap_chunks`: characters and chunks still to place -/
def weight : List Str → Nat
  | [] => 0
  | c :: rest => c.length + 1 + weight rest

theorem fillLine_weight (width : Nat) : ∀ (chunks : List Str) (curLen : Nat),
    weight (fillLine width curLen chunks).1 + weight (fillLine width curLen chunks).2 = weight chunks
  | [], _ => by simp [fillLine, weight]
  | c :: rest, curLen => by
    unfold fillLine
    split
    · have := fillLine_weight width rest (curLen + c.length)
      simp only [weight]; omega
    · simp [weight]

theorem fillLine_nil_left (width : Nat) : ∀ (chunks : List Str) (curLen : Nat),
    (fillLine width curLen chunks).1 = [] → (fillLine width curLen chunks).2 = chunks
  | [], _ => by simp [fillLine]
  | c :: rest, curLen => by
    unfold fillLine
    split
    · simp
    · simp

theorem fillLine_fst_nil (width : Nat) (c : Str) (rest : List Str)
    (h : (fillLine width 0 (c :: rest)).1 = []) : c.length > width := by
  unfold fillLine at h
  split at h
  · simp at h
  · omega

theorem weight_pos_of_ne_nil : ∀ (l : List Str), l ≠ [] → 0 < weight l
  | [], h => absurd rfl h
  | _ :: _, _ => by simp only [weight]; omega

theorem oneLine_decreases (width : Nat) (c : Str) (rest : List Str) :
    weight (oneLine width (c :: rest)).2 < weight (c :: rest) := by
  have hw := fillLine_weight width (c :: rest) 0
  have hnil := fillLine_nil_left width (c :: rest) 0
  have hlen := fillLine_fst_nil width c rest
  unfold oneLine
  generalize fillLine width 0 (c :: rest) = r at hw hnil hlen
  obtain ⟨r1, r2⟩ := r
  simp only at hw hnil hlen ⊢
  cases r2 with
  | nil => simp only [finishLine, weight]; omega
  | cons d rest' =>
    by_cases h1 : r1 = []
    · have h2 := hnil h1
      have h3 := hlen h1
      cases h2
      subst h1
      simp only [finishLine, weight, List.flatten_nil, List.length_nil] at hw ⊢
      rw [if_pos h3]
      simp only [weight, List.length_drop]
      split <;> omega
    · have hpos := weight_pos_of_ne_nil r1 h1
      simp only [finishLine]
      split
      · simp only [weight, List.length_drop] at hw ⊢; omega
      · simp only [weight] at hw ⊢; omega

/-- textwrap.py:TextWrapper._wrap_chunks (`max_lines=None`, `drop_whitespace=False`).
    `first` = no line has been stored yet (`indent = subsequent_indent if lines else initial_indent`). -/
def wrapChunks (W : Nat) (initialIndent subsequentIndent : Str) (first : Bool) (chunks : List Str) : List Str :=
  match chunks with
  | [] => []
  | c :: rest =>
    let indent := if first then initialIndent else subsequentIndent
    let r := oneLine (W - indent.length) (c :: rest)
    if r.1.isEmpty then wrapChunks W initialIndent subsequentIndent first r.2
    else (indent ++ r.1.flatten) :: wrapChunks W initialIndent subsequentIndent false r.2
termination_by weight chunks
decreasing_by
  all_goals exact oneLine_decreases _ c rest

/-- `textwrap.TextWrapper(width=W, initial_indent=…, subsequent_indent=…, drop_whitespace=False,
    break_on_hyphens=False).wrap(text)` for `W > 0` (`W ≤ 0` raises `ValueError`, see `wrapStringForMcnp`). -/
def textwrapWrap (W : Nat) (initialIndent subsequentIndent text : Str) : List Str :=
  wrapChunks W initialIndent subsequentIndent true (splitChunks (munge text))

/-! ## montepy/mcnp_object.py -/

/-- mcnp_object.py:MCNP_Object._is_comment_line -/
def isCommentLine (line : Str) : Bool :=
  let start := leadBlanks line
  decide (start < Gen.blankSpaceContinue)
    && (match line.drop start with
        | c :: rest => (c == 'c' || c == 'C') && (match rest with | [] => true | d :: _ => d == ' ')
        | [] => false)

/-- mcnp_object.py:MCNP_Object._wrap_line -/
def wrapLine (line : Str) (lineLength : Nat) (initialIndent subsequentIndent : Str) : List Str :=
  let line := expandTabs Gen.tabSize line
  if isCommentLine line then
    if line.length ≤ lineLength then [line]
    else
      let start := leadBlanks line
      textwrapWrap lineLength [] (line.take (start + 1) ++ [' ']) line
  else if initialIndent.length + line.length ≤ lineLength then [initialIndent ++ line]
  else
    let p := partitionDollar line
    let ret := (textwrapWrap lineLength initialIndent subsequentIndent p.1).filter stripNonEmpty
    if p.2.1 then
      let comment := '$' :: p.2.2
      match ret.getLast? with
      | some last =>
        if last.length + comment.length ≤ lineLength then ret.dropLast ++ [last ++ comment]
        else ret ++ textwrapWrap lineLength subsequentIndent (subsequentIndent ++ ['$', ' ']) comment
      | none => ret ++ textwrapWrap lineLength subsequentIndent (subsequentIndent ++ ['$', ' ']) comment
    else ret

inductive Err where
  | unsupportedFeature   -- constants.py:get_max_line_length, version not in LINE_LENGTH
  | valueError           -- textwrap: "invalid width (must be > 0)"
  deriving Repr, DecidableEq

abbrev Version := Nat × Nat × Nat

/-- Python tuple comparison `a >= b` on 3-tuples -/
def versionGe (a b : Version) : Bool :=
  a.1 > b.1 || (a.1 == b.1 && (a.2.1 > b.2.1 || (a.2.1 == b.2.1 && a.2.2 ≥ b.2.2)))

/-- constants.py:get_max_line_length -/
def getMaxLineLength (v : Version) : Except Err Nat :=
  if versionGe v Gen.defaultVersion then
    match Gen.lineLength.lookup Gen.defaultVersion with
    | some n => .ok n
    | none => .error .unsupportedFeature   -- (a KeyError in Python; unreachable while the table holds the default)
  else
    match Gen.lineLength.lookup v with
    | some n => .ok n
    | none => .error .unsupportedFeature

/-- the body of mcnp_object.py:MCNP_Object.wrap_string_for_mcnp once the line length is known.
    Result: the lines, and how many source lines raised a `LineExpansionWarning`. -/
def wrapStringWith (string : Str) (lineLength : Nat) (isFirstLine : Bool) : List Str × Nat :=
  let initialIndent := if isFirstLine then [] else blanks Gen.blankSpaceContinue
  (splitLines string).foldl (fun (acc : List Str × Nat) line =>
      if stripNonEmpty line then
        let buffer := wrapLine line lineLength initialIndent (blanks Gen.blankSpaceContinue)
        (acc.1 ++ buffer, if buffer.length > 1 then acc.2 + 1 else acc.2)
      else acc) ([], 0)

/-- mcnp_object.py:MCNP_Object.wrap_string_for_mcnp -/
def wrapStringForMcnp (string : Str) (v : Version) (isFirstLine : Bool) : Except Err (List Str × Nat) :=
  match getMaxLineLength v with
  | .error e => .error e
  | .ok lineLength =>
    -- every non-blank line reaches TextWrapper._wrap_chunks or fits; with width 0 nothing fits and it raises
    if lineLength == 0 && (splitLines string).any stripNonEmpty then .error .valueError
    else .ok (wrapStringWith string lineLength isFirstLine)

/-! ## montepy/cell.py -/

/-- `str.rstrip()` -/
def pyRstrip (s : Str) : Str := (s.reverse.dropWhile pyIsSpace).reverse

/-- cell.py:Cell.format_for_mcnp_input.cleanup_last_line (`ret` is never empty there: the cell number precedes) -/
def cleanupLastLine (ret : Str) : Str :=
  -- a padding that ends in a line break: the next parameter continues the input
  if ret.getLast? == some '\n' then ret ++ blanks Gen.blankSpaceContinue
  else
    match (splitLines ret).getLast? with
    | none => ret   -- Python: IndexError; not reachable from format_for_mcnp_input
    | some lastLine =>
      if isCommentLine lastLine || lastLine.contains '$' then ret ++ ['\n'] ++ blanks Gen.blankSpaceContinue
      -- a line that ends in the continuation mark "&" has to stay the end of its line
      else if (pyRstrip lastLine).getLast? == some '&' then ret ++ ['\n'] ++ blanks Gen.blankSpaceContinue
      else match lastLine.getLast? with
        | some c => if !pyIsSpace c then ret ++ [' '] else ret
        | none => ret   -- Python: IndexError on an empty last line

/-- what the loop of `Cell.format_for_mcnp_input` appends -/
inductive Piece where
  | node (text : Str)               -- `ret += node.format()` for a key other than "parameters"
  | modifier (lines : List Str)     -- `cleanup_last_line`, then `"\n".join(modifier.format_for_mcnp_input(v))`
  | param (text : Str)              -- `cleanup_last_line`, then `param.format()`

def joinNl : List Str → Str
  | [] => []
  | [l] => l
  | l :: rest => l ++ ['\n'] ++ joinNl rest

/-- cell.py:Cell.format_for_mcnp_input, the string handed to `wrap_string_for_mcnp` -/
def cellAssemble (pieces : List Piece) : Str :=
  let ret := pieces.foldl (fun ret p =>
    match p with
    | .node t => ret ++ t
    | .modifier ls => cleanupLastLine ret ++ joinNl ls
    | .param t => cleanupLastLine ret ++ t) []
  -- the input must not end in the continuation mark "&": it would continue into the next input
  let stripped := pyRstrip ret
  if stripped.getLast? == some '&' && !(((splitLines stripped).getLast?.getD []).contains '$') then stripped.dropLast
  else ret

/-- cell.py:Cell.format_for_mcnp_input -/
def cellFormat (pieces : List Piece) (v : Version) : Except Err (List Str × Nat) :=
  wrapStringForMcnp (cellAssemble pieces) v true

/-! ## montepy/data_inputs/cell_modifier.py, importance.py: per-cell data written to the data block -/

/-- `str.rstrip(" ")` -/
def rstripBlanks (s : Str) : Str := (s.reverse.dropWhile (· == ' ')).reverse

/-- `s[s.rfind("\n") + 1:]`: what stands behind the last line feed (all of `s` when there is none) -/
def afterLastNl (s : Str) : Str := (s.reverse.takeWhile (· != '\n')).reverse

/-- the test of cell_modifier.py:_drop_final_continuation_mark: the text ends in the continuation mark (white space
    aside) and the mark is not comment text -/
def endsInMark (text : Str) : Bool :=
  (pyRstrip text).getLast? == some '&' && !(afterLastNl (pyRstrip text)).contains '$'

/-- cell_modifier.py:_drop_final_continuation_mark — an input of the data block must not end in the continuation
    mark (the values come from the cells with the padding they had there) -/
def dropFinalContinuationMark (text : Str) : Str :=
  if endsInMark text then rstripBlanks (pyRstrip text).dropLast else text

/-- importance.py:Importance._format_tree, data-block branch: `cards` are the texts `tree.format()` of the groups of
    particles that are printed together, in print order; every one of them loses a final continuation mark -/
def importanceDataText (cards : List Str) : Str := joinNl (cards.map dropFinalContinuationMark)

/-- cell_modifier.py:CellModifierInput.format_for_mcnp_input, data-block branch, from the text `_format_tree` returns -/
def modifierDataFormat (text : Str) (v : Version) : Except Err (List Str × Nat) :=
  wrapStringForMcnp (dropFinalContinuationMark text) v true

/-! ## montepy/input_parser/mcnp_input.py -/

/-- Python slice `s[0:k]` for an `int` k that may be negative -/
def sliceTo (s : Str) (k : Int) : Str :=
  if k ≥ 0 then s.take k.toNat else s.take (s.length - (-k).toNat)

/-- mcnp_input.py:Message.format_for_mcnp_input -/
def messageFormat (lines : List Str) (v : Version) : Except Err (List Str) :=
  match getMaxLineLength v with
  | .error e => .error e
  | .ok n =>
    .ok ((match lines with
          | [] => []
          | l :: rest => ("MESSAGE: ".toList ++ sliceTo l ((n : Int) - 9)) :: rest.map (fun x => sliceTo x (n : Int))) ++ [[]])

/-- mcnp_input.py:Title.format_for_mcnp_input -/
def titleFormat (title : Str) (v : Version) : Except Err (List Str) :=
  match getMaxLineLength v with
  | .error e => .error e
  | .ok n => .ok [sliceTo title (n : Int)]

end MontePyVerif.Wrap
