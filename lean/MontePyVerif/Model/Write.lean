import MontePyVerif.Gen.WriteOrder
/-!
# Model of `MCNP_Problem.write_to_file` and of `MCNP_InputFile.open("w")` / `__exit__` (C15)

The model follows the *repaired* code (fix commits d0116a1 and bb2131d of the MontePy tree):

* `montepy/input_parser/input_file.py`: `MCNP_InputFile.open` (guards, `_open_temporary`), `write`,
  `__exit__` (close, `os.replace`, `_discard_temporary`);
* `montepy/mcnp_problem.py`: `MCNP_Problem.write_to_file` (statement order taken from the generated table
  `Gen.WriteOrder.sequence`), `_handle_warnings` as a step that can only raise;
* `montepy/cells.py`: `Cells._run_children_format_for_mcnp`.

What `format_for_mcnp_input` of an object computes is *not* modelled here (that is C01–C10): an object
is the outcome of that call, `Fmt.lines ls` or `Fmt.raises e` (`validate()` raising `IllegalState`,
`Fill` raising `ValueError`, …).  Faults of the environment come from a `Fault` plan that makes at most
one step fail: creating the temporary, the k-th `format_for_mcnp_input`, the k-th `fh.write` (after a
prefix of the text went out), closing, `os.replace`, or `_handle_warnings` after the commit.

The file system is abstracted to the destination path and the one temporary file next to it.

Trusted assumptions about the operating system (they are the meaning of the four `fs…` primitives):
* `os.open(tmp, O_WRONLY|O_CREAT|O_EXCL)` creates `tmp` and touches nothing else;
* writing to / closing / removing `tmp` changes only `tmp`;
* `os.replace(tmp, dest)` is atomic on one file system: afterwards `dest` has the content of `tmp`
  and `tmp` is gone, or (when it raises) nothing changed;
* a crash of the interpreter or the machine is outside the model.

No imports outside the generated table: the file is used by the compiled driver.
-/

namespace MontePyVerif.Write
open MontePyVerif.Gen.WriteOrder (Seg)

/-- exception classes the writer can let through (`other` carries the Python class name) -/
inductive Err
  | fileExists | isADirectory | illegalState | valueError | osError
  | other (pyClass : String)
  deriving DecidableEq, Repr

/-- outcome of `obj.format_for_mcnp_input(mcnp_version)` (`mcnp_object.py`, `cell.py`, …) -/
inductive Fmt
  | lines (ls : List String)
  | raises (e : Err)
  deriving DecidableEq, Repr

/-- `MCNP_Problem` as the writer sees it. `modifiers` are the `Cells` attributes of
    `Cell._INPUTS_TO_PROPERTY` that are **not** in `data_inputs`, in registry order. -/
structure Problem where
  message   : Option Fmt
  title     : Fmt
  cells     : List Fmt
  surfaces  : List Fmt
  dataInputs : List Fmt
  modifiers : List Fmt
  deriving Repr

/-- state of the destination path. A file is the list of its lines (each written as `line + "\n"`). -/
inductive Dest
  | absent
  | file (content : List String)
  | dir
  deriving DecidableEq, Repr

/-- the destination and the temporary file in the same directory (`none`: no temporary exists) -/
structure FS where
  dest : Dest
  tmp  : Option (List String)
  deriving DecidableEq, Repr

inductive Fault
  | none
  /-- `os.open` of the temporary raises OSError (directory missing or not writable, disk full) -/
  | openTmp
  /-- the k-th call (0-based) of `format_for_mcnp_input` raises `e` -/
  | format (k : Nat) (e : Err)
  /-- the k-th call (0-based) of `fh.write` raises OSError after `sent` characters went out -/
  | write (k : Nat) (sent : Nat)
  /-- closing (flushing) the temporary raises OSError -/
  | close
  /-- `os.replace` raises OSError -/
  | replace
  /-- `_handle_warnings` raises `e` (after the `with` block, i.e. after the commit) -/
  | warn (e : Err)
  deriving DecidableEq, Repr

/-! ## file-system primitives (the trusted interface) -/

/-- `os.open(temp_path, O_WRONLY | O_CREAT | O_EXCL, 0o666)` -/
def fsCreateTmp (fs : FS) : FS := { fs with tmp := some [] }

/-- `fh.write(text)` on the temporary -/
def fsAppendTmp (fs : FS) (text : String) : FS := { fs with tmp := fs.tmp.map (· ++ [text]) }

/-- `os.remove(temp_path)` (a missing file is ignored) -/
def fsRemoveTmp (fs : FS) : FS := { fs with tmp := none }

/-- `os.replace(temp_path, target)`; replacing a directory by a file is refused by the OS -/
def fsReplace (fs : FS) : Option FS :=
  match fs.tmp, fs.dest with
  | some c, .absent => some { dest := .file c, tmp := none }
  | some c, .file _ => some { dest := .file c, tmp := none }
  | _, _ => none

/-! ## `MCNP_InputFile` -/

/-- state of the `with` block: file system, number of `format_for_mcnp_input` calls and of `fh.write`
    calls made so far, and `MCNP_InputFile._lineno` -/
structure W where
  fs     : FS
  nfmt   : Nat
  nwr    : Nat
  lineno : Nat
  deriving DecidableEq, Repr

/-- input_file.py:MCNP_InputFile.open (mode "w") with `_open_temporary`.
    Guards in the order of the source (`Gen.WriteOrder.openGuards`). Returns the exception, if any. -/
def openW (fs : FS) (overwrite : Bool) (plan : Fault) : FS × Option Err :=
  let create : FS × Option Err :=
    if plan = .openTmp then (fs, some .osError) else (fsCreateTmp fs, none)
  match fs.dest with
  | .file _ =>
    if "FileExistsError" ∈ MontePyVerif.Gen.WriteOrder.openGuards ∧ overwrite = false then (fs, some .fileExists)
    else create
  | .dir =>
    if "IsADirectoryError" ∈ MontePyVerif.Gen.WriteOrder.openGuards then (fs, some .isADirectory) else create
  | .absent => create

/-- the text can be encoded by the handle (`encoding="ascii"`, the default of `open`) -/
def encodable (line : String) : Bool :=
  MontePyVerif.Gen.WriteOrder.openEncoding != "ascii" || line.toList.all (fun c => c.toNat < 128)

/-- input_file.py:MCNP_InputFile.write — `self._lineno += to_write.count("\n")`; `self._fh.write(to_write)`.
    The text is `line ++ "\n"`; the model stores the line.  A character outside the encoding makes the
    text layer raise UnicodeEncodeError before anything of this text is buffered. -/
def doWrite (plan : Fault) (w : W) (line : String) : W × Option Err :=
  let full : W × Option Err :=
    if encodable line then
      ({ w with fs := fsAppendTmp w.fs line, nwr := w.nwr + 1, lineno := w.lineno + 1 }, none)
    else ({ w with nwr := w.nwr + 1, lineno := w.lineno + 1 }, some (.other "UnicodeEncodeError"))
  match plan with
  | .write k sent =>
    if k = w.nwr then
      ({ w with fs := fsAppendTmp w.fs (String.ofList (line.toList.take sent)), nwr := w.nwr + 1, lineno := w.lineno + 1 },
       some .osError)
    else full
  | _ => full

/-- input_file.py:MCNP_InputFile.__exit__ — close; on a clean exit `os.replace`; `finally: _discard_temporary()`.
    `exc` is the exception propagating out of the `with` body. An exception raised by close or replace
    supersedes it. -/
def exitW (fs : FS) (exc : Option Err) (plan : Fault) : FS × Option Err :=
  if plan = .close then (fsRemoveTmp fs, some .osError)
  else match exc with
    | some e => (fsRemoveTmp fs, some e)
    | none =>
      if plan = .replace then (fsRemoveTmp fs, some .osError)
      else match fsReplace fs with
        | some fs' => (fs', none)
        | none => (fsRemoveTmp fs, some .osError)

/-! ## `MCNP_Problem.write_to_file` -/

/-- one call `obj.format_for_mcnp_input(self.mcnp_version)` under the fault plan -/
def doFormat (plan : Fault) (w : W) (o : Fmt) : W × Except Err (List String) :=
  let w' := { w with nfmt := w.nfmt + 1 }
  match plan with
  | .format k e => if k = w.nfmt then (w', .error e) else
      match o with
      | .lines ls => (w', .ok ls)
      | .raises e' => (w', .error e')
  | _ =>
    match o with
    | .lines ls => (w', .ok ls)
    | .raises e' => (w', .error e')

/-- `for line in lines: fh.write(line + "\n")` -/
def writeLines (plan : Fault) : W → List String → W × Option Err
  | w, [] => (w, none)
  | w, l :: t =>
    match doWrite plan w l with
    | (w', some e) => (w', some e)
    | (w', none) => writeLines plan w' t

/-- mcnp_problem.py:write_to_file, inner loop `for obj in objects:` — format, then write the lines -/
def writeObjects (plan : Fault) : W → List Fmt → W × Option Err
  | w, [] => (w, none)
  | w, o :: t =>
    match doFormat plan w o with
    | (w', .error e) => (w', some e)
    | (w', .ok ls) =>
      match writeLines plan w' ls with
      | (w'', some e) => (w'', some e)
      | (w'', none) => writeObjects plan w'' t

/-- cells.py:Cells._run_children_format_for_mcnp — every modifier is formatted before a line is written -/
def runChildrenFormat (plan : Fault) : W → List Fmt → W × Except Err (List String)
  | w, [] => (w, .ok [])
  | w, o :: t =>
    match doFormat plan w o with
    | (w', .error e) => (w', .error e)
    | (w', .ok ls) =>
      match runChildrenFormat plan w' t with
      | (w'', .error e) => (w'', .error e)
      | (w'', .ok rest) => (w'', .ok (ls ++ rest))

/-- the objects of one entry of `objects_list` -/
def segObjects (p : Problem) : Seg → List Fmt
  | .message => match p.message with | some m => [m] | none => []
  | .title => [p.title]
  | .cells => p.cells
  | .surfaces => p.surfaces
  | .dataInputs => p.dataInputs
  | .modifiers => p.modifiers
  | .blank => []

/-- one statement of the `with` body -/
def runSeg (plan : Fault) (p : Problem) (w : W) : Seg → W × Option Err
  | .blank => doWrite plan w ""
  | .modifiers =>
    match runChildrenFormat plan w p.modifiers with
    | (w', .error e) => (w', some e)
    | (w', .ok ls) => writeLines plan w' ls
  | s => writeObjects plan w (segObjects p s)

/-- the body of the `with` block: the statements in source order; the first exception ends it -/
def runSeq (plan : Fault) (p : Problem) : W → List Seg → W × Option Err
  | w, [] => (w, none)
  | w, s :: t =>
    match runSeg plan p w s with
    | (w', some e) => (w', some e)
    | (w', none) => runSeq plan p w' t

/-- mcnp_problem.py:MCNP_Problem.write_to_file over an arbitrary statement sequence.
    Result: the exception that leaves the call (`none`: returned normally) and the file system afterwards. -/
def writeToFileSeq (seq : List Seg) (p : Problem) (fs : FS) (overwrite : Bool) (plan : Fault) : Option Err × FS :=
  match openW fs overwrite plan with
  | (fs0, some e) => (some e, fs0)
  | (fs1, none) =>
    let r := runSeq plan p { fs := fs1, nfmt := 0, nwr := 0, lineno := 1 } seq
    match exitW r.1.fs r.2 plan with
    | (fs2, some e) => (some e, fs2)
    | (fs2, none) =>
      -- self._handle_warnings(warning_catch)
      match plan with
      | .warn e => (some e, fs2)
      | _ => (none, fs2)

/-- mcnp_problem.py:MCNP_Problem.write_to_file as the source has it now -/
def writeToFile (p : Problem) (fs : FS) (overwrite : Bool) (plan : Fault) : Option Err × FS :=
  writeToFileSeq MontePyVerif.Gen.WriteOrder.sequence p fs overwrite plan

/-! ## the complete output, in closed form (what the theorems compare the destination with) -/

/-- all lines of a list of objects, `none` if one of them raises -/
def linesOf : List Fmt → Option (List String)
  | [] => some []
  | .lines ls :: t => (linesOf t).map (ls ++ ·)
  | .raises _ :: _ => none

def segLines (p : Problem) : Seg → Option (List String)
  | .blank => some [""]
  | s => linesOf (segObjects p s)

/-- every object formatted, statement by statement -/
def renderSeq (p : Problem) : List Seg → Option (List String)
  | [] => some []
  | s :: t =>
    match segLines p s, renderSeq p t with
    | some a, some b => some (a ++ b)
    | _, _ => none

/-- the complete text for a statement sequence: every object formats and every line can be encoded -/
def complete (p : Problem) (seq : List Seg) : Option (List String) :=
  match renderSeq p seq with
  | some out => if out.all encodable then some out else none
  | none => none

/-- the complete text of the problem, in the order of the source -/
def render (p : Problem) : Option (List String) := complete p MontePyVerif.Gen.WriteOrder.sequence

/-- number of `format_for_mcnp_input` calls / `fh.write` calls of a fault-free run (used by the driver) -/
def countFormats (p : Problem) (seq : List Seg) : Nat := (seq.map (fun s => (segObjects p s).length)).sum

/-! ## trailing blanks (repaired code)

`write_to_file` writes `line.rstrip() + "\n"`: the reader drops trailing blanks, so writing them made
a file change on the next read/write generation (C19).  The stripping is independent of the fault
plan and of the file system, so the repaired writer is the writer above applied to the problem whose
formatted lines have been stripped; every theorem of `Props/C15.lean` is universally quantified over
problems and therefore holds for it by instantiation (`C15_atomic_written`). -/

/-- Python `str.rstrip()` on the characters that can end a formatted line -/
def rstripS (s : String) : String :=
  String.ofList (s.toList.reverse.dropWhile (fun c => c = ' ' || c = '\t' || c = '\n' || c = '\r')).reverse

def Fmt.strip : Fmt → Fmt
  | .lines ls => .lines (ls.map rstripS)
  | .raises e => .raises e

def Problem.strip (p : Problem) : Problem :=
  { message := p.message.map Fmt.strip, title := p.title.strip, cells := p.cells.map Fmt.strip,
    surfaces := p.surfaces.map Fmt.strip, dataInputs := p.dataInputs.map Fmt.strip,
    modifiers := p.modifiers.map Fmt.strip }

/-- mcnp_problem.py:MCNP_Problem.write_to_file as it is now -/
def writeToFileNow (p : Problem) (fs : FS) (overwrite : Bool) (plan : Fault) : Option Err × FS :=
  writeToFile p.strip fs overwrite plan

/-- the complete text the repaired writer produces -/
def renderNow (p : Problem) : Option (List String) := render p.strip

end MontePyVerif.Write
