import MontePyVerif.Gen.WriteOrder
/-!
# Model of `MCNP_Problem.write_to_file` and of `MCNP_InputFile.open("w")` / `__exit__` (C15)

The model follows the *repaired* code (fix commits d0116a1 and bb2131d of the MontePy tree):

* `montepy/input_parser/input_file.py`: `MCNP_InputFile.open` (guards, `_open_temporary`), `write`,
  `__exit__` (close, `os.replace`, `_discard_temporary`);
* `montepy/mcnp_problem.py`: `MCNP_Problem.write_to_file` (statement order taken from the generated table
  `Gen.WriteOrder.sequence`), `_handle_warnings` as a step that can only raise;
* `montepy/cells.py`: `Cells._run_children_format_for_mcnp`.

What `format_for_mcnp_input` of an object computes is *not* modelled here (that is C01–C10): an object
is the outcome of that call, `Fmt.lines ls` or `Fmt.raises e` (`validate()` raising `IllegalState`,
`Fill` raising `ValueError`, …).  Faults of the environment come from a `Fault` plan that makes at most
one step fail: creating the temporary, the k-th `format_for_mcnp_input`, the k-th `fh.write` (after a
prefix of the text went out), closing, `os.replace`, or `_handle_warnings` after the commit.

The file system is abstracted to the destination path and the one temporary file next to it.

Trusted assumptions about the operating system (they are the meaning of the four `fs…` primitives):
* `os.open(tmp, O_WRONLY|O_CREAT|O_EXCL)` creates `tmp` and touches nothing else;
* `fh.write` puts text into Python's buffer; a *flush* (when 8 KiB have accumulated, and at close) appends
  buffered text to the file the descriptor refers to, in order; a flush or close that fails may have appended
  **any prefix** of the buffered text before it raises, the rest is lost; `os.fsync` persists what was
  flushed and nothing of the buffer;
* writing to / closing / removing `tmp` changes only `tmp`;
* `os.replace(tmp, dest)` is atomic on one file system: afterwards `dest` has the content of `tmp`
  and `tmp` is gone, or (when it raises) nothing changed;
* a crash of the interpreter or the machine is outside the model.

No imports outside the generated table: the file is used by the compiled driver.
-/

namespace MontePyVerif.Write
open MontePyVerif.Gen.WriteOrder (Seg)

/-- exception classes the writer can let through (`other` carries the Python class name) -/
inductive Err
  | fileExists | isADirectory | illegalState | valueError | osError
  | other (pyClass : String)
  deriving DecidableEq, Repr

/-- outcome of `obj.format_for_mcnp_input(mcnp_version)` (`mcnp_object.py`, `cell.py`, …) -/
inductive Fmt
  | lines (ls : List String)
  | raises (e : Err)
  deriving DecidableEq, Repr

/-- `MCNP_Problem` as the writer sees it. `modifiers` are the `Cells` attributes of
    `Cell._INPUTS_TO_PROPERTY` that are **not** in `data_inputs`, in registry order. -/
structure Problem where
  message   : Option Fmt
  title     : Fmt
  cells     : List Fmt
  surfaces  : List Fmt
  dataInputs : List Fmt
  modifiers : List Fmt
  deriving Repr

/-- state of the destination path. A file is the list of its lines (each written as `line + "\n"`). -/
inductive Dest
  | absent
  | file (content : List String)
  | dir
  deriving DecidableEq, Repr

/-- the destination and the temporary file in the same directory (`none`: no temporary exists) -/
structure FS where
  dest : Dest
  tmp  : Option (List String)
  deriving DecidableEq, Repr

inductive Fault
  | none
  /-- `os.open` of the temporary raises OSError (directory missing or not writable, disk full) -/
  | openTmp
  /-- the k-th call (0-based) of `format_for_mcnp_input` raises `e` -/
  | format (k : Nat) (e : Err)
  /-- the k-th call (0-based) of `fh.write` raises OSError after `sent` characters went out -/
  | write (k : Nat) (sent : Nat)
  /-- closing the temporary raises OSError after a prefix of the still buffered text reached the file:
      `lines` whole lines and `chars` characters of the next one (0 0: nothing, large: everything) -/
  | close (lines : Nat) (chars : Nat)
  /-- `os.replace` raises OSError -/
  | replace
  /-- `_handle_warnings` raises `e` (after the `with` block, i.e. after the commit) -/
  | warn (e : Err)
  deriving DecidableEq, Repr

/-! ## file-system primitives (the trusted interface) -/

/-- `os.open(temp_path, O_WRONLY | O_CREAT | O_EXCL, 0o666)` -/
def fsCreateTmp (fs : FS) : FS := { fs with tmp := some [] }

/-- a flush of the handle while its file is the temporary: the texts are appended to it, in order -/
def fsFlushTmp (fs : FS) (texts : List String) : FS := { fs with tmp := fs.tmp.map (· ++ texts) }

/-- a flush of a handle whose file has been renamed onto the destination (not done by the repaired code;
    used by `exitWRenameFirst`, the refuted order) -/
def fsFlushDest (fs : FS) (texts : List String) : FS :=
  { fs with dest := match fs.dest with | .file c => .file (c ++ texts) | d => d }

/-- `os.remove(temp_path)` (a missing file is ignored) -/
def fsRemoveTmp (fs : FS) : FS := { fs with tmp := none }

/-- `os.replace(temp_path, target)`; replacing a directory by a file is refused by the OS -/
def fsReplace (fs : FS) : Option FS :=
  match fs.tmp, fs.dest with
  | some c, .absent => some { dest := .file c, tmp := none }
  | some c, .file _ => some { dest := .file c, tmp := none }
  | _, _ => none

/-! ## `MCNP_InputFile` -/

/-- state of the `with` block: file system, Python's buffer of the handle (text accepted by `fh.write`
    that has not reached the file yet), the buffering policy (`autoFlush k`: the buffer is written out
    after the k-th write call — CPython does so when 8 KiB have accumulated; the theorems hold for every
    policy), number of `format_for_mcnp_input` calls and of `fh.write` calls made so far, and
    `MCNP_InputFile._lineno` -/
structure W where
  fs     : FS
  buf    : List String
  autoFlush : Nat → Bool
  nfmt   : Nat
  nwr    : Nat
  lineno : Nat

/-- input_file.py:MCNP_InputFile.open (mode "w") with `_open_temporary`.
    Guards in the order of the source (`Gen.WriteOrder.openGuards`). Returns the exception, if any. -/
def openW (fs : FS) (overwrite : Bool) (plan : Fault) : FS × Option Err :=
  let create : FS × Option Err :=
    if plan = .openTmp then (fs, some .osError) else (fsCreateTmp fs, none)
  match fs.dest with
  | .file _ =>
    if "FileExistsError" ∈ MontePyVerif.Gen.WriteOrder.openGuards ∧ overwrite = false then (fs, some .fileExists)
    else create
  | .dir =>
    if "IsADirectoryError" ∈ MontePyVerif.Gen.WriteOrder.openGuards then (fs, some .isADirectory) else create
  | .absent => create

/-- the text can be encoded by the handle (`encoding="ascii"`, the default of `open`) -/
def encodable (line : String) : Bool :=
  MontePyVerif.Gen.WriteOrder.openEncoding != "ascii" || line.toList.all (fun c => c.toNat < 128)

/-- input_file.py:MCNP_InputFile.write — `self._lineno += to_write.count("\n")`; `self._fh.write(to_write)`.
    The text is `line ++ "\n"`; the model stores the line.  A character outside the encoding makes the
    text layer raise UnicodeEncodeError before anything of this text is buffered. -/
def doWrite (plan : Fault) (w : W) (line : String) : W × Option Err :=
  let accept (text : String) : W :=
    { w with buf := w.buf ++ [text], nwr := w.nwr + 1, lineno := w.lineno + 1 }
  let full : W × Option Err :=
    if encodable line then
      let w1 := accept line
      -- the buffer is full: it is written out to the file behind the descriptor
      (if w.autoFlush w.nwr then { w1 with fs := fsFlushTmp w1.fs w1.buf, buf := [] } else w1, none)
    else ({ w with nwr := w.nwr + 1, lineno := w.lineno + 1 }, some (.other "UnicodeEncodeError"))
  match plan with
  | .write k sent =>
    if k = w.nwr then (accept (String.ofList (line.toList.take sent)), some .osError)
    else full
  | _ => full

/-- the prefix of the buffered text that reaches the file when a flush fails part-way -/
def flushPrefix (buf : List String) (lines chars : Nat) : List String :=
  buf.take lines ++
    (match buf.drop lines with
     | l :: _ => if chars = 0 then [] else [String.ofList (l.toList.take chars)]
     | [] => [])

/-- closing the handle flushes the buffer into the temporary; under `Fault.close` only a prefix gets
    there and OSError is raised -/
def closeW (w : W) (plan : Fault) : FS × Option Err :=
  match plan with
  | .close n c => (fsFlushTmp w.fs (flushPrefix w.buf n c), some .osError)
  | _ => (fsFlushTmp w.fs w.buf, none)

/-- input_file.py:MCNP_InputFile.__exit__ — **close first** (only a file that was closed without an error
    is complete); on a clean exit `os.replace`; `finally: _discard_temporary()`.
    `exc` is the exception propagating out of the `with` body. An exception raised by close or replace
    supersedes it. -/
def exitW (w : W) (exc : Option Err) (plan : Fault) : FS × Option Err :=
  match closeW w plan with
  | (fs1, some e) => (fsRemoveTmp fs1, some e)
  | (fs1, none) =>
    match exc with
    | some e => (fsRemoveTmp fs1, some e)
    | none =>
      if plan = .replace then (fsRemoveTmp fs1, some .osError)
      else match fsReplace fs1 with
        | some fs' => (fs', none)
        | none => (fsRemoveTmp fs1, some .osError)

/-- NOT the code: the order `os.fsync(fileno); os.replace(tmp, dest); close` of a "durability" change that
    forgets to flush.  What has been flushed so far gets the destination's name; the text still in
    Python's buffer is written by the close that follows — into the file that now *is* the destination —
    and a failing close leaves it truncated with nothing to roll back.  Kept so that the refutation
    `C15_atomic_rename_first_refuted` documents why the repaired code closes before it renames. -/
def exitWRenameFirst (w : W) (exc : Option Err) (plan : Fault) : FS × Option Err :=
  match exc with
  | some e =>
    match closeW w plan with
    | (fs1, some ce) => (fsRemoveTmp fs1, some ce)
    | (fs1, none) => (fsRemoveTmp fs1, some e)
  | none =>
    if plan = .replace then (fsRemoveTmp w.fs, some .osError)
    else match fsReplace w.fs with
      | none => (fsRemoveTmp w.fs, some .osError)
      | some fs1 =>
        match plan with
        | .close n c => (fsFlushDest fs1 (flushPrefix w.buf n c), some .osError)
        | _ => (fsFlushDest fs1 w.buf, none)

/-! ## `MCNP_Problem.write_to_file` -/

/-- one call `obj.format_for_mcnp_input(self.mcnp_version)` under the fault plan -/
def doFormat (plan : Fault) (w : W) (o : Fmt) : W × Except Err (List String) :=
  let w' := { w with nfmt := w.nfmt + 1 }
  match plan with
  | .format k e => if k = w.nfmt then (w', .error e) else
      match o with
      | .lines ls => (w', .ok ls)
      | .raises e' => (w', .error e')
  | _ =>
    match o with
    | .lines ls => (w', .ok ls)
    | .raises e' => (w', .error e')

/-- `for line in lines: fh.write(line + "\n")` -/
def writeLines (plan : Fault) : W → List String → W × Option Err
  | w, [] => (w, none)
  | w, l :: t =>
    match doWrite plan w l with
    | (w', some e) => (w', some e)
    | (w', none) => writeLines plan w' t

/-- mcnp_problem.py:write_to_file, inner loop `for obj in objects:` — format, then write the lines -/
def writeObjects (plan : Fault) : W → List Fmt → W × Option Err
  | w, [] => (w, none)
  | w, o :: t =>
    match doFormat plan w o with
    | (w', .error e) => (w', some e)
    | (w', .ok ls) =>
      match writeLines plan w' ls with
      | (w'', some e) => (w'', some e)
      | (w'', none) => writeObjects plan w'' t

/-- cells.py:Cells._run_children_format_for_mcnp — every modifier is formatted before a line is written -/
def runChildrenFormat (plan : Fault) : W → List Fmt → W × Except Err (List String)
  | w, [] => (w, .ok [])
  | w, o :: t =>
    match doFormat plan w o with
    | (w', .error e) => (w', .error e)
    | (w', .ok ls) =>
      match runChildrenFormat plan w' t with
      | (w'', .error e) => (w'', .error e)
      | (w'', .ok rest) => (w'', .ok (ls ++ rest))

/-- the objects of one entry of `objects_list` -/
def segObjects (p : Problem) : Seg → List Fmt
  | .message => match p.message with | some m => [m] | none => []
  | .title => [p.title]
  | .cells => p.cells
  | .surfaces => p.surfaces
  | .dataInputs => p.dataInputs
  | .modifiers => p.modifiers
  | .blank => []

/-- one statement of the `with` body -/
def runSeg (plan : Fault) (p : Problem) (w : W) : Seg → W × Option Err
  | .blank => doWrite plan w ""
  | .modifiers =>
    match runChildrenFormat plan w p.modifiers with
    | (w', .error e) => (w', some e)
    | (w', .ok ls) => writeLines plan w' ls
  | s => writeObjects plan w (segObjects p s)

/-- the body of the `with` block: the statements in source order; the first exception ends it -/
def runSeq (plan : Fault) (p : Problem) : W → List Seg → W × Option Err
  | w, [] => (w, none)
  | w, s :: t =>
    match runSeg plan p w s with
    | (w', some e) => (w', some e)
    | (w', none) => runSeq plan p w' t

/-- the buffering policy used when none is given: everything stays in the buffer until close
    (the case of every problem below 8 KiB) -/
def noAutoFlush : Nat → Bool := fun _ => false

/-- mcnp_problem.py:MCNP_Problem.write_to_file over an arbitrary statement sequence, buffering policy and
    `__exit__`.  Result: the exception that leaves the call (`none`: returned normally) and the file
    system afterwards. -/
def writeToFileWith (exit : W → Option Err → Fault → FS × Option Err) (seq : List Seg) (p : Problem) (fs : FS)
    (overwrite : Bool) (plan : Fault) (sched : Nat → Bool) : Option Err × FS :=
  match openW fs overwrite plan with
  | (fs0, some e) => (some e, fs0)
  | (fs1, none) =>
    let r := runSeq plan p { fs := fs1, buf := [], autoFlush := sched, nfmt := 0, nwr := 0, lineno := 1 } seq
    match exit r.1 r.2 plan with
    | (fs2, some e) => (some e, fs2)
    | (fs2, none) =>
      -- self._handle_warnings(warning_catch)
      match plan with
      | .warn e => (some e, fs2)
      | _ => (none, fs2)

/-- the repaired code (close, then rename) over an arbitrary statement sequence -/
def writeToFileSeq (seq : List Seg) (p : Problem) (fs : FS) (overwrite : Bool) (plan : Fault)
    (sched : Nat → Bool := noAutoFlush) : Option Err × FS :=
  writeToFileWith exitW seq p fs overwrite plan sched

/-- mcnp_problem.py:MCNP_Problem.write_to_file in the statement order of the source -/
def writeToFile (p : Problem) (fs : FS) (overwrite : Bool) (plan : Fault)
    (sched : Nat → Bool := noAutoFlush) : Option Err × FS :=
  writeToFileSeq MontePyVerif.Gen.WriteOrder.sequence p fs overwrite plan sched

/-! ## the complete output, in closed form (what the theorems compare the destination with) -/

/-- all lines of a list of objects, `none` if one of them raises -/
def linesOf : List Fmt → Option (List String)
  | [] => some []
  | .lines ls :: t => (linesOf t).map (ls ++ ·)
  | .raises _ :: _ => none

def segLines (p : Problem) : Seg → Option (List String)
  | .blank => some [""]
  | s => linesOf (segObjects p s)

/-- every object formatted, statement by statement -/
def renderSeq (p : Problem) : List Seg → Option (List String)
  | [] => some []
  | s :: t =>
    match segLines p s, renderSeq p t with
    | some a, some b => some (a ++ b)
    | _, _ => none

/-- the complete text for a statement sequence: every object formats and every line can be encoded -/
def complete (p : Problem) (seq : List Seg) : Option (List String) :=
  match renderSeq p seq with
  | some out => if out.all encodable then some out else none
  | none => none

/-- the complete text of the problem, in the order of the source -/
def render (p : Problem) : Option (List String) := complete p MontePyVerif.Gen.WriteOrder.sequence

/-- number of `format_for_mcnp_input` calls / `fh.write` calls of a fault-free run (used by the driver) -/
def countFormats (p : Problem) (seq : List Seg) : Nat := (seq.map (fun s => (segObjects p s).length)).sum

/-! ## trailing blanks (repaired code)

`write_to_file` writes `line.rstrip() + "\n"`: the reader drops trailing blanks, so writing them made
a file change on the next read/write generation (C19).  The stripping is independent of the fault
plan and of the file system, so the repaired writer is the writer above applied to the problem whose
formatted lines have been stripped; every theorem of `Props/C15.lean` is universally quantified over
problems and therefore holds for it by instantiation (`C15_atomic_written`). -/

/-- Python `str.rstrip()` on the characters that can end a formatted line -/
def rstripS (s : String) : String :=
  String.ofList (s.toList.reverse.dropWhile (fun c => c = ' ' || c = '\t' || c = '\n' || c = '\r')).reverse

def Fmt.strip : Fmt → Fmt
  | .lines ls => .lines (ls.map rstripS)
  | .raises e => .raises e

def Problem.strip (p : Problem) : Problem :=
  { message := p.message.map Fmt.strip, title := p.title.strip, cells := p.cells.map Fmt.strip,
    surfaces := p.surfaces.map Fmt.strip, dataInputs := p.dataInputs.map Fmt.strip,
    modifiers := p.modifiers.map Fmt.strip }

/-- mcnp_problem.py:MCNP_Problem.write_to_file as it is now -/
def writeToFileNow (p : Problem) (fs : FS) (overwrite : Bool) (plan : Fault)
    (sched : Nat → Bool := noAutoFlush) : Option Err × FS :=
  writeToFile p.strip fs overwrite plan sched

/-- NOT the code: the same writer with the refuted `__exit__` order (see `exitWRenameFirst`) -/
def writeToFileRenameFirst (p : Problem) (fs : FS) (overwrite : Bool) (plan : Fault)
    (sched : Nat → Bool := noAutoFlush) : Option Err × FS :=
  writeToFileWith exitWRenameFirst MontePyVerif.Gen.WriteOrder.sequence p.strip fs overwrite plan sched

/-- the complete text the repaired writer produces -/
def renderNow (p : Problem) : Option (List String) := render p.strip

end MontePyVerif.Write
