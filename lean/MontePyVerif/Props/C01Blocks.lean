import MontePyVerif.Model.FileWrite
import MontePyVerif.Props.SpecFile
/-!
# C01 (block structure): what the block-wise writer emits is read back by MCNP's rules as the same
cards, in the same blocks, in the same order — and nothing lands after a block terminator.

`C01_blocks` relates the model of `write_to_file`'s line order (`Model/FileWrite.lean`) to the
independent reader (`Spec/File.lean`) for **every** problem whose cards satisfy the decidable
well-formedness predicate `CardOK` (what `format_for_mcnp_input` + wrapping must deliver; C10 is
about that).  The hypotheses name exactly the ways a written card can break the block structure: a
blank line inside a card, a first line that is a comment card or starts after column 5, a
continuation line that is neither indented nor a comment card nor preceded by `&`, and a card whose
last data line ends in `&` (it would swallow the next card).
-/
namespace MontePyVerif.FileWrite
open MontePyVerif.Spec.File

/-- lines after the first one of a card: never blank; a data line must be indented unless the data
    line before it ended in `&`; the last data line must not end in `&`. -/
def ContOK : Bool → List Str → Prop
  | amp, [] => amp = false
  | amp, l :: t => isBlankLine l = false ∧
      (if isCommentCard l = true then ContOK amp t
       else (amp = true ∨ isIndented l = true) ∧ ContOK (startCard l).2 t)

def CardOK (c : WCard) : Prop :=
  isBlankLine c.first = false ∧ isCommentCard c.first = false ∧ isIndented c.first = false ∧
    ContOK (startCard c.first).2 c.rest

def HeadOK (h : List Str) : Prop := ∀ l ∈ h, isBlankLine l = false ∧ isCommentCard l = true

/-- what MCNP's rules read in the lines of one card, taken by itself -/
def readCard (c : WCard) : Card := (c.rest.foldl contStep (startCard c.first)).1

theorem rs_eta (r : RS) (k : Card) (h1 : r.cur = some k) (h2 : r.amp = false) :
    { r with cur := some k, amp := false } = r := by
  cases r; simp_all

/-- Lemma A: the continuation lines of a card only extend the open card. -/
theorem fold_cont (rest : List Str) : ∀ (r : RS) (k : Card) (amp : Bool), r.block < 3 → r.cur = some k →
    r.amp = amp → ContOK amp rest →
    rest.foldl stepLine r = { r with cur := some (rest.foldl contStep (k, amp)).1, amp := false } := by
  induction rest with
  | nil =>
    intro r k amp _ hc ha hok
    simp only [ContOK] at hok
    subst hok
    simp only [List.foldl_nil]
    exact (rs_eta r k hc ha).symm
  | cons l t ih =>
    intro r k amp hb hc ha hok
    subst ha
    obtain ⟨hnb, hrest⟩ := hok
    have h3 : ¬ r.block ≥ 3 := by omega
    have hcond : (isCommentCard l || r.amp || isIndented l) = true := by
      by_cases hcm : isCommentCard l = true
      · simp [hcm]
      · simp only [hcm, if_false, Bool.false_eq_true] at hrest
        rcases hrest.1 with h | h
        · simp [h]
        · simp [h]
    have hstep : stepLine r l =
        { r with cur := some (contStep (k, r.amp) l).1, amp := (contStep (k, r.amp) l).2 } := by
      unfold stepLine
      simp only [h3, if_false, hnb, Bool.false_eq_true, hc, hcond, if_true]
    simp only [List.foldl_cons, hstep]
    by_cases hcm : isCommentCard l = true
    · simp only [hcm, if_true] at hrest
      have hk : contStep (k, r.amp) l = (⟨k.text, k.dollar, k.ccomments ++ [commentText l]⟩, r.amp) := by
        simp [contStep, hcm]
      have := ih { r with cur := some (contStep (k, r.amp) l).1, amp := (contStep (k, r.amp) l).2 }
        (contStep (k, r.amp) l).1 r.amp hb rfl (by simp [hk]) hrest
      rw [this]
      simp [hk]
    · simp only [hcm, if_false, Bool.false_eq_true] at hrest
      have hk2 : (contStep (k, r.amp) l).2 = (startCard l).2 := by simp [contStep, hcm]
      have := ih { r with cur := some (contStep (k, r.amp) l).1, amp := (contStep (k, r.amp) l).2 }
        (contStep (k, r.amp) l).1 (startCard l).2 hb rfl hk2 hrest.2
      rw [this]
      have h2 : contStep (k, r.amp) l = ((contStep (k, r.amp) l).1, (startCard l).2) := by rw [← hk2]
      rw [← h2]

theorem closeCur_spec (r : RS) (h : r.amp = false) :
    (closeCur r).cur = none ∧ (closeCur r).amp = false ∧ (closeCur r).block = r.block ∧
      (closeCur r).heads = r.heads := by
  unfold closeCur
  split
  · rename_i hc; exact ⟨hc, h, rfl, rfl⟩
  · exact ⟨rfl, rfl, rfl, rfl⟩

/-- Lemma B: the lines of one well-formed card close the card before it and leave this one open. -/
theorem fold_card (c : WCard) (r : RS) (hb : r.block < 3) (ha : r.amp = false) (hok : CardOK c) :
    c.lines.foldl stepLine r =
      { block := r.block, cur := some (readCard c), amp := false, done := (closeCur r).done, heads := r.heads } := by
  obtain ⟨hnb, hncm, hni, hcont⟩ := hok
  have h3 : ¬ r.block ≥ 3 := by omega
  obtain ⟨cc1, cc2, cc3, cc4⟩ := closeCur_spec r ha
  have hstep : stepLine r c.first =
      { block := r.block, cur := some (startCard c.first).1, amp := (startCard c.first).2,
        done := (closeCur r).done, heads := r.heads } := by
    unfold stepLine
    simp only [h3, if_false, hnb, Bool.false_eq_true]
    split
    · rename_i prev hprev
      simp only [hncm, ha, hni, Bool.or_self, Bool.false_eq_true, if_false]
      simp [cc3, cc4]
    · rename_i hnone
      simp only [hncm, Bool.false_eq_true, if_false]
      have : closeCur r = r := by simp [closeCur, hnone]
      rw [this]
  simp only [WCard.lines, List.foldl_cons, hstep]
  obtain ⟨r1, hr1⟩ : ∃ r1 : RS, r1 = { block := r.block, cur := some (startCard c.first).1, amp := (startCard c.first).2, done := (closeCur r).done, heads := r.heads } := ⟨_, rfl⟩
  rw [← hr1]
  rw [fold_cont c.rest r1 (startCard c.first).1 (startCard c.first).2 (by rw [hr1]; exact hb) (by rw [hr1])
    (by rw [hr1]) hcont]
  simp [readCard, hr1]

/-- Lemma C: a list of well-formed cards followed by the blank terminator. -/
theorem fold_cards (cs : List WCard) : ∀ (r : RS), r.block < 3 → r.amp = false → (∀ c ∈ cs, CardOK c) →
    ((cs.map WCard.lines).flatten ++ [[]]).foldl stepLine r =
      { block := r.block + 1, cur := none, amp := false,
        done := (cs.map (fun c => (r.block, readCard c))).reverse ++ (closeCur r).done, heads := r.heads } := by
  induction cs with
  | nil =>
    intro r hb ha _
    have h3 : ¬ r.block ≥ 3 := by omega
    obtain ⟨cc1, cc2, cc3, cc4⟩ := closeCur_spec r ha
    simp only [List.map_nil, List.flatten_nil, List.nil_append, List.foldl_cons, List.foldl_nil,
      List.reverse_nil]
    unfold stepLine
    have : isBlankLine ([] : Str) = true := rfl
    simp only [h3, if_false, this, if_true]
    generalize closeCur r = q at *
    cases q; simp_all
  | cons c t ih =>
    intro r hb ha hok
    have hc : CardOK c := hok c List.mem_cons_self
    have ht : ∀ x ∈ t, CardOK x := fun x hx => hok x (List.mem_cons_of_mem _ hx)
    simp only [List.map_cons, List.flatten_cons, List.append_assoc, List.foldl_append]
    rw [fold_card c r hb ha hc]
    have := ih { block := r.block, cur := some (readCard c), amp := false, done := (closeCur r).done,
                 heads := r.heads } hb rfl ht
    simp only [List.foldl_append] at this
    rw [this]
    simp [closeCur]

/-- comment cards at the head of a block are recorded as such and open no card -/
theorem fold_head (h : List Str) : ∀ (r : RS), r.block < 3 → r.cur = none → HeadOK h →
    h.foldl stepLine r = { r with heads := (h.map (fun l => (r.block, commentText l))).reverse ++ r.heads } := by
  induction h with
  | nil => intro r _ _ _; simp
  | cons l t ih =>
    intro r hb hc hok
    have hl := hok l List.mem_cons_self
    have h3 : ¬ r.block ≥ 3 := by omega
    have hstep : stepLine r l = { r with heads := (r.block, commentText l) :: r.heads } := by
      unfold stepLine
      simp [h3, hl.1, hc, hl.2]
    simp only [List.foldl_cons, hstep]
    have := ih { r with heads := (r.block, commentText l) :: r.heads } hb hc
      (fun x hx => hok x (List.mem_cons_of_mem _ hx))
    rw [this]
    simp

/-- a whole block: head comments, cards, terminator -/
theorem fold_block (h : List Str) (cs : List WCard) (r : RS) (hb : r.block < 3) (hc : r.cur = none)
    (ha : r.amp = false) (hh : HeadOK h) (hok : ∀ c ∈ cs, CardOK c) :
    (writeBlock h cs).foldl stepLine r =
      { block := r.block + 1, cur := none, amp := false,
        done := (cs.map (fun c => (r.block, readCard c))).reverse ++ r.done,
        heads := (h.map (fun l => (r.block, commentText l))).reverse ++ r.heads } := by
  unfold writeBlock
  rw [List.append_assoc, List.foldl_append, fold_head h r hb hc hh]
  have := fold_cards cs { r with heads := (h.map (fun l => (r.block, commentText l))).reverse ++ r.heads }
    hb ha hok
  rw [this]
  simp [closeCur, hc]

/-! ### the Boolean checkers used by the driver decide the predicates -/

theorem contOKb_iff (rest : List Str) : ∀ amp, contOKb amp rest = true ↔ ContOK amp rest := by
  induction rest with
  | nil => intro amp; cases amp <;> simp [contOKb, ContOK]
  | cons l t ih =>
    intro amp
    simp only [contOKb, ContOK, Bool.and_eq_true, Bool.not_eq_true']
    by_cases hc : isCommentCard l = true
    · simp [hc, ih]
    · simp [hc, ih]

theorem cardOKb_iff (c : WCard) : cardOKb c = true ↔ CardOK c := by
  simp [cardOKb, CardOK, contOKb_iff, and_assoc]

theorem headOKb_iff (h : List Str) : headOKb h = true ↔ HeadOK h := by
  simp [headOKb, HeadOK]

/-! ### the whole file -/

theorem splitMessage_append (ms rest : List Str) (h : ∀ l ∈ ms, isBlankLine l = false) :
    splitMessage (ms ++ [] :: rest) = (ms, rest) := by
  induction ms with
  | nil => simp [splitMessage, isBlankLine]
  | cons m t ih =>
    have hm := h m List.mem_cons_self
    simp only [List.cons_append, splitMessage, hm, Bool.false_eq_true, if_false]
    rw [ih (fun l hl => h l (List.mem_cons_of_mem _ hl))]

theorem tagged_map_same (k : Nat) (f : β → α) (l : List β) :
    tagged k (l.map (fun c => (k, f c))) = l.map f := by
  induction l with
  | nil => rfl
  | cons a t ih =>
    simp only [tagged] at ih ⊢
    simp [List.filter_cons, ih]

theorem tagged_map_other (k j : Nat) (hkj : j ≠ k) (f : β → α) (l : List β) :
    tagged k (l.map (fun c => (j, f c))) = [] := by
  induction l with
  | nil => rfl
  | cons a t ih =>
    simp only [tagged] at ih ⊢
    simp [List.filter_cons, hkj, ih]

theorem tagged_append (k : Nat) (a b : List (Nat × α)) : tagged k (a ++ b) = tagged k a ++ tagged k b := by
  simp [tagged]

/-- well-formedness of what the writer is given -/
structure WProblem.OK (limit : Nat) (p : WProblem) : Prop where
  /-- every written line is a physical line as is: no CR/LF/tab inside, within the column limit -/
  phys : ∀ l ∈ writeLines p, physical limit l = l
  msgStart : ∀ m t, p.message = m :: t → startsWithMessage m = true
  msgNoBlank : ∀ l ∈ p.message, isBlankLine l = false
  /-- without a message block the title must not look like one -/
  noMsg : p.message = [] → startsWithMessage p.title = false
  cellsHead : HeadOK p.cellsHead
  surfHead : HeadOK p.surfHead
  dataHead : HeadOK p.dataHead
  cells : ∀ c ∈ p.cells, CardOK c
  surfaces : ∀ c ∈ p.surfaces, CardOK c
  data : ∀ c ∈ p.data, CardOK c

/-- the body (three blocks) folded by the one-pass reader -/
theorem foldBody_blocks (p : WProblem) (limit : Nat) (h : p.OK limit) :
    (writeBlock p.cellsHead p.cells ++ writeBlock p.surfHead p.surfaces ++ writeBlock p.dataHead p.data).foldl
        stepLine rs0 =
      { block := 3, cur := none, amp := false,
        done := (p.data.map (fun c => (2, readCard c))).reverse ++
          ((p.surfaces.map (fun c => (1, readCard c))).reverse ++
            ((p.cells.map (fun c => (0, readCard c))).reverse ++ [])),
        heads := (p.dataHead.map (fun l => (2, commentText l))).reverse ++
          ((p.surfHead.map (fun l => (1, commentText l))).reverse ++
            ((p.cellsHead.map (fun l => (0, commentText l))).reverse ++ [])) } := by
  rw [List.foldl_append, List.foldl_append]
  rw [fold_block p.cellsHead p.cells rs0 (by simp [rs0]) rfl rfl h.cellsHead h.cells]
  obtain ⟨r1, hr1⟩ : ∃ r1 : RS, r1 = { block := rs0.block + 1, cur := none, amp := false, done := (p.cells.map (fun c => (rs0.block, readCard c))).reverse ++ rs0.done, heads := (p.cellsHead.map (fun l => (rs0.block, commentText l))).reverse ++ rs0.heads } := ⟨_, rfl⟩
  rw [← hr1]
  rw [fold_block p.surfHead p.surfaces r1 (by simp [hr1, rs0]) (by rw [hr1]) (by rw [hr1]) h.surfHead h.surfaces]
  obtain ⟨r2, hr2⟩ : ∃ r2 : RS, r2 = { block := r1.block + 1, cur := none, amp := false, done := (p.surfaces.map (fun c => (r1.block, readCard c))).reverse ++ r1.done, heads := (p.surfHead.map (fun l => (r1.block, commentText l))).reverse ++ r1.heads } := ⟨_, rfl⟩
  rw [← hr2]
  rw [fold_block p.dataHead p.data r2 (by simp [hr2, hr1, rs0]) (by rw [hr2]) (by rw [hr2]) h.dataHead h.data]
  simp [hr2, hr1, rs0]

/-- **C01_blocks_general** — for every well-formed problem, MCNP's rules read in the written lines
    exactly the message, the title and the cards that were written, each card in the block it was
    written in, in order: no card is lost, fused with its neighbour or split — and whatever lines
    `extra` follow the blank line that terminates the data block are **not read at all**. -/
theorem C01_blocks_general (limit : Nat) (p : WProblem) (extra : List Str) (h : p.OK limit)
    (hx : ∀ l ∈ extra, physical limit l = l) :
    (blocks limit (writeLines p ++ extra)).message = p.message.map rstrip ∧
    (blocks limit (writeLines p ++ extra)).title = rstrip p.title ∧
    (blocks limit (writeLines p ++ extra)).cells = p.cells.map readCard ∧
    (blocks limit (writeLines p ++ extra)).surfaces = p.surfaces.map readCard ∧
    (blocks limit (writeLines p ++ extra)).data = p.data.map readCard ∧
    (blocks limit (writeLines p ++ extra)).head = p.cellsHead.map commentText ∧
    (blocks limit (writeLines p ++ extra)).surfHead = p.surfHead.map commentText ∧
    (blocks limit (writeLines p ++ extra)).dataHead = p.dataHead.map commentText := by
  have hphys : (writeLines p ++ extra).map (physical limit) = writeLines p ++ extra := by
    conv => rhs; rw [← List.map_id (writeLines p ++ extra)]
    apply List.map_congr_left
    intro l hl
    rcases List.mem_append.mp hl with hl | hl
    · exact h.phys l hl
    · exact hx l hl
  have hfront : splitFront (writeLines p ++ extra) =
      (p.message, p.title,
        (writeBlock p.cellsHead p.cells ++ writeBlock p.surfHead p.surfaces ++ writeBlock p.dataHead p.data) ++ extra) := by
    unfold writeLines splitFront
    cases hm : p.message with
    | nil =>
      have := h.noMsg hm
      simp [this]
    | cons m t =>
      have hs := h.msgStart m t hm
      have hnb : ∀ l ∈ m :: t, isBlankLine l = false := fun l hl => h.msgNoBlank l (hm ▸ hl)
      have hsplit := splitMessage_append (m :: t)
        (p.title :: ((writeBlock p.cellsHead p.cells ++ writeBlock p.surfHead p.surfaces ++ writeBlock p.dataHead p.data) ++ extra)) hnb
      simp only [List.isEmpty_cons, Bool.false_eq_true, if_false, List.cons_append, List.append_assoc,
        List.nil_append, hs, if_true] at hsplit ⊢
      rw [hsplit]
  have hbody : readBody ((writeBlock p.cellsHead p.cells ++ writeBlock p.surfHead p.surfaces ++
      writeBlock p.dataHead p.data) ++ extra) =
      { block := 3, cur := none, amp := false,
        done := (p.data.map (fun c => (2, readCard c))).reverse ++
          ((p.surfaces.map (fun c => (1, readCard c))).reverse ++
            ((p.cells.map (fun c => (0, readCard c))).reverse ++ [])),
        heads := (p.dataHead.map (fun l => (2, commentText l))).reverse ++
          ((p.surfHead.map (fun l => (1, commentText l))).reverse ++
            ((p.cellsHead.map (fun l => (0, commentText l))).reverse ++ [])) } := by
    unfold readBody
    rw [List.foldl_append, foldBody_blocks p limit h, after_terminator_ignored _ extra (by simp)]
    simp [closeCur]
  unfold blocks
  rw [hphys, hfront]
  simp only []
  rw [hbody]
  simp only [ofRS, List.reverse_append, List.reverse_reverse, List.reverse_nil, List.nil_append,
    tagged_append]
  refine ⟨?_, ?_, ?_, ?_, ?_, ?_, ?_, ?_⟩ <;>
    simp [tagged_map_same, tagged_map_other]

/-- **C01_blocks** — the same without trailing lines. -/
theorem C01_blocks (limit : Nat) (p : WProblem) (h : p.OK limit) :
    (blocks limit (writeLines p)).message = p.message.map rstrip ∧
    (blocks limit (writeLines p)).title = rstrip p.title ∧
    (blocks limit (writeLines p)).cells = p.cells.map readCard ∧
    (blocks limit (writeLines p)).surfaces = p.surfaces.map readCard ∧
    (blocks limit (writeLines p)).data = p.data.map readCard ∧
    (blocks limit (writeLines p)).head = p.cellsHead.map commentText ∧
    (blocks limit (writeLines p)).surfHead = p.surfHead.map commentText ∧
    (blocks limit (writeLines p)).dataHead = p.dataHead.map commentText := by
  have := C01_blocks_general limit p [] h (by intro l hl; cases hl)
  simpa using this

/-- **C01_write_file** — the same for `write_to_file` itself, which drops the trailing blanks of
    every line the objects format to: the hypothesis is about the lines as they reach the file. -/
theorem C01_write_file (limit : Nat) (p : WProblem) (h : p.strip.OK limit) :
    (blocks limit (writeFile p)).cells = p.strip.cells.map readCard ∧
    (blocks limit (writeFile p)).surfaces = p.strip.surfaces.map readCard ∧
    (blocks limit (writeFile p)).data = p.strip.data.map readCard ∧
    (blocks limit (writeFile p)).title = rstrip p.strip.title ∧
    (blocks limit (writeFile p)).message = p.strip.message.map rstrip := by
  have := C01_blocks limit p.strip h
  exact ⟨this.2.2.1, this.2.2.2.1, this.2.2.2.2.1, this.2.1, this.1⟩

/-! ### Non-vacuity: a concrete non-trivial problem satisfies `WProblem.OK` -/

def exProblem : WProblem :=
  { message := ["message: outp=x".toList], title := "a title".toList,
    cellsHead := ["c cells".toList],
    cells := [⟨"1 0 -1 &".toList, ["c inside".toList, "2 imp:n=1 $ note".toList]⟩, ⟨"2 0 1".toList, ["     imp:n=0".toList, "c trailing".toList]⟩],
    surfHead := [], surfaces := [⟨"1 so 5".toList, []⟩],
    dataHead := [], data := [⟨"mode n".toList, []⟩, ⟨"imp:n 1 0".toList, []⟩] }

example : exProblem.OK 128 where
  phys := by decide
  msgStart := by intro m t h; simp [exProblem] at h; rw [← h.1]; decide
  msgNoBlank := by decide
  noMsg := by intro h; simp [exProblem] at h
  cellsHead := by intro l hl; simp [exProblem] at hl; subst hl; decide
  surfHead := by intro l hl; cases hl
  dataHead := by intro l hl; cases hl
  cells := by
    intro c hc
    simp [exProblem] at hc
    rcases hc with rfl | rfl <;> (simp only [CardOK, ContOK]; decide)
  surfaces := by
    intro c hc
    simp [exProblem] at hc
    subst hc
    simp only [CardOK, ContOK]; decide
  data := by
    intro c hc
    simp [exProblem] at hc
    rcases hc with rfl | rfl <;> (simp only [CardOK, ContOK]; decide)

/-- what MCNP reads in the first card of the example: both data lines joined, both comments kept apart -/
example : readCard ⟨"1 0 -1 &".toList, ["c inside".toList, "2 imp:n=1 $ note".toList]⟩ =
    ⟨"1 0 -1  2 imp:n=1 ".toList, ["note".toList], ["inside".toList]⟩ := by
  have : ∀ a b : Card, a.text = b.text → a.dollar = b.dollar → a.ccomments = b.ccomments → a = b := by
    intro a b h1 h2 h3; cases a; cases b; simp_all
  apply this <;> decide

end MontePyVerif.FileWrite
