import MontePyVerif.Props.C10Roundtrip
/-!
# C01 ∘ C10 — a file whose cards were wrapped by `wrap_string_for_mcnp` reads as the unwrapped cards

`C01_blocks` (Props/C01Blocks.lean) says: MCNP's rules read in the written file exactly the cards that were written,
provided every written card is `CardOK`.  `C10_roundtrip` (Props/C10Roundtrip.lean) says: wrapping a well-formed
source card of class `LineOK` gives a `CardOK` card in which the same words and comments are read.  This file puts the
two together for whole files, with no hypothesis left between them:

**`C01_wrapped_file`** — let every card of the written problem `p` be what `wrap_string_for_mcnp` returns for the
corresponding card of `src` (any number of cards, any line-length regime of the code's table).  Then the cells,
surfaces and data inputs MCNP's rules read in the written file are, card for card and block for block, the cards of
`src` as far as words, `$` comments and comment cards go (`obsCard`).
-/
namespace MontePyVerif.C01Wrapped
open MontePyVerif MontePyVerif.Spec.File MontePyVerif.FileWrite MontePyVerif.Wrap MontePyVerif.C10

/-- the two lists correspond element by element (core Lean has no `Forall₂`) -/
inductive All₂ {α β : Type} (R : α → β → Prop) : List α → List β → Prop
  | nil : All₂ R [] []
  | cons {a b as bs} : R a b → All₂ R as bs → All₂ R (a :: as) (b :: bs)

/-- `w` is the card `wrap_string_for_mcnp(s, v, True)` returns for the source card `c` (joined by line breaks into `s`) -/
def WrapOf (W : Nat) (c w : WCard) : Prop :=
  ∃ s : List Char, (splitLines s).filter stripNonEmpty = c.lines ∧ CardOK c ∧ (∀ l ∈ c.lines, LineOK W l) ∧
    (wrapStringWith s W true).1 = w.first :: w.rest

theorem wrapOf_ok {e : (Nat × Nat × Nat) × Nat} (he : e ∈ Gen.lineLength) {c w : WCard} (h : WrapOf e.2 c w) :
    CardOK w ∧ obsCard (readCard w) = obsCard (readCard c) := by
  obtain ⟨s, hs, hok, hcls, hout⟩ := h
  obtain ⟨o, os, ho, hcard, hobs⟩ := C10_roundtrip e he s c hs hok hcls
  rw [hout] at ho
  have hw : w = ⟨o, os⟩ := by
    cases w with
    | mk f r =>
      simp only [List.cons.injEq] at ho
      rw [ho.1, ho.2]
  rw [hw]
  exact ⟨hcard, hobs⟩

theorem forall2_ok {e : (Nat × Nat × Nat) × Nat} (he : e ∈ Gen.lineLength) :
    ∀ (cs ws : List WCard), All₂ (WrapOf e.2) cs ws →
      (∀ w ∈ ws, CardOK w) ∧ (ws.map readCard).map obsCard = (cs.map readCard).map obsCard := by
  intro cs ws h
  induction h with
  | nil => exact ⟨fun w hw => (by cases hw), rfl⟩
  | cons hcw _ ih =>
    obtain ⟨h1, h2⟩ := wrapOf_ok he hcw
    refine ⟨?_, ?_⟩
    · intro w hw
      rcases List.mem_cons.mp hw with rfl | hw
      · exact h1
      · exact ih.1 w hw
    · simp only [List.map_cons, h2, ih.2]

/-- **C01_wrapped_file** -/
theorem C01_wrapped_file (e : (Nat × Nat × Nat) × Nat) (he : e ∈ Gen.lineLength) (src p : WProblem)
    (hcells : All₂ (WrapOf e.2) src.cells p.cells)
    (hsurf : All₂ (WrapOf e.2) src.surfaces p.surfaces)
    (hdata : All₂ (WrapOf e.2) src.data p.data)
    -- what is left of `WProblem.OK` once the cards are known to be well-formed: physical lines, message/title, heads
    (phys : ∀ l ∈ writeLines p, physical e.2 l = l)
    (msgStart : ∀ m t, p.message = m :: t → startsWithMessage m = true)
    (msgNoBlank : ∀ l ∈ p.message, isBlankLine l = false)
    (noMsg : p.message = [] → startsWithMessage p.title = false)
    (hh : HeadOK p.cellsHead ∧ HeadOK p.surfHead ∧ HeadOK p.dataHead) :
    (blocks e.2 (writeLines p)).cells.map obsCard = (src.cells.map readCard).map obsCard ∧
    (blocks e.2 (writeLines p)).surfaces.map obsCard = (src.surfaces.map readCard).map obsCard ∧
    (blocks e.2 (writeLines p)).data.map obsCard = (src.data.map readCard).map obsCard := by
  obtain ⟨c1, c2⟩ := forall2_ok he _ _ hcells
  obtain ⟨s1, s2⟩ := forall2_ok he _ _ hsurf
  obtain ⟨d1, d2⟩ := forall2_ok he _ _ hdata
  have hok : p.OK e.2 :=
    { phys := phys, msgStart := msgStart, msgNoBlank := msgNoBlank, noMsg := noMsg,
      cellsHead := hh.1, surfHead := hh.2.1, dataHead := hh.2.2, cells := c1, surfaces := s1, data := d1 }
  obtain ⟨_, _, hc, hs, hd, _⟩ := C01_blocks e.2 p hok
  rw [hc, hs, hd]
  exact ⟨c2, s2, d2⟩

/-! ### Non-vacuity: the 80-column example card of `Props/C10Roundtrip.lean` (two lines longer than 80 columns) -/

def exWrapped : WCard :=
  match (wrapStringWith exString 80 true).1 with
  | o :: os => ⟨o, os⟩
  | [] => ⟨[], []⟩

/-- the wrapped card has five lines where the source has three -/
example : exWrapped.lines.length = 5 ∧ exCard.lines.length = 3 := by decide +kernel

example : WrapOf 80 exCard exWrapped :=
  ⟨exString, by decide +kernel, exCard_ok, exCard_lines, by decide +kernel⟩

example : All₂ (WrapOf 80) [exCard] [exWrapped] :=
  .cons ⟨exString, by decide +kernel, exCard_ok, exCard_lines, by decide +kernel⟩ .nil

end MontePyVerif.C01Wrapped
