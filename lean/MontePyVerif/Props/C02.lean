import MontePyVerif.Lemmas.GeometryLevels
/-! # C02 — a cell's geometry keeps its Boolean meaning through read, edit and write

Spec: `Spec/Geometry.lean` (`denote`: one-pass lexer + stack evaluator, MCNP's rules).
Model: `Model/Geometry.lean` (HalfSpace trees with their syntax nodes; the repaired `half_space.py`).
`ready` (Lemmas/GeometryReady.lean) is the decidable state of a tree *with* its nodes that
`HalfSpace._update_values` establishes. -/
namespace MontePyVerif.C02
open MontePyVerif.Spec.Geometry MontePyVerif.Geometry

/-- Spec sanity: `1 2:3` is `(1 ∩ 2) ∪ 3`, `#(1:-2)3` is `¬(1 ∪ ¬2) ∩ 3`, `#4` is a cell complement. -/
theorem C02_spec_precedence :
    (∀ ρ, (denote [.digit 1, .sp, .digit 2, .colon, .digit 3]).map (E.eval ρ)
        = some ((ρ false 1 && ρ false 2) || ρ false 3)) ∧
    (∀ ρ, (denote [.hash, .lp, .digit 1, .colon, .minus, .digit 2, .rp, .digit 3]).map (E.eval ρ)
        = some (!(ρ false 1 || !ρ false 2) && ρ false 3)) ∧
    (∀ ρ, (denote [.hash, .digit 4]).map (E.eval ρ) = some (!ρ true 4)) := by
  refine ⟨fun ρ => ?_, fun ρ => ?_, fun ρ => ?_⟩ <;>
    simp [denote, lex, lexAux, emit, flush, parse, run, step, andO, orO, E.eval]

/-- the three facts the induction carries for a ready tree -/
def Holds (h : HS) : Prop :=
  Good h.fmt (toks h) ∧ L0 (toks h) (fun ρ => h.eval ρ) ∧ (isUnion h = false → L1 (toks h) (fun ρ => h.eval ρ))

theorem holds_compl {l : HS} {g : GN} (ih : Holds l)
    (htk : toks (.compl l (some g)) = match g.lchain with
      | _ :: ws => .clp :: (linkToks ws (toks l) ++ [.rp])
      | [] => [])
    (ho : orderOK g [.operator, .left] = true) (hopr : complOpr g.opr.format = true)
    (hhp : headParens g.lchain = true) (hck : chainOK g.lchain l.fmt = true)
    (hep0 : isSep false (optFmt g.ep) = true) :
    Holds (.compl l (some g)) := by
  have hep := isSep_of_false (cmtAfter false (wrapFmt g.lchain l.fmt)) hep0
  obtain ⟨S, hS, hsep, hclosed⟩ := complOpr_shape hopr
  obtain ⟨_, hpar⟩ := link_good ih.1 hck
  obtain ⟨R, tsR, hw, hk, hR⟩ := hpar hhp
  have hsem : L1 (toks (.compl l (some g))) (fun ρ => (HS.compl l (some g)).eval ρ) := by
    rw [htk]
    cases hc : g.lchain with
    | nil => simp [hc, headParens] at hhp
    | cons w ws =>
      simp only []
      exact (L1_cparen (link_sem (ws := ws) (b := false) ih.2.1 (by simp)).1).congr (fun ρ => by simp [HS.eval])
  refine ⟨?_, hsem.toL0, fun _ => hsem⟩
  rw [fmt_compl ho, hS, hw, htk]
  cases hc : g.lchain with
  | nil => simp [hc, headParens] at hhp
  | cons w ws =>
    simp only []
    have hkind : ∃ s e, wrapKind w = .parens s e := by
      simp only [hc, headParens] at hhp
      cases hk' : wrapKind w <;> simp [hk'] at hhp
      exact ⟨_, _, rfl⟩
    obtain ⟨s, e, hkw⟩ := hkind
    have : tsR = linkToks ws (toks l) ++ [.rp] := by
      rw [hc] at hk; simp only [linkToks, hkw] at hk; exact (List.cons.inj hk).2.symm
    rw [← this]
    exact good_compl hsep hclosed hR (by rw [← hw]; exact hep)

theorem eval_unit_eq (a s : Bool) : (a != !s) = (a == s) := by cases a <;> cases s <;> rfl

/-- **Printer correctness.** The text of a ready tree reads, by MCNP's rules, as a region with the tree's meaning. -/
theorem ready_holds (h : HS) (hr : ready h = true) : Holds h := by
  induction h with
  | unit d s c n =>
    cases c <;> cases n <;> simp [ready, gen] at hr
    rename_i v
    have hsem : L1 (toks (.unit d s false (some v))) (fun ρ => (HS.unit d s false (some v)).eval ρ) :=
      (L1_num d (!s)).congr (fun ρ => by simp only [HS.eval]; cases ρ false d <;> cases s <;> rfl)
    exact ⟨by simpa [HS.fmt, toks] using good_leaf hr.1 hr.2, hsem.toL0, fun _ => hsem⟩
  | compl l n ih =>
    cases n with
    | none => simp [ready, gen] at hr
    | some g =>
      cases l with
      | unit d s c vn =>
        cases c
        · -- complement of a surface leaf: `#( n )`
          simp only [ready, gen, Bool.and_eq_true] at hr
          obtain ⟨⟨⟨⟨⟨hl, ho⟩, hopr⟩, hhp⟩, hck⟩, hep⟩ := hr
          exact holds_compl (ih (by simpa [ready] using hl)) (by cases hcc : g.lchain <;> simp [toks, hcc]) ho hopr hhp hck hep
        · cases vn with
          | none => simp [ready, gen] at hr
          | some v =>
            -- `#n`
            simp only [ready, gen, Bool.and_eq_true, beq_iff_eq] at hr
            obtain ⟨⟨⟨⟨⟨ho, hopr⟩, hbare⟩, hcv⟩, hpad⟩, hep⟩ := hr
            obtain ⟨S, hS, hsep, hclosed⟩ := complOpr_shape hopr
            have hsem : L1 (toks (.compl (.unit d s true (some v)) (some g)))
                (fun ρ => (HS.compl (.unit d s true (some v)) (some g)).eval ρ) :=
              (L1_cell d).congr (fun ρ => by simp [HS.eval])
            refine ⟨?_, hsem.toL0, fun _ => hsem⟩
            rw [fmt_compl ho, wrapFmt_allBare hbare, hS]
            simpa [HS.fmt, toks] using good_cell hsep hclosed hcv hpad (isSep_of_false _ hep)
      | compl l' n' =>
        simp only [ready, gen, Bool.and_eq_true] at hr
        obtain ⟨⟨⟨⟨⟨hl, ho⟩, hopr⟩, hhp⟩, hck⟩, hep⟩ := hr
        exact holds_compl (ih (by simpa [ready] using hl)) (by cases hcc : g.lchain <;> simp [toks, hcc]) ho hopr hhp hck hep
      | bin o' l' r' n' =>
        simp only [ready, gen, Bool.and_eq_true] at hr
        obtain ⟨⟨⟨⟨⟨hl, ho⟩, hopr⟩, hhp⟩, hck⟩, hep⟩ := hr
        exact holds_compl (ih (by simpa [ready] using hl)) (by cases hcc : g.lchain <;> simp [toks, hcc]) ho hopr hhp hck hep
  | bin o l r n ihl ihr =>
    cases n with
    | none => simp [ready, gen] at hr
    | some g =>
      simp only [ready, gen, Bool.and_eq_true, Bool.not_eq_true', cond_true] at hr
      obtain ⟨⟨⟨⟨⟨⟨⟨⟨hl, hrr⟩, ho⟩, hckl⟩, hckr⟩, hLc⟩, hopr⟩, hop⟩, hep⟩ := hr
      have hL := ihl (by simpa [ready] using hl)
      have hR := ihr (by simpa [ready] using hrr)
      obtain ⟨gL, hLp⟩ := link_good hL.1 hckl
      obtain ⟨gR, hRp⟩ := link_good hR.1 hckr
      cases o with
      | inter =>
        simp only [Bool.and_eq_true, Bool.not_eq_true', Bool.or_eq_true] at hop
        simp only [oprOKp, interLike, Bool.and_eq_true, Bool.not_eq_true'] at hopr
        obtain ⟨_, ⟨hsep, hoc⟩, _⟩ := hopr
        obtain ⟨⟨hsepar, hul⟩, hur⟩ := hop
        have semL := (link_sem (ws := g.lchain) (b := !isUnion l) hL.2.1 (fun hb => hL.2.2 (by simpa using hb))).2
          (by rcases hul with h | h
              · left; simpa using h
              · right; exact h)
        have semR := (link_sem (ws := g.rchain) (b := !isUnion r) hR.2.1 (fun hb => hR.2.2 (by simpa using hb))).2
          (by rcases hur with h | h
              · left; simpa using h
              · right; exact h)
        have hsem : L1 (toks (.bin .inter l r (some g))) (fun ρ => (HS.bin .inter l r (some g)).eval ρ) := by
          simpa [toks, HS.eval] using L1_inter semL semR
        refine ⟨?_, hsem.toL0, fun _ => hsem⟩
        rw [fmt_bin ho]
        simp only [toks]
        refine good_inter gL hLc gR hsep hoc ?_ (isSep_of_false _ hep)
        rcases hsepar with ((h | h) | h) | h
        · left; intro e; simp [e] at h
        · right; left
          obtain ⟨R', ts', h1, h2, h3⟩ := hLp h
          exact ⟨R', ts', h1, h2, h3⟩
        · right; right; left
          obtain ⟨R', ts', h1, h2, h3⟩ := hRp h
          exact ⟨R', ts', h1, h2, h3⟩
        · right; right; right; exact h
      | union =>
        simp only [oprOKp, Bool.and_eq_true] at hopr
        obtain ⟨a, b, hab, ha, hac, hb, hbc⟩ := unionOpr_shape hopr.2
        have semL := (link_sem (ws := g.lchain) (b := false) hL.2.1 (by simp)).1
        have semR := (link_sem (ws := g.rchain) (b := false) hR.2.1 (by simp)).1
        have hsem : L0 (toks (.bin .union l r (some g))) (fun ρ => (HS.bin .union l r (some g)).eval ρ) := by
          simpa [toks, HS.eval] using L0_union semL semR
        refine ⟨?_, hsem, fun hu => by simp [isUnion] at hu⟩
        rw [fmt_bin ho, hab]
        simp only [toks]
        exact good_union gL hLc gR ha hac hb hbc (isSep_of_false _ hep)

/-- **C02_write_meaning (central).** For every tree in the state `_update_values` establishes, whatever its size,
    user-supplied redundant parentheses, padding, comments and line breaks: the written text is well-formed MCNP
    geometry and denotes exactly the Boolean function of the HalfSpace tree the API exposes. -/
theorem C02_write_meaning (h : HS) (hr : ready h = true) :
    ∃ e, denote h.fmt = some e ∧ ∀ ρ, e.eval ρ = h.eval ρ := by
  obtain ⟨hg, h0, _⟩ := ready_holds h hr
  obtain ⟨e, hp, hv⟩ := parse_of_L0 h0
  exact ⟨e, by simp [denote, hg.lex, hp], hv⟩

/-- **C02_no_fusion.** The written text lexes to exactly the tokens of the tree: every leaf is one numeral token with
    the leaf's own number and sense (two numerals never run together, no sign or `#` is orphaned, nothing is
    hidden in a comment). -/
theorem C02_no_fusion (h : HS) (hr : ready h = true) : lex h.fmt = some (toks h) :=
  (ready_holds h hr).1.lex

/-- **C02_cell_write_meaning.** The same for the geometry entry of the cell's syntax tree, i.e. with the
    parentheses the user wrote around the whole geometry (kept by `Cell._update_values`). -/
theorem C02_cell_write_meaning (c : CG) (hr : ready c.hs = true) (hc : chainOK c.chain c.hs.fmt = true) :
    ∃ e, denote c.fmt = some e ∧ ∀ ρ, e.eval ρ = c.hs.eval ρ := by
  obtain ⟨hg, h0, _⟩ := ready_holds c.hs hr
  have hl := (link_good hg hc).1
  obtain ⟨e, hp, hv⟩ := parse_of_L0 (link_sem (ws := c.chain) (b := false) h0 (by simp)).1
  exact ⟨e, by simp [denote, CG.fmt, hl.lex, hp], hv⟩

/-! ## the text that was read (C02_parse_meaning, tree side) -/

/-- a cell leaf has the same text as the surface leaf `parseInputNode` makes of the same value -/
theorem fmt_cell_leaf (v : VN) : (HS.unit v.value true true (some v)).fmt = (parseInputNode (.val v)).fmt := rfl

/-- `HalfSpace.parse_input_node` loses no text: the chain of skipped `_SHIFT` trees around the text of the HalfSpace
    that was built is the text of the parser's tree. -/
theorem parse_fmt (g : GT) : wrapFmt (chainOf g).1 (parseInputNode g).fmt = g.format := by
  induction g with
  | val v => simp [chainOf, parseInputNode, wrapFmt, HS.fmt, GT.format]
  | shift w l ih =>
    simp only [chainOf, parseInputNode, wrapFmt, GT.format]
    rw [ih]
  | compl id order opr ep l ih =>
    have key : ∀ child : HS, child.fmt = (parseInputNode l).fmt →
        wrapFmt [] (HS.compl child (some ⟨id, order, opr, ep, (chainOf l).1, (chainOf l).2, [], 0⟩)).fmt
          = (GT.compl id order opr ep l).format := by
      intro child hch
      simp only [wrapFmt, GT.format, HS.fmt]
      congr 1
      funext k
      cases k <;> simp [hch, ih]
    cases l with
    | val v => exact key _ (fmt_cell_leaf v)
    | shift w l' => exact key _ rfl
    | compl a1 a2 a3 a4 a5 => exact key _ rfl
    | bin a1 a2 a3 a4 a5 a6 a7 => exact key _ rfl
  | bin id o order opr ep l r ihl ihr =>
    simp only [chainOf, parseInputNode, wrapFmt, GT.format, HS.fmt]
    congr 1
    funext k
    cases k <;> simp [ihl, ihr]

theorem parseCell_fmt (g : GT) : (parseCell g).fmt = g.format := parse_fmt g

/-- **C02_read_meaning.** For every syntax tree `g` of a geometry (as `CellParser` builds it) whose HalfSpace is in
    the ready state: the text that was read, `g.format`, is well-formed MCNP geometry and denotes exactly the Boolean
    function of the HalfSpace tree `HalfSpace.parse_input_node` builds from `g` — the text read and the object the
    API exposes agree. (That `g.format` *is* the input text is the losslessness of the parser, compared on every
    parsed case.) -/
theorem C02_read_meaning (g : GT) (hr : ready (parseInputNode g) = true)
    (hc : chainOK (chainOf g).1 (parseInputNode g).fmt = true) :
    ∃ e, denote g.format = some e ∧ ∀ ρ, e.eval ρ = (parseInputNode g).eval ρ := by
  have := C02_cell_write_meaning (parseCell g) hr hc
  rwa [parseCell_fmt] at this

/-! ## the operators (C02_ops) -/

theorem C02_ops_surface (n : Nat) (pos : Bool) (ρ : Env) : (surfaceSide n pos).eval ρ = (ρ false n == pos) := rfl
theorem C02_ops_cell (n : Nat) (ρ : Env) : (cellInvert n).eval ρ = !(ρ true n) := rfl
theorem C02_ops_and (a b : HS) (ρ : Env) : (a.and b).eval ρ = (a.eval ρ && b.eval ρ) := rfl
theorem C02_ops_or (a b : HS) (ρ : Env) : (a.or b).eval ρ = (a.eval ρ || b.eval ρ) := rfl
theorem C02_ops_invert (a : HS) (ρ : Env) : a.invert.eval ρ = !(a.eval ρ) := rfl

/-- `a &= x` is the intersection with `x`, whatever the shape of `a` (repaired `__iand__`). -/
theorem C02_ops_iand (a x : HS) (ρ : Env) : (a.iand x).eval ρ = (a.eval ρ && x.eval ρ) := by
  fun_induction HS.iand a x <;> simp_all [HS.eval, Bool.and_assoc]

/-- `a |= x` is the union with `x`, whatever the shape of `a` (repaired `__ior__`). -/
theorem C02_ops_ior (a x : HS) (ρ : Env) : (a.ior x).eval ρ = (a.eval ρ || x.eval ρ) := by
  fun_induction HS.ior a x <;> simp_all [HS.eval, Bool.or_assoc]

/-! ## histories (C02_history) -/

/-- one step of an edit history on `cell.geometry`; the operand may be any tree (built or parsed) -/
inductive Op where
  | and (x : HS) | rand (x : HS) | or (x : HS) | ror (x : HS) | not | iand (x : HS) | ior (x : HS)

def applyOp (h : HS) : Op → HS
  | .and x => h.and x
  | .rand x => x.and h
  | .or x => h.or x
  | .ror x => x.or h
  | .not => h.invert
  | .iand x => h.iand x
  | .ior x => h.ior x

/-- what the step is meant to do to the region -/
def opSem (ρ : Env) (b : Bool) : Op → Bool
  | .and x => b && x.eval ρ
  | .rand x => x.eval ρ && b
  | .or x => b || x.eval ρ
  | .ror x => x.eval ρ || b
  | .not => !b
  | .iand x => b && x.eval ρ
  | .ior x => b || x.eval ρ

theorem applyOp_eval (h : HS) (op : Op) (ρ : Env) : (applyOp h op).eval ρ = opSem ρ (h.eval ρ) op := by
  cases op <;> simp [applyOp, opSem, C02_ops_iand, C02_ops_ior, HS.and, HS.or, HS.invert, HS.eval]

/-- **C02_history.** After any sequence of `&`, `|`, `~`, `&=`, `|=` (either operand order, any operands) the tree
    the API exposes is the region obtained by applying the same Boolean operations to the operands' regions. -/
theorem C02_history (h : HS) (ops : List Op) (ρ : Env) :
    (ops.foldl applyOp h).eval ρ = ops.foldl (opSem ρ) (h.eval ρ) := by
  induction ops generalizing h with
  | nil => rfl
  | cons op ops ih => simp [List.foldl, ih, applyOp_eval]

/-- … and once such a history's tree is in the state `_update_values` establishes, its text denotes that region. -/
theorem C02_history_write (h : HS) (ops : List Op) (h' : HS)
    (hsame : ∀ ρ, h'.eval ρ = (ops.foldl applyOp h).eval ρ) (hr : ready h' = true) :
    ∃ e, denote h'.fmt = some e ∧ ∀ ρ, e.eval ρ = ops.foldl (opSem ρ) (h.eval ρ) := by
  obtain ⟨e, he, hv⟩ := C02_write_meaning h' hr
  exact ⟨e, he, fun ρ => by rw [hv ρ, hsame ρ, C02_history]⟩

/-! ## `_update_values` establishes `ready` (C02_update_ready): the theorems for well-formed trees *before* the update -/

/-- **C02_update_ready.** From every well-formed tree (`wf` = DESIGN's `HS.WF`: nothing is asked of the links, nodes may
    be missing) `HalfSpace._update_values` — `_ensure_has_nodes`, `_link_child`, `_end_trailing_comment`,
    `_end_comments_in_parentheses`, then `_update_node` everywhere — establishes the state `ready`. -/
theorem C02_update_ready (c : Nat) (h : HS) (hw : wf h = true) : ready (updateValues c h).1 = true := by
  rw [updateValues_eq_once c h hw]
  exact (update_ready _ (ensure_linked c h hw).1).1

/-- **C02_levels_once.** `_update_values` as the code runs it — level by level, `_ensure_has_nodes` (hence
    `_link_child`) once more on every level — gives exactly what one `_ensure_has_nodes` and `_update_node` everywhere
    give, on every well-formed tree: re-linking a subtree that was just linked changes nothing (`ensure_idem`). A
    change that makes a level *skip* its link step is therefore a different function on histories where a link is
    stale (write; edit an inner node; write). -/
theorem C02_levels_once (c : Nat) (h : HS) (hw : wf h = true) : updateValues c h = updateOnce c h :=
  updateValues_eq_once c h hw

/-- sufficiency of the fuel of `updateLevels` -/
theorem C02_levels_fuel (f c : Nat) (h : HS) (hw : wf h = true) (hf : h.height < f) :
    updateLevels f c h = updateValues c h :=
  updateLevels_fuel f c h hw hf

/-- `_update_values` does not change the region of the tree. -/
theorem C02_update_meaning (c : Nat) (h : HS) (hw : wf h = true) (ρ : Env) :
    (updateValues c h).1.eval ρ = h.eval ρ := by
  rw [updateValues_eq_once c h hw]
  exact ((update_ready _ (ensure_linked c h hw).1).2.2.trans (ensure_linked c h hw).2).ev ρ

/-- **C02_write_meaning_wf (DESIGN's C02_write_meaning).** For every well-formed tree, whatever its size and
    history: the text written after `_update_values` is well-formed MCNP geometry and denotes the Boolean function of
    the tree the API exposed before the write. No hypothesis is left about the updated tree. -/
theorem C02_write_meaning_wf (c : Nat) (h : HS) (hw : wf h = true) :
    ∃ e, denote (updateValues c h).1.fmt = some e ∧ ∀ ρ, e.eval ρ = h.eval ρ := by
  obtain ⟨e, he, hv⟩ := C02_write_meaning _ (C02_update_ready c h hw)
  exact ⟨e, he, fun ρ => by rw [hv ρ, C02_update_meaning c h hw ρ]⟩

/-- … and its text lexes to exactly its tokens (no fusion), for every well-formed tree. -/
theorem C02_no_fusion_wf (c : Nat) (h : HS) (hw : wf h = true) :
    lex (updateValues c h).1.fmt = some (toks (updateValues c h).1) :=
  C02_no_fusion _ (C02_update_ready c h hw)

theorem wf_not_cell {h : HS} (hw : wf h = true) : isCellUnit h = false := by
  cases h with
  | unit d s c n => cases c <;> simp_all [wf, isCellUnit]
  | compl _ _ => rfl
  | bin _ _ _ _ => rfl

/-- a written tree is well-formed again: writes can be repeated and interleaved with edits -/
theorem C02_ready_wf (h : HS) (hr : ready h = true) : wf h = true := by
  induction h with
  | unit d s c n => cases c <;> cases n <;> simp_all [ready, gen, wf]
  | compl l n ih =>
    cases n with
    | none => simp [ready, gen] at hr
    | some g =>
      by_cases hcu : isCellUnit l = true
      · cases l with
        | unit d s c vn =>
          cases c
          · simp [isCellUnit] at hcu
          · cases vn with
            | none => simp [ready, gen] at hr
            | some v =>
              simp only [ready, gen, Bool.and_eq_true] at hr
              simp only [wf, Bool.and_eq_true]
              exact ⟨⟨hr.1.1.2, hr.1.2⟩, ⟨⟨⟨hr.1.1.1.1.1, hr.1.1.1.1.2⟩, hr.1.1.1.2⟩, hr.2⟩⟩
        | compl _ _ => simp [isCellUnit] at hcu
        | bin _ _ _ _ => simp [isCellUnit] at hcu
      · have hcu' : isCellUnit l = false := by simpa using hcu
        simp only [ready] at hr
        rw [gen_compl_general hcu'] at hr
        simp only [Bool.and_eq_true] at hr
        rw [wf_compl_general hcu']
        simp only [Bool.and_eq_true]
        exact ⟨ih hr.1.1.1.1.1, ⟨⟨⟨hr.1.1.1.1.2, hr.1.1.1.2⟩, chainPads_of_chainOK hr.1.2⟩, hr.2⟩⟩
  | bin o l r n ihl ihr =>
    cases n with
    | none => simp [ready, gen] at hr
    | some g =>
      simp only [ready, gen, Bool.and_eq_true, Bool.not_eq_true', cond_true] at hr
      obtain ⟨⟨⟨⟨⟨⟨⟨⟨hl, hrr⟩, ho⟩, hckl⟩, hckr⟩, _⟩, hopr⟩, _⟩, hep⟩ := hr
      simp only [wf, Bool.and_eq_true]
      refine ⟨⟨ihl hl, ihr hrr⟩, ⟨⟨⟨⟨ho, chainPads_of_chainOK hckl⟩, chainPads_of_chainOK hckr⟩, ?_⟩, hep⟩⟩
      refine ⟨hopr.1, ?_⟩
      have h2 := hopr.2
      cases o <;> simp_all [oprPre, oprOKp]

/-! the operators keep trees well-formed -/

theorem wf_and {a b : HS} (ha : wf a = true) (hb : wf b = true) : wf (a.and b) = true := by
  simp [HS.and, wf, ha, hb]
theorem wf_or {a b : HS} (ha : wf a = true) (hb : wf b = true) : wf (a.or b) = true := by
  simp [HS.or, wf, ha, hb]
theorem wf_invert {a : HS} (ha : wf a = true) : wf a.invert = true := by
  simp only [HS.invert]; rw [wf_compl_general (wf_not_cell ha)]; simp [ha]

theorem wf_iand {a x : HS} (ha : wf a = true) (hx : wf x = true) : wf (a.iand x) = true := by
  fun_induction HS.iand a x <;> simp_all [wf]

theorem wf_ior {a x : HS} (ha : wf a = true) (hx : wf x = true) : wf (a.ior x) = true := by
  fun_induction HS.ior a x <;> simp_all [wf]

/-- the operand of an edit -/
def Op.operand : Op → Option HS
  | .and x => some x | .rand x => some x | .or x => some x | .ror x => some x
  | .not => none | .iand x => some x | .ior x => some x

theorem wf_applyOp {h : HS} {op : Op} (hh : wf h = true) (hx : ∀ x, op.operand = some x → wf x = true) :
    wf (applyOp h op) = true := by
  cases op with
  | and x => exact wf_and hh (hx x rfl)
  | rand x => exact wf_and (hx x rfl) hh
  | or x => exact wf_or hh (hx x rfl)
  | ror x => exact wf_or (hx x rfl) hh
  | not => exact wf_invert hh
  | iand x => exact wf_iand hh (hx x rfl)
  | ior x => exact wf_ior hh (hx x rfl)

/-- a step of a history of a cell's geometry: an edit with the Python operators, or a write -/
inductive Step where
  | edit (op : Op)
  | write

def Step.ok : Step → Prop
  | .edit op => ∀ x, op.operand = some x → wf x = true
  | .write => True

/-- the tree (and the counter of fresh node ids) after a step: a write leaves the updated nodes on the tree -/
def runStep (st : HS × Nat) : Step → HS × Nat
  | .edit op => (applyOp st.1 op, st.2)
  | .write => updateValues st.2 st.1

def stepSem (ρ : Env) (b : Bool) : Step → Bool
  | .edit op => opSem ρ b op
  | .write => b

/-- **C02_history_wf (DESIGN's C02_history).** Start from any well-formed tree (read, or built from scratch). After
    *any* sequence of `&`, `|`, `~`, `&=`, `|=` (either operand order; operands any well-formed trees, built or read
    from other cells) interleaved with *any* number of writes: the tree is well-formed, its region is the fold of the
    Boolean operations over the operands' regions, and the text the next write produces denotes exactly that region. -/
theorem C02_history_wf (h0 : HS) (c0 : Nat) (steps : List Step) (hw : wf h0 = true) (hs : ∀ s ∈ steps, s.ok) :
    wf (steps.foldl runStep (h0, c0)).1 = true ∧
    (∀ ρ, (steps.foldl runStep (h0, c0)).1.eval ρ = steps.foldl (stepSem ρ) (h0.eval ρ)) ∧
    ∃ e, denote (updateValues (steps.foldl runStep (h0, c0)).2 (steps.foldl runStep (h0, c0)).1).1.fmt = some e ∧
      ∀ ρ, e.eval ρ = steps.foldl (stepSem ρ) (h0.eval ρ) := by
  have key : wf (steps.foldl runStep (h0, c0)).1 = true ∧
      (∀ ρ, (steps.foldl runStep (h0, c0)).1.eval ρ = steps.foldl (stepSem ρ) (h0.eval ρ)) := by
    induction steps generalizing h0 c0 with
    | nil => exact ⟨hw, fun _ => rfl⟩
    | cons s ss ih =>
      have hs' : ∀ t ∈ ss, t.ok := fun t ht => hs t (List.mem_cons_of_mem _ ht)
      have hs0 : s.ok := hs s (List.mem_cons_self ..)
      cases s with
      | edit op =>
        obtain ⟨i1, i2⟩ := ih (applyOp h0 op) c0 (wf_applyOp hw hs0) hs'
        exact ⟨i1, fun ρ => by rw [List.foldl_cons, List.foldl_cons, runStep, stepSem, ← applyOp_eval]; exact i2 ρ⟩
      | write =>
        obtain ⟨i1, i2⟩ := ih (updateValues c0 h0).1 (updateValues c0 h0).2
          (C02_ready_wf _ (C02_update_ready c0 h0 hw)) hs'
        exact ⟨i1, fun ρ => by
          rw [List.foldl_cons, List.foldl_cons, runStep, stepSem, ← C02_update_meaning c0 h0 hw ρ]; exact i2 ρ⟩
  obtain ⟨k1, k2⟩ := key
  obtain ⟨e, he, hv⟩ := C02_write_meaning_wf (steps.foldl runStep (h0, c0)).2 _ k1
  exact ⟨k1, k2, e, he, fun ρ => by rw [hv ρ, k2 ρ]⟩

/-- **C02_cell_update.** The cell level: from a well-formed geometry and well-formed parentheses around it,
    `Cell._update_values` leaves the cell's tree entry in the state `C02_cell_write_meaning` asks for; so the geometry
    part of the written cell denotes the region of `cell.geometry`. -/
theorem C02_cell_update (ctr : Nat) (c : CG) (hw : wf c.hs = true) (hp : chainPads c.chain = true) :
    ∃ e, denote (c.update ctr).1.fmt = some e ∧ ∀ ρ, e.eval ρ = c.hs.eval ρ := by
  have hr := C02_update_ready ctr c.hs hw
  have hm := C02_update_meaning ctr c.hs hw
  by_cases ht : c.target = (updateValues ctr c.hs).1.nodeId.getD 0
  · obtain ⟨k1, k2⟩ := closeParens_spec true c.chain (updateValues ctr c.hs).1 hr hp
    have hu : (c.update ctr).1 =
        ⟨(closeParens c.chain (updateValues ctr c.hs).1).1, c.target, (closeParens c.chain (updateValues ctr c.hs).1).2⟩ := by
      simp [CG.update, ht]
    obtain ⟨e, he, hv⟩ := C02_cell_write_meaning
      ⟨(closeParens c.chain (updateValues ctr c.hs).1).1, c.target, (closeParens c.chain (updateValues ctr c.hs).1).2⟩
      k1.g k2
    rw [hu]
    exact ⟨e, he, fun ρ => by rw [hv ρ]; exact (k1.same.ev ρ).trans (hm ρ)⟩
  · have hu : (c.update ctr).1 =
        ⟨[], (updateValues ctr c.hs).1.nodeId.getD 0, (updateValues ctr c.hs).1⟩ := by
      simp [CG.update, ht]
    obtain ⟨e, he, hv⟩ := C02_cell_write_meaning
      ⟨[], (updateValues ctr c.hs).1.nodeId.getD 0, (updateValues ctr c.hs).1⟩ hr rfl
    rw [hu]
    exact ⟨e, he, fun ρ => by rw [hv ρ]; exact hm ρ⟩

/-! ## the `operator` setter (`hs.operator = …`; `__switch_operator` with a new symbol) -/

/-- **C02_ops_setOperator.** After `hs.operator = o'` the region is the new operator applied to the unchanged
    operands. -/
theorem C02_ops_setOperator (o o' : BOp) (l r : HS) (n : Option GN) (ρ : Env) :
    ((HS.bin o l r n).setOperator o').eval ρ =
      (match o' with
        | .inter => l.eval ρ && r.eval ρ
        | .union => l.eval ρ || r.eval ρ) := by
  cases o' <;> rfl

/-- the setter keeps a tree well-formed: the syntax node now carries the text of the *other* operator, which is
    what `wf` allows and `_update_node` repairs -/
theorem wf_setOperator (o' : BOp) {h : HS} (hw : wf h = true) : wf (h.setOperator o') = true := by
  cases h with
  | unit _ _ _ _ => exact hw
  | compl _ _ => exact hw
  | bin o l r n => simpa [HS.setOperator, wf] using hw

/-- **C02_setOperator_write.** `hs.operator = o'` on any well-formed binary tree, then a write: the text denotes the
    new operator applied to the unchanged operands. This is where `__switch_operator` runs with a *new* symbol
    (`switch_colon_spec`: the ":" goes on a blank MCNP reads, or in front; `updateNodeBin_inter`: an old ":" is blanked
    out and a separator stays). -/
theorem C02_setOperator_write (c : Nat) (o o' : BOp) (l r : HS) (n : Option GN)
    (hw : wf (.bin o l r n) = true) :
    ∃ e, denote (updateValues c ((HS.bin o l r n).setOperator o')).1.fmt = some e ∧
      ∀ ρ, e.eval ρ = (match o' with
        | .inter => l.eval ρ && r.eval ρ
        | .union => l.eval ρ || r.eval ρ) := by
  obtain ⟨e, he, hv⟩ := C02_write_meaning_wf c _ (wf_setOperator o' hw)
  exact ⟨e, he, fun ρ => by rw [hv ρ, C02_ops_setOperator]⟩

/-! ## edits at any node of the tree (address = path from the root), interleaved with writes -/

/-- what is done to the addressed HalfSpace `sub` -/
inductive NodeEdit where
  /-- `sub & x`, `x & sub`, `sub | x`, `x | sub`, `~sub`, `sub &= x`, `sub |= x`, assigned back to where `sub` was -/
  | op (o : Op)
  /-- `sub.operator = o'` (in place) -/
  | setOperator (o' : BOp)
  /-- `parent.left = x`, `parent.right = x`, `cell.geometry = x` -/
  | replace (x : HS)

def NodeEdit.apply (e : NodeEdit) (h : HS) : HS :=
  match e with
  | .op o => applyOp h o
  | .setOperator o' => h.setOperator o'
  | .replace x => x

def NodeEdit.ok : NodeEdit → Prop
  | .op o => ∀ x, o.operand = some x → wf x = true
  | .setOperator _ => True
  | .replace x => wf x = true

theorem wf_nodeEdit {e : NodeEdit} (he : e.ok) {h : HS} (hw : wf h = true) : wf (e.apply h) = true := by
  cases e with
  | op o => exact wf_applyOp hw he
  | setOperator o' => exact wf_setOperator o' hw
  | replace x => exact he

/-- an edit at a path keeps the tree well-formed when it keeps the addressed subtree well-formed
    (induction over the path) -/
theorem wf_editAt (f : HS → HS) (hf : ∀ h, wf h = true → wf (f h) = true) (p : Path) (h : HS)
    (hw : wf h = true) : wf (h.editAt f p) = true := by
  induction p generalizing h with
  | nil => exact hf h hw
  | cons d p ih =>
    cases h with
    | unit _ _ _ _ => cases d <;> exact hw
    | compl l n =>
      cases d with
      | r => exact hw
      | l =>
        by_cases hcu : isCellUnit l = true
        · cases l with
          | unit d' s c vn =>
            cases c
            · simp [isCellUnit] at hcu
            · exact hw
          | compl _ _ => simp [isCellUnit] at hcu
          | bin _ _ _ _ => simp [isCellUnit] at hcu
        · have hcu' : isCellUnit l = false := by simpa using hcu
          have hstep : (HS.compl l n).editAt f (.l :: p) = .compl (l.editAt f p) n := by
            cases l with
            | unit d' s c vn =>
              cases c
              · rfl
              · simp [isCellUnit] at hcu'
            | compl _ _ => rfl
            | bin _ _ _ _ => rfl
          rw [hstep]
          rw [wf_compl_general hcu'] at hw
          simp only [Bool.and_eq_true] at hw
          have hl := ih l hw.1
          rw [wf_compl_general (wf_not_cell hl)]
          simp only [Bool.and_eq_true]
          exact ⟨hl, hw.2⟩
    | bin o l r n =>
      simp only [wf, Bool.and_eq_true] at hw
      cases d with
      | l =>
        show wf (.bin o (l.editAt f p) r n) = true
        simp only [wf, Bool.and_eq_true]
        exact ⟨⟨ih l hw.1.1, hw.1.2⟩, hw.2⟩
      | r =>
        show wf (.bin o l (r.editAt f p) n) = true
        simp only [wf, Bool.and_eq_true]
        exact ⟨⟨hw.1.1, ih r hw.1.2⟩, hw.2⟩

/-- **C02_editAt_meaning.** The region after an edit at a path depends only on the region the edit produces at the
    addressed node: edits with the same local meaning (e.g. `sub &= x` and `sub & x`) give the same region. -/
theorem C02_editAt_meaning (f g : HS → HS) (hfg : ∀ h ρ, (f h).eval ρ = (g h).eval ρ) (p : Path) (h : HS) (ρ : Env) :
    (h.editAt f p).eval ρ = (h.editAt g p).eval ρ := by
  induction p generalizing h with
  | nil => exact hfg h ρ
  | cons d p ih =>
    cases h with
    | unit _ _ _ _ => cases d <;> rfl
    | compl l n =>
      cases d with
      | r => rfl
      | l =>
        cases l with
        | unit d' s c vn =>
          cases c
          · exact congrArg (!·) (ih (.unit d' s false vn))
          · rfl
        | compl l' n' => exact congrArg (!·) (ih (.compl l' n'))
        | bin o' l' r' n' => exact congrArg (!·) (ih (.bin o' l' r' n'))
    | bin o l r n =>
      cases d with
      | l =>
        cases o
        · show (_ && _) = (_ && _); rw [ih l]
        · show (_ || _) = (_ || _); rw [ih l]
      | r =>
        cases o
        · show (_ && _) = (_ && _); rw [ih r]
        · show (_ || _) = (_ || _); rw [ih r]

/-- an edit of a geometry at any node, or a write -/
inductive Edit where
  | at (p : Path) (e : NodeEdit)
  | write

def Edit.ok : Edit → Prop
  | .at _ e => e.ok
  | .write => True

def runEdit (st : HS × Nat) : Edit → HS × Nat
  | .at p e => (st.1.editAt e.apply p, st.2)
  | .write => updateValues st.2 st.1

/-- **C02_history_edits.** Histories over the whole edit vocabulary at *any* node: after any sequence of edits —
    each one of `& | ~ &= |=` (either operand order), `hs.operator = …`, `parent.left/right = x` applied to the
    HalfSpace at any path from the root — interleaved with any number of writes (write; edit an inner node; write;
    edit the root; write …), from a well-formed tree with well-formed operands: the tree is well-formed, and the
    text the next write produces denotes exactly the region of the tree the API exposes at that moment. -/
theorem C02_history_edits (h0 : HS) (c0 : Nat) (es : List Edit) (hw : wf h0 = true) (hs : ∀ e ∈ es, e.ok) :
    wf (es.foldl runEdit (h0, c0)).1 = true ∧
    ∃ e, denote (updateValues (es.foldl runEdit (h0, c0)).2 (es.foldl runEdit (h0, c0)).1).1.fmt = some e ∧
      ∀ ρ, e.eval ρ = (es.foldl runEdit (h0, c0)).1.eval ρ := by
  have key : wf (es.foldl runEdit (h0, c0)).1 = true := by
    induction es generalizing h0 c0 with
    | nil => exact hw
    | cons s ss ih =>
      have hs' : ∀ t ∈ ss, t.ok := fun t ht => hs t (List.mem_cons_of_mem _ ht)
      have hs0 : s.ok := hs s (List.mem_cons_self ..)
      cases s with
      | «at» p e =>
        exact ih (h0.editAt e.apply p) c0 (wf_editAt _ (fun h hh => wf_nodeEdit hs0 hh) p h0 hw) hs'
      | write =>
        exact ih (updateValues c0 h0).1 (updateValues c0 h0).2 (C02_ready_wf _ (C02_update_ready c0 h0 hw)) hs'
  exact ⟨key, C02_write_meaning_wf _ _ key⟩

/-- every text written *during* such a history — not only the last one — denotes the region of the tree at that
    moment: a history cut at any write is a history -/
theorem C02_history_every_write (h0 : HS) (c0 : Nat) (es es' : List Edit) (hw : wf h0 = true)
    (hs : ∀ e ∈ es ++ .write :: es', e.ok) :
    ∃ e, denote (updateValues (es.foldl runEdit (h0, c0)).2 (es.foldl runEdit (h0, c0)).1).1.fmt = some e ∧
      ∀ ρ, e.eval ρ = (es.foldl runEdit (h0, c0)).1.eval ρ :=
  (C02_history_edits h0 c0 es hw (fun e he => hs e (List.mem_append_left _ he))).2

/-- `Cell._update_values` keeps the cell's geometry entry well-formed and its region unchanged -/
theorem cell_update_inv (ctr : Nat) (c : CG) (hw : wf c.hs = true) (hp : chainPads c.chain = true) :
    wf (c.update ctr).1.hs = true ∧ chainPads (c.update ctr).1.chain = true ∧
      ∀ ρ, (c.update ctr).1.hs.eval ρ = c.hs.eval ρ := by
  have hr := C02_update_ready ctr c.hs hw
  have hm := C02_update_meaning ctr c.hs hw
  by_cases ht : c.target = (updateValues ctr c.hs).1.nodeId.getD 0
  · obtain ⟨k1, _⟩ := closeParens_spec true c.chain (updateValues ctr c.hs).1 hr hp
    have hu : (c.update ctr).1 =
        ⟨(closeParens c.chain (updateValues ctr c.hs).1).1, c.target, (closeParens c.chain (updateValues ctr c.hs).1).2⟩ := by
      simp [CG.update, ht]
    rw [hu]
    exact ⟨C02_ready_wf _ k1.g, (chainExt_pads k1.ext hp).1, fun ρ => (k1.same.ev ρ).trans (hm ρ)⟩
  · have hu : (c.update ctr).1 =
        ⟨[], (updateValues ctr c.hs).1.nodeId.getD 0, (updateValues ctr c.hs).1⟩ := by
      simp [CG.update, ht]
    rw [hu]
    exact ⟨C02_ready_wf _ hr, rfl, hm⟩

/-- a step on the cell: `cell.geometry = <edit>(cell.geometry)` or a write of the cell -/
def runCellStep (st : CG × Nat) : Step → CG × Nat
  | .edit op => (st.1.set (applyOp st.1.hs op), st.2)
  | .write => st.1.update st.2

/-- **C02_cell_history.** `C02_history_wf` at the level of the cell (`Cell.geometry` setter, `Cell._update_values` with
    the parentheses that were read around the whole geometry): after any interleaving of edits and writes the
    geometry part of the next written cell denotes the fold of the Boolean operations over the operands' regions. -/
theorem C02_cell_history (c0 : CG) (n0 : Nat) (steps : List Step) (hw : wf c0.hs = true)
    (hp : chainPads c0.chain = true) (hs : ∀ s ∈ steps, s.ok) :
    wf (steps.foldl runCellStep (c0, n0)).1.hs = true ∧
    (∀ ρ, (steps.foldl runCellStep (c0, n0)).1.hs.eval ρ = steps.foldl (stepSem ρ) (c0.hs.eval ρ)) ∧
    ∃ e, denote ((steps.foldl runCellStep (c0, n0)).1.update (steps.foldl runCellStep (c0, n0)).2).1.fmt = some e ∧
      ∀ ρ, e.eval ρ = steps.foldl (stepSem ρ) (c0.hs.eval ρ) := by
  have key : wf (steps.foldl runCellStep (c0, n0)).1.hs = true ∧
      chainPads (steps.foldl runCellStep (c0, n0)).1.chain = true ∧
      (∀ ρ, (steps.foldl runCellStep (c0, n0)).1.hs.eval ρ = steps.foldl (stepSem ρ) (c0.hs.eval ρ)) := by
    induction steps generalizing c0 n0 with
    | nil => exact ⟨hw, hp, fun _ => rfl⟩
    | cons s ss ih =>
      have hs' : ∀ t ∈ ss, t.ok := fun t ht => hs t (List.mem_cons_of_mem _ ht)
      have hs0 : s.ok := hs s (List.mem_cons_self ..)
      cases s with
      | edit op =>
        obtain ⟨i1, i2, i3⟩ := ih (c0.set (applyOp c0.hs op)) n0 (wf_applyOp hw hs0) hp hs'
        refine ⟨i1, i2, fun ρ => ?_⟩
        rw [List.foldl_cons, List.foldl_cons, runCellStep, stepSem, ← applyOp_eval]; exact i3 ρ
      | write =>
        obtain ⟨u1, u2, u3⟩ := cell_update_inv n0 c0 hw hp
        obtain ⟨i1, i2, i3⟩ := ih (c0.update n0).1 (c0.update n0).2 u1 u2 hs'
        refine ⟨i1, i2, fun ρ => ?_⟩
        rw [List.foldl_cons, List.foldl_cons, runCellStep, stepSem, ← u3 ρ]; exact i3 ρ
  obtain ⟨k1, k2, k3⟩ := key
  obtain ⟨e, he, hv⟩ := C02_cell_update (steps.foldl runCellStep (c0, n0)).2 _ k1 k2
  exact ⟨k1, k3, e, he, fun ρ => by rw [hv ρ, k3 ρ]⟩

/-! ## the constants of the source (generated: `Gen/Geometry.lean`, `Gen/Constants.lean`) -/

/-- **C02_new_nodes_ready.** The texts the code gives to new nodes satisfy what `ready` asks of paddings: the operator
    text of a new intersection is a non-empty run of separators, of a new union separators around one ":", of a new
    complement separators and then "#"; new parentheses are exactly "(" and ")"; and the symbols of
    `geometry_operators.Operator` are the characters the Spec reads as `:` and `#`. Editing any of these constants
    in the source regenerates `Gen/Geometry.lean` and re-opens this proof. -/
theorem C02_new_nodes_ready :
    (isSep false (textOfCodes Gen.newOprInterCodes) = true ∧ cmtAfter false (textOfCodes Gen.newOprInterCodes) = false ∧
      (textOfCodes Gen.newOprInterCodes).isEmpty = false) ∧
    unionOpr (textOfCodes Gen.newOprUnionCodes) = true ∧
    complOpr (textOfCodes Gen.newOprComplCodes) = true ∧
    (textOfCodes Gen.newParenOpenCodes = [.lp] ∧ textOfCodes Gen.newParenCloseCodes = [.rp]) ∧
    (textOfCodes Gen.operatorUnionCodes = [.colon] ∧ textOfCodes Gen.operatorComplementCodes = [.hash]) ∧
    0 < Gen.blankSpaceContinue := by
  decide

/-! ## non-vacuity -/

/-- `(-1 | -2) & +3` built from scratch with the Python operators -/
def ex1 : HS := ((surfaceSide 1 false).or (surfaceSide 2 false)).and (surfaceSide 3 true)

/-- `_update_values` brings it into the ready state … -/
example : ready (updateValues 1 ex1).1 = true := by decide
/-- … and the text is `(-1 : -2) 3`. -/
example : (updateValues 1 ex1).1.fmt =
    [.lp, .minus, .digit 1, .sp, .colon, .sp, .minus, .digit 2, .rp, .sp, .digit 3] := by decide
/-- a complement of a surface, a cell complement, and an `|=` on an intersection -/
example : ready (updateValues 1 (((surfaceSide 4 true).invert.and (cellInvert 91)).ior ex1)).1 = true := by decide

/-- Without the parentheses the same tokens denote another region (what the unrepaired code wrote):
    `-1 : -2 3` is not `(-1 : -2) 3`. -/
theorem C02_parentheses_matter :
    (denote [.minus, .digit 1, .sp, .colon, .sp, .minus, .digit 2, .sp, .digit 3]).map (E.eval fun _ _ => false)
      ≠ (denote (updateValues 1 ex1).1.fmt).map (E.eval fun _ _ => false) := by
  decide

end MontePyVerif.C02
