import MontePyVerif.Spec.Geometry
import MontePyVerif.Model.Geometry
/-! # C02 — a cell's geometry keeps its Boolean meaning through read, edit and write -/
namespace MontePyVerif.C02
open MontePyVerif.Spec.Geometry MontePyVerif.Geometry

/-- Spec sanity: `1 2:3` is `(1 ∩ 2) ∪ 3`, `#(1:2) 3` is `¬(1 ∪ 2) ∩ 3`, `#4` is a cell complement. -/
theorem C02_spec_precedence :
    (∀ ρ, (denote [.digit 1, .sp, .digit 2, .colon, .digit 3]).map (E.eval ρ)
        = some ((ρ false 1 && ρ false 2) || ρ false 3)) ∧
    (∀ ρ, (denote [.hash, .lp, .digit 1, .colon, .minus, .digit 2, .rp, .digit 3]).map (E.eval ρ)
        = some (!(ρ false 1 || !ρ false 2) && ρ false 3)) ∧
    (∀ ρ, (denote [.hash, .digit 4]).map (E.eval ρ) = some (!ρ true 4)) := by
  refine ⟨fun ρ => ?_, fun ρ => ?_, fun ρ => ?_⟩ <;>
    simp [denote, lex, lexAux, emit, flush, parse, run, step, andO, orO, E.eval]

end MontePyVerif.C02
