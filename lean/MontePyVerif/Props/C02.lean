import MontePyVerif.Lemmas.GeometryPrint
/-! # C02 — a cell's geometry keeps its Boolean meaning through read, edit and write

Spec: `Spec/Geometry.lean` (`denote`: one-pass lexer + stack evaluator, MCNP's rules).
Model: `Model/Geometry.lean` (HalfSpace trees with their syntax nodes; the repaired `half_space.py`).
`ready` (Lemmas/GeometryReady.lean) is the decidable state of a tree *with* its nodes that
`HalfSpace._update_values` establishes. -/
namespace MontePyVerif.C02
open MontePyVerif.Spec.Geometry MontePyVerif.Geometry

/-- Spec sanity: `1 2:3` is `(1 ∩ 2) ∪ 3`, `#(1:-2)3` is `¬(1 ∪ ¬2) ∩ 3`, `#4` is a cell complement. -/
theorem C02_spec_precedence :
    (∀ ρ, (denote [.digit 1, .sp, .digit 2, .colon, .digit 3]).map (E.eval ρ)
        = some ((ρ false 1 && ρ false 2) || ρ false 3)) ∧
    (∀ ρ, (denote [.hash, .lp, .digit 1, .colon, .minus, .digit 2, .rp, .digit 3]).map (E.eval ρ)
        = some (!(ρ false 1 || !ρ false 2) && ρ false 3)) ∧
    (∀ ρ, (denote [.hash, .digit 4]).map (E.eval ρ) = some (!ρ true 4)) := by
  refine ⟨fun ρ => ?_, fun ρ => ?_, fun ρ => ?_⟩ <;>
    simp [denote, lex, lexAux, emit, flush, parse, run, step, andO, orO, E.eval]

/-- the three facts the induction carries for a ready tree -/
def Holds (h : HS) : Prop :=
  Good h.fmt (toks h) ∧ L0 (toks h) (fun ρ => h.eval ρ) ∧ (isUnion h = false → L1 (toks h) (fun ρ => h.eval ρ))

theorem holds_compl {l : HS} {g : GN} (ih : Holds l)
    (htk : toks (.compl l (some g)) = match g.lchain with
      | _ :: ws => .clp :: (linkToks ws (toks l) ++ [.rp])
      | [] => [])
    (ho : orderOK g [.operator, .left] = true) (hopr : complOpr g.opr.format = true)
    (hhp : headParens g.lchain = true) (hck : chainOK g.lchain l.fmt = true)
    (hep : isSep (cmtAfter false (wrapFmt g.lchain l.fmt)) (optFmt g.ep) = true) :
    Holds (.compl l (some g)) := by
  obtain ⟨S, hS, hsep, hclosed⟩ := complOpr_shape hopr
  obtain ⟨_, hpar⟩ := link_good ih.1 hck
  obtain ⟨R, tsR, hw, hk, hR⟩ := hpar hhp
  have hsem : L1 (toks (.compl l (some g))) (fun ρ => (HS.compl l (some g)).eval ρ) := by
    rw [htk]
    cases hc : g.lchain with
    | nil => simp [hc, headParens] at hhp
    | cons w ws =>
      simp only []
      exact (L1_cparen (link_sem (ws := ws) (b := false) ih.2.1 (by simp)).1).congr (fun ρ => by simp [HS.eval])
  refine ⟨?_, hsem.toL0, fun _ => hsem⟩
  rw [fmt_compl ho, hS, hw, htk]
  cases hc : g.lchain with
  | nil => simp [hc, headParens] at hhp
  | cons w ws =>
    simp only []
    have hkind : ∃ s e, wrapKind w = .parens s e := by
      simp only [hc, headParens] at hhp
      cases hk' : wrapKind w <;> simp [hk'] at hhp
      exact ⟨_, _, rfl⟩
    obtain ⟨s, e, hkw⟩ := hkind
    have : tsR = linkToks ws (toks l) ++ [.rp] := by
      rw [hc] at hk; simp only [linkToks, hkw] at hk; exact (List.cons.inj hk).2.symm
    rw [← this]
    exact good_compl hsep hclosed hR (by rw [← hw]; exact hep)

theorem eval_unit_eq (a s : Bool) : (a != !s) = (a == s) := by cases a <;> cases s <;> rfl

/-- **Printer correctness.** The text of a ready tree reads, by MCNP's rules, as a region with the tree's meaning. -/
theorem ready_holds (h : HS) (hr : ready h = true) : Holds h := by
  induction h with
  | unit d s c n =>
    cases c <;> cases n <;> simp [ready] at hr
    rename_i v
    have hsem : L1 (toks (.unit d s false (some v))) (fun ρ => (HS.unit d s false (some v)).eval ρ) :=
      (L1_num d (!s)).congr (fun ρ => by simp only [HS.eval]; cases ρ false d <;> cases s <;> rfl)
    exact ⟨by simpa [HS.fmt, toks] using good_leaf hr.1 hr.2, hsem.toL0, fun _ => hsem⟩
  | compl l n ih =>
    cases n with
    | none => simp [ready] at hr
    | some g =>
      cases l with
      | unit d s c vn =>
        cases c
        · -- complement of a surface leaf: `#( n )`
          simp only [ready, Bool.and_eq_true] at hr
          obtain ⟨⟨⟨⟨⟨hl, ho⟩, hopr⟩, hhp⟩, hck⟩, hep⟩ := hr
          exact holds_compl (ih hl) (by cases hcc : g.lchain <;> simp [toks, hcc]) ho hopr hhp hck hep
        · cases vn with
          | none => simp [ready] at hr
          | some v =>
            -- `#n`
            simp only [ready, Bool.and_eq_true, beq_iff_eq] at hr
            obtain ⟨⟨⟨⟨⟨ho, hopr⟩, hbare⟩, hcv⟩, hpad⟩, hep⟩ := hr
            obtain ⟨S, hS, hsep, hclosed⟩ := complOpr_shape hopr
            have hsem : L1 (toks (.compl (.unit d s true (some v)) (some g)))
                (fun ρ => (HS.compl (.unit d s true (some v)) (some g)).eval ρ) :=
              (L1_cell d).congr (fun ρ => by simp [HS.eval])
            refine ⟨?_, hsem.toL0, fun _ => hsem⟩
            rw [fmt_compl ho, wrapFmt_allBare hbare, hS]
            simpa [HS.fmt, toks] using good_cell hsep hclosed hcv hpad hep
      | compl l' n' =>
        simp only [ready, Bool.and_eq_true] at hr
        obtain ⟨⟨⟨⟨⟨hl, ho⟩, hopr⟩, hhp⟩, hck⟩, hep⟩ := hr
        exact holds_compl (ih hl) (by cases hcc : g.lchain <;> simp [toks, hcc]) ho hopr hhp hck hep
      | bin o' l' r' n' =>
        simp only [ready, Bool.and_eq_true] at hr
        obtain ⟨⟨⟨⟨⟨hl, ho⟩, hopr⟩, hhp⟩, hck⟩, hep⟩ := hr
        exact holds_compl (ih hl) (by cases hcc : g.lchain <;> simp [toks, hcc]) ho hopr hhp hck hep
  | bin o l r n ihl ihr =>
    cases n with
    | none => simp [ready] at hr
    | some g =>
      simp only [ready, Bool.and_eq_true, Bool.not_eq_true'] at hr
      obtain ⟨⟨⟨⟨⟨⟨⟨hl, hrr⟩, ho⟩, hckl⟩, hckr⟩, hLc⟩, hop⟩, hep⟩ := hr
      have hL := ihl hl
      have hR := ihr hrr
      obtain ⟨gL, hLp⟩ := link_good hL.1 hckl
      obtain ⟨gR, hRp⟩ := link_good hR.1 hckr
      cases o with
      | inter =>
        simp only [Bool.and_eq_true, Bool.not_eq_true', Bool.or_eq_true] at hop
        obtain ⟨⟨⟨⟨hsep, hoc⟩, hsepar⟩, hul⟩, hur⟩ := hop
        have semL := (link_sem (ws := g.lchain) (b := !isUnion l) hL.2.1 (fun hb => hL.2.2 (by simpa using hb))).2
          (by rcases hul with h | h
              · left; simpa using h
              · right; exact h)
        have semR := (link_sem (ws := g.rchain) (b := !isUnion r) hR.2.1 (fun hb => hR.2.2 (by simpa using hb))).2
          (by rcases hur with h | h
              · left; simpa using h
              · right; exact h)
        have hsem : L1 (toks (.bin .inter l r (some g))) (fun ρ => (HS.bin .inter l r (some g)).eval ρ) := by
          simpa [toks, HS.eval] using L1_inter semL semR
        refine ⟨?_, hsem.toL0, fun _ => hsem⟩
        rw [fmt_bin ho]
        simp only [toks]
        refine good_inter gL hLc gR hsep hoc ?_ hep
        rcases hsepar with (h | h) | h
        · left; intro e; simp [e] at h
        · right; left
          obtain ⟨R', ts', h1, h2, h3⟩ := hLp h
          exact ⟨R', ts', h1, h2, h3⟩
        · right; right
          obtain ⟨R', ts', h1, h2, h3⟩ := hRp h
          exact ⟨R', ts', h1, h2, h3⟩
      | union =>
        obtain ⟨a, b, hab, ha, hac, hb, hbc⟩ := unionOpr_shape hop
        have semL := (link_sem (ws := g.lchain) (b := false) hL.2.1 (by simp)).1
        have semR := (link_sem (ws := g.rchain) (b := false) hR.2.1 (by simp)).1
        have hsem : L0 (toks (.bin .union l r (some g))) (fun ρ => (HS.bin .union l r (some g)).eval ρ) := by
          simpa [toks, HS.eval] using L0_union semL semR
        refine ⟨?_, hsem, fun hu => by simp [isUnion] at hu⟩
        rw [fmt_bin ho, hab]
        simp only [toks]
        exact good_union gL hLc gR ha hac hb hbc hep

/-- **C02_write_meaning (central).** For every tree in the state `_update_values` establishes, whatever its size,
    user-supplied redundant parentheses, padding, comments and line breaks: the written text is well-formed MCNP
    geometry and denotes exactly the Boolean function of the HalfSpace tree the API exposes. -/
theorem C02_write_meaning (h : HS) (hr : ready h = true) :
    ∃ e, denote h.fmt = some e ∧ ∀ ρ, e.eval ρ = h.eval ρ := by
  obtain ⟨hg, h0, _⟩ := ready_holds h hr
  obtain ⟨e, hp, hv⟩ := parse_of_L0 h0
  exact ⟨e, by simp [denote, hg.lex, hp], hv⟩

/-- **C02_no_fusion.** The written text lexes to exactly the tokens of the tree: every leaf is one numeral token with
    the leaf's own number and sense (two numerals never run together, no sign or `#` is orphaned, nothing is
    hidden in a comment). -/
theorem C02_no_fusion (h : HS) (hr : ready h = true) : lex h.fmt = some (toks h) :=
  (ready_holds h hr).1.lex

/-- **C02_cell_write_meaning.** The same for the geometry entry of the cell's syntax tree, i.e. with the
    parentheses the user wrote around the whole geometry (kept by `Cell._update_values`). -/
theorem C02_cell_write_meaning (c : CG) (hr : ready c.hs = true) (hc : chainOK c.chain c.hs.fmt = true) :
    ∃ e, denote c.fmt = some e ∧ ∀ ρ, e.eval ρ = c.hs.eval ρ := by
  obtain ⟨hg, h0, _⟩ := ready_holds c.hs hr
  have hl := (link_good hg hc).1
  obtain ⟨e, hp, hv⟩ := parse_of_L0 (link_sem (ws := c.chain) (b := false) h0 (by simp)).1
  exact ⟨e, by simp [denote, CG.fmt, hl.lex, hp], hv⟩

/-! ## the text that was read (C02_parse_meaning, tree side) -/

/-- a cell leaf has the same text as the surface leaf `parseInputNode` makes of the same value -/
theorem fmt_cell_leaf (v : VN) : (HS.unit v.value true true (some v)).fmt = (parseInputNode (.val v)).fmt := rfl

/-- `HalfSpace.parse_input_node` loses no text: the chain of skipped `_SHIFT` trees around the text of the HalfSpace
    that was built is the text of the parser's tree. -/
theorem parse_fmt (g : GT) : wrapFmt (chainOf g).1 (parseInputNode g).fmt = g.format := by
  induction g with
  | val v => simp [chainOf, parseInputNode, wrapFmt, HS.fmt, GT.format]
  | shift w l ih =>
    simp only [chainOf, parseInputNode, wrapFmt, GT.format]
    rw [ih]
  | compl id order opr ep l ih =>
    have key : ∀ child : HS, child.fmt = (parseInputNode l).fmt →
        wrapFmt [] (HS.compl child (some ⟨id, order, opr, ep, (chainOf l).1, (chainOf l).2, [], 0⟩)).fmt
          = (GT.compl id order opr ep l).format := by
      intro child hch
      simp only [wrapFmt, GT.format, HS.fmt]
      congr 1
      funext k
      cases k <;> simp [hch, ih]
    cases l with
    | val v => exact key _ (fmt_cell_leaf v)
    | shift w l' => exact key _ rfl
    | compl a1 a2 a3 a4 a5 => exact key _ rfl
    | bin a1 a2 a3 a4 a5 a6 a7 => exact key _ rfl
  | bin id o order opr ep l r ihl ihr =>
    simp only [chainOf, parseInputNode, wrapFmt, GT.format, HS.fmt]
    congr 1
    funext k
    cases k <;> simp [ihl, ihr]

theorem parseCell_fmt (g : GT) : (parseCell g).fmt = g.format := parse_fmt g

/-- **C02_read_meaning.** For every syntax tree `g` of a geometry (as `CellParser` builds it) whose HalfSpace is in
    the ready state: the text that was read, `g.format`, is well-formed MCNP geometry and denotes exactly the Boolean
    function of the HalfSpace tree `HalfSpace.parse_input_node` builds from `g` — the text read and the object the
    API exposes agree. (That `g.format` *is* the input text is the losslessness of the parser, compared on every
    parsed case.) -/
theorem C02_read_meaning (g : GT) (hr : ready (parseInputNode g) = true)
    (hc : chainOK (chainOf g).1 (parseInputNode g).fmt = true) :
    ∃ e, denote g.format = some e ∧ ∀ ρ, e.eval ρ = (parseInputNode g).eval ρ := by
  have := C02_cell_write_meaning (parseCell g) hr hc
  rwa [parseCell_fmt] at this

/-! ## the operators (C02_ops) -/

theorem C02_ops_surface (n : Nat) (pos : Bool) (ρ : Env) : (surfaceSide n pos).eval ρ = (ρ false n == pos) := rfl
theorem C02_ops_cell (n : Nat) (ρ : Env) : (cellInvert n).eval ρ = !(ρ true n) := rfl
theorem C02_ops_and (a b : HS) (ρ : Env) : (a.and b).eval ρ = (a.eval ρ && b.eval ρ) := rfl
theorem C02_ops_or (a b : HS) (ρ : Env) : (a.or b).eval ρ = (a.eval ρ || b.eval ρ) := rfl
theorem C02_ops_invert (a : HS) (ρ : Env) : a.invert.eval ρ = !(a.eval ρ) := rfl

/-- `a &= x` is the intersection with `x`, whatever the shape of `a` (repaired `__iand__`). -/
theorem C02_ops_iand (a x : HS) (ρ : Env) : (a.iand x).eval ρ = (a.eval ρ && x.eval ρ) := by
  fun_induction HS.iand a x <;> simp_all [HS.eval, Bool.and_assoc]

/-- `a |= x` is the union with `x`, whatever the shape of `a` (repaired `__ior__`). -/
theorem C02_ops_ior (a x : HS) (ρ : Env) : (a.ior x).eval ρ = (a.eval ρ || x.eval ρ) := by
  fun_induction HS.ior a x <;> simp_all [HS.eval, Bool.or_assoc]

/-! ## histories (C02_history) -/

/-- one step of an edit history on `cell.geometry`; the operand may be any tree (built or parsed) -/
inductive Op where
  | and (x : HS) | rand (x : HS) | or (x : HS) | ror (x : HS) | not | iand (x : HS) | ior (x : HS)

def applyOp (h : HS) : Op → HS
  | .and x => h.and x
  | .rand x => x.and h
  | .or x => h.or x
  | .ror x => x.or h
  | .not => h.invert
  | .iand x => h.iand x
  | .ior x => h.ior x

/-- what the step is meant to do to the region -/
def opSem (ρ : Env) (b : Bool) : Op → Bool
  | .and x => b && x.eval ρ
  | .rand x => x.eval ρ && b
  | .or x => b || x.eval ρ
  | .ror x => x.eval ρ || b
  | .not => !b
  | .iand x => b && x.eval ρ
  | .ior x => b || x.eval ρ

theorem applyOp_eval (h : HS) (op : Op) (ρ : Env) : (applyOp h op).eval ρ = opSem ρ (h.eval ρ) op := by
  cases op <;> simp [applyOp, opSem, C02_ops_iand, C02_ops_ior, HS.and, HS.or, HS.invert, HS.eval]

/-- **C02_history.** After any sequence of `&`, `|`, `~`, `&=`, `|=` (either operand order, any operands) the tree
    the API exposes is the region obtained by applying the same Boolean operations to the operands' regions. -/
theorem C02_history (h : HS) (ops : List Op) (ρ : Env) :
    (ops.foldl applyOp h).eval ρ = ops.foldl (opSem ρ) (h.eval ρ) := by
  induction ops generalizing h with
  | nil => rfl
  | cons op ops ih => simp [List.foldl, ih, applyOp_eval]

/-- … and once such a history's tree is in the state `_update_values` establishes, its text denotes that region. -/
theorem C02_history_write (h : HS) (ops : List Op) (h' : HS)
    (hsame : ∀ ρ, h'.eval ρ = (ops.foldl applyOp h).eval ρ) (hr : ready h' = true) :
    ∃ e, denote h'.fmt = some e ∧ ∀ ρ, e.eval ρ = ops.foldl (opSem ρ) (h.eval ρ) := by
  obtain ⟨e, he, hv⟩ := C02_write_meaning h' hr
  exact ⟨e, he, fun ρ => by rw [hv ρ, hsame ρ, C02_history]⟩

/-! ## the constants of the source (generated: `Gen/Geometry.lean`, `Gen/Constants.lean`) -/

/-- **C02_new_nodes_ready.** The texts the code gives to new nodes satisfy what `ready` asks of paddings: the operator
    text of a new intersection is a non-empty run of separators, of a new union separators around one ":", of a new
    complement separators and then "#"; new parentheses are exactly "(" and ")"; and the symbols of
    `geometry_operators.Operator` are the characters the Spec reads as `:` and `#`. Editing any of these constants
    in the source regenerates `Gen/Geometry.lean` and re-opens this proof. -/
theorem C02_new_nodes_ready :
    (isSep false (textOfCodes Gen.newOprInterCodes) = true ∧ cmtAfter false (textOfCodes Gen.newOprInterCodes) = false ∧
      (textOfCodes Gen.newOprInterCodes).isEmpty = false) ∧
    unionOpr (textOfCodes Gen.newOprUnionCodes) = true ∧
    complOpr (textOfCodes Gen.newOprComplCodes) = true ∧
    (textOfCodes Gen.newParenOpenCodes = [.lp] ∧ textOfCodes Gen.newParenCloseCodes = [.rp]) ∧
    (textOfCodes Gen.operatorUnionCodes = [.colon] ∧ textOfCodes Gen.operatorComplementCodes = [.hash]) ∧
    0 < Gen.blankSpaceContinue := by
  decide

/-! ## non-vacuity -/

/-- `(-1 | -2) & +3` built from scratch with the Python operators -/
def ex1 : HS := ((surfaceSide 1 false).or (surfaceSide 2 false)).and (surfaceSide 3 true)

/-- `_update_values` brings it into the ready state … -/
example : ready (updateValues 1 ex1).1 = true := by decide
/-- … and the text is `(-1 : -2) 3`. -/
example : (updateValues 1 ex1).1.fmt =
    [.lp, .minus, .digit 1, .sp, .colon, .sp, .minus, .digit 2, .rp, .sp, .digit 3] := by decide
/-- a complement of a surface, a cell complement, and an `|=` on an intersection -/
example : ready (updateValues 1 (((surfaceSide 4 true).invert.and (cellInvert 91)).ior ex1)).1 = true := by decide

/-- Without the parentheses the same tokens denote another region (what the unrepaired code wrote):
    `-1 : -2 3` is not `(-1 : -2) 3`. -/
theorem C02_parentheses_matter :
    (denote [.minus, .digit 1, .sp, .colon, .sp, .minus, .digit 2, .sp, .digit 3]).map (E.eval fun _ _ => false)
      ≠ (denote (updateValues 1 ex1).1.fmt).map (E.eval fun _ _ => false) := by
  decide

end MontePyVerif.C02
