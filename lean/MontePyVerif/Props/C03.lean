import MontePyVerif.Model.Edits
/-! # C03 — valid edits are accepted and written exactly, and nothing else changes

Refinement of the heap model of the setters (`Model/Edits.lean`) to an abstract record of independent quantities.
The abstract problem is a function `Quantity → Obs`; an assignment changes one entry of it and nothing else
(`absAction`).  The concrete setters write `ValueNode`s that live in a heap and may be shared; the theorems say
that under the invariant `Inv` (quantity ↦ node injective up to the particles of one cell's `imp:n,p=` entry;
every semantic node sits at its tree position) the concrete assignment has exactly the abstract effect
(`C03_refines`: the edited quantity gets the value, every other quantity keeps its value), that `Inv` is kept
(`C03_inv_preserved`), and that this lifts to every finite edit history (`C03_history`); `C03_written` says that
what `_update_values` + formatting print is the rendering of the abstract problem. -/
namespace MontePyVerif.Edits

/-! ## abstract semantics of an assignment -/

def isImp : Slot → Bool
  | .cellImp _ _ => true
  | _ => false

/-- one assignment on the abstract record: exactly one quantity changes.  (A node-backed quantity of an object that
    does not exist stays absent; an importance is created by the assignment.) -/
def absAction (a : AbstractProblem) : Action → AbstractProblem
  | .write s v => if isImp s || a (.node s) != .absent then upd a (.node s) (.val v) else a
  | .setField f o => upd a (.field f) o

def absActions (a : AbstractProblem) (as : List Action) : AbstractProblem := as.foldl absAction a

/-- the quantity an assignment is about -/
def Action.target : Action → Quantity
  | .write s _ => .node s
  | .setField f _ => .field f

/-! ## heap lemmas -/

theorem upd_eq {κ β : Type} [DecidableEq κ] (f : κ → β) (k : κ) (v : β) : upd f k v k = v := by
  simp [upd]

theorem upd_ne {κ β : Type} [DecidableEq κ] (f : κ → β) (k j : κ) (v : β) (h : j ≠ k) : upd f k v j = f j := by
  simp [upd, h]

theorem α_node_some (p : Problem) (s : Slot) (id : NodeId) (h : p.slot s = some id) :
    α p (.node s) = .val (p.heap id).value := by
  simp [α, h]

theorem α_node_none (p : Problem) (s : Slot) (h : p.slot s = none) : α p (.node s) = .absent := by
  simp [α, h]

theorem α_write (p : Problem) (id : NodeId) (v : Option Val) (s : Slot) :
    α (p.write id v) (.node s) = if p.slot s = some id then .val v else α p (.node s) := by
  have hslot : (p.write id v).slot s = p.slot s := rfl
  cases h : p.slot s with
  | none =>
    rw [α_node_none _ _ (hslot.trans h), α_node_none _ _ h]
    simp
  | some j =>
    rw [α_node_some _ _ j (hslot.trans h), α_node_some _ _ j h]
    by_cases hj : j = id
    · subst hj; simp [Problem.write, upd]
    · simp [Problem.write, upd, hj]

theorem α_field (p : Problem) (f : Field) : α p (.field f) = p.field f := rfl

theorem absent_iff (p : Problem) (s : Slot) : α p (.node s) = .absent ↔ p.slot s = none := by
  cases h : p.slot s with
  | none => simp [α_node_none _ _ h]
  | some j => simp [α_node_some _ _ j h]

/-! ## `Importance.__setitem__`, case by case -/

/-- the state after `_generate_default_cell_tree(particle)` -/
def impFresh (p : Problem) (i : Nat) (part : String) : Problem :=
  { p with
    next := p.next + 1
    heap := upd p.heap p.next { value := some (.num 0), negatable := false, isNeg := none }
    slot := upd p.slot (.cellImp i part) (some p.next)
    tree := upd p.tree (.cellImp i part) (some p.next)
    impKeys := upd p.impKeys i (p.impKeys i ++ [part]) }

/-- the state after `copy.deepcopy(tree)` stored under the particle -/
def impCopy (p : Problem) (i : Nat) (part : String) (id : NodeId) : Problem :=
  { p with
    next := p.next + 1
    heap := upd p.heap p.next (p.heap id)
    slot := upd p.slot (.cellImp i part) (some p.next)
    tree := upd p.tree (.cellImp i part) (some p.next) }

theorem setImp_none (p : Problem) (i : Nat) (part : String) (v : Option Val)
    (h : p.slot (.cellImp i part) = none) : setImp p i part v = (impFresh p i part).write p.next v := by
  simp [setImp, h, impFresh]

theorem setImp_shared (p : Problem) (i : Nat) (part : String) (v : Option Val) (id : NodeId)
    (h : p.slot (.cellImp i part) = some id) (hs : sharedImp p i part id = true) :
    setImp p i part v = (impCopy p i part id).write p.next v := by
  simp [setImp, h, hs, impCopy]

theorem setImp_own (p : Problem) (i : Nat) (part : String) (v : Option Val) (id : NodeId)
    (h : p.slot (.cellImp i part) = some id) (hs : sharedImp p i part id = false) :
    setImp p i part v = p.write id v := by
  simp [setImp, h, hs]

/-- a state that differs from `p` by a fresh node stored under one slot only: every other quantity reads as before -/
theorem α_fresh (p p1 : Problem) (hI : Inv p) (s : Slot) (n : VNode)
    (hslot : p1.slot = upd p.slot s (some p.next)) (hheap : p1.heap = upd p.heap p.next n)
    (hfield : p1.field = p.field) (v : Option Val) (q : Quantity) :
    α (p1.write p.next v) q = upd (α p) (.node s) (.val v) q := by
  cases q with
  | field g => simp [α, Problem.write, upd, hfield]
  | node s' =>
    rw [α_write]
    by_cases h : s' = s
    · subst h; simp [upd, hslot]
    · have hne : Quantity.node s' ≠ Quantity.node s := by
        intro hq; cases hq; exact h rfl
      have hs1 : p1.slot s' = p.slot s' := by rw [hslot]; simp [upd, h]
      have : p.slot s' ≠ some p.next := by
        intro hq
        exact Nat.lt_irrefl _ (hI.bound _ _ hq)
      rw [hs1]
      simp only [this, if_false, upd, hne]
      cases hq : p.slot s' with
      | none => rw [α_node_none _ _ (hs1.trans hq), α_node_none _ _ hq]
      | some j =>
        have hj : j ≠ p.next := by
          intro hj; subst hj; exact Nat.lt_irrefl _ (hI.bound _ _ hq)
        rw [α_node_some _ _ j (hs1.trans hq), α_node_some _ _ j hq, hheap]
        simp [upd, hj]

/-! ## the frame lemma for one assignment -/

theorem imp_not_shared (p : Problem) (hI : Inv p) (i : Nat) (part : String) (id : NodeId)
    (hs : p.slot (.cellImp i part) = some id) (hns : sharedImp p i part id = false)
    (s' : Slot) (h' : p.slot s' = some id) : s' = .cellImp i part := by
  rcases hI.inj _ _ _ hs h' with h | ⟨i', a, b, h1, h2⟩
  · exact h.symm
  · cases h1
    subst h2
    by_cases hb : b = part
    · subst hb; rfl
    · exfalso
      have hk : b ∈ p.impKeys i := (hI.keys i b).1 (by simp [h'])
      have : sharedImp p i part id = true := by
        unfold sharedImp
        rw [List.any_eq_true]
        exact ⟨b, hk, by simp [hb, h']⟩
      rw [this] at hns
      cases hns

theorem exec_write_imp (p : Problem) (hI : Inv p) (i : Nat) (part : String) (v : Option Val) :
    α (setImp p i part v) = upd (α p) (.node (.cellImp i part)) (.val v) := by
  funext q
  cases hs : p.slot (.cellImp i part) with
  | none =>
    rw [setImp_none _ _ _ _ hs]
    exact α_fresh p (impFresh p i part) hI _ _ rfl rfl rfl v q
  | some id =>
    by_cases hsh : sharedImp p i part id = true
    · rw [setImp_shared _ _ _ _ _ hs hsh]
      exact α_fresh p (impCopy p i part id) hI _ _ rfl rfl rfl v q
    · have hns : sharedImp p i part id = false := by simpa using hsh
      rw [setImp_own _ _ _ _ _ hs hns]
      cases q with
      | field g => simp [α, Problem.write, upd]
      | node s' =>
        rw [α_write]
        by_cases h : s' = .cellImp i part
        · subst h; simp [upd, hs]
        · have hne : Quantity.node s' ≠ Quantity.node (.cellImp i part) := by
            intro hq; cases hq; exact h rfl
          have : p.slot s' ≠ some id := fun hq => h (imp_not_shared p hI i part id hs hns s' hq)
          simp [upd, hne, this]

theorem exec_write_plain (p : Problem) (hI : Inv p) (s : Slot) (hImp : isImp s = false) (id : NodeId)
    (hs : p.slot s = some id) (v : Option Val) :
    α (p.write id v) = upd (α p) (.node s) (.val v) := by
  funext q
  cases q with
  | field g => simp [α, Problem.write, upd]
  | node s' =>
    rw [α_write]
    by_cases h : s' = s
    · subst h; simp [upd, hs]
    · have hq : Quantity.node s' ≠ Quantity.node s := by
        intro hq; cases hq; exact h rfl
      have : p.slot s' ≠ some id := by
        intro hq'
        rcases hI.inj _ _ _ hs hq' with h1 | ⟨i', a, b, h1, _⟩
        · exact h h1.symm
        · subst h1; simp [isImp] at hImp
      simp [upd, hq, this]

theorem execAction_plain (p : Problem) (s : Slot) (hImp : isImp s = false) (v : Option Val) :
    execAction p (.write s v) = (match p.slot s with
      | some id => p.write id v
      | none => p) := by
  cases s <;> first | rfl | (simp [isImp] at hImp)

theorem exec_refines (p : Problem) (hI : Inv p) (act : Action) :
    α (execAction p act) = absAction (α p) act := by
  cases act with
  | setField f o =>
    funext q
    cases q with
    | node s => simp [execAction, absAction, α, upd]
    | field g =>
      by_cases h : g = f
      · subst h; simp [execAction, absAction, α, upd]
      · simp [execAction, absAction, α, upd, h]
  | write s v =>
    by_cases hImp : isImp s = true
    · obtain ⟨i, part, rfl⟩ : ∃ i part, s = .cellImp i part := by
        cases s <;> simp [isImp] at hImp
        exact ⟨_, _, rfl⟩
      simp only [execAction, absAction, isImp, Bool.true_or, if_true]
      exact exec_write_imp p hI i part v
    · have hImp' : isImp s = false := by simpa using hImp
      rw [execAction_plain p s hImp']
      simp only [absAction, hImp', Bool.false_or]
      cases hs : p.slot s with
      | none =>
        have : α p (.node s) = .absent := (absent_iff p s).2 hs
        simp [this]
      | some id =>
        have hne : α p (.node s) ≠ .absent := fun h => by
          have := (absent_iff p s).1 h
          rw [hs] at this; cases this
        have hb : (α p (.node s) != .absent) = true := by simpa using hne
        simp only [hb, if_true]
        exact exec_write_plain p hI s hImp' id hs v

/-! ## the invariant is kept by every assignment -/

/-- `Inv` does not mention the heap -/
theorem Inv_congr (p p' : Problem) (hI : Inv p) (h1 : p'.slot = p.slot) (h2 : p'.next = p.next)
    (h3 : p'.impKeys = p.impKeys) (h4 : p'.tree = p.tree) : Inv p' := by
  constructor
  · intro s s' id; rw [h1]; exact hI.inj s s' id
  · intro s id; rw [h1, h2]; exact hI.bound s id
  · intro i a; rw [h1, h3]; exact hI.keys i a
  · intro s hs; rw [h1, h4]; exact hI.reach s hs

theorem Inv_write (p : Problem) (hI : Inv p) (id : NodeId) (v : Option Val) : Inv (p.write id v) :=
  Inv_congr p _ hI rfl rfl rfl rfl

/-- a fresh node stored under one importance slot -/
theorem Inv_alloc (p p1 : Problem) (hI : Inv p) (i : Nat) (part : String)
    (hslot : p1.slot = upd p.slot (.cellImp i part) (some p.next))
    (htree : p1.tree = upd p.tree (.cellImp i part) (some p.next))
    (hnext : p1.next = p.next + 1)
    (hkeys : ∀ j a, a ∈ p1.impKeys j ↔ (a ∈ p.impKeys j ∨ (j = i ∧ a = part))) : Inv p1 := by
  have old : ∀ s id, s ≠ .cellImp i part → p1.slot s = some id → p.slot s = some id := by
    intro s id hs h; rw [hslot] at h; simpa [upd, hs] using h
  have new : ∀ id, p1.slot (.cellImp i part) = some id → id = p.next := by
    intro id h; rw [hslot] at h; simp [upd] at h; exact h.symm
  constructor
  · intro s s' id h h'
    by_cases hs : s = .cellImp i part
    · by_cases hs' : s' = .cellImp i part
      · left; rw [hs, hs']
      · exfalso
        subst hs
        have := new id h
        subst this
        exact Nat.lt_irrefl _ (hI.bound _ _ (old s' _ hs' h'))
    · by_cases hs' : s' = .cellImp i part
      · exfalso
        subst hs'
        have := new id h'
        subst this
        exact Nat.lt_irrefl _ (hI.bound _ _ (old s _ hs h))
      · exact hI.inj s s' id (old s id hs h) (old s' id hs' h')
  · intro s id h
    rw [hnext]
    by_cases hs : s = .cellImp i part
    · subst hs; rw [new id h]; exact Nat.lt_succ_self _
    · exact Nat.lt_succ_of_lt (hI.bound s id (old s id hs h))
  · intro j a
    rw [hkeys]
    by_cases hja : j = i ∧ a = part
    · obtain ⟨rfl, rfl⟩ := hja
      simp [hslot, upd]
    · have hne : Slot.cellImp j a ≠ Slot.cellImp i part := by
        intro h; cases h; exact hja ⟨rfl, rfl⟩
      have : p1.slot (.cellImp j a) = p.slot (.cellImp j a) := by rw [hslot]; simp [upd, hne]
      rw [this, hI.keys j a]
      simp [hja]
  · intro s hs
    rw [hslot, htree]
    by_cases h : s = .cellImp i part
    · simp [upd, h]
    · simp [upd, h, hI.reach s hs]

theorem Inv_setImp (p : Problem) (hI : Inv p) (i : Nat) (part : String) (v : Option Val) :
    Inv (setImp p i part v) := by
  cases hs : p.slot (.cellImp i part) with
  | none =>
    rw [setImp_none _ _ _ _ hs]
    apply Inv_write
    apply Inv_alloc p (impFresh p i part) hI i part rfl rfl rfl
    intro j a
    by_cases hj : j = i
    · subst hj; simp [impFresh, upd]
    · simp [impFresh, upd, hj]
  | some id =>
    by_cases hsh : sharedImp p i part id = true
    · rw [setImp_shared _ _ _ _ _ hs hsh]
      apply Inv_write
      apply Inv_alloc p (impCopy p i part id) hI i part rfl rfl rfl
      intro j a
      constructor
      · intro h; exact Or.inl h
      · intro h
        rcases h with h | ⟨rfl, rfl⟩
        · exact h
        · exact (hI.keys j a).1 (by simp [hs])
    · have hns : sharedImp p i part id = false := by simpa using hsh
      rw [setImp_own _ _ _ _ _ hs hns]
      exact Inv_write p hI id v

theorem Inv_exec (p : Problem) (hI : Inv p) (act : Action) : Inv (execAction p act) := by
  cases act with
  | setField f o => exact Inv_congr p _ hI rfl rfl rfl rfl
  | write s v =>
    by_cases hImp : isImp s = true
    · obtain ⟨i, part, rfl⟩ : ∃ i part, s = .cellImp i part := by
        cases s <;> simp [isImp] at hImp
        exact ⟨_, _, rfl⟩
      exact Inv_setImp p hI i part v
    · have hImp' : isImp s = false := by simpa using hImp
      rw [execAction_plain p s hImp']
      cases p.slot s with
      | none => exact hI
      | some id => exact Inv_write p hI id v

theorem Inv_execs (as : List Action) : ∀ (p : Problem), Inv p → Inv (execActions p as) := by
  induction as with
  | nil => intro p h; exact h
  | cons a as ih => intro p h; exact ih _ (Inv_exec p h a)

theorem execs_refine (as : List Action) : ∀ (p : Problem), Inv p →
    α (execActions p as) = absActions (α p) as := by
  induction as with
  | nil => intro p _; rfl
  | cons a as ih =>
    intro p h
    show α (execActions (execAction p a) as) = absActions (absAction (α p) a) as
    rw [ih _ (Inv_exec p h a), exec_refines p h a]

/-! ## the theorems of the property -/

theorem applyEdit_ok (p p' : Problem) (e : Edit) (h : applyEdit p e = .ok p') :
    ∃ as, plan p e = .ok as ∧ p' = execActions p as := by
  unfold applyEdit at h
  cases hp : plan p e with
  | error k => rw [hp] at h; cases h
  | ok as => rw [hp] at h; cases h; exact ⟨as, rfl, rfl⟩

/-- **C03_refines.**  An accepted edit is a list of assignments (the ones its setter makes after its checks), and on
    the abstract record each of them changes its own quantity and nothing else — although concretely the values
    live in heap nodes that may be shared (`imp:n,p=1`), are copied on write or are allocated by the edit. -/
theorem C03_refines (p p' : Problem) (e : Edit) (hI : Inv p) (h : applyEdit p e = .ok p') :
    ∃ as, plan p e = .ok as ∧ α p' = absActions (α p) as := by
  obtain ⟨as, hp, rfl⟩ := applyEdit_ok p p' e h
  exact ⟨as, hp, execs_refine as p hI⟩

/-- **C03_inv_preserved.** -/
theorem C03_inv_preserved (p p' : Problem) (e : Edit) (hI : Inv p) (h : applyEdit p e = .ok p') : Inv p' := by
  obtain ⟨as, _, rfl⟩ := applyEdit_ok p p' e h
  exact Inv_execs as p hI

/-- every step of an accepted history refines its abstract step, from a state that satisfies `Inv` -/
inductive Trace : Problem → List Edit → Problem → Prop where
  | nil (p : Problem) : Trace p [] p
  | cons (p p1 p' : Problem) (e : Edit) (es : List Edit) (as : List Action) :
      Inv p → plan p e = .ok as → α p1 = absActions (α p) as → Trace p1 es p' → Trace p (e :: es) p'

/-- **C03_history.**  Induction over edit sequences of any length: along an accepted history every state satisfies
    `Inv` and every step is the abstract step. -/
theorem C03_history (es : List Edit) : ∀ (p₀ p' : Problem), Inv p₀ → applyEdits p₀ es = .ok p' →
    Inv p' ∧ Trace p₀ es p' := by
  induction es with
  | nil =>
    intro p₀ p' hI h
    simp [applyEdits] at h
    subst h
    exact ⟨hI, Trace.nil _⟩
  | cons e es ih =>
    intro p₀ p' hI h
    unfold applyEdits at h
    cases h1 : applyEdit p₀ e with
    | error k => rw [h1] at h; cases h
    | ok p1 =>
      rw [h1] at h
      have hI1 := C03_inv_preserved p₀ p1 e hI h1
      obtain ⟨as, hp, hα⟩ := C03_refines p₀ p1 e hI h1
      obtain ⟨hI', tr⟩ := ih p1 p' hI1 h
      exact ⟨hI', Trace.cons p₀ p1 p' e es as hI hp hα tr⟩

/-- a rejected edit changes nothing (the model of "every check precedes every assignment") -/
theorem applyEdits_nil (p : Problem) : applyEdits p [] = .ok p := rfl

/-! ## frame: what an edit is about, and everything else -/

theorem absAction_frame (a : AbstractProblem) (act : Action) (q : Quantity) (h : act.target ≠ q) :
    absAction a act q = a q := by
  cases act with
  | setField f o =>
    have : q ≠ .field f := fun hq => h hq.symm
    simp [absAction, upd, this]
  | write s v =>
    have : q ≠ .node s := fun hq => h hq.symm
    simp only [absAction]
    split
    · simp [upd, this]
    · rfl

theorem absActions_frame (as : List Action) : ∀ (a : AbstractProblem) (q : Quantity),
    (∀ act ∈ as, act.target ≠ q) → absActions a as q = a q := by
  induction as with
  | nil => intro a q _; rfl
  | cons x xs ih =>
    intro a q h
    show absActions (absAction a x) xs q = a q
    rw [ih _ q (fun act hm => h act (List.mem_cons_of_mem _ hm))]
    exact absAction_frame a x q (h x (List.mem_cons_self ..))

/-- the quantities an edit is about (read off the documentation of the setter, not off the model) -/
def editTargets (p : Problem) : Edit → List Quantity
  | .cellNumber i _ => [.node (.cellNumber i)]
  | .surfNumber i _ => [.node (.surfNumber i)]
  | .matNumber i _ => [.node (.matNumber i)]
  | .trNumber i _ => [.node (.trNumber i)]
  | .uniNumber u _ => [.field (.uniNumber u)]
  | .material i _ => [.field (.cellMat i)]
  | .atomDensity i _ => [.field (.cellAtomDens i), .node (.cellDensity i)]
  | .massDensity i _ => [.field (.cellAtomDens i), .node (.cellDensity i)]
  | .delDensity i => [.node (.cellDensity i)]
  | .importance i part _ => [.node (.cellImp i part)]
  | .importanceAll i _ => (modeParts p).map (fun a => .node (.cellImp i a))
  | .volume i _ => [.node (.cellVol i)]
  | .delVolume i => [.node (.cellVol i)]
  | .lattice i _ => [.node (.cellLat i)]
  | .delLattice i => [.node (.cellLat i)]
  | .universe i _ => [.field (.cellUni i)]
  | .claim _ cells => cells.map (fun i => .field (.cellUni i))
  | .notTruncated i _ => [.field (.cellNotTrunc i)]
  | .fillUniverse i _ => [.field (.cellFillUni i)]
  | .fillTransform i _ => [.field (.cellFillTr i)]
  | .surfConstants i vs => (List.range vs.length).map (fun k => .node (.surfConst i k))
  | .location i _ => [.node (.surfConst i 0)]
  | .radius i _ => [.node (.surfConst i 0), .node (.surfConst i 2)]
  | .coordinates i _ _ => [.node (.surfConst i 0), .node (.surfConst i 1)]
  | .reflecting i _ => [.field (.surfReflect i)]
  | .white i _ => [.field (.surfWhite i)]
  | .surfTransform i _ => [.field (.surfTr i)]
  | .periodic i _ => [.field (.surfPer i)]
  | .fraction m k _ => [.node (.matFrac m k)]
  | .laws m _ => [.field (.matLaws m)]
  | .displacement t _ => [.field (.trDisp t)]
  | .rotation t _ => [.field (.trRot t)]
  | .inDegrees t _ => [.field (.trDeg t)]
  | .mainToAux t _ => [.field (.trM2A t)]
  | .modeAdd _ => [.field .mode]
  | .modeRemove _ => [.field .mode]
  | .modeSet _ => [.field .mode]
  | .title _ => [.field .title]

theorem setNumber_targets (p : Problem) (mk : Nat → Slot) (count i : Nat) (fl : Bool) (v : PyVal) (as : List Action)
    (hp : setNumber p mk count i fl v = .ok as) : ∀ act ∈ as, act.target = .node (mk i) := by
  simp only [setNumber] at hp
  repeat' split at hp
  all_goals first | cases hp | skip
  all_goals (intro act hm; simp at hm; subst hm; rfl)

theorem setFloat_targets (s : Slot) (an : Bool) (lo : Option (Rat × Bool)) (v : PyVal) (as : List Action)
    (hp : setFloat s an lo v = .ok as) : ∀ act ∈ as, act.target = .node s := by
  simp only [setFloat] at hp
  repeat' split at hp
  all_goals first | cases hp | skip
  all_goals (intro act hm; simp at hm; subst hm; rfl)

theorem setBoolField_targets (f : Field) (v : PyVal) (as : List Action)
    (hp : setBoolField f v = .ok as) : ∀ act ∈ as, act.target = .field f := by
  unfold setBoolField at hp
  split at hp
  · cases hp; intro act hm; simp at hm; subst hm; rfl
  · cases hp

theorem mem_of_eq_single {q t : Quantity} {l : List Quantity} (h : q = t) (ht : t ∈ l) : q ∈ l := h ▸ ht

/-- every assignment an accepted edit makes is to one of the quantities the edit is about -/
theorem plan_targets (p : Problem) (e : Edit) (as : List Action) (hp : plan p e = .ok as) :
    ∀ act ∈ as, act.target ∈ editTargets p e := by
  cases e with
  | cellNumber i v => intro act hm; simp [editTargets, setNumber_targets p _ _ _ _ _ _ hp act hm]
  | surfNumber i v => intro act hm; simp [editTargets, setNumber_targets p _ _ _ _ _ _ hp act hm]
  | matNumber i v => intro act hm; simp [editTargets, setNumber_targets p _ _ _ _ _ _ hp act hm]
  | trNumber i v => intro act hm; simp [editTargets, setNumber_targets p _ _ _ _ _ _ hp act hm]
  | uniNumber u v =>
    simp only [plan] at hp
    repeat' split at hp
    all_goals first | cases hp | skip
    all_goals (intro act hm; simp at hm; subst hm; simp [editTargets, Action.target])
  | material i m =>
    simp only [plan] at hp
    repeat' split at hp
    all_goals first | cases hp | skip
    all_goals (intro act hm; simp at hm; subst hm; simp [editTargets, Action.target])
  | atomDensity i v =>
    simp only [plan] at hp
    repeat' split at hp
    all_goals first | cases hp | skip
    all_goals (intro act hm; simp at hm; rcases hm with rfl | rfl <;> simp [editTargets, Action.target])
  | massDensity i v =>
    simp only [plan] at hp
    repeat' split at hp
    all_goals first | cases hp | skip
    all_goals (intro act hm; simp at hm; rcases hm with rfl | rfl <;> simp [editTargets, Action.target])
  | delDensity i =>
    simp only [plan] at hp
    repeat' split at hp
    all_goals first | cases hp | skip
    all_goals (intro act hm; simp at hm; subst hm; simp [editTargets, Action.target])
  | importance i part v =>
    simp only [plan] at hp
    repeat' split at hp
    all_goals first | cases hp | skip
    all_goals (intro act hm; simp at hm; subst hm; simp [editTargets, Action.target])
  | importanceAll i v =>
    simp only [plan] at hp
    repeat' split at hp
    all_goals first | cases hp | skip
    all_goals (
      intro act hm
      simp only [List.mem_map] at hm
      obtain ⟨a, ha, rfl⟩ := hm
      simp only [editTargets, List.mem_map, Action.target]
      exact ⟨a, ha, rfl⟩)
  | volume i v =>
    simp only [plan] at hp
    split at hp
    · cases hp
    · intro act hm; simp [editTargets, setFloat_targets _ _ _ _ _ hp act hm]
  | delVolume i =>
    simp only [plan] at hp
    repeat' split at hp
    all_goals first | cases hp | skip
    all_goals (intro act hm; simp at hm; subst hm; simp [editTargets, Action.target])
  | lattice i v =>
    simp only [plan] at hp
    repeat' split at hp
    all_goals first | cases hp | skip
    all_goals (intro act hm; simp at hm; subst hm; simp [editTargets, Action.target])
  | delLattice i =>
    simp only [plan] at hp
    repeat' split at hp
    all_goals first | cases hp | skip
    all_goals (intro act hm; simp at hm; subst hm; simp [editTargets, Action.target])
  | «universe» i u =>
    simp only [plan] at hp
    repeat' split at hp
    all_goals first | cases hp | skip
    all_goals (intro act hm; simp at hm; subst hm; simp [editTargets, Action.target])
  | claim u cells =>
    simp only [plan] at hp
    repeat' split at hp
    all_goals first | cases hp | skip
    all_goals (
      intro act hm
      simp only [List.mem_map] at hm
      obtain ⟨i, hi, rfl⟩ := hm
      simp only [editTargets, List.mem_map, Action.target]
      exact ⟨i, hi, rfl⟩)
  | notTruncated i v =>
    simp only [plan] at hp
    repeat' split at hp
    all_goals first | cases hp | skip
    all_goals (intro act hm; simp at hm; subst hm; simp [editTargets, Action.target])
  | fillUniverse i u =>
    simp only [plan] at hp
    repeat' split at hp
    all_goals first | cases hp | skip
    all_goals (intro act hm; simp at hm; subst hm; simp [editTargets, Action.target])
  | fillTransform i t =>
    simp only [plan] at hp
    repeat' split at hp
    all_goals first | cases hp | skip
    all_goals (intro act hm; simp at hm; subst hm; simp [editTargets, Action.target])
  | surfConstants i vs =>
    simp only [plan] at hp
    repeat' split at hp
    all_goals first | cases hp | skip
    all_goals (
      intro act hm
      simp only [List.mem_filterMap, List.mem_range] at hm
      obtain ⟨k, hk, hact⟩ := hm
      split at hact
      · cases hact
        simp only [editTargets, List.mem_map, List.mem_range, Action.target]
        exact ⟨k, hk, rfl⟩
      · cases hact)
  | location i v =>
    simp only [plan] at hp
    repeat' split at hp
    all_goals first | cases hp | skip
    all_goals (intro act hm; simp [editTargets, setFloat_targets _ _ _ _ _ hp act hm])
  | radius i v =>
    simp only [plan] at hp
    repeat' split at hp
    all_goals first | cases hp | skip
    all_goals (intro act hm; simp [editTargets, setFloat_targets _ _ _ _ _ hp act hm])
  | coordinates i a b =>
    simp only [plan] at hp
    repeat' split at hp
    all_goals first | cases hp | skip
    all_goals (intro act hm; simp at hm; rcases hm with rfl | rfl <;> simp [editTargets, Action.target])
  | reflecting i v =>
    simp only [plan] at hp
    split at hp
    · cases hp
    · intro act hm; simp [editTargets, setBoolField_targets _ _ _ hp act hm]
  | white i v =>
    simp only [plan] at hp
    split at hp
    · cases hp
    · intro act hm; simp [editTargets, setBoolField_targets _ _ _ hp act hm]
  | surfTransform i t =>
    simp only [plan] at hp
    repeat' split at hp
    all_goals first | cases hp | skip
    all_goals (intro act hm; simp at hm; subst hm; simp [editTargets, Action.target])
  | periodic i j =>
    simp only [plan] at hp
    repeat' split at hp
    all_goals first | cases hp | skip
    all_goals (intro act hm; simp at hm; subst hm; simp [editTargets, Action.target])
  | fraction m k v =>
    simp only [plan] at hp
    repeat' split at hp
    all_goals first | cases hp | skip
    all_goals (intro act hm; simp [editTargets, setFloat_targets _ _ _ _ _ hp act hm])
  | laws m ls =>
    simp only [plan] at hp
    repeat' split at hp
    all_goals first | cases hp | skip
    all_goals (intro act hm; simp at hm; subst hm; simp [editTargets, Action.target])
  | displacement t xs =>
    simp only [plan] at hp
    repeat' split at hp
    all_goals first | cases hp | skip
    all_goals (intro act hm; simp at hm; subst hm; simp [editTargets, Action.target])
  | rotation t xs =>
    simp only [plan] at hp
    repeat' split at hp
    all_goals first | cases hp | skip
    all_goals (intro act hm; simp at hm; subst hm; simp [editTargets, Action.target])
  | inDegrees t v =>
    simp only [plan] at hp
    split at hp
    · cases hp
    · intro act hm; simp [editTargets, setBoolField_targets _ _ _ hp act hm]
  | mainToAux t v =>
    simp only [plan] at hp
    split at hp
    · cases hp
    · intro act hm; simp [editTargets, setBoolField_targets _ _ _ hp act hm]
  | modeAdd part =>
    simp only [plan] at hp
    cases hp
    intro act hm; simp at hm; subst hm; simp [editTargets, Action.target]
  | modeRemove part =>
    simp only [plan] at hp
    repeat' split at hp
    all_goals first | cases hp | skip
    all_goals (intro act hm; simp at hm; subst hm; simp [editTargets, Action.target])
  | modeSet parts =>
    simp only [plan] at hp
    cases hp
    intro act hm; simp at hm; subst hm; simp [editTargets, Action.target]
  | title s =>
    simp only [plan] at hp
    cases hp
    intro act hm; simp at hm; subst hm; simp [editTargets, Action.target]

/-- **C03_frame** (the "nothing else changes" half at full strength): after any accepted edit, every quantity the
    edit is not about reads exactly as before — every other attribute of the object, every other object, the other
    particles of a shared IMP entry, the other cells of a data-block card. -/
theorem C03_frame (p p' : Problem) (e : Edit) (hI : Inv p) (h : applyEdit p e = .ok p')
    (q : Quantity) (hq : q ∉ editTargets p e) : α p' q = α p q := by
  obtain ⟨as, hp, hα⟩ := C03_refines p p' e hI h
  rw [hα]
  apply absActions_frame
  intro act hm heq
  exact hq (heq ▸ plan_targets p e as hp act hm)

/-! ## the edited quantity carries the new value: the setters one reads about in the property -/

theorem absActions_single (a : AbstractProblem) (act : Action) : absActions a [act] = absAction a act := rfl

/-- **C03_importance.**  Setting the importance of one particle of a cell gives that particle the value and changes
    no other quantity — in particular not the other particles of the cell, also when they were parsed from one
    `imp:n,p=` entry and share one tree (the setter copies on write). -/
theorem C03_importance (p p' : Problem) (i : Nat) (part : String) (v : PyVal) (hI : Inv p)
    (h : applyEdit p (.importance i part v) = .ok p') :
    (∃ q, pyNum v = some q ∧ α p' (.node (.cellImp i part)) = .val (some (.num q))) ∧
    (∀ x, x ≠ .node (.cellImp i part) → α p' x = α p x) := by
  constructor
  · obtain ⟨as, hp, hα⟩ := C03_refines p p' _ hI h
    simp only [plan] at hp
    repeat' split at hp
    all_goals first | cases hp | skip
    rename_i q _ _
    refine ⟨q, by assumption, ?_⟩
    rw [hα, absActions_single]
    simp [absAction, isImp, upd]
  · intro x hx
    apply C03_frame p p' _ hI h
    simpa [editTargets] using hx

/-- **C03_density.**  `mass_density = q` stores the magnitude in the density node, records the mode in the flag, and
    changes nothing else; the mode is written as the sign (`density.is_negative = not is_atom_dens`) whenever the cell
    has a material.  Symmetrically for `atom_density`. -/
theorem C03_density (p p' : Problem) (i : Nat) (v : PyVal) (atom : Bool) (hI : Inv p)
    (h : applyEdit p (if atom then .atomDensity i v else .massDensity i v) = .ok p') :
    α p' (.field (.cellAtomDens i)) = .flag atom ∧
    (∀ id, p.slot (.cellDensity i) = some id → ∃ q, pyNum v = some q ∧ 0 ≤ q ∧
        α p' (.node (.cellDensity i)) = .val (some (.num q))) ∧
    (∀ m, α p' (.field (.cellMat i)) = .ptr (some m) → written p' (.cellDensitySign i) = .flag (!atom)) ∧
    (∀ x, x ≠ .field (.cellAtomDens i) → x ≠ .node (.cellDensity i) → α p' x = α p x) := by
  have key : ∃ q, pyNum v = some q ∧ 0 ≤ q ∧
      α p' = absActions (α p) [.setField (.cellAtomDens i) (.flag atom), .write (.cellDensity i) (some (.num q))] := by
    obtain ⟨as, hp, hα⟩ := C03_refines p p' _ hI h
    cases atom
    · simp only [Bool.false_eq_true, if_false, plan] at hp
      repeat' split at hp
      all_goals first | cases hp | skip
      rename_i q _ hq
      exact ⟨q, by assumption, Rat.not_lt.mp (by simpa using hq), hα⟩
    · simp only [if_true, plan] at hp
      repeat' split at hp
      all_goals first | cases hp | skip
      rename_i q _ hq
      exact ⟨q, by assumption, Rat.not_lt.mp (by simpa using hq), hα⟩
  obtain ⟨q, hq, hq0, hα⟩ := key
  have hflag : α p' (.field (.cellAtomDens i)) = .flag atom := by
    rw [hα]
    simp [absActions, absAction, upd, isImp]
    split <;> simp [upd]
  refine ⟨hflag, ?_, ?_, ?_⟩
  · intro id hid
    refine ⟨q, hq, hq0, ?_⟩
    rw [hα]
    have hne : α p (.node (.cellDensity i)) ≠ .absent := by
      rw [α_node_some _ _ id hid]; simp
    simp [absActions, absAction, upd, isImp, hne]
  · intro m hm
    have h1 : p'.field (.cellMat i) = .ptr (some m) := hm
    have h2 : p'.field (.cellAtomDens i) = .flag atom := hflag
    simp [written, h1, h2]
  · intro x hx1 hx2
    apply C03_frame p p' _ hI h
    cases atom <;> simp [editTargets, hx1, hx2]

/-- **C03_datablock_row.**  A data-block card (VOL, LAT, one particle of IMP) is rebuilt from one node per cell, in
    cell order.  After any accepted edit the row holds the same values at every position the edit is not about:
    editing one cell's datum changes only that cell's position of the card. -/
theorem C03_datablock_row (p p' : Problem) (e : Edit) (mk : Nat → Slot) (hI : Inv p)
    (h : applyEdit p e = .ok p') (hn : p'.ncells = p.ncells) (j : Nat)
    (hj : Quantity.node (mk j) ∉ editTargets p e) :
    (dataRowValues p' mk)[j]? = (dataRowValues p mk)[j]? := by
  unfold dataRowValues
  rw [hn]
  simp only [List.getElem?_map]
  cases hr : (List.range p.ncells)[j]? with
  | none => rfl
  | some k =>
    have hk : k = j := by
      have := List.getElem?_eq_some_iff.1 hr
      obtain ⟨hlt, hget⟩ := this
      simpa using hget.symm
    subst hk
    simp only [Option.map_some]
    rw [C03_frame p p' e hI h _ hj]

/-- the cells are not created or removed by an edit -/
theorem execAction_ncells (p : Problem) (act : Action) : (execAction p act).ncells = p.ncells := by
  cases act with
  | setField f o => rfl
  | write s v =>
    by_cases hImp : isImp s = true
    · obtain ⟨i, part, rfl⟩ : ∃ i part, s = .cellImp i part := by
        cases s <;> simp [isImp] at hImp
        exact ⟨_, _, rfl⟩
      simp only [execAction]
      cases hs : p.slot (.cellImp i part) with
      | none => rw [setImp_none _ _ _ _ hs]; rfl
      | some id =>
        by_cases hsh : sharedImp p i part id = true
        · rw [setImp_shared _ _ _ _ _ hs hsh]; rfl
        · rw [setImp_own _ _ _ _ _ hs (by simpa using hsh)]; rfl
    · rw [execAction_plain p s (by simpa using hImp)]
      cases p.slot s <;> rfl

theorem execActions_ncells (as : List Action) : ∀ p : Problem, (execActions p as).ncells = p.ncells := by
  induction as with
  | nil => intro p; rfl
  | cons a as ih => intro p; show (execActions (execAction p a) as).ncells = _; rw [ih, execAction_ncells]

theorem applyEdit_ncells (p p' : Problem) (e : Edit) (h : applyEdit p e = .ok p') : p'.ncells = p.ncells := by
  obtain ⟨as, _, rfl⟩ := applyEdit_ok p p' e h
  exact execActions_ncells as p

/-! ## what is written -/

theorem nodeNumber_eq (p : Problem) (s : Slot) : nodeNumber p s = α p (.node s) := by
  cases h : p.slot s <;> simp [nodeNumber, α, h]

theorem writtenNode_eq (p : Problem) (hI : Inv p) (s : Slot) : writtenNode p s = α p (.node s) := by
  have key : treeAfterUpdate p s = p.slot s := by
    unfold treeAfterUpdate
    by_cases hr : relinked s = true
    · simp [hr]
    · have hr' : relinked s = false := by simpa using hr
      simp [hr', hI.reach s hr']
  cases h : p.slot s <;> simp [writtenNode, key, α, h]

/-- **C03_written.**  Under `Inv`, every position of the file prints the value its quantity has in the abstract
    problem: the node-backed quantities their value (the semantic node is the node at the tree position), references
    the number of the pointee (material, universe, fill universe and transform, surface transform / periodic surface
    with its sign), the density the sign of its mode, the surface the modifier of its boundary flags, and nothing
    for a deleted pointer.  (Full strength since the repair of finding C03-F1: a transform set on a FILL that was
    read without one is written too.) -/
theorem C03_written (p : Problem) (hI : Inv p) (k : WKey) : written p k = render (α p) k := by
  cases k with
  | node s => exact writtenNode_eq p hI s
  | cellMaterial i => simp only [written, render, α_field, nodeNumber_eq]
  | cellDensitySign i => simp only [written, render, α_field]
  | cellU i => simp only [written, render, α_field]
  | cellFill i => simp only [written, render, α_field]
  | cellFillTr i => simp only [written, render, α_field, nodeNumber_eq]
  | surfModifier i => simp only [written, render, α_field]
  | surfPointer i => simp only [written, render, α_field, nodeNumber_eq]
  | field f => rfl

/-- the statement as DESIGN 6 gives it -/
def C03_written_statement : Prop :=
  ∀ p : Problem, Inv p → ∀ k : WKey, written p k = render (α p) k

theorem C03_written_all : C03_written_statement := fun p hI k => C03_written p hI k

/-! ## a move to another universe keeps the not-truncated mark (`Cell.universe = u`, `Universe.claim`) -/

/-- the assignments of a move of `cells` into universe `u` -/
def moveActions (u : Nat) (cells : List Nat) : List Action :=
  cells.map (fun i => .setField (.cellUni i) (.ptr (some u)))

/-- the entry of the U input: the number of the universe under the sign of the mark (nothing for universe 0) -/
def signedU : Obs → Obs → Obs
  | .int n, .flag nt => if n = 0 then .absent else .int (if nt then -n else n)
  | _, _ => .absent

theorem absActions_move_frame (u : Nat) (cells : List Nat) (a : AbstractProblem) (q : Quantity)
    (hq : ∀ i ∈ cells, q ≠ .field (.cellUni i)) : absActions a (moveActions u cells) q = a q := by
  apply absActions_frame
  intro act hm heq
  simp only [moveActions, List.mem_map] at hm
  obtain ⟨i, hi, rfl⟩ := hm
  exact hq i hi heq.symm

theorem absActions_move_target (u : Nat) (cells : List Nat) : ∀ (a : AbstractProblem) (i : Nat), i ∈ cells →
    absActions a (moveActions u cells) (.field (.cellUni i)) = .ptr (some u) := by
  induction cells with
  | nil => intro a i h; cases h
  | cons x xs ih =>
    intro a i hi
    show absActions (absAction a (.setField (.cellUni x) (.ptr (some u)))) (moveActions u xs) _ = _
    by_cases hx : i ∈ xs
    · exact ih _ i hx
    · have hix : i = x := by
        rcases List.mem_cons.mp hi with h | h
        · exact h
        · exact absurd h hx
      subst hix
      rw [absActions_move_frame u xs _ _ (fun j hj h => by
        have : i = j := by injection h with h; injection h
        exact hx (this ▸ hj))]
      simp [absAction, upd]

/-- whatever edit is planned as a move (the setter of `Cell.universe`, `Universe.claim`): the mark of every cell reads
    as before, every moved cell points to the new universe and is written with the number of that universe under the
    sign of the mark it had, and no other quantity changes -/
theorem move_keeps_mark (p p' : Problem) (e : Edit) (u : Nat) (cells : List Nat) (hI : Inv p)
    (hp : plan p e = .ok (moveActions u cells)) (h : applyEdit p e = .ok p') :
    (∀ j, α p' (.field (.cellNotTrunc j)) = α p (.field (.cellNotTrunc j))) ∧
    (∀ i ∈ cells, α p' (.field (.cellUni i)) = .ptr (some u) ∧
      written p' (.cellU i) = signedU (α p (.field (.uniNumber u))) (α p (.field (.cellNotTrunc i)))) ∧
    (∀ x, (∀ i ∈ cells, x ≠ .field (.cellUni i)) → α p' x = α p x) := by
  obtain ⟨as, hp', hα⟩ := C03_refines p p' e hI h
  rw [hp] at hp'
  cases hp'
  have frame : ∀ x, (∀ i ∈ cells, x ≠ .field (.cellUni i)) → α p' x = α p x := by
    intro x hx
    rw [hα]
    exact absActions_move_frame u cells _ x hx
  refine ⟨fun j => frame _ (fun i _ => by simp), ?_, frame⟩
  intro i hi
  have hu : α p' (.field (.cellUni i)) = .ptr (some u) := by
    rw [hα]
    exact absActions_move_target u cells _ i hi
  refine ⟨hu, ?_⟩
  have hn : p'.field (.uniNumber u) = α p (.field (.uniNumber u)) := frame (.field (.uniNumber u)) (fun i _ => by simp)
  have hm : p'.field (.cellNotTrunc i) = α p (.field (.cellNotTrunc i)) := frame (.field (.cellNotTrunc i)) (fun i _ => by simp)
  rw [α_field] at hu
  simp only [written, hu, hn, hm]
  cases α p (.field (.uniNumber u)) <;> cases α p (.field (.cellNotTrunc i)) <;> rfl

/-- **C03_universe_keeps_mark.**  `cell.universe = u` edits the universe of the cell and nothing else: the
    not-truncated mark of every cell (the minus sign of `u=-n`) reads as before, and the cell is written with the number
    of its new universe under the sign of the mark it had before the move. -/
theorem C03_universe_keeps_mark (p p' : Problem) (i u : Nat) (hI : Inv p) (h : applyEdit p (.universe i u) = .ok p') :
    (∀ j, α p' (.field (.cellNotTrunc j)) = α p (.field (.cellNotTrunc j))) ∧
    α p' (.field (.cellUni i)) = .ptr (some u) ∧
    written p' (.cellU i) = signedU (α p (.field (.uniNumber u))) (α p (.field (.cellNotTrunc i))) ∧
    (∀ x, x ≠ .field (.cellUni i) → α p' x = α p x) := by
  have hp : plan p (.universe i u) = .ok (moveActions u [i]) := by
    obtain ⟨as, hp, _⟩ := C03_refines p p' _ hI h
    simp only [plan] at hp ⊢
    repeat' split at hp
    all_goals first | cases hp | skip
    simp_all [moveActions]
    grind
  obtain ⟨h1, h2, h3⟩ := move_keeps_mark p p' _ u [i] hI hp h
  exact ⟨h1, (h2 i (List.mem_singleton.mpr rfl)).1, (h2 i (List.mem_singleton.mpr rfl)).2,
    fun x hx => h3 x (fun j hj => by rw [List.mem_singleton.mp hj]; exact hx)⟩

/-- **C03_claim_keeps_mark.**  `universe.claim(cells)` moves every cell given and edits nothing else: same statement
    for every claimed cell, for lists of any length. -/
theorem C03_claim_keeps_mark (p p' : Problem) (u : Nat) (cells : List Nat) (hI : Inv p)
    (h : applyEdit p (.claim u cells) = .ok p') :
    (∀ j, α p' (.field (.cellNotTrunc j)) = α p (.field (.cellNotTrunc j))) ∧
    (∀ i ∈ cells, α p' (.field (.cellUni i)) = .ptr (some u) ∧
      written p' (.cellU i) = signedU (α p (.field (.uniNumber u))) (α p (.field (.cellNotTrunc i)))) ∧
    (∀ x, (∀ i ∈ cells, x ≠ .field (.cellUni i)) → α p' x = α p x) := by
  have hp : plan p (.claim u cells) = .ok (moveActions u cells) := by
    obtain ⟨as, hp, _⟩ := C03_refines p p' _ hI h
    simp only [plan] at hp ⊢
    repeat' split at hp
    all_goals first | cases hp | skip
    simp_all [moveActions]
    grind
  exact move_keeps_mark p p' _ u cells hI hp h

/-! ## valid edits are accepted -/

/-- `i` addresses an existing object (written as the negation of the guard of the code) -/
abbrev inRange (i n : Nat) : Prop := ¬ (i ≥ n)

/-- the documented preconditions of each setter: existing objects, arguments of the documented type and range,
    new numbers not in use.  (Number arguments are `int`s, values are `float`s; the model also accepts the other
    spellings Python allows.) -/
def Valid (p : Problem) : Edit → Prop
  | .cellNumber i (.int n) => inRange i p.ncells ∧ ¬ (n ≤ 0) ∧ (numbersInUse p .cellNumber p.ncells).contains (n : Rat) = false
  | .surfNumber i (.int n) => inRange i p.nsurfs ∧ ¬ (n ≤ 0) ∧ (numbersInUse p .surfNumber p.nsurfs).contains (n : Rat) = false
  | .matNumber i (.int n) => inRange i p.nmats ∧ ¬ (n ≤ 0) ∧ (numbersInUse p .matNumber p.nmats).contains (n : Rat) = false
  | .trNumber i (.int n) => inRange i p.ntrs ∧ ¬ (n ≤ 0) ∧ (numbersInUse p .trNumber p.ntrs).contains (n : Rat) = false
  | .uniNumber u (.int n) => inRange u p.nunis ∧ ¬ (n ≤ 0) ∧ (uniNumbersInUse p).contains n = false
  | .material i none => inRange i p.ncells
  | .material i (some m) => inRange i p.ncells ∧ inRange m p.nmats
  | .atomDensity i (.float q) => inRange i p.ncells ∧ ¬ (q < 0)
  | .massDensity i (.float q) => inRange i p.ncells ∧ ¬ (q < 0)
  | .delDensity i => inRange i p.ncells
  | .importance i part (.float q) => inRange i p.ncells ∧ (modeParts p).contains part = true ∧ ¬ (q < 0)
  | .importanceAll i (.float q) => inRange i p.ncells ∧ ¬ (q < 0)
  | .volume i (.float q) => inRange i p.ncells ∧ ¬ (q < 0)
  | .volume i .none => inRange i p.ncells
  | .delVolume i => inRange i p.ncells
  | .lattice i (.int n) => inRange i p.ncells ∧ (n = 1 ∨ n = 2)
  | .delLattice i => inRange i p.ncells
  | .universe i u => inRange i p.ncells ∧ inRange u p.nunis
  | .claim u cells => inRange u p.nunis ∧ cells.any (fun i => i ≥ p.ncells) = false
  | .notTruncated i (.bool false) => inRange i p.ncells
  | .fillUniverse i none => inRange i p.ncells
  | .fillUniverse i (some u) => inRange i p.ncells ∧ inRange u p.nunis
  | .fillTransform i none => inRange i p.ncells
  | .fillTransform i (some t) => inRange i p.ncells ∧ inRange t p.ntrs
  | .location i (.float _) => inRange i p.nsurfs ∧ p.surfKind i = .axisPlane
  | .reflecting i (.bool _) => inRange i p.nsurfs
  | .white i (.bool _) => inRange i p.nsurfs
  | .surfTransform i none => inRange i p.nsurfs
  | .surfTransform i (some t) => inRange i p.nsurfs ∧ inRange t p.ntrs
  | .periodic i none => inRange i p.nsurfs
  | .periodic i (some j) => inRange i p.nsurfs ∧ inRange j p.nsurfs ∧ p.surfKind j = p.surfKind i
  | .displacement t xs => inRange t p.ntrs ∧ ¬ (xs.length ≠ 3)
  | .rotation t xs => inRange t p.ntrs ∧ ¬ (xs.length < 5 ∨ xs.length > 9)
  | .inDegrees t (.bool _) => inRange t p.ntrs
  | .mainToAux t (.bool _) => inRange t p.ntrs
  | .modeAdd _ => True
  | .modeRemove part => (modeParts p).contains part = true
  | .modeSet _ => True
  | .title _ => True
  | _ => False

/-- **C03_accepts.**  A valid edit is accepted: no check of the setter fires. -/
theorem C03_accepts (p : Problem) (e : Edit) (hv : Valid p e) : ∃ p', applyEdit p e = .ok p' := by
  have key : ∃ as, plan p e = .ok as := by
    unfold Valid at hv
    split at hv <;>
      simp_all [plan, setNumber, setFloat, setBoolField, pyNum, inRange] <;>
      (repeat' split) <;>
      first | exact ⟨_, rfl⟩ | omega | grind
  obtain ⟨as, hp⟩ := key
  exact ⟨execActions p as, by simp [applyEdit, hp]⟩

/-! ## non-vacuity: a concrete state with a shared `imp:n,p=1` entry satisfies every hypothesis -/

def demoSlot : Slot → Option NodeId
  | .cellNumber 0 => some 0
  | .cellDensity 0 => some 1
  | .cellImp 0 "n" => some 2
  | .cellImp 0 "p" => some 2
  | .cellVol 0 => some 3
  | .cellLat 0 => some 4
  | _ => none

/-- `1 0 -1 imp:n,p=1` with `mode n p`: the two particles share node 2 -/
def demo : Problem where
  heap := fun id => { value := if id = 2 then some (.num 1) else if id = 0 then some (.num 1) else none, negatable := false, isNeg := none }
  next := 5
  slot := demoSlot
  tree := demoSlot
  field := fun f => if f = .mode then .strs (some ["n", "p"]) else if f = .cellMat 0 then .ptr none else .absent
  impKeys := fun i => if i = 0 then ["n", "p"] else []
  ncells := 1
  nsurfs := 0
  nmats := 0
  ntrs := 0
  nunis := 0
  surfKind := fun _ => .generic
  nconst := fun _ => 0

theorem demo_inv : Inv demo := by
  constructor
  · intro s s' id h h'
    simp only [demo] at h h'
    unfold demoSlot at h h'
    split at h <;> split at h' <;> simp_all [impSiblings] <;> (subst h; simp at h')
  · intro s id h
    simp only [demo] at h
    unfold demoSlot at h
    show id < 5
    split at h <;> simp_all <;> (subst h; decide)
  · intro i a
    simp only [demo]
    unfold demoSlot
    split <;> simp_all
  · intro s _
    rfl

example : Inv demo := demo_inv
example : ∀ k, written demo k = render (α demo) k := C03_written demo demo_inv
theorem demo_valid : Valid demo (.importance 0 "n" (.float 2)) := by
  simp [Valid, inRange, demo, modeParts]; decide
example : Valid demo (.volume 0 (.float 3)) := by simp [Valid, inRange, demo]; decide
example : Valid demo (.cellNumber 0 (.int 7)) := by
  simp [Valid, inRange, demo, numbersInUse, demoSlot, List.range, List.range.loop]
/-- the shared entry really is shared, and the edit really separates it: photon keeps 1 -/
example : demo.slot (.cellImp 0 "n") = demo.slot (.cellImp 0 "p") := rfl
example : sharedImp demo 0 "n" 2 = true := by decide
example : ∃ p', applyEdit demo (.importance 0 "n" (.float 2)) = .ok p' ∧
    α p' (.node (.cellImp 0 "n")) = .val (some (.num 2)) ∧ α p' (.node (.cellImp 0 "p")) = .val (some (.num 1)) := by
  obtain ⟨p', h⟩ := C03_accepts demo (.importance 0 "n" (.float 2)) demo_valid
  refine ⟨p', h, ?_, ?_⟩
  · obtain ⟨⟨q, hq, hv⟩, _⟩ := C03_importance demo p' 0 "n" (.float 2) demo_inv h
    simp [pyNum] at hq
    subst hq
    exact hv
  · rw [(C03_importance demo p' 0 "n" (.float 2) demo_inv h).2 _ (by simp)]
    simp [α, demo, demoSlot]

/-- `1 0 -1 u=-6 imp:n,p=1` next to a universe 5: a cell that carries the not-truncated mark, and a universe to move it to -/
def demoU : Problem :=
  { demo with
    nunis := 2
    field := fun f => if f = .cellUni 0 then .ptr (some 0) else if f = .cellNotTrunc 0 then .flag true
      else if f = .uniNumber 0 then .int 6 else if f = .uniNumber 1 then .int 5 else demo.field f }

theorem demoU_inv : Inv demoU := by
  obtain ⟨a, b, c, d⟩ := demo_inv
  exact ⟨a, b, c, d⟩

/-- non-vacuity of `C03_universe_keeps_mark` / `C03_claim_keeps_mark`: the marked cell moved to universe 5 is written `u=-5` -/
example : written demoU (.cellU 0) = .int (-6) := by decide
example : ∃ p', applyEdit demoU (.universe 0 1) = .ok p' ∧ written p' (.cellU 0) = .int (-5) ∧
    α p' (.field (.cellNotTrunc 0)) = .flag true := by
  obtain ⟨p', h⟩ := C03_accepts demoU (.universe 0 1) (by simp [Valid, inRange, demoU, demo])
  obtain ⟨h1, _, h3, _⟩ := C03_universe_keeps_mark demoU p' 0 1 demoU_inv h
  exact ⟨p', h, by rw [h3]; decide, by rw [h1]; decide⟩
example : ∃ p', applyEdit demoU (.claim 1 [0]) = .ok p' ∧ written p' (.cellU 0) = .int (-5) := by
  obtain ⟨p', h⟩ := C03_accepts demoU (.claim 1 [0]) (by simp [Valid, inRange, demoU, demo])
  obtain ⟨_, h2, _⟩ := C03_claim_keeps_mark demoU p' 1 [0] demoU_inv h
  exact ⟨p', h, by rw [(h2 0 (by simp)).2]; decide⟩

/-- what goes wrong without copy-on-write (the code before the fix; DESIGN 7.3 #10): a plain `node.value = v` on
    the shared node changes the photon importance as well — the frame theorem needs `Importance.__setitem__`'s copy. -/
theorem C03_shared_write_refuted :
    ¬ (∀ (p : Problem) (id : NodeId) (v : Option Val) (s : Slot), Inv p → p.slot s = some id →
        ∀ s', s' ≠ s → α (p.write id v) (.node s') = α p (.node s')) := by
  intro h
  have := h demo 2 (some (.num 2)) (.cellImp 0 "n") demo_inv rfl (.cellImp 0 "p") (by simp)
  rw [α_write] at this
  simp [α, demo, demoSlot] at this

end MontePyVerif.Edits
