import MontePyVerif.Props.C04Core
import MontePyVerif.Props.C04Neutral
import MontePyVerif.Lemmas.RenumberLink
/-!
# C04, end to end — from the file read to the file written

`Props/C04Core.lean` proves the property for every *well-formed linked problem* (`WF`) and every
history of number assignments.  This file closes the two ends: a well-formed **file** (`WellFormed`,
decided by `WFile.wellFormedB` of `Spec/Refs.lean`) always links, the linked problem satisfies the
whole of `WF` (`C04_link_establishes_wf`), its unedited write has the reference structure of the
file (`C04_unedited_roundtrip`; literally the file when it is in normal form,
`C04_roundtrip_literal_partial`), and therefore (`C04_end_to_end`) for every well-formed file and
every finite sequence of number assignments every reference in the written file resolves to the
card / the cells it resolved to in the original.  Helper lemmas about `link` are in
`Lemmas/RenumberLink.lean`.
-/
namespace MontePyVerif.Renumber
open MontePyVerif.Collection
open MontePyVerif.Spec.Refs

/-! ## From a file to a well-formed linked problem and back -/

/-- **Well-formed file** (numbers-only view), MCNP's own rules for a problem (DESIGN 5.2 well-formedness):
    card numbers unique per block, material numbers not 0, every number written at a reference site is
    carried by a card of the block it refers into, every universe a cell is filled with has a cell,
    a per-cell datum is given in one block only, a surface card has one pointer entry (transformation
    *or* periodic surface), a transformation number in a FILL stands inside a cell-block FILL entry. -/
structure WellFormed (wf : WFile) : Prop where
  unique : ∀ ck, (wf.numbers ck).Nodup
  matPos : ∀ m ∈ wf.mats, m.number ≠ 0
  refs : ∀ s ck n, wf.at s = some (ck, n) → n ∈ wf.numbers ck
  fillU : ∀ c, c < wf.cells.length → ∀ u ∈ wf.effFill c, ∃ c', c' < wf.cells.length ∧ wf.effU c' = u
  oneBlockU : wf.uCard.isSome = true → ∀ c ∈ wf.cells, c.u = none
  oneBlockFill : wf.fillCard.isSome = true → ∀ c ∈ wf.cells, c.fill = []
  surfOne : ∀ s ∈ wf.surfs, s.tr = none ∨ s.per = none
  fillTrInFill : ∀ c ∈ wf.cells, c.fillTr ≠ none → c.fill ≠ []

theorem optIn_sound {o : Option Int} {l : List Int} (h : optIn o l = true) {n : Int} (hn : o = some n) : n ∈ l := by
  subst hn
  simpa [optIn] using h

theorem refsOK_sound {wf : WFile} (h : wf.refsOK = true) (s : Site) (ck : CardKind) (n : Int)
    (hs : wf.at s = some (ck, n)) : n ∈ wf.numbers ck := by
  simp only [WFile.refsOK, Bool.and_eq_true, List.all_eq_true] at h
  obtain ⟨⟨hc, hsf⟩, hm⟩ := h
  cases s with
  | geom c j =>
    simp only [WFile.at] at hs
    cases hx : wf.cells[c]? with
    | none => simp [hx] at hs
    | some x =>
      simp only [hx, Option.bind_some] at hs
      cases hl : x.geom[j]? with
      | none => simp [hl] at hs
      | some l =>
        simp only [hl, Option.map_some, Option.some.injEq, Prod.mk.injEq] at hs
        obtain ⟨rfl, rfl⟩ := hs
        have := ((hc x (List.mem_of_getElem? hx)).1.2) l (List.mem_of_getElem? hl)
        simpa using this
  | cellMat c =>
    simp only [WFile.at] at hs
    cases hx : wf.cells[c]? with
    | none => simp [hx] at hs
    | some x =>
      simp only [hx, Option.bind_some] at hs
      split at hs
      · cases hs
      · rename_i hne
        simp only [Option.some.injEq, Prod.mk.injEq] at hs
        obtain ⟨rfl, rfl⟩ := hs
        have := (hc x (List.mem_of_getElem? hx)).1.1
        simpa [hne] using this
  | mt m =>
    simp only [WFile.at] at hs
    cases hx : wf.mats[m]? with
    | none => simp [hx] at hs
    | some x =>
      simp only [hx, Option.bind_some, Option.map_eq_some_iff, Prod.mk.injEq] at hs
      obtain ⟨t, ht, rfl, rfl⟩ := hs
      exact optIn_sound (hm x (List.mem_of_getElem? hx)) ht
  | surfTr i =>
    simp only [WFile.at] at hs
    cases hx : wf.surfs[i]? with
    | none => simp [hx] at hs
    | some x =>
      simp only [hx, Option.bind_some, Option.map_eq_some_iff, Prod.mk.injEq] at hs
      obtain ⟨t, ht, rfl, rfl⟩ := hs
      exact optIn_sound (hsf x (List.mem_of_getElem? hx)).1 ht
  | surfPer i =>
    simp only [WFile.at] at hs
    cases hx : wf.surfs[i]? with
    | none => simp [hx] at hs
    | some x =>
      simp only [hx, Option.bind_some, Option.map_eq_some_iff, Prod.mk.injEq] at hs
      obtain ⟨t, ht, rfl, rfl⟩ := hs
      exact optIn_sound (hsf x (List.mem_of_getElem? hx)).2 ht
  | fillTr c =>
    simp only [WFile.at] at hs
    cases hx : wf.cells[c]? with
    | none => simp [hx] at hs
    | some x =>
      simp only [hx, Option.bind_some, Option.map_eq_some_iff, Prod.mk.injEq] at hs
      obtain ⟨t, ht, rfl, rfl⟩ := hs
      exact optIn_sound (hc x (List.mem_of_getElem? hx)).2 ht

/-- **C04_wellFormedB_sound** — the decision procedure `WFile.wellFormedB` (Spec/Refs.lean; the driver
    evaluates it on every file of the differential run) implies `WellFormed`. -/
theorem C04_wellFormedB_sound (wf : WFile) (h : wf.wellFormedB = true) : WellFormed wf := by
  simp only [WFile.wellFormedB, Bool.and_eq_true, decide_eq_true_eq] at h
  obtain ⟨⟨⟨⟨⟨⟨⟨⟨⟨⟨u1, u2⟩, u3⟩, u4⟩, hmp⟩, hrefs⟩, hfill⟩, hbu⟩, hbf⟩, hso⟩, hft⟩ := h
  refine ⟨?_, ?_, refsOK_sound hrefs, ?_, ?_, ?_, ?_, ?_⟩
  · intro ck; cases ck <;> assumption
  · intro m hm
    have := List.all_eq_true.mp hmp m hm
    simpa using this
  · intro c hc u hu
    have := List.all_eq_true.mp (List.all_eq_true.mp hfill c (List.mem_range.mpr hc)) u hu
    obtain ⟨c', hc', he⟩ := List.any_eq_true.mp this
    exact ⟨c', List.mem_range.mp hc', by simpa using he⟩
  · intro hs c hc
    simp only [hs, Bool.not_true, Bool.false_or] at hbu
    have := List.all_eq_true.mp hbu c hc
    simpa using this
  · intro hs c hc
    simp only [hs, Bool.not_true, Bool.false_or] at hbf
    have := List.all_eq_true.mp hbf c hc
    simpa using this
  · intro s hs
    have := List.all_eq_true.mp hso s hs
    simpa using this
  · intro c hc hne
    have := List.all_eq_true.mp hft c hc
    simp only [Bool.or_eq_true, Option.isNone_iff_eq_none, Bool.not_eq_true', List.isEmpty_eq_false_iff] at this
    rcases this with h1 | h1
    · exact absurd h1 hne
    · exact h1

theorem oldU_eq (wf : WFile) (i : Nat) : oldUniverseNumber wf i = wf.effU i := rfl
theorem oldFill_eq (wf : WFile) (i : Nat) : oldFillNumbers wf i = wf.effFill i := rfl

theorem mem_pushUniverses : ∀ (us acc : List Int) (u : Int), (u ∈ us ∨ u ∈ acc) → u ∈ pushUniverses acc us
  | [], acc, u, h => by
    rcases h with h | h
    · cases h
    · exact h
  | x :: t, acc, u, h => by
    simp only [pushUniverses]
    split
    · rename_i hx
      apply mem_pushUniverses t acc u
      rcases h with h | h
      · rcases List.mem_cons.mp h with h | h
        · exact Or.inr (h ▸ hx)
        · exact Or.inl h
      · exact Or.inr h
    · apply mem_pushUniverses t (acc ++ [x]) u
      rcases h with h | h
      · rcases List.mem_cons.mp h with h | h
        · exact Or.inr (by simp [h])
        · exact Or.inl h
      · exact Or.inr (by simp [h])

theorem univNums_nodup (wf : WFile) : (univNums wf).Nodup := pushUniverses_nodup _ [] List.nodup_nil

theorem effU_mem_univNums (wf : WFile) (c : Nat) (hc : c < wf.cells.length) : wf.effU c ∈ univNums wf := by
  apply mem_pushUniverses
  left
  exact List.mem_map.mpr ⟨c, List.mem_range.mpr hc, rfl⟩

theorem mkColl_nums (nums : List Int) : (mkColl nums).objs.map (mkColl nums).num = nums := by
  show (List.range nums.length).map (fun o => nums.getD o 0) = nums
  apply List.ext_getElem
  · simp
  · intro i h1 h2
    simp [List.getD_eq_getElem?_getD]
    have : i < nums.length := by simpa using h1
    simp [this]

theorem mkColl_num_of_lookup {nums : List Int} {n : Int} {o : ObjId} (h : lookup (mkColl nums) n = some o) :
    (mkColl nums).num o = n ∧ o ∈ (mkColl nums).objs := by
  obtain ⟨hlt, hget⟩ := lookup_some h
  refine ⟨?_, by simp [mkColl]; exact hlt⟩
  show nums.getD o 0 = n
  rw [List.getD_eq_getElem?_getD, hget]; rfl

/-- linking a well-formed file never fails (no `BrokenObjectLinkError`, no `KeyError`) -/
theorem link_succeeds (wf : WFile) (h : WellFormed wf) : ∃ p, link wf = some p := by
  have ucell := h.unique .cell; have usurf := h.unique .surf; have umat := h.unique .mat; have utr := h.unique .tr
  simp only [WFile.numbers] at ucell usurf umat utr
  obtain ⟨cl, hcl⟩ := mapM_exists
    (linkCell wf (mkColl (wf.cells.map (·.number))) (mkColl (wf.surfs.map (·.number)))
      (mkColl (wf.mats.map (·.number))) (mkColl wf.trs) (mkColl (univNums wf)))
    (List.range wf.cells.length) (by
      intro i hi
      have hi' : i < wf.cells.length := List.mem_range.mp hi
      have hc : wf.cells[i]? = some wf.cells[i] := List.getElem?_eq_getElem hi'
      apply linkCell_exists hc
      · intro hne
        exact lookup_of_mem umat (h.refs (.cellMat i) .mat _ (by simp [WFile.at, hc, hne]))
      · intro l hl
        obtain ⟨j, hj, rfl⟩ := List.getElem_of_mem hl
        have hat : wf.at (.geom i j) = some (if (wf.cells[i].geom[j]).1 then CardKind.cell else CardKind.surf, (wf.cells[i].geom[j]).2) := by
          simp [WFile.at, hc, List.getElem?_eq_getElem hj]
        have := h.refs _ _ _ hat
        cases hb : (wf.cells[i].geom[j]).1
        · simp only [hb] at this ⊢
          exact lookup_of_mem usurf this
        · simp only [hb] at this ⊢
          exact lookup_of_mem ucell this
      · exact lookup_of_mem (univNums_nodup wf) (effU_mem_univNums wf i hi')
      · intro f hf
        obtain ⟨c', hc', rfl⟩ := h.fillU i hi' f hf
        exact lookup_of_mem (univNums_nodup wf) (effU_mem_univNums wf c' hc')
      · intro t ht
        exact lookup_of_mem utr (h.refs (.fillTr i) .tr _ (by simp [WFile.at, hc, ht])))
  obtain ⟨sl, hsl⟩ := mapM_exists
    (linkSurf (mkColl (wf.surfs.map (·.number))) (mkColl wf.trs)) wf.surfs (by
      intro s hs
      obtain ⟨j, hj, rfl⟩ := List.getElem_of_mem hs
      apply linkSurf_exists
      · intro t ht
        exact lookup_of_mem utr (h.refs (.surfTr j) .tr _ (by simp [WFile.at, List.getElem?_eq_getElem hj, ht]))
      · intro t ht
        exact lookup_of_mem usurf (h.refs (.surfPer j) .surf _ (by simp [WFile.at, List.getElem?_eq_getElem hj, ht])))
  obtain ⟨ml, hml⟩ := mapM_exists (linkMat (mkColl (wf.mats.map (·.number)))) wf.mats (by
      intro m hm
      obtain ⟨j, hj, rfl⟩ := List.getElem_of_mem hm
      apply linkMat_exists
      intro t ht
      exact lookup_of_mem umat (h.refs (.mt j) .mat _ (by simp [WFile.at, List.getElem?_eq_getElem hj, ht])))
  simp only [link]
  have hcl' := hcl; have hsl' := hsl; have hml' := hml
  simp only [univNums] at hcl'
  rw [hcl', hsl', hml']
  exact ⟨_, rfl⟩

/-! ### digest of `Linked`: what the pointers of a linked problem are, card by card -/

theorem range_getElem?_lt {n i : Nat} (h : i < n) : (List.range n)[i]? = some i := List.getElem?_range h
theorem range_getElem?_ge {n i : Nat} (h : ¬ i < n) : (List.range n)[i]? = none := by
  apply List.getElem?_eq_none; simp; omega

theorem linked_cell {wf : WFile} {p : Prob} (L : Linked wf p) (i : Nat) (hi : i < wf.cells.length) :
    ∃ c, wf.cells[i]? = some c ∧
      ((c.mat = 0 ∧ (p.cell i).mat = none) ∨
        (c.mat ≠ 0 ∧ ∃ m, (p.cell i).mat = some m ∧ p.mats.num m = c.mat ∧ m ∈ p.mats.objs)) ∧
      ((p.cell i).geom.length = c.geom.length ∧
        (∀ (j : Nat) a, c.geom[j]? = some a → ∃ l, (p.cell i).geom[j]? = some l ∧ l.isCell = a.1 ∧
          (if a.1 then p.cells else p.surfs).num l.target = a.2 ∧
          l.target ∈ (if a.1 then p.cells else p.surfs).objs)) ∧
      (p.univs.num (p.cell i).univ = wf.effU i ∧ (p.cell i).univ ∈ p.univs.objs) ∧
      ((p.cell i).fill.map p.univs.num = wf.effFill i ∧ (∀ u ∈ (p.cell i).fill, u ∈ p.univs.objs) ∧
        (p.cell i).fill.length = (wf.effFill i).length) ∧
      ((c.fillTr = none ∧ (p.cell i).fillTr = none) ∨
        ∃ t x, c.fillTr = some t ∧ (p.cell i).fillTr = some x ∧ p.trs.num x = t ∧ x ∈ p.trs.objs) := by
  have hc := L.cell i hi
  obtain ⟨c, hci, hmat, hgeom, huniv, hfill, htr⟩ := linkCell_some hc
  refine ⟨c, hci, ?_, ?_, ?_, ?_, ?_⟩
  · rcases hmat with ⟨h0, hn⟩ | ⟨h0, m, hl, hm⟩
    · exact Or.inl ⟨h0, hn⟩
    · rw [L.mats] at hl ⊢
      have := mkColl_num_of_lookup hl
      exact Or.inr ⟨h0, m, hm, this.1, this.2⟩
  · obtain ⟨hlen, hfw, _⟩ := mapM_some_getElem? _ _ _ hgeom
    refine ⟨hlen, ?_⟩
    intro j a ha
    obtain ⟨l, hl, hget⟩ := hfw j a ha
    obtain ⟨h1, h2⟩ := linkLeaf_some hl
    refine ⟨l, hget, h1, ?_⟩
    cases hb : a.1
    · simp only [hb] at h2 ⊢
      rw [L.surfs] at h2 ⊢
      simpa using mkColl_num_of_lookup h2
    · simp only [hb] at h2 ⊢
      rw [L.cells] at h2 ⊢
      simpa using mkColl_num_of_lookup h2
  · rw [L.univs] at huniv ⊢
    rw [oldU_eq] at huniv
    exact mkColl_num_of_lookup huniv
  · rw [oldFill_eq] at hfill
    rw [L.univs] at hfill ⊢
    refine ⟨?_, ?_, (mapM_some_getElem? _ _ _ hfill).1⟩
    · have := mapM_some_map (lookup (mkColl (univNums wf))) (mkColl (univNums wf)).num id _ _ hfill
        (fun a b _ hab => (mkColl_num_of_lookup hab).1)
      simpa using this
    · intro u hu
      obtain ⟨a, _, hab⟩ := mapM_some_mem _ _ _ hfill u hu
      exact (mkColl_num_of_lookup hab).2
  · rcases optBind_some htr with ⟨h1, h2⟩ | ⟨t, x, h1, h2, h3⟩
    · exact Or.inl ⟨h1, h2.symm ▸ rfl⟩
    · rw [L.trs] at h2 ⊢
      have := mkColl_num_of_lookup h2
      exact Or.inr ⟨t, x, h1, h3.symm ▸ rfl, this.1, this.2⟩

theorem linked_opt {nums : List Int} {o : Option Int} {r : Option ObjId}
    (h : optBind o (lookup (mkColl nums)) = some r) :
    (o = none ∧ r = none) ∨ ∃ t x, o = some t ∧ r = some x ∧ (mkColl nums).num x = t ∧ x ∈ (mkColl nums).objs := by
  rcases optBind_some h with ⟨h1, h2⟩ | ⟨t, x, h1, h2, h3⟩
  · exact Or.inl ⟨h1, h2⟩
  · have := mkColl_num_of_lookup h2
    exact Or.inr ⟨t, x, h1, h3, this.1, this.2⟩

theorem linked_surf {wf : WFile} {p : Prob} (L : Linked wf p) (i : Nat) (s : WSurf) (hs : wf.surfs[i]? = some s) :
    ((s.tr = none ∧ (p.surf i).tr = none) ∨
      ∃ t x, s.tr = some t ∧ (p.surf i).tr = some x ∧ p.trs.num x = t ∧ x ∈ p.trs.objs) ∧
    ((s.per = none ∧ (p.surf i).per = none) ∨
      ∃ t x, s.per = some t ∧ (p.surf i).per = some x ∧ p.surfs.num x = t ∧ x ∈ p.surfs.objs) := by
  have h := L.surf i s hs
  rw [L.surfs, L.trs] at h
  obtain ⟨h1, h2⟩ := linkSurf_some h
  rw [L.surfs, L.trs]
  exact ⟨linked_opt h1, linked_opt h2⟩

theorem linked_mat {wf : WFile} {p : Prob} (L : Linked wf p) (i : Nat) (m : WMat) (hm : wf.mats[i]? = some m) :
    (m.mt = none ∧ (p.mat i).mt = none) ∨
      ∃ t x, m.mt = some t ∧ (p.mat i).mt = some x ∧ p.mats.num x = t ∧ x ∈ p.mats.objs := by
  have h := L.mat i m hm
  rw [L.mats] at h
  rw [L.mats]
  exact linked_opt (linkMat_some h)

theorem linked_objs {wf : WFile} {p : Prob} (L : Linked wf p) :
    p.cells.objs = List.range wf.cells.length ∧ p.surfs.objs = List.range wf.surfs.length ∧
    p.mats.objs = List.range wf.mats.length ∧ p.trs.objs = List.range wf.trs.length := by
  rw [L.cells, L.surfs, L.mats, L.trs]
  simp [mkColl]

/-- the pointer a linked problem holds at a site is the card the file's number at that site is carried
    by (and nothing where the file has nothing), and it points at a member of the problem -/
theorem ptr_at {wf : WFile} {p : Prob} (h : WellFormed wf) (L : Linked wf p) (s : Site) :
    (p.ptr s).map (fun x => (x.1, (p.coll (kindOf x.1)).num x.2)) = wf.at s ∧
    ∀ ck o, p.ptr s = some (ck, o) → o ∈ (p.coll (kindOf ck)).objs := by
  obtain ⟨oc, os, om, _⟩ := linked_objs L
  cases s with
  | geom c j =>
    simp only [Prob.ptr, WFile.at, oc]
    by_cases hc : c < wf.cells.length
    · obtain ⟨x, hx, _, ⟨hlen, hg⟩, _⟩ := linked_cell L c hc
      rw [range_getElem?_lt hc, hx]
      simp only [Option.bind_some]
      cases hj : x.geom[j]? with
      | none =>
        have : (p.cell c).geom[j]? = none := by
          apply List.getElem?_eq_none
          have := List.getElem?_eq_none_iff.mp hj
          omega
        simp [this]
      | some a =>
        obtain ⟨l, hl, hic, hnum, hmem⟩ := hg j a hj
        rw [hl]
        cases hb : a.1
        · simp only [hb] at hic hnum hmem
          simp at hnum hmem
          simp [hic, hb, kindOf, Prob.coll, hnum, hmem]
        · simp only [hb] at hic hnum hmem
          simp at hnum hmem
          simp [hic, hb, kindOf, Prob.coll, hnum, hmem]
    · rw [range_getElem?_ge hc, List.getElem?_eq_none (by omega)]
      simp
  | cellMat c =>
    simp only [Prob.ptr, WFile.at, oc]
    by_cases hc : c < wf.cells.length
    · obtain ⟨x, hx, hm, _⟩ := linked_cell L c hc
      rw [range_getElem?_lt hc, hx]
      simp only [Option.bind_some]
      rcases hm with ⟨h0, hn⟩ | ⟨h0, m, hm, hnum, hmem⟩
      · simp [h0, hn]
      · simp [h0, hm, kindOf, Prob.coll, hnum, hmem]
    · rw [range_getElem?_ge hc, List.getElem?_eq_none (by omega)]
      simp
  | mt m =>
    simp only [Prob.ptr, WFile.at, om]
    by_cases hc : m < wf.mats.length
    · have hx : wf.mats[m]? = some wf.mats[m] := List.getElem?_eq_getElem hc
      rw [range_getElem?_lt hc, hx]
      simp only [Option.bind_some]
      rcases linked_mat L m _ hx with ⟨h1, h2⟩ | ⟨t, x, h1, h2, hnum, hmem⟩
      · simp [h1, h2]
      · simp [h1, h2, kindOf, Prob.coll, hnum, hmem]
    · rw [range_getElem?_ge hc, List.getElem?_eq_none (by omega)]
      simp
  | surfTr i =>
    simp only [Prob.ptr, WFile.at, os]
    by_cases hc : i < wf.surfs.length
    · have hx : wf.surfs[i]? = some wf.surfs[i] := List.getElem?_eq_getElem hc
      rw [range_getElem?_lt hc, hx]
      simp only [Option.bind_some]
      rcases (linked_surf L i _ hx).1 with ⟨h1, h2⟩ | ⟨t, x, h1, h2, hnum, hmem⟩
      · simp [h1, h2]
      · simp [h1, h2, kindOf, Prob.coll, hnum, hmem]
    · rw [range_getElem?_ge hc, List.getElem?_eq_none (by omega)]
      simp
  | surfPer i =>
    simp only [Prob.ptr, WFile.at, os]
    by_cases hc : i < wf.surfs.length
    · have hx : wf.surfs[i]? = some wf.surfs[i] := List.getElem?_eq_getElem hc
      rw [range_getElem?_lt hc, hx]
      simp only [Option.bind_some]
      have hone := h.surfOne _ (List.getElem_mem hc)
      obtain ⟨htr, hper⟩ := linked_surf L i _ hx
      rcases hper with ⟨h1, h2⟩ | ⟨t, x, h1, h2, hnum, hmem⟩
      · rcases htr with ⟨h3, h4⟩ | ⟨t', x', h3, h4, _, _⟩
        · simp [h1, h2, h4]
        · simp [h1, h2, h4]
      · have h3 : wf.surfs[i].tr = none := by
          rcases hone with h' | h'
          · exact h'
          · rw [h1] at h'; cases h'
        rcases htr with ⟨_, h4⟩ | ⟨t', x', h3', _, _, _⟩
        · simp [h1, h2, h4, kindOf, Prob.coll, hnum, hmem]
        · rw [h3] at h3'; cases h3'
    · rw [range_getElem?_ge hc, List.getElem?_eq_none (by omega)]
      simp
  | fillTr c =>
    simp only [Prob.ptr, WFile.at, oc]
    by_cases hc : c < wf.cells.length
    · obtain ⟨x, hx, _, _, _, ⟨_, _, hflen⟩, htr⟩ := linked_cell L c hc
      rw [range_getElem?_lt hc, hx]
      simp only [Option.bind_some]
      have hxmem : x ∈ wf.cells := List.mem_of_getElem? hx
      rcases htr with ⟨h1, h2⟩ | ⟨t, y, h1, h2, hnum, hmem⟩
      · simp [h1, h2]
      · have hfne : x.fill ≠ [] := h.fillTrInFill x hxmem (by simp [h1])
        have hfd : p.fillData = false := by
          rw [L.fillData]
          cases hfc : wf.fillCard.isSome
          · rfl
          · exact absurd (h.oneBlockFill hfc x hxmem) hfne
        have hpf : (p.cell c).fill ≠ [] := by
          intro he
          rw [he] at hflen
          have : wf.effFill c = x.fill := by simp [WFile.effFill, hx, hfne]
          rw [this] at hflen
          exact hfne (List.length_eq_zero_iff.mp hflen.symm)
        simp [hfd, hpf, h1, h2, kindOf, Prob.coll, hnum, hmem]
    · rw [range_getElem?_ge hc, List.getElem?_eq_none (by omega)]
      simp

theorem effFill_length_le_one {wf : WFile} (h : WellFormed wf) (hd : wf.fillCard.isSome = true) (c : Nat) :
    (wf.effFill c).length ≤ 1 := by
  unfold WFile.effFill
  cases hx : wf.cells[c]? with
  | none => simp
  | some x =>
    have hxe : x.fill = [] := h.oneBlockFill hd x (List.mem_of_getElem? hx)
    simp only [hxe, ne_eq, not_true_eq_false, if_false]
    cases wf.fillCard with
    | none => simp
    | some l =>
      simp only
      split <;> simp

/-- **C04_link_establishes_wf** — linking a well-formed file yields a problem that satisfies the WHOLE of
    `WF`: unique numbers in all five collections (C06's `Inv`), every pointer points at a member of the
    problem, a data-block FILL has one universe per cell, material numbers are not 0.  With
    `C04_wf_step` every state reachable from a read file by number assignments is well-formed. -/
theorem C04_link_establishes_wf (wf : WFile) (p : Prob) (h : WellFormed wf) (hl : link wf = some p) : WF p := by
  have L := link_linked hl
  obtain ⟨oc, os, om, ot⟩ := linked_objs L
  refine ⟨?_, ?_, fun s => (ptr_at h L s).2, ?_, ?_, ?_, ?_⟩
  · intro k
    cases k <;> simp only [Prob.coll]
    · rw [L.cells]; exact mkColl_inv' _ (h.unique .cell)
    · rw [L.surfs]; exact mkColl_inv' _ (h.unique .surf)
    · rw [L.mats]; exact mkColl_inv' _ (h.unique .mat)
    · rw [L.trs]; exact mkColl_inv' _ (h.unique .tr)
    · rw [L.univs]; exact mkColl_inv' _ (univNums_nodup wf)
  · intro k
    cases k <;> simp only [Prob.coll]
    · rw [L.cells]; rfl
    · rw [L.surfs]; rfl
    · rw [L.mats]; rfl
    · rw [L.trs]; rfl
    · rw [L.univs]; rfl
  · intro c hc
    rw [oc] at hc
    obtain ⟨_, _, _, _, hu, _⟩ := linked_cell L c (List.mem_range.mp hc)
    exact hu.2
  · intro c hc u hu
    rw [oc] at hc
    obtain ⟨_, _, _, _, _, hf, _⟩ := linked_cell L c (List.mem_range.mp hc)
    exact hf.2.1 u hu
  · intro hd c hc
    rw [oc] at hc
    rw [L.fillData] at hd
    obtain ⟨_, _, _, _, _, hf, _⟩ := linked_cell L c (List.mem_range.mp hc)
    rw [hf.2.2]
    exact effFill_length_le_one h hd c
  · intro m hm
    rw [om] at hm
    have hlt : m < wf.mats.length := List.mem_range.mp hm
    rw [L.mats]
    show (wf.mats.map (·.number)).getD m 0 ≠ 0
    rw [List.getD_eq_getElem?_getD, List.getElem?_map, List.getElem?_eq_getElem hlt]
    exact h.matPos _ (List.getElem_mem hlt)

theorem resolve_congr {w1 w2 : WFile} {ck : CardKind} (h : w1.numbers ck = w2.numbers ck) (n : Int) :
    resolve w1 ck n = resolve w2 ck n := by
  unfold resolve; rw [h]

theorem cellsIn_congr {w1 w2 : WFile} (hlen : w1.cells.length = w2.cells.length)
    (h : ∀ c, c < w2.cells.length → w1.effU c = w2.effU c) (n : Int) : w1.cellsIn n = w2.cellsIn n := by
  unfold WFile.cellsIn
  rw [hlen]
  apply List.filter_congr
  intro i hi
  rw [h i (List.mem_range.mp hi)]

/-- **C04_unedited_roundtrip** — the unedited round trip of the reference structure: the problem linked
    from a well-formed file writes, card by card, the card numbers of the file, at every reference site
    the number the file has there (and nothing where the file has nothing), for every cell the universe
    it is in and the universes it is filled with (matrix entries included); so every look-up — of cards
    and of universes — gives in the written file what it gives in the original. -/
theorem C04_unedited_roundtrip (wf : WFile) (p : Prob) (h : WellFormed wf) (hl : link wf = some p) :
    (∀ ck, (write p).numbers ck = wf.numbers ck) ∧
    (∀ s, (write p).at s = wf.at s) ∧
    (∀ c, c < wf.cells.length → (write p).effU c = wf.effU c ∧ (write p).effFill c = wf.effFill c) ∧
    (∀ n, (write p).cellsIn n = wf.cellsIn n) ∧
    (∀ ck n, resolve (write p) ck n = resolve wf ck n) := by
  have L := link_linked hl
  have hwf := C04_link_establishes_wf wf p h hl
  obtain ⟨oc, _, _, _⟩ := linked_objs L
  have hnum : ∀ ck, (write p).numbers ck = wf.numbers ck := by
    intro ck
    rw [numbers_write]
    cases ck <;> simp only [kindOf, Prob.coll, WFile.numbers]
    · rw [L.cells]; exact mkColl_nums _
    · rw [L.surfs]; exact mkColl_nums _
    · rw [L.mats]; exact mkColl_nums _
    · rw [L.trs]; exact mkColl_nums _
  have hu : ∀ c, c < wf.cells.length → (write p).effU c = wf.effU c ∧ (write p).effFill c = wf.effFill c := by
    intro c hc
    have hobj : p.cells.objs[c]? = some c := by rw [oc]; exact range_getElem?_lt hc
    obtain ⟨_, _, _, _, hun, hf, _⟩ := linked_cell L c hc
    exact ⟨by rw [effU_write p c c hobj]; exact hun.1, by rw [effFill_write p hwf.fillOne c c hobj]; exact hf.1⟩
  refine ⟨hnum, ?_, hu, ?_, fun ck n => resolve_congr (hnum ck) n⟩
  · intro s
    rw [at_write p hwf.matPos hwf.closed]
    exact (ptr_at h L s).1
  · intro n
    apply cellsIn_congr
    · simp [write, oc]
    · intro c hc; exact (hu c hc).1

/-- **C04_end_to_end** — for EVERY well-formed file and EVERY finite sequence of number assignments
    (valid ones are applied, invalid ones are rejected and change nothing): MontePy links the file, and in
    the file written after the history
    * every block has as many cards as in the original (card `i` is still object `i`),
    * at every site where the original has a reference a reference is written, and MCNP's look-up of the
      number written there finds exactly one card — the card (index) the original's number resolved to,
    * where the original has no reference none is written,
    * the cells in the universe of every cell, and in each universe a cell is filled with (single or
      matrix entry `j`), are the same cells as in the original.
    No hypothesis besides `WellFormed wf` remains between reading, renumbering and writing. -/
theorem C04_end_to_end (wf : WFile) (h : WellFormed wf) :
    ∃ p0, link wf = some p0 ∧ ∀ ops : List Op,
      (∀ ck, ((write (run p0 ops)).numbers ck).length = (wf.numbers ck).length) ∧
      (∀ s ck n, wf.at s = some (ck, n) → ∃ n', (write (run p0 ops)).at s = some (ck, n') ∧
        resolve (write (run p0 ops)) ck n' = resolve wf ck n ∧ (resolve wf ck n).isSome = true) ∧
      (∀ s, wf.at s = none → (write (run p0 ops)).at s = none) ∧
      (∀ c, c < wf.cells.length →
        (write (run p0 ops)).cellsIn ((write (run p0 ops)).effU c) = wf.cellsIn (wf.effU c) ∧
        ((write (run p0 ops)).effFill c).length = (wf.effFill c).length ∧
        ∀ (j : Nat) u, (wf.effFill c)[j]? = some u →
          ∃ u', ((write (run p0 ops)).effFill c)[j]? = some u' ∧ (write (run p0 ops)).cellsIn u' = wf.cellsIn u) := by
  obtain ⟨p0, hl⟩ := link_succeeds wf h
  refine ⟨p0, hl, ?_⟩
  intro ops
  have L := link_linked hl
  have hwf0 := C04_link_establishes_wf wf p0 h hl
  obtain ⟨hnum, hat, hu, hcin, hres⟩ := C04_unedited_roundtrip wf p0 h hl
  obtain ⟨hwf, hsh⟩ := run_wf p0 hwf0 ops
  obtain ⟨oc, _, _, _⟩ := linked_objs L
  refine ⟨?_, ?_, ?_, ?_⟩
  · intro ck
    rw [← hnum ck, numbers_write, numbers_write, List.length_map, List.length_map, hsh.objs]
  · intro s ck n hs
    have hs0 : (write p0).at s = some (ck, n) := by rw [hat]; exact hs
    rw [at_write p0 hwf0.matPos hwf0.closed] at hs0
    obtain ⟨x, hx, hxe⟩ := Option.map_eq_some_iff.mp hs0
    obtain ⟨ck', o⟩ := x
    simp only [Prod.mk.injEq] at hxe
    obtain ⟨rfl, _⟩ := hxe
    obtain ⟨n0, n', h0, h1, h2, h3⟩ := (C04_history p0 hwf0 ops).2 s ck' o hx
    have hn : n0 = n := by
      rw [hat, hs] at h0
      simpa using h0.symm
    subst hn
    refine ⟨n', h1, ?_, ?_⟩
    · rw [h2, hres]
    · rw [← hres, h3]; rfl
  · intro s hs
    have hs0 : (write p0).at s = none := by rw [hat]; exact hs
    rw [at_write p0 hwf0.matPos hwf0.closed] at hs0
    have hp : p0.ptr s = none := by simpa using hs0
    rw [at_write _ hwf.matPos hwf.closed, hsh.ptr, hp]; rfl
  · intro c hc
    have hobj : p0.cells.objs[c]? = some c := by rw [oc]; exact range_getElem?_lt hc
    obtain ⟨h1, h2, h3, h4⟩ := C04_history_universe p0 hwf0 ops c c hobj
    refine ⟨?_, ?_, ?_⟩
    · rw [h1, hcin, (hu c hc).1]
    · rw [h2, ← (hu c hc).2, h3]; simp
    · intro j u hj
      rw [← (hu c hc).2, h3, List.getElem?_map] at hj
      obtain ⟨x, hx, rfl⟩ := Option.map_eq_some_iff.mp hj
      refine ⟨(run p0 ops).univs.num x, ?_, ?_⟩
      · rw [h2, List.getElem?_map, hx]; rfl
      · rw [h4 x (List.mem_of_getElem? hx), hcin]

/-! ### the literal round trip `write (link wf) = wf` -/

/-- **Normal form** of the numbers-only view (what MontePy writes, and what an MCNP reader makes of any file
    after dropping what carries no information): `U=0` is not written in a cell, a data-block `U` / `FILL`
    card has exactly one entry per cell and at least one entry that is not a jump. -/
structure Canonical (wf : WFile) : Prop where
  uNonzero : ∀ c ∈ wf.cells, c.u ≠ some 0
  uCard : ∀ l, wf.uCard = some l → l.length = wf.cells.length ∧ ∃ x ∈ l, x ≠ 0
  fillCard : ∀ l, wf.fillCard = some l → l.length = wf.cells.length ∧ ∃ x ∈ l, x ≠ none

theorem WFile.ext' {a b : WFile} (h1 : a.cells = b.cells) (h2 : a.surfs = b.surfs) (h3 : a.mats = b.mats)
    (h4 : a.trs = b.trs) (h5 : a.uCard = b.uCard) (h6 : a.fillCard = b.fillCard) : a = b := by
  cases a; cases b; simp_all

theorem WCell.ext' {a b : WCell} (h1 : a.number = b.number) (h2 : a.mat = b.mat) (h3 : a.geom = b.geom)
    (h4 : a.u = b.u) (h5 : a.fill = b.fill) (h6 : a.fillTr = b.fillTr) : a = b := by
  cases a; cases b; simp_all

theorem mkColl_num_lt {nums : List Int} {i : Nat} (h : i < nums.length) : (mkColl nums).num i = nums[i] := by
  show nums.getD i 0 = nums[i]
  rw [List.getD_eq_getElem?_getD, List.getElem?_eq_getElem h]; rfl

/-- the cell card MontePy writes for cell `i` of a linked canonical file is the cell card of the file -/
theorem cell_roundtrip {wf : WFile} {p : Prob} (h : WellFormed wf) (hc : Canonical wf) (L : Linked wf p)
    (i : Nat) (hi : i < wf.cells.length) : cellUpdateValues p i = wf.cells[i] := by
  obtain ⟨x, hx, hmat, ⟨hlen, hg⟩, hun, hf, htr⟩ := linked_cell L i hi
  have hxe : x = wf.cells[i] := by
    rw [List.getElem?_eq_getElem hi] at hx; exact (Option.some.inj hx).symm
  have hxmem : x ∈ wf.cells := List.mem_of_getElem? hx
  rw [← hxe]
  have hfd : p.fillData = wf.fillCard.isSome := L.fillData
  have hud : p.uData = wf.uCard.isSome := L.uData
  apply WCell.ext'
  · show p.cells.num i = x.number
    rw [L.cells, mkColl_num_lt (by simpa using hi)]
    simp [hxe]
  · show (match (p.cell i).mat with | some m => p.mats.num m | none => 0) = x.mat
    rcases hmat with ⟨h0, hn⟩ | ⟨_, m, hm, hnum, _⟩
    · simp [hn, h0]
    · simp [hm, hnum]
  · show (p.cell i).geom.map (unitHalfSpaceUpdateNode p) = x.geom
    apply List.ext_getElem?
    intro j
    rw [List.getElem?_map]
    cases hj : x.geom[j]? with
    | none =>
      have : (p.cell i).geom[j]? = none := by
        apply List.getElem?_eq_none
        have := List.getElem?_eq_none_iff.mp hj
        omega
      simp [this]
    | some a =>
      obtain ⟨l, hl, hic, hnum, _⟩ := hg j a hj
      rw [hl]
      simp only [Option.map_some, unitHalfSpaceUpdateNode, Option.some.injEq]
      cases hb : a.1
      · simp only [hb] at hic hnum
        simp at hnum
        simp [hic, hnum, Prod.ext_iff, hb]
      · simp only [hb] at hic hnum
        simp at hnum
        simp [hic, hnum, Prod.ext_iff, hb]
  · show universeUpdateCellValues p i = x.u
    unfold universeUpdateCellValues
    rw [hun.1, hud]
    cases huc : wf.uCard.isSome
    · have hnone : wf.uCard = none := by simpa using huc
      cases hxu : x.u with
      | none =>
        have : wf.effU i = 0 := by simp [WFile.effU, hx, hxu, hnone]
        simp [this]
      | some n =>
        have : wf.effU i = n := by simp [WFile.effU, hx, hxu]
        have hn0 : n ≠ 0 := fun e => hc.uNonzero x hxmem (by rw [hxu, e])
        simp [this, hn0]
    · simp [h.oneBlockU huc x hxmem]
  · show fillUpdateCellUniverses p i = x.fill
    unfold fillUpdateCellUniverses
    rw [hf.1, hfd]
    cases hfc : wf.fillCard.isSome
    · have hnone : wf.fillCard = none := by simpa using hfc
      by_cases he : x.fill = []
      · simp [WFile.effFill, hx, he, hnone]
      · simp [WFile.effFill, hx, he]
    · simp [h.oneBlockFill hfc x hxmem]
  · show fillUpdateCellTransform p i = x.fillTr
    unfold fillUpdateCellTransform
    rcases htr with ⟨h1, h2⟩ | ⟨t, y, h1, h2, hnum, _⟩
    · simp [h1, h2]
    · have hfne : x.fill ≠ [] := h.fillTrInFill x hxmem (by simp [h1])
      have hfd' : p.fillData = false := by
        rw [hfd]
        cases hfc : wf.fillCard.isSome
        · rfl
        · exact absurd (h.oneBlockFill hfc x hxmem) hfne
      have hpf : (p.cell i).fill ≠ [] := by
        intro he
        have h3 := hf.2.2
        rw [he] at h3
        have : wf.effFill i = x.fill := by simp [WFile.effFill, hx, hfne]
        rw [this] at h3
        exact hfne (List.length_eq_zero_iff.mp h3.symm)
      simp [hfd', hpf, h1, h2, hnum]

theorem map_range_eq {α} (l : List α) (f : Nat → α) (h : ∀ i (hi : i < l.length), f i = l[i]) :
    (List.range l.length).map f = l := by
  apply List.ext_getElem
  · simp
  · intro i h1 h2
    simp [h i h2]

/-- **C04_roundtrip_literal_partial** — for a well-formed file in normal form, `write (link wf)` IS the
    file: MontePy's unedited write changes no number and no reference, literally. -/
theorem C04_roundtrip_literal_partial (wf : WFile) (p : Prob) (h : WellFormed wf) (hc : Canonical wf)
    (hl : link wf = some p) : write p = wf := by
  have L := link_linked hl
  obtain ⟨oc, os, om, ot⟩ := linked_objs L
  have hcellU : ∀ i, i < wf.cells.length → p.univs.num (p.cell i).univ = wf.effU i := fun i hi => by
    obtain ⟨_, _, _, _, hun, _⟩ := linked_cell L i hi; exact hun.1
  have hcellF : ∀ i, i < wf.cells.length → (p.cell i).fill.map p.univs.num = wf.effFill i := fun i hi => by
    obtain ⟨_, _, _, _, _, hf, _⟩ := linked_cell L i hi; exact hf.1
  apply WFile.ext'
  · show p.cells.objs.map (cellUpdateValues p) = wf.cells
    rw [oc]
    exact map_range_eq _ _ (fun i hi => cell_roundtrip h hc L i hi)
  · show p.surfs.objs.map (surfaceUpdateValues p) = wf.surfs
    rw [os]
    apply map_range_eq
    intro i hi
    have hx : wf.surfs[i]? = some wf.surfs[i] := List.getElem?_eq_getElem hi
    obtain ⟨htr, hper⟩ := linked_surf L i _ hx
    have hone := h.surfOne _ (List.getElem_mem hi)
    have hnumber : p.surfs.num i = wf.surfs[i].number := by
      rw [L.surfs, mkColl_num_lt (by simpa using hi)]; simp
    generalize wf.surfs[i] = x at *
    cases x with
    | mk number tr per =>
      simp only [surfaceUpdateValues, WSurf.mk.injEq]
      simp only at htr hper hone hnumber
      refine ⟨hnumber, ?_, ?_⟩
      · rcases htr with ⟨h1, h2⟩ | ⟨t, y, h1, h2, hnum, _⟩
        · simp [h1, h2]
        · simp [h1, h2, hnum]
      · rcases htr with ⟨h1, h2⟩ | ⟨t, y, h1, h2, _, _⟩
        · rcases hper with ⟨h3, h4⟩ | ⟨t', y', h3, h4, hnum, _⟩
          · simp [h2, h3, h4]
          · simp [h2, h3, h4, hnum]
        · have : per = none := by
            rcases hone with h' | h'
            · rw [h1] at h'; cases h'
            · exact h'
          simp [h2, this]
  · show p.mats.objs.map (thermalUpdateValues p) = wf.mats
    rw [om]
    apply map_range_eq
    intro i hi
    have hx : wf.mats[i]? = some wf.mats[i] := List.getElem?_eq_getElem hi
    have hmt := linked_mat L i _ hx
    have hnumber : p.mats.num i = wf.mats[i].number := by
      rw [L.mats, mkColl_num_lt (by simpa using hi)]; simp
    generalize wf.mats[i] = x at *
    cases x with
    | mk number mt =>
      simp only [thermalUpdateValues, WMat.mk.injEq]
      simp only at hmt hnumber
      refine ⟨hnumber, ?_⟩
      rcases hmt with ⟨h1, h2⟩ | ⟨t, y, h1, h2, hnum, _⟩
      · simp [h1, h2]
      · simp [h1, h2, hnum]
  · show p.trs.objs.map p.trs.num = wf.trs
    rw [L.trs]; exact mkColl_nums _
  · show universeCollectNewValues p = wf.uCard
    unfold universeCollectNewValues
    rw [L.uData, oc]
    cases hu : wf.uCard with
    | none => simp
    | some l =>
      obtain ⟨hlen, x, hxl, hx0⟩ := hc.uCard l hu
      have hnoneU : ∀ i (hi : i < wf.cells.length), wf.effU i = l[i]'(by omega) := by
        intro i hi
        have hxu : wf.cells[i].u = none := h.oneBlockU (by simp [hu]) _ (List.getElem_mem hi)
        simp [WFile.effU, List.getElem?_eq_getElem hi, hxu, hu, List.getD_eq_getElem?_getD,
          List.getElem?_eq_getElem (show i < l.length by omega)]
      have hany : ((List.range wf.cells.length).any fun c => decide (p.univs.num (p.cell c).univ ≠ 0)) = true := by
        obtain ⟨j, hj, rfl⟩ := List.getElem_of_mem hxl
        apply List.any_eq_true.mpr
        refine ⟨j, List.mem_range.mpr (by omega), ?_⟩
        rw [hcellU j (by omega), hnoneU j (by omega)]
        simpa using hx0
      simp only [Option.isSome_some, hany, and_self, if_true, Option.some.injEq]
      rw [← hlen]
      apply map_range_eq
      intro i hi
      rw [hcellU i (by omega), hnoneU i (by omega)]
  · show fillCollectNewValues p = wf.fillCard
    unfold fillCollectNewValues
    rw [L.fillData, oc]
    cases hu : wf.fillCard with
    | none => simp
    | some l =>
      obtain ⟨hlen, x, hxl, hx0⟩ := hc.fillCard l hu
      have hnoneF : ∀ i (hi : i < wf.cells.length), wf.effFill i =
          (match l[i]'(by omega) with | some n => [n] | none => []) := by
        intro i hi
        have hxf : wf.cells[i].fill = [] := h.oneBlockFill (by simp [hu]) _ (List.getElem_mem hi)
        simp only [WFile.effFill, List.getElem?_eq_getElem hi, hxf, ne_eq, not_true_eq_false, if_false, hu,
          List.getElem?_eq_getElem (show i < l.length by omega)]
        cases l[i] <;> rfl
      have hany : ((List.range wf.cells.length).any fun c => decide ((p.cell c).fill ≠ [])) = true := by
        obtain ⟨j, hj, rfl⟩ := List.getElem_of_mem hxl
        apply List.any_eq_true.mpr
        refine ⟨j, List.mem_range.mpr (by omega), ?_⟩
        have h1 := hcellF j (by omega)
        rw [hnoneF j (by omega)] at h1
        cases hlj : l[j] with
        | none => exact absurd hlj hx0
        | some n =>
          rw [hlj] at h1
          have : (p.cell j).fill ≠ [] := by
            intro he; rw [he] at h1; simp at h1
          simpa using this
      simp only [Option.isSome_some, hany, and_self, if_true, Option.some.injEq]
      rw [← hlen]
      apply map_range_eq
      intro i hi
      have h1 := hcellF i (by omega)
      rw [hnoneF i (by omega)] at h1
      have : (p.cell i).fill.head?.map p.univs.num = ((p.cell i).fill.map p.univs.num).head? := by
        cases (p.cell i).fill <;> rfl
      rw [this, h1]
      cases l[i] <;> rfl

/-- **C04_roundtrip_literal_refuted** — without the normal form the literal equation is false (of any
    faithful writer, not only of MontePy): `U=0` on a cell card is read as "not in a universe" and not
    written back.  The reference structure is unchanged all the same (`C04_unedited_roundtrip`). -/
theorem C04_roundtrip_literal_refuted :
    ∃ wf p, WellFormed wf ∧ link wf = some p ∧ write p ≠ wf := by
  refine ⟨{ cells := [{ number := 1, mat := 0, geom := [(false, 1)], u := some 0, fill := [], fillTr := none }],
            surfs := [{ number := 1, tr := none, per := none }], mats := [], trs := [], uCard := none, fillCard := none },
          _, C04_wellFormedB_sound _ (by decide), rfl, by decide⟩

/-! ### Non-vacuity of `WellFormed` / `Canonical`, matrix fills, data-block cards -/

example : WellFormed exFile := C04_wellFormedB_sound _ (by decide)
example : Canonical exFile := ⟨by decide, (by intro l h; cases h), (by intro l h; cases h)⟩

/-- a lattice cell filled with a 2x2 matrix of two universes (`fill=0:1 0:1 0:0 5 6 6 5`): every matrix
    entry is a universe reference -/
def exLattice : WFile :=
  { cells := [{ number := 1, mat := 0, geom := [(false, 1)], u := none, fill := [5, 6, 6, 5], fillTr := none },
              { number := 2, mat := 0, geom := [(false, 1)], u := some 5, fill := [], fillTr := none },
              { number := 3, mat := 0, geom := [(false, 1), (true, 2)], u := some 6, fill := [], fillTr := none }]
    surfs := [{ number := 1, tr := none, per := none }], mats := [], trs := [], uCard := none, fillCard := none }

example : exLattice.wellFormedB = true := by decide
example : Canonical exLattice := ⟨by decide, (by intro l h; cases h), (by intro l h; cases h)⟩
example : (link exLattice).map write = some exLattice := by decide
/-- universes 5 ↦ 50, then 6 ↦ 5: every matrix entry follows its universe object, and so do the `U` entries -/
example : (link exLattice).map (fun p => (write (run p [⟨.univ, 1, 50⟩, ⟨.univ, 2, 5⟩])).cells.map (fun c => (c.u, c.fill))) =
    some [(none, [50, 5, 5, 50]), (some 50, []), (some 5, [])] := by decide

/-- **Per-kind resolution.** Numbers of different kinds coincide everywhere: cell 5, surface 5, material 5 (+MT5),
    transform 5 and universe 5 — `5 5 … -5 #6 fill=5 (5)`, surface `5 5 pz` (transform 5), surface `6 -5 pz`
    (periodic with surface 5), a matrix fill `5 6 6 5 (6)` whose entries include its transform's number.
    The file is written as a function of the numbers of the cell, the surface, the material, the two transforms and
    the universe that all carry 5 (resp. 6) in the original: each parameter occurs exactly at the sites of its kind. -/
def exCoincideWith (c5 s5 m5 t5 t6 u5 : Int) : WFile :=
  { cells := [{ number := c5, mat := m5, geom := [(false, s5), (true, 6)], u := none, fill := [u5], fillTr := some t5 },
              { number := 6, mat := 0, geom := [(false, s5)], u := some u5, fill := [], fillTr := none },
              { number := 7, mat := 0, geom := [(false, 6), (true, c5)], u := some 6, fill := [], fillTr := none },
              { number := 8, mat := 0, geom := [(false, 6)], u := none, fill := [u5, 6, 6, u5], fillTr := some t6 }]
    surfs := [{ number := s5, tr := some t5, per := none }, { number := 6, tr := none, per := some s5 }]
    mats := [{ number := m5, mt := some m5 }], trs := [t5, t6], uCard := none, fillCard := none }

def exCoincide : WFile := exCoincideWith 5 5 5 5 6 5

example : exCoincide.wellFormedB = true := by decide
example : (link exCoincide).map write = some exCoincide := by decide
/-- the number 5 resolves per kind: card 0 of each block, and the cells in universe 5 -/
example : (resolve exCoincide .cell 5, resolve exCoincide .surf 5, resolve exCoincide .mat 5, resolve exCoincide .tr 5,
    exCoincide.cellsIn 5) = (some 0, some 0, some 0, some 0, [1]) := by decide
/-- TRANSFORM 5 ↦ 9: the TR card, `fill=5 (9)` and the surface's transform pointer follow; the fill UNIVERSE 5, the
    matrix entries 5, `U=5`, cell 5, surface 5 (and the periodic pointer to it), material 5 and MT5 are left alone -/
example : (link exCoincide).map (fun p => write (run p [⟨.tr, 0, 9⟩])) = some (exCoincideWith 5 5 5 9 6 5) := by decide
/-- UNIVERSE 5 ↦ 9 (universe objects: 0 ↦ 0, 1 ↦ 5, 2 ↦ 6): `fill=9 (5)`, the matrix entries `9 6 6 9 (6)` and `U=9`
    follow; every transform site (fill transform 5, surface transform 5, TR5) and every other kind is left alone -/
example : (link exCoincide).map (fun p => write (run p [⟨.univ, 1, 9⟩])) = some (exCoincideWith 5 5 5 5 6 9) := by decide
/-- TR5 and TR6 swapped through the temporary number 99: exactly the three transform sites and the two TR cards swap;
    `fill=5 (6)` keeps universe 5, the matrix `5 6 6 5 (5)` keeps all four entries -/
example : (link exCoincide).map (fun p => write (run p [⟨.tr, 0, 99⟩, ⟨.tr, 1, 5⟩, ⟨.tr, 0, 6⟩])) =
    some (exCoincideWith 5 5 5 6 5 5) := by decide
/-- SURFACE 5 ↦ 9, CELL 5 ↦ 9, MATERIAL 5 ↦ 9: each moves its own card and the sites of its kind only -/
example : (link exCoincide).map (fun p => write (run p [⟨.surf, 0, 9⟩])) = some (exCoincideWith 5 9 5 5 6 5) := by decide
example : (link exCoincide).map (fun p => write (run p [⟨.cell, 0, 9⟩])) = some (exCoincideWith 9 5 5 5 6 5) := by decide
example : (link exCoincide).map (fun p => write (run p [⟨.mat, 0, 9⟩])) = some (exCoincideWith 5 5 9 5 6 5) := by decide
/-- all five kinds move to five different numbers, in one history: every site shows the number of ITS kind -/
example : (link exCoincide).map (fun p => write (run p [⟨.cell, 0, 11⟩, ⟨.surf, 0, 12⟩, ⟨.mat, 0, 13⟩, ⟨.tr, 0, 14⟩, ⟨.univ, 1, 15⟩])) =
    some (exCoincideWith 11 12 13 14 6 15) := by decide

/-- per-cell data in the data block (`u j 5 5` / `fill 5 2j`), in normal form -/
def exData : WFile :=
  { cells := [{ number := 1, mat := 0, geom := [(false, 1)], u := none, fill := [], fillTr := none },
              { number := 2, mat := 0, geom := [(false, 1)], u := none, fill := [], fillTr := none },
              { number := 3, mat := 0, geom := [(false, 1), (true, 2)], u := none, fill := [], fillTr := none }]
    surfs := [{ number := 1, tr := none, per := none }], mats := [], trs := []
    uCard := some [0, 5, 5], fillCard := some [some 5, none, none] }

example : exData.wellFormedB = true := by decide
example : Canonical exData :=
  ⟨by decide,
   (by intro l h; simp only [exData, Option.some.injEq] at h; subst h; exact ⟨rfl, 5, by decide, by decide⟩),
   (by intro l h; simp only [exData, Option.some.injEq] at h; subst h; exact ⟨rfl, some 5, by decide, by decide⟩)⟩
example : (link exData).map write = some exData := by decide
example : (link exData).map (fun p => let w := write (run p [⟨.univ, 1, 9⟩]); (w.uCard, w.fillCard)) =
    some (some [0, 9, 9], some [some 9, none, none]) := by decide

/-- a file that is NOT well-formed (a cell filled with a universe no cell is in) is rejected by the decision
    procedure — and MontePy's link fails on it (`KeyError` from `universes[number]`) -/
example : ({ exLattice with cells := exLattice.cells.take 2 } : WFile).wellFormedB = false := by decide
example : link ({ exLattice with cells := exLattice.cells.take 2 } : WFile) = none := by decide

end MontePyVerif.Renumber
