import MontePyVerif.Model.Links
import MontePyVerif.Props.C06
namespace MontePyVerif.Links
end MontePyVerif.Links
