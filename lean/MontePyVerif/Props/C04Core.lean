import MontePyVerif.Model.Renumber
import MontePyVerif.Props.C06
/-!
# C04 — renumbering keeps every modelled reference pointing at the same object

Property (fixed text, properties.jsonl): renumbering a cell, surface, material, transform or universe
through the API changes, in the written file, its own number and every modelled reference to it and
nothing else; after any sequence of renumberings, including swaps through a temporary number, every
reference resolves to the same object as before.

Model: `Model/Renumber.lean` (`write`, `setNumber`, `run`, `link`) on top of `Model/Collection.lean`.
Spec: `Spec/Refs.lean` (`WFile.at`, `resolve`, `WFile.effU`, `WFile.effFill`, `WFile.cellsIn`).
Number uniqueness is **not** assumed: it is C06's invariant `Inv`, which `C06_step` preserves along
every history (`C04_wf_step` uses it).
-/
namespace MontePyVerif.Renumber
open MontePyVerif.Collection
open MontePyVerif.Spec.Refs

def kindOf : CardKind → Kind
  | .cell => .cell | .surf => .surf | .mat => .mat | .tr => .tr

/-- The pointer MontePy holds — and writes — at a site of the file (`none`: nothing is written there). -/
def Prob.ptr (p : Prob) : Site → Option (CardKind × ObjId)
  | .geom c i => (p.cells.objs[c]?).bind (fun o => (p.cell o).geom[i]?.map
      (fun l => (if l.isCell then CardKind.cell else CardKind.surf, l.target)))
  | .cellMat c => (p.cells.objs[c]?).bind (fun o => (p.cell o).mat.map (fun m => (CardKind.mat, m)))
  | .mt m => (p.mats.objs[m]?).bind (fun o => (p.mat o).mt.map (fun x => (CardKind.mat, x)))
  | .surfTr s => (p.surfs.objs[s]?).bind (fun o => (p.surf o).tr.map (fun x => (CardKind.tr, x)))
  | .surfPer s => (p.surfs.objs[s]?).bind (fun o =>
      match (p.surf o).tr with
      | some _ => none
      | none => (p.surf o).per.map (fun x => (CardKind.surf, x)))
  | .fillTr c => (p.cells.objs[c]?).bind (fun o =>
      if p.fillData = false ∧ (p.cell o).fill ≠ [] then (p.cell o).fillTr.map (fun x => (CardKind.tr, x)) else none)

/-- index of the card of object `o` in its block (object identity ↔ card position) -/
def cardIdx (p : Prob) (ck : CardKind) (o : ObjId) : Nat := (p.coll (kindOf ck)).objs.idxOf o

/-- the cells (card indices) whose universe pointer is the object `u` -/
def members (p : Prob) (u : ObjId) : List Nat :=
  (List.range p.cells.objs.length).filter
    (fun i => decide ((p.cells.objs[i]?).map (fun x => (p.cell x).univ) = some u))

/-- Well-formed linked problem: C06's invariant on the five collections (unique numbers — an
    invariant of the code, see `C04_wf_step`), every pointer points at a member of the problem, a
    data-block FILL has one universe per cell (`Fill._tree_value` raises otherwise), material numbers
    are not 0. -/
structure WF (p : Prob) : Prop where
  inv : ∀ k, Inv (p.coll k)
  owned : ∀ k, (p.coll k).owned = true
  closed : ∀ s ck o, p.ptr s = some (ck, o) → o ∈ (p.coll (kindOf ck)).objs
  univ : ∀ c ∈ p.cells.objs, (p.cell c).univ ∈ p.univs.objs
  fill : ∀ c ∈ p.cells.objs, ∀ u ∈ (p.cell c).fill, u ∈ p.univs.objs
  fillOne : p.fillData = true → ∀ c ∈ p.cells.objs, (p.cell c).fill.length ≤ 1
  matPos : ∀ m ∈ p.mats.objs, p.mats.num m ≠ 0

/-! ### list facts -/

theorem inj_of_nodup_map {α β} (f : α → β) : ∀ {l : List α}, (l.map f).Nodup → ∀ {a b}, a ∈ l → b ∈ l → f a = f b → a = b
  | [], _, _, _, ha, _, _ => by cases ha
  | x :: t, h, a, b, ha, hb, e => by
    rw [List.map_cons, List.nodup_cons] at h
    rcases List.mem_cons.mp ha with ha | ha <;> rcases List.mem_cons.mp hb with hb | hb
    · rw [ha, hb]
    · exact absurd (by rw [← ha, e]; exact List.mem_map_of_mem hb) h.1
    · exact absurd (by rw [← hb, ← e]; exact List.mem_map_of_mem ha) h.1
    · exact inj_of_nodup_map f h.2 ha hb e

theorem idxOf_map_of_nodup {α β} [DecidableEq α] [DecidableEq β] (f : α → β) :
    ∀ {l : List α}, (l.map f).Nodup → ∀ {o}, o ∈ l → (l.map f).idxOf (f o) = l.idxOf o
  | [], _, _, ho => by cases ho
  | x :: t, h, o, ho => by
    have hinj := inj_of_nodup_map f h (a := x) (b := o) List.mem_cons_self ho
    rw [List.map_cons, List.idxOf_cons, List.idxOf_cons]
    by_cases e : x = o
    · subst e; simp
    · have e' : f x ≠ f o := fun h' => e (hinj h')
      have ht : o ∈ t := by
        rcases List.mem_cons.mp ho with h1 | h1
        · exact absurd h1.symm e
        · exact h1
      rw [List.map_cons, List.nodup_cons] at h
      have b1 : (f x == f o) = false := by simp [e']
      have b2 : (x == o) = false := by simp [e]
      rw [b1, b2]
      simp only [cond_false]
      rw [idxOf_map_of_nodup f h.2 ht]

/-- under unique numbers, MCNP's look-up of the number of a member finds the member's own card -/
theorem lookup_inverse {l : List ObjId} {num : ObjId → Int} (h : (l.map num).Nodup) {o : ObjId} (ho : o ∈ l) :
    (l.map num).count (num o) = 1 ∧ (l.map num).idxOf (num o) = l.idxOf o ∧ l[l.idxOf o]? = some o := by
  refine ⟨?_, idxOf_map_of_nodup num h ho, ?_⟩
  · rw [List.Nodup.count h]; simp [List.mem_map_of_mem ho]
  · have hlt : l.idxOf o < l.length := List.idxOf_lt_length_iff.mpr ho
    rw [List.getElem?_eq_getElem hlt, List.getElem_idxOf hlt]

/-! ### what `write` puts where -/

theorem numbers_write (p : Prob) (ck : CardKind) :
    (write p).numbers ck = (p.coll (kindOf ck)).objs.map (p.coll (kindOf ck)).num := by
  cases ck <;>
    simp [write, WFile.numbers, kindOf, Prob.coll, List.map_map, Function.comp_def, cellUpdateValues,
      surfaceUpdateValues, thermalUpdateValues]

/-- **write re-reads the pointee's number** at every card-reference site -/
theorem at_write (p : Prob) (hpos : ∀ m ∈ p.mats.objs, p.mats.num m ≠ 0)
    (hcl : ∀ s ck o, p.ptr s = some (ck, o) → o ∈ (p.coll (kindOf ck)).objs) (s : Site) :
    (write p).at s = (p.ptr s).map (fun x => (x.1, p.num (kindOf x.1) x.2)) := by
  cases s with
  | geom c i =>
    simp only [write, WFile.at, Prob.ptr, List.getElem?_map]
    cases p.cells.objs[c]? with
    | none => rfl
    | some o =>
      simp only [Option.map_some, Option.bind_some, cellUpdateValues, List.getElem?_map]
      cases (p.cell o).geom[i]? with
      | none => rfl
      | some l =>
        cases hl : l.isCell <;> simp [unitHalfSpaceUpdateNode, hl, Prob.num, kindOf, Prob.coll]
  | cellMat c =>
    have hc := hcl (.cellMat c)
    simp only [write, WFile.at, Prob.ptr, List.getElem?_map] at hc ⊢
    cases hco : p.cells.objs[c]? with
    | none => rfl
    | some o =>
      rw [hco] at hc
      simp only [Option.map_some, Option.bind_some, cellUpdateValues] at hc ⊢
      cases hm : (p.cell o).mat with
      | none => simp
      | some m =>
        rw [hm] at hc
        have hmem : m ∈ p.mats.objs := by
          have := hc CardKind.mat m rfl
          simpa [kindOf, Prob.coll] using this
        simp [hpos m hmem, Prob.num, kindOf, Prob.coll]
  | mt m =>
    simp only [write, WFile.at, Prob.ptr, List.getElem?_map]
    cases p.mats.objs[m]? with
    | none => rfl
    | some o =>
      simp only [Option.map_some, Option.bind_some, thermalUpdateValues]
      cases (p.mat o).mt <;> simp [Prob.num, kindOf, Prob.coll]
  | surfTr s =>
    simp only [write, WFile.at, Prob.ptr, List.getElem?_map]
    cases p.surfs.objs[s]? with
    | none => rfl
    | some o =>
      simp only [Option.map_some, Option.bind_some, surfaceUpdateValues]
      cases (p.surf o).tr <;> simp [Prob.num, kindOf, Prob.coll]
  | surfPer s =>
    simp only [write, WFile.at, Prob.ptr, List.getElem?_map]
    cases p.surfs.objs[s]? with
    | none => rfl
    | some o =>
      simp only [Option.map_some, Option.bind_some, surfaceUpdateValues]
      cases (p.surf o).tr with
      | some t => simp
      | none => cases (p.surf o).per <;> simp [Prob.num, kindOf, Prob.coll]
  | fillTr c =>
    simp only [write, WFile.at, Prob.ptr, List.getElem?_map]
    cases p.cells.objs[c]? with
    | none => rfl
    | some o =>
      simp only [Option.map_some, Option.bind_some, cellUpdateValues, fillUpdateCellTransform]
      split
      · cases (p.cell o).fillTr <;> simp [Prob.num, kindOf, Prob.coll]
      · rfl

/-- **C04_resolve** — in every problem state with unique numbers (C06's invariant), for every
    modelled card reference: the number written at the site, looked up among the written cards as
    MCNP does, is found on exactly one card, and that card is the card of the object the reference
    points at. -/
theorem C04_resolve (p : Prob) (h : WF p) (s : Site) (ck : CardKind) (o : ObjId)
    (hs : p.ptr s = some (ck, o)) :
    ∃ n, (write p).at s = some (ck, n) ∧ resolve (write p) ck n = some (cardIdx p ck o) ∧
      (p.coll (kindOf ck)).objs[cardIdx p ck o]? = some o := by
  have hmem := h.closed s ck o hs
  have hl := lookup_inverse (h.inv (kindOf ck)).nodup hmem
  refine ⟨p.num (kindOf ck) o, ?_, ?_, hl.2.2⟩
  · rw [at_write p h.matPos h.closed, hs]; rfl
  · unfold resolve
    rw [numbers_write]
    simp only [Prob.num, cardIdx] at hl ⊢
    simp only [hl.1, hl.2.1, if_true]

/-! ### universes (no cards: a universe is the set of cells that carry its number) -/

theorem effU_write (p : Prob) (c : Nat) (o : ObjId) (hc : p.cells.objs[c]? = some o) :
    (write p).effU c = p.univs.num (p.cell o).univ := by
  have hlt : c < p.cells.objs.length := by
    rcases Nat.lt_or_ge c p.cells.objs.length with h | h
    · exact h
    · rw [List.getElem?_eq_none h] at hc; cases hc
  have hmem : o ∈ p.cells.objs := List.mem_of_getElem? hc
  simp only [WFile.effU, write, List.getElem?_map, hc, Option.map_some, Option.bind_some, cellUpdateValues,
    universeUpdateCellValues, universeCollectNewValues]
  by_cases hd : p.uData = false
  · by_cases hz : p.univs.num (p.cell o).univ = 0
    · simp [hd, hz]
    · simp [hd, hz]
  · have hd' : p.uData = true := by simpa using hd
    by_cases hany : ∃ x, x ∈ p.cells.objs ∧ ¬ p.univs.num (p.cell x).univ = 0
    · simp [hd', hany, hc]
    · have hz : p.univs.num (p.cell o).univ = 0 :=
        Decidable.byContradiction (fun hne => hany ⟨o, hmem, hne⟩)
      simp [hd', hany, hz]

theorem effFill_write (p : Prob) (hone : p.fillData = true → ∀ c ∈ p.cells.objs, (p.cell c).fill.length ≤ 1)
    (c : Nat) (o : ObjId) (hc : p.cells.objs[c]? = some o) :
    (write p).effFill c = (p.cell o).fill.map p.univs.num := by
  have hmem : o ∈ p.cells.objs := List.mem_of_getElem? hc
  simp only [WFile.effFill, write, List.getElem?_map, hc, Option.map_some, cellUpdateValues,
    fillUpdateCellUniverses, fillCollectNewValues]
  by_cases hd : p.fillData = false
  · by_cases he : (p.cell o).fill = []
    · simp [hd, he]
    · simp [hd, he]
  · have hd' : p.fillData = true := by simpa using hd
    have h1 := hone hd' o hmem
    by_cases hany : ∃ x, x ∈ p.cells.objs ∧ ¬ (p.cell x).fill = []
    · cases hf : (p.cell o).fill with
      | nil => simp [hd', hany, hc, hf]
      | cons u t =>
        cases t with
        | nil => simp [hd', hany, hc, hf]
        | cons v t' => rw [hf] at h1; simp at h1
    · have he : (p.cell o).fill = [] :=
        Decidable.byContradiction (fun hne => hany ⟨o, hmem, hne⟩)
      simp [hd', hany, he]

/-- **C04_resolve_universe** — the `U` entry of every cell is the number of its universe object, its
    `FILL` entries are the numbers of the universe objects it is filled with, and the set of cells
    that carry a universe's number in the written file is exactly the set of cells whose universe
    pointer is that object (so every `FILL` entry resolves to the same cells as the pointer does). -/
theorem C04_resolve_universe (p : Prob) (h : WF p) :
    (∀ c o, p.cells.objs[c]? = some o →
      (write p).effU c = p.univs.num (p.cell o).univ ∧
      (write p).effFill c = (p.cell o).fill.map p.univs.num) ∧
    (∀ u ∈ p.univs.objs, (write p).cellsIn (p.univs.num u) = members p u) := by
  refine ⟨fun c o hc => ⟨effU_write p c o hc, effFill_write p h.fillOne c o hc⟩, ?_⟩
  intro u hu
  unfold WFile.cellsIn members
  have hlen : (write p).cells.length = p.cells.objs.length := by simp [write]
  rw [hlen]
  apply List.filter_congr
  intro i hi
  have hlt : i < p.cells.objs.length := List.mem_range.mp hi
  have hc : p.cells.objs[i]? = some p.cells.objs[i] := List.getElem?_eq_getElem hlt
  have hmem : p.cells.objs[i] ∈ p.cells.objs := List.getElem_mem hlt
  rw [effU_write p i _ hc, hc]
  simp only [Option.map_some, Option.some.injEq]
  have hinj := inj_of_nodup_map p.univs.num (h.inv .univ).nodup (h.univ _ hmem) hu
  by_cases e : (p.cell p.cells.objs[i]).univ = u
  · simp [e]
  · have : p.univs.num (p.cell p.cells.objs[i]).univ ≠ p.univs.num u := fun h' => e (hinj h')
    simp [e, this]

/-! ### the frame: what one assignment changes -/

/-- `p'` has the same objects, in the same order, with the same pointers as `p` (numbers may differ) -/
structure SameShape (p p' : Prob) : Prop where
  objs : ∀ k, (p'.coll k).objs = (p.coll k).objs
  owned : ∀ k, (p'.coll k).owned = (p.coll k).owned
  cell : p'.cell = p.cell
  surf : p'.surf = p.surf
  mat : p'.mat = p.mat
  uData : p'.uData = p.uData
  fillData : p'.fillData = p.fillData

theorem SameShape.refl (p : Prob) : SameShape p p := ⟨fun _ => rfl, fun _ => rfl, rfl, rfl, rfl, rfl, rfl⟩

theorem SameShape.trans {a b c : Prob} (h1 : SameShape a b) (h2 : SameShape b c) : SameShape a c :=
  ⟨fun k => (h2.objs k).trans (h1.objs k), fun k => (h2.owned k).trans (h1.owned k), h2.cell.trans h1.cell,
   h2.surf.trans h1.surf, h2.mat.trans h1.mat, h2.uData.trans h1.uData, h2.fillData.trans h1.fillData⟩

theorem SameShape.ptr {p p' : Prob} (h : SameShape p p') : p'.ptr = p.ptr := by
  funext s
  have hc := h.objs .cell; have hs := h.objs .surf; have hm := h.objs .mat
  simp only [Prob.coll] at hc hs hm
  cases s <;> simp [Prob.ptr, hc, hs, hm, h.cell, h.surf, h.mat, h.fillData]

theorem coll_setColl (p : Prob) (k k' : Kind) (s : St) :
    (p.setColl k s).coll k' = if k' = k then s else p.coll k' := by
  cases k <;> cases k' <;> simp [Prob.setColl, Prob.coll]

theorem setNumber_shape (p : Prob) (k : Kind) (o : ObjId) (n : Int) : SameShape p (setNumber p k o n).1 := by
  have ho := setNumber_objs (p.coll k) o n
  refine ⟨?_, ?_, ?_, ?_, ?_, ?_, ?_⟩
  · intro k'
    simp only [setNumber, coll_setColl]
    split
    · rename_i e; subst e; exact ho.1
    · rfl
  · intro k'
    simp only [setNumber, coll_setColl]
    split
    · rename_i e; subst e; exact ho.2.2
    · rfl
  all_goals (cases k <;> rfl)

theorem setNumber_ok_pos {s : St} {o : ObjId} {n : Int} (h : (Collection.setNumber s o n).2 = .ok) : 0 < n := by
  unfold Collection.setNumber at h
  split at h
  · simp at h
  · omega

/-- the numbers after one assignment: the assigned object of the assigned kind carries `n` iff the
    setter accepted, every other number of every kind is what it was -/
theorem setNumber_num (p : Prob) (k : Kind) (o : ObjId) (n : Int) (k' : Kind) (x : ObjId) :
    (setNumber p k o n).1.num k' x =
      if (setNumber p k o n).2 = .ok ∧ k' = k ∧ x = o then n else p.num k' x := by
  simp only [setNumber, Prob.num, coll_setColl]
  by_cases e : k' = k
  · subst e
    simp only [if_true, true_and]
    by_cases hok : (Collection.setNumber (p.coll k') o n).2 = .ok
    · rw [setNumber_ok_num hok]; simp [hok]
    · rw [(setNumber_err_core hok).num]; simp [hok]
  · simp [e]

/-- **C04_wf_step** — well-formedness (in particular: unique numbers in all five collections) is an
    invariant of number assignment, accepted or rejected.  The uniqueness part is C06's `C06_step`. -/
theorem C04_wf_step (p : Prob) (h : WF p) (op : Op) : WF (step p op).1 := by
  obtain ⟨k, o, n⟩ := op
  have hsh := setNumber_shape p k o n
  show WF (setNumber p k o n).1
  refine ⟨?_, ?_, ?_, ?_, ?_, ?_, ?_⟩
  · intro k'
    simp only [setNumber, coll_setColl]
    split
    · rename_i e; subst e
      exact C06_step (p.coll k') (.setNumber o n) (h.inv k') (owned_admissible (h.inv k') (h.owned k') _)
    · exact h.inv k'
  · intro k'; rw [hsh.owned]; exact h.owned k'
  · intro s ck t hs
    rw [hsh.ptr] at hs
    rw [hsh.objs]; exact h.closed s ck t hs
  · intro c hc
    have h1 := hsh.objs .cell; have h2 := hsh.objs .univ
    simp only [Prob.coll] at h1 h2
    rw [h1] at hc; rw [h2, hsh.cell]; exact h.univ c hc
  · intro c hc u hu
    have h1 := hsh.objs .cell; have h2 := hsh.objs .univ
    simp only [Prob.coll] at h1 h2
    rw [h1] at hc; rw [hsh.cell] at hu; rw [h2]; exact h.fill c hc u hu
  · intro hd c hc
    have h1 := hsh.objs .cell
    simp only [Prob.coll] at h1
    rw [h1] at hc; rw [hsh.fillData] at hd; rw [hsh.cell]; exact h.fillOne hd c hc
  · intro m hm
    have h1 := hsh.objs .mat
    simp only [Prob.coll] at h1
    rw [h1] at hm
    have := setNumber_num p k o n .mat m
    simp only [Prob.num, Prob.coll] at this
    rw [this]
    split
    · rename_i hc
      have := setNumber_ok_pos (s := p.coll k) hc.1
      omega
    · exact h.matPos m hm

theorem run_wf (p : Prob) (h : WF p) (ops : List Op) : WF (run p ops) ∧ SameShape p (run p ops) := by
  induction ops generalizing p with
  | nil => exact ⟨h, SameShape.refl p⟩
  | cons op t ih =>
    have h1 := C04_wf_step p h op
    have := ih (step p op).1 h1
    exact ⟨this.1, (setNumber_shape p op.kind op.obj op.n).trans this.2⟩

/-- **C04_only** — one assignment `o.number = n` (kind `k`) changes, in the written file, the own
    number of `o` and the text of exactly the references to `o` — and only if the setter accepted it:
    every card keeps its position; every card number and every number written at a reference site is
    the old one unless the card / the pointer at the site is `o` itself; every `U`/`FILL` entry is
    the old one unless its universe object is `o`. -/
theorem C04_only (p : Prob) (h : WF p) (k : Kind) (o : ObjId) (n : Int) :
    let p' := (setNumber p k o n).1
    let hit := fun (k' : Kind) (x : ObjId) => (setNumber p k o n).2 = .ok ∧ k' = k ∧ x = o
    SameShape p p' ∧
    (∀ ck, (write p').numbers ck =
      (p.coll (kindOf ck)).objs.map (fun x => if hit (kindOf ck) x then n else p.num (kindOf ck) x)) ∧
    (∀ s, (write p').at s =
      (p.ptr s).map (fun x => (x.1, if hit (kindOf x.1) x.2 then n else p.num (kindOf x.1) x.2))) ∧
    (∀ c x, p.cells.objs[c]? = some x →
      (write p').effU c = (if hit .univ (p.cell x).univ then n else p.univs.num (p.cell x).univ) ∧
      (write p').effFill c = (p.cell x).fill.map (fun u => if hit .univ u then n else p.univs.num u)) := by
  intro p' hit
  have hsh := setNumber_shape p k o n
  have hwf : WF p' := C04_wf_step p h ⟨k, o, n⟩
  refine ⟨hsh, ?_, ?_, ?_⟩
  · intro ck
    rw [numbers_write, hsh.objs]
    apply List.map_congr_left
    intro x _
    exact setNumber_num p k o n (kindOf ck) x
  · intro s
    rw [at_write p' hwf.matPos hwf.closed, hsh.ptr]
    cases p.ptr s with
    | none => rfl
    | some x => simp only [Option.map_some]; rw [setNumber_num]
  · intro c x hc
    have hc' : p'.cells.objs[c]? = some x := by
      have := hsh.objs .cell; simp only [Prob.coll] at this; rw [this]; exact hc
    have hu := setNumber_num p k o n .univ
    simp only [Prob.num, Prob.coll] at hu
    refine ⟨?_, ?_⟩
    · rw [effU_write p' c x hc', hsh.cell, hu]
    · rw [effFill_write p' hwf.fillOne c x hc', hsh.cell]
      apply List.map_congr_left
      intro u _
      exact hu u

/-- **C04_history** — for EVERY sequence of number assignments (accepted or rejected by the setters;
    no bound on its length) and every card reference of the problem: the cards keep their positions
    (object identity = card index), and the number written at the site after the history resolves —
    by MCNP's look-up in the written file — to the same card as the number written before it: the
    card of the object the reference points at. -/
theorem C04_history (p : Prob) (h : WF p) (ops : List Op) :
    (∀ k, ((run p ops).coll k).objs = (p.coll k).objs) ∧
    ∀ s ck o, p.ptr s = some (ck, o) →
      ∃ n n', (write p).at s = some (ck, n) ∧ (write (run p ops)).at s = some (ck, n') ∧
        resolve (write (run p ops)) ck n' = resolve (write p) ck n ∧
        resolve (write p) ck n = some (cardIdx p ck o) := by
  obtain ⟨hwf, hsh⟩ := run_wf p h ops
  refine ⟨hsh.objs, ?_⟩
  intro s ck o hs
  obtain ⟨n, h1, h2, _⟩ := C04_resolve p h s ck o hs
  obtain ⟨n', h1', h2', _⟩ := C04_resolve (run p ops) hwf s ck o (by rw [hsh.ptr]; exact hs)
  refine ⟨n, n', h1, h1', ?_, h2⟩
  rw [h2', h2]
  simp [cardIdx, hsh.objs]

/-- **C04_history_universe** — the same for universes: after every history the cells that carry, in
    the written file, the number written at a cell's `U` entry / at any of its `FILL` entries are
    the same cells as before the history. -/
theorem C04_history_universe (p : Prob) (h : WF p) (ops : List Op) (c : Nat) (x : ObjId)
    (hc : p.cells.objs[c]? = some x) :
    (write (run p ops)).cellsIn ((write (run p ops)).effU c) = (write p).cellsIn ((write p).effU c) ∧
    (write (run p ops)).effFill c = (p.cell x).fill.map (run p ops).univs.num ∧
    (write p).effFill c = (p.cell x).fill.map p.univs.num ∧
    ∀ u ∈ (p.cell x).fill,
      (write (run p ops)).cellsIn ((run p ops).univs.num u) = (write p).cellsIn (p.univs.num u) := by
  obtain ⟨hwf, hsh⟩ := run_wf p h ops
  have hcells := hsh.objs .cell
  have hunivs := hsh.objs .univ
  simp only [Prob.coll] at hcells hunivs
  have hc' : (run p ops).cells.objs[c]? = some x := by rw [hcells]; exact hc
  have hmem : x ∈ p.cells.objs := List.mem_of_getElem? hc
  have r0 := C04_resolve_universe p h
  have r1 := C04_resolve_universe (run p ops) hwf
  have hmm : ∀ u, members (run p ops) u = members p u := by
    intro u; simp [members, hcells, hsh.cell]
  refine ⟨?_, ?_, (r0.1 c x hc).2, ?_⟩
  · rw [(r1.1 c x hc').1, (r0.1 c x hc).1, hsh.cell]
    rw [r1.2 _ (by rw [hunivs]; exact h.univ x hmem), r0.2 _ (h.univ x hmem), hmm]
  · rw [(r1.1 c x hc').2, hsh.cell]
  · intro u hu
    rw [r1.2 u (by rw [hunivs]; exact h.fill x hmem u hu), r0.2 u (h.fill x hmem u hu), hmm]

/-! ### swap through a temporary number -/

theorem setNumber_ok_of_fresh {s : St} {o : ObjId} {n : Int} (hn : 0 < n) (hf : n ∉ s.objs.map s.num) :
    (Collection.setNumber s o n).2 = .ok := by
  unfold Collection.setNumber
  have : ¬ n ≤ 0 := by omega
  simp only [this, if_false]
  split
  · have hck : (checkNumber s n).2 = .ok := by
      rcases checkNumber_out s n with h | h
      · exact h
      · exfalso
        unfold checkNumber at h
        split at h
        rename_i s1 found heq
        have h2 : found = (inNumbers s n).2 := by rw [heq]
        split at h
        · rename_i hfound
          rw [h2] at hfound
          exact hf ((inNumbers_found s n).mp hfound)
        · simp at h
    simp [hck]
  · rfl

/-- **C04_swap** — `a.number = tmp; b.number = (old a); a.number = (old b)` with a free temporary
    number is accepted at every step and swaps the two numbers: afterwards `a` carries `b`'s old
    number, `b` carries `a`'s, every other number of every kind is unchanged, and the objects and
    pointers are the same — so by `C04_only`/`at_write` the written file has the two numbers swapped
    on the two cards and at every reference to either, and nothing else changed. -/
theorem C04_swap (p : Prob) (h : WF p) (k : Kind) (a b : ObjId) (tmp : Int)
    (ha : a ∈ (p.coll k).objs) (hb : b ∈ (p.coll k).objs) (hab : a ≠ b)
    (hpa : 0 < p.num k a) (hpb : 0 < p.num k b)
    (htmp : 0 < tmp) (hfree : tmp ∉ (p.coll k).objs.map (p.coll k).num) :
    let ops : List Op := [⟨k, a, tmp⟩, ⟨k, b, p.num k a⟩, ⟨k, a, p.num k b⟩]
    let p' := run p ops
    SameShape p p' ∧ WF p' ∧
    ∀ k' x, p'.num k' x =
      if k' = k ∧ x = a then p.num k b else if k' = k ∧ x = b then p.num k a else p.num k' x := by
  intro ops p'
  obtain ⟨hwf, hsh⟩ := run_wf p h ops
  refine ⟨hsh, hwf, ?_⟩
  have hinj := @inj_of_nodup_map _ _ (p.coll k).num _ (h.inv k).nodup
  -- step 1
  have ok1 : (setNumber p k a tmp).2 = .ok := setNumber_ok_of_fresh htmp hfree
  have n1 := setNumber_num p k a tmp
  simp only [ok1, true_and] at n1
  generalize hp1 : (setNumber p k a tmp).1 = p1 at n1
  have sh1 : SameShape p p1 := hp1 ▸ setNumber_shape p k a tmp
  -- step 2: a's old number is free now
  have f2 : p.num k a ∉ (p1.coll k).objs.map (p1.coll k).num := by
    intro hm
    obtain ⟨x, hx, hxe⟩ := List.mem_map.mp hm
    rw [sh1.objs] at hx
    have := n1 k x
    simp only [Prob.num] at this hxe
    rw [this] at hxe
    by_cases e : x = a
    · subst e
      simp at hxe
      exact hfree (hxe ▸ List.mem_map_of_mem ha)
    · simp [e] at hxe
      exact e (hinj hx ha hxe)
  have ok2 : (setNumber p1 k b (p.num k a)).2 = .ok := setNumber_ok_of_fresh hpa f2
  have n2 := setNumber_num p1 k b (p.num k a)
  simp only [ok2, true_and] at n2
  generalize hp2 : (setNumber p1 k b (p.num k a)).1 = p2 at n2
  have sh2 : SameShape p1 p2 := hp2 ▸ setNumber_shape p1 k b (p.num k a)
  -- step 3: b's old number is free now
  have f3 : p.num k b ∉ (p2.coll k).objs.map (p2.coll k).num := by
    intro hm
    obtain ⟨x, hx, hxe⟩ := List.mem_map.mp hm
    rw [sh2.objs, sh1.objs] at hx
    have e2 := n2 k x
    have e1 := n1 k x
    simp only [Prob.num] at e1 e2 hxe
    rw [e2] at hxe
    by_cases eb : x = b
    · subst eb
      simp at hxe
      exact hab (hinj ha hx hxe)
    · simp [eb] at hxe
      rw [e1] at hxe
      by_cases ea : x = a
      · subst ea
        simp at hxe
        exact hfree (hxe ▸ List.mem_map_of_mem hb)
      · simp [ea] at hxe
        exact eb (hinj hx hb hxe)
  have ok3 : (setNumber p2 k a (p.num k b)).2 = .ok := setNumber_ok_of_fresh hpb f3
  have n3 := setNumber_num p2 k a (p.num k b)
  simp only [ok3, true_and] at n3
  intro k' x
  have hp' : p' = (setNumber p2 k a (p.num k b)).1 := by
    show run p ops = _
    simp only [ops, run, List.foldl, step]
    rw [hp1, hp2]
  rw [hp', n3, n2, n1]
  by_cases ek : k' = k
  · subst ek
    by_cases ea : x = a
    · simp [ea]
    · by_cases eb : x = b
      · simp [ea, eb]
      · simp [ea, eb]
  · simp [ek]

/-! ### linking: the collections MontePy builds from a file with unique numbers satisfy C06's invariant -/

theorem mkColl_inv (nums : List Int) (h : nums.Nodup) : Inv (mkColl nums) ∧ (mkColl nums).owned = true := by
  refine ⟨⟨?_, ?_, ?_⟩, rfl⟩
  · show ((List.range nums.length).map (fun o => nums.getD o 0)).Nodup
    have : (List.range nums.length).map (fun o => nums.getD o 0) = nums := by
      apply List.ext_getElem
      · simp
      · intro i h1 h2
        simp [List.getD_eq_getElem?_getD]
        have : i < nums.length := by simpa using h1
        simp [this]
    rw [this]; exact h
  · intro x hx; cases hx
  · intro _ o _; rfl

theorem pushUniverses_nodup : ∀ (us acc : List Int), acc.Nodup → (pushUniverses acc us).Nodup
  | [], acc, h => h
  | u :: t, acc, h => by
    simp only [pushUniverses]
    split
    · exact pushUniverses_nodup t acc h
    · rename_i hu
      apply pushUniverses_nodup t
      rw [List.nodup_append]
      refine ⟨h, by simp, ?_⟩
      intro a ha b hb
      simp at hb; subst hb
      exact fun e => hu (e ▸ ha)

/-- **C04_link_wf** — the five collections of a problem linked from a file whose cards carry unique
    numbers per block satisfy C06's invariant and are owned by the problem: the hypothesis of
    `C04_resolve`/`C04_history` is established by reading, and kept by `C04_wf_step`.
    (The universes collection has unique numbers whatever the file says.) -/
theorem C04_link_wf (wf : WFile) (p : Prob) (hl : link wf = some p)
    (hu : ∀ ck, (wf.numbers ck).Nodup) :
    ∀ k, Inv (p.coll k) ∧ (p.coll k).owned = true := by
  simp only [link] at hl
  split at hl
  · cases hl
    intro k
    cases k
    · exact mkColl_inv _ (hu .cell)
    · exact mkColl_inv _ (hu .surf)
    · exact mkColl_inv _ (hu .mat)
    · exact mkColl_inv _ (hu .tr)
    · exact mkColl_inv _ (pushUniverses_nodup _ [] List.nodup_nil)
  · cases hl

/-! ### Non-vacuity: a concrete problem with every kind of reference satisfies the hypotheses -/

/-- cells 10, 20 (cell 20 = `2 … -1 #10 u=5`, cell 10 filled with universe 5 through transform 3),
    surfaces 1 (transform 3) and 2 (periodic with 1), material 7 with MT, transform 3 -/
def exFile : WFile :=
  { cells := [{ number := 10, mat := 7, geom := [(false, 1), (false, 2)], u := none, fill := [5], fillTr := some 3 },
              { number := 20, mat := 0, geom := [(false, 1), (true, 10)], u := some 5, fill := [], fillTr := none }]
    surfs := [{ number := 1, tr := some 3, per := none }, { number := 2, tr := none, per := some 1 }]
    mats := [{ number := 7, mt := some 7 }]
    trs := [3]
    uCard := none
    fillCard := none }

/-- the linked problem of `exFile`, written out (object `i` of a kind is card `i`; universes: 0 ↦ 0, 1 ↦ 5) -/
def exProb : Prob :=
  { cells := mkColl [10, 20], surfs := mkColl [1, 2], mats := mkColl [7], trs := mkColl [3], univs := mkColl [0, 5]
    cell := fun o => if o = 0 then { mat := some 0, geom := [⟨false, 0⟩, ⟨false, 1⟩], univ := 0, fill := [1], fillTr := some 0 }
                     else { mat := none, geom := [⟨false, 0⟩, ⟨true, 0⟩], univ := 1, fill := [], fillTr := none }
    surf := fun o => if o = 0 then { tr := some 0, per := none } else { tr := none, per := some 0 }
    mat := fun _ => { mt := some 0 }
    uData := false, fillData := false }

example : (link exFile).map write = some exFile := by decide
example : write exProb = exFile := by decide

theorem exProb_wf : WF exProb := by
  refine ⟨?_, ?_, ?_, ?_, ?_, ?_, ?_⟩
  · intro k; cases k <;> exact (mkColl_inv _ (by decide)).1
  · intro k; cases k <;> rfl
  · intro s ck o hs
    cases s with
    | geom c i =>
      match c, i with
      | 0, 0 | 0, 1 | 1, 0 | 1, 1 => simp [Prob.ptr, exProb, mkColl] at hs; obtain ⟨rfl, rfl⟩ := hs; decide
      | 0, (i + 2) | 1, (i + 2) => simp [Prob.ptr, exProb, mkColl] at hs
      | (c + 2), i => simp [Prob.ptr, exProb, mkColl] at hs
    | cellMat c =>
      match c with
      | 0 => simp [Prob.ptr, exProb, mkColl] at hs; obtain ⟨rfl, rfl⟩ := hs; decide
      | 1 => simp [Prob.ptr, exProb, mkColl] at hs
      | (c + 2) => simp [Prob.ptr, exProb, mkColl] at hs
    | mt m =>
      match m with
      | 0 => simp [Prob.ptr, exProb, mkColl] at hs; obtain ⟨rfl, rfl⟩ := hs; decide
      | (m + 1) => simp [Prob.ptr, exProb, mkColl] at hs
    | surfTr s =>
      match s with
      | 0 => simp [Prob.ptr, exProb, mkColl] at hs; obtain ⟨rfl, rfl⟩ := hs; decide
      | 1 => simp [Prob.ptr, exProb, mkColl] at hs
      | (s + 2) => simp [Prob.ptr, exProb, mkColl] at hs
    | surfPer s =>
      match s with
      | 0 => simp [Prob.ptr, exProb, mkColl] at hs
      | 1 => simp [Prob.ptr, exProb, mkColl] at hs; obtain ⟨rfl, rfl⟩ := hs; decide
      | (s + 2) => simp [Prob.ptr, exProb, mkColl] at hs
    | fillTr c =>
      match c with
      | 0 => simp [Prob.ptr, exProb, mkColl] at hs; obtain ⟨rfl, rfl⟩ := hs; decide
      | 1 => simp [Prob.ptr, exProb, mkColl] at hs
      | (c + 2) => simp [Prob.ptr, exProb, mkColl] at hs
  · intro c hc
    simp [exProb, mkColl] at hc
    have : c = 0 ∨ c = 1 := by
      rcases c with _ | _ | c
      · exact Or.inl rfl
      · exact Or.inr rfl
      · omega
    rcases this with rfl | rfl <;> simp [exProb, mkColl]
  · intro c hc u hu
    simp [exProb, mkColl] at hc
    have : c = 0 ∨ c = 1 := by
      rcases c with _ | _ | c
      · exact Or.inl rfl
      · exact Or.inr rfl
      · omega
    rcases this with rfl | rfl
    · simp [exProb] at hu
      subst hu
      simp [exProb, mkColl]
    · simp [exProb] at hu
  · intro hd; simp [exProb] at hd
  · intro m hm; simp [exProb, mkColl] at hm ⊢; subst hm; decide

/-- the hypotheses of `C04_resolve` / `C04_history` are met by real references … -/
example : exProb.ptr (.geom 1 1) = some (.cell, 0) := by decide
example : exProb.ptr (.surfPer 1) = some (.surf, 0) := by decide
example : exProb.ptr (.fillTr 0) = some (.tr, 0) := by decide
/-- … a swap through a temporary really changes the file as `C04_swap` says (cells 10 ↔ 20) … -/
example : (write (run exProb [⟨.cell, 0, 99⟩, ⟨.cell, 1, 10⟩, ⟨.cell, 0, 20⟩])).cells.map (fun c => (c.number, c.geom)) =
    [(20, [(false, 1), (false, 2)]), (10, [(false, 1), (true, 20)])] := by decide
/-- … rejected assignments occur in histories (number in use) … -/
example : (step exProb ⟨.surf, 0, 2⟩).2 = .err .numberConflict := by decide
/-- … and without unique numbers the look-up does not resolve (why `Inv` is needed): two surfaces numbered 1. -/
example : resolve { exFile with surfs := [{ number := 1, tr := none, per := none }, { number := 1, tr := none, per := none }] } .surf 1 = none := by
  decide

end MontePyVerif.Renumber
