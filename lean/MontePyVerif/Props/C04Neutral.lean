import MontePyVerif.Props.C04Core
/-!
# C04 — histories with operations that are not number assignments (round 7, seeded C04e)

The property says "after any sequence of renumberings … every reference resolves to the same object as
before".  Between the renumberings and the write a user may call operations that assign no number and
take no reference away: `problem.add_cell_children_to_problem()` (`Edit.relink`: every surface, material
and transform is linked to the problem again and the three collections are rebuilt, sorted by number) and
`cell.geometry = cell.geometry & ±surface` / `& ~cell` (`Edit.addLeaf`: one more leaf).  The theorems
below extend `C04_wf_step` / `C04_history` to histories `List Edit`:

* `C04_relink_frame` — `add_cell_children_to_problem` changes no number and no pointer field, and the
  collections have the same members (the order of surfaces, materials and transforms may change);
* `C04_wf_stepE` — well-formedness is preserved by every edit;
* `C04_history_neutral` — after every history of edits every pointer field is the one before the history
  (a cell's leaves: the old ones followed by the added ones), and at every site of the final state the number
  written resolves, by MCNP's look-up in the written file, to the card of the object the pointer holds.
-/
namespace MontePyVerif.Renumber
open MontePyVerif.Collection
open MontePyVerif.Spec.Refs

/-! ### sorting and `unique` keep the members -/

theorem mem_insertByNum (num : ObjId → Int) (o x : ObjId) (l : List ObjId) :
    x ∈ insertByNum num o l ↔ x = o ∨ x ∈ l := by
  induction l with
  | nil => simp [insertByNum]
  | cons a t ih =>
    simp only [insertByNum]
    split
    · simp
    · simp only [List.mem_cons, ih]
      constructor
      · rintro (h | h | h)
        · exact Or.inr (Or.inl h)
        · exact Or.inl h
        · exact Or.inr (Or.inr h)
      · rintro (h | h | h)
        · exact Or.inr (Or.inl h)
        · exact Or.inl h
        · exact Or.inr (Or.inr h)

theorem mem_sortByNum (num : ObjId → Int) (x : ObjId) (l : List ObjId) : x ∈ sortByNum num l ↔ x ∈ l := by
  induction l with
  | nil => simp [sortByNum]
  | cons a t ih =>
    show x ∈ insertByNum num a (sortByNum num t) ↔ _
    rw [mem_insertByNum, ih, List.mem_cons]

theorem mem_uniqueById (x : ObjId) : ∀ (l acc : List ObjId), x ∈ uniqueById acc l ↔ x ∈ acc ∨ x ∈ l
  | [], acc => by simp [uniqueById]
  | o :: t, acc => by
    simp only [uniqueById]
    split
    · rename_i h
      rw [mem_uniqueById x t acc]
      constructor
      · rintro (h1 | h1)
        · exact Or.inl h1
        · exact Or.inr (List.mem_cons_of_mem _ h1)
      · rintro (h1 | h1)
        · exact Or.inl h1
        · rcases List.mem_cons.mp h1 with e | h2
          · exact Or.inl (e ▸ h)
          · exact Or.inr h2
    · rw [mem_uniqueById x t (acc ++ [o])]
      simp only [List.mem_append, List.mem_cons, List.not_mem_nil, or_false]
      constructor
      · rintro ((h1 | h1) | h1)
        · exact Or.inl h1
        · exact Or.inr (Or.inl h1)
        · exact Or.inr (Or.inr h1)
      · rintro (h1 | h1 | h1)
        · exact Or.inl (Or.inl h1)
        · exact Or.inl (Or.inr h1)
        · exact Or.inr h1

/-- a rebuilt collection (`Surfaces(sorted list, problem=self)`, every member linked) satisfies C06's invariant -/
theorem rebuild_some {s s' : St} {os : List ObjId} (h : rebuild s os = some s') :
    s'.objs = os ∧ s'.num = s.num ∧ s'.owned = true ∧ Inv s' := by
  unfold rebuild at h
  split at h
  · rename_i hnd
    cases h
    refine ⟨rfl, rfl, rfl, ⟨hnd, ?_, ?_⟩⟩
    · exact setAll_cacheOK _ _ _ _ (fun p hp => by cases hp) (fun o ho => ho)
    · intro _ o ho
      show (if o ∈ os then true else s.link o) = true
      rw [if_pos ho]
  · cases h

/-! ### the frame of a reference-preserving operation -/

/-- `q` has the numbers and the pointer fields of `p`, the same cells and universes, and the same surfaces,
    materials and transforms as members (possibly in another order) -/
structure SameLinks (p q : Prob) : Prop where
  cells : q.cells = p.cells
  univs : q.univs = p.univs
  num : ∀ k, (q.coll k).num = (p.coll k).num
  owned : ∀ k, (q.coll k).owned = true
  mem : ∀ k o, o ∈ (q.coll k).objs ↔ o ∈ (p.coll k).objs
  cell : q.cell = p.cell
  surf : q.surf = p.surf
  mat : q.mat = p.mat
  uData : q.uData = p.uData
  fillData : q.fillData = p.fillData

/-- well-formedness only depends on what `SameLinks` keeps (and on C06's invariant of the collections) -/
theorem WF.of_sameLinks {p q : Prob} (h : WF p) (L : SameLinks p q) (hinv : ∀ k, Inv (q.coll k)) : WF q := by
  refine ⟨hinv, L.owned, ?_, ?_, ?_, ?_, ?_⟩
  · intro s ck o hs
    cases s with
    | geom c i =>
      have : p.ptr (.geom c i) = some (ck, o) := by
        simp only [Prob.ptr, L.cells, L.cell] at hs; exact hs
      exact (L.mem _ o).mpr (h.closed _ ck o this)
    | cellMat c =>
      have : p.ptr (.cellMat c) = some (ck, o) := by
        simp only [Prob.ptr, L.cells, L.cell] at hs; exact hs
      exact (L.mem _ o).mpr (h.closed _ ck o this)
    | fillTr c =>
      have : p.ptr (.fillTr c) = some (ck, o) := by
        simp only [Prob.ptr, L.cells, L.cell, L.fillData] at hs; exact hs
      exact (L.mem _ o).mpr (h.closed _ ck o this)
    | mt m =>
      simp only [Prob.ptr] at hs
      cases hx : q.mats.objs[m]? with
      | none => rw [hx] at hs; cases hs
      | some x =>
        rw [hx, Option.bind_some, L.mat] at hs
        have hxp : x ∈ p.mats.objs := (L.mem .mat x).mp (List.mem_of_getElem? hx)
        obtain ⟨j, hj⟩ := List.getElem?_of_mem hxp
        have : p.ptr (.mt j) = some (ck, o) := by
          simp only [Prob.ptr, hj, Option.bind_some]; exact hs
        exact (L.mem _ o).mpr (h.closed _ ck o this)
    | surfTr m =>
      simp only [Prob.ptr] at hs
      cases hx : q.surfs.objs[m]? with
      | none => rw [hx] at hs; cases hs
      | some x =>
        rw [hx, Option.bind_some, L.surf] at hs
        have hxp : x ∈ p.surfs.objs := (L.mem .surf x).mp (List.mem_of_getElem? hx)
        obtain ⟨j, hj⟩ := List.getElem?_of_mem hxp
        have : p.ptr (.surfTr j) = some (ck, o) := by
          simp only [Prob.ptr, hj, Option.bind_some]; exact hs
        exact (L.mem _ o).mpr (h.closed _ ck o this)
    | surfPer m =>
      simp only [Prob.ptr] at hs
      cases hx : q.surfs.objs[m]? with
      | none => rw [hx] at hs; cases hs
      | some x =>
        rw [hx, Option.bind_some, L.surf] at hs
        have hxp : x ∈ p.surfs.objs := (L.mem .surf x).mp (List.mem_of_getElem? hx)
        obtain ⟨j, hj⟩ := List.getElem?_of_mem hxp
        have : p.ptr (.surfPer j) = some (ck, o) := by
          simp only [Prob.ptr, hj, Option.bind_some]; exact hs
        exact (L.mem _ o).mpr (h.closed _ ck o this)
  · intro c hc
    rw [L.cells] at hc; rw [L.univs, L.cell]; exact h.univ c hc
  · intro c hc u hu
    rw [L.cells] at hc; rw [L.cell] at hu; rw [L.univs]; exact h.fill c hc u hu
  · intro hd c hc
    rw [L.cells] at hc; rw [L.fillData] at hd; rw [L.cell]; exact h.fillOne hd c hc
  · intro m hm
    have hm' : m ∈ p.mats.objs := (L.mem .mat m).mp hm
    have hn := L.num .mat
    simp only [Prob.coll] at hn
    rw [hn]; exact h.matPos m hm'

/-! ### what the cells use is in the problem (object form of `WF.closed`) -/

theorem cellSurfaces_mem {p : Prob} (h : WF p) {x : ObjId} (hx : x ∈ cellSurfaces p) : x ∈ p.surfs.objs := by
  simp only [cellSurfaces, List.mem_flatMap, List.mem_map, List.mem_filter] at hx
  obtain ⟨c, hc, l, ⟨hl, hnc⟩, rfl⟩ := hx
  obtain ⟨j, hj⟩ := List.getElem?_of_mem hc
  obtain ⟨i, hi⟩ := List.getElem?_of_mem hl
  have hcell : l.isCell = false := by simpa using hnc
  have : p.ptr (.geom j i) = some (CardKind.surf, l.target) := by
    simp [Prob.ptr, hj, hi, hcell]
  exact h.closed _ _ _ this

theorem cellMaterials_mem {p : Prob} (h : WF p) {x : ObjId}
    (hx : x ∈ p.cells.objs.filterMap (fun c => (p.cell c).mat)) : x ∈ p.mats.objs := by
  simp only [List.mem_filterMap] at hx
  obtain ⟨c, hc, hm⟩ := hx
  obtain ⟨j, hj⟩ := List.getElem?_of_mem hc
  have : p.ptr (.cellMat j) = some (CardKind.mat, x) := by
    simp [Prob.ptr, hj, hm]
  exact h.closed _ _ _ this

theorem cellTransforms_mem {p : Prob} (h : WF p) {x : ObjId}
    (hx : x ∈ (cellSurfaces p).filterMap (fun s => (p.surf s).tr)) : x ∈ p.trs.objs := by
  simp only [List.mem_filterMap] at hx
  obtain ⟨s, hs, ht⟩ := hx
  obtain ⟨j, hj⟩ := List.getElem?_of_mem (cellSurfaces_mem h hs)
  have : p.ptr (.surfTr j) = some (CardKind.tr, x) := by
    simp [Prob.ptr, hj, ht]
  exact h.closed _ _ _ this

/-- **C04_relink_frame** — `problem.add_cell_children_to_problem()` on a well-formed problem, whatever numbers the
    objects carry at that moment: no number changes, no pointer field changes (in particular `Surface._transform`
    and `Surface._periodic_surface` are NOT looked up again by the numbers of the cards), cells and universes are
    untouched, the surfaces, materials and transforms of the problem are the same objects (sorted by number), and
    C06's invariant holds for the rebuilt collections. -/
theorem C04_relink_frame (p : Prob) (h : WF p) :
    SameLinks p (addCellChildrenToProblem p).1 ∧ ∀ k, Inv ((addCellChildrenToProblem p).1.coll k) := by
  dsimp only [addCellChildrenToProblem]
  split
  · rename_i s' m' t' hs hm ht
    obtain ⟨so, sn, sw, si⟩ := rebuild_some hs
    obtain ⟨mo, mn, mw, mi⟩ := rebuild_some hm
    obtain ⟨to, tn, tw, ti⟩ := rebuild_some ht
    refine ⟨⟨rfl, rfl, ?_, ?_, ?_, rfl, rfl, rfl, rfl, rfl⟩, ?_⟩
    · intro k; cases k <;> simp only [Prob.coll] <;> first | rfl | assumption
    · intro k; cases k <;> simp only [Prob.coll]
      · exact h.owned .cell
      · exact sw
      · exact mw
      · exact tw
      · exact h.owned .univ
    · intro k o
      cases k <;> simp only [Prob.coll]
      · rw [so, mem_sortByNum, mem_uniqueById, List.mem_append]
        constructor
        · rintro (h1 | h1 | h1)
          · cases h1
          · exact h1
          · exact cellSurfaces_mem h h1
        · exact fun h1 => Or.inr (Or.inl h1)
      · rw [mo, mem_sortByNum, mem_uniqueById, List.mem_append]
        constructor
        · rintro (h1 | h1 | h1)
          · cases h1
          · exact h1
          · exact cellMaterials_mem h h1
        · exact fun h1 => Or.inr (Or.inl h1)
      · rw [to, mem_sortByNum, mem_uniqueById, List.mem_append]
        constructor
        · rintro (h1 | h1 | h1)
          · cases h1
          · exact h1
          · exact cellTransforms_mem h h1
        · exact fun h1 => Or.inr (Or.inl h1)
    · intro k; cases k <;> simp only [Prob.coll]
      · exact h.inv .cell
      · exact si
      · exact mi
      · exact ti
      · exact h.inv .univ
  · exact ⟨⟨rfl, rfl, fun _ => rfl, h.owned, fun _ _ => Iff.rfl, rfl, rfl, rfl, rfl, rfl⟩, h.inv⟩

/-! ### a geometry edit that adds a leaf -/

/-- the edit is applicable: a leaf added to a cell of the problem names a cell / surface of the problem
    (`cell.geometry & +problem.surfaces[n]`); number assignments and `relink` are always applicable -/
def Edit.Applicable (p : Prob) : Edit → Prop
  | .addLeaf c l => c ∈ p.cells.objs → l.target ∈ (if l.isCell then p.cells.objs else p.surfs.objs)
  | _ => True

theorem addLeaf_coll (p : Prob) (c : ObjId) (l : Leaf) (k : Kind) : (addLeaf p c l).coll k = p.coll k := by
  cases k <;> rfl

theorem addLeaf_cell (p : Prob) (c : ObjId) (l : Leaf) (x : ObjId) :
    ((addLeaf p c l).cell x).mat = (p.cell x).mat ∧ ((addLeaf p c l).cell x).univ = (p.cell x).univ ∧
    ((addLeaf p c l).cell x).fill = (p.cell x).fill ∧ ((addLeaf p c l).cell x).fillTr = (p.cell x).fillTr ∧
    ((addLeaf p c l).cell x).geom = if x = c then (p.cell x).geom ++ [l] else (p.cell x).geom := by
  simp only [addLeaf]
  by_cases e : x = c
  · subst e; simp
  · simp [e]

theorem addLeaf_wf (p : Prob) (h : WF p) (c : ObjId) (l : Leaf) (ha : Edit.Applicable p (.addLeaf c l)) :
    WF (addLeaf p c l) := by
  have hq := addLeaf_cell p c l
  refine ⟨fun k => by rw [addLeaf_coll]; exact h.inv k, fun k => by rw [addLeaf_coll]; exact h.owned k, ?_, ?_, ?_, ?_, h.matPos⟩
  · intro s ck o hs
    rw [addLeaf_coll]
    cases s with
    | geom j i =>
      simp only [Prob.ptr] at hs
      have hcs : (addLeaf p c l).cells = p.cells := rfl
      rw [hcs] at hs
      cases hx : p.cells.objs[j]? with
      | none => rw [hx] at hs; cases hs
      | some x =>
        rw [hx, Option.bind_some, (hq x).2.2.2.2] at hs
        by_cases e : x = c
        · rw [if_pos e, List.getElem?_append] at hs
          split at hs
          · have : p.ptr (.geom j i) = some (ck, o) := by
              simp only [Prob.ptr, hx, Option.bind_some]; exact hs
            exact h.closed _ ck o this
          · cases hl : [l][i - (p.cell x).geom.length]? with
            | none => rw [hl] at hs; cases hs
            | some l' =>
              have hl' : l' = l := by
                have := List.mem_of_getElem? hl
                simpa using this
              subst hl'
              rw [hl, Option.map_some] at hs
              have hmem := ha (e ▸ List.mem_of_getElem? hx)
              by_cases hc : l'.isCell = true
              · simp only [hc, if_true, Option.some.injEq, Prod.mk.injEq] at hs hmem
                obtain ⟨rfl, rfl⟩ := hs
                exact hmem
              · have hc' : l'.isCell = false := by simpa using hc
                simp only [hc', Bool.false_eq_true, if_false, Option.some.injEq, Prod.mk.injEq] at hs hmem
                obtain ⟨rfl, rfl⟩ := hs
                exact hmem
        · rw [if_neg e] at hs
          have : p.ptr (.geom j i) = some (ck, o) := by
            simp only [Prob.ptr, hx, Option.bind_some]; exact hs
          exact h.closed _ ck o this
    | cellMat j =>
      have : p.ptr (.cellMat j) = some (ck, o) := by
        simp only [Prob.ptr] at hs ⊢
        have hcs : (addLeaf p c l).cells = p.cells := rfl
        rw [hcs] at hs
        simpa only [(hq _).1] using hs
      exact h.closed _ ck o this
    | fillTr j =>
      have : p.ptr (.fillTr j) = some (ck, o) := by
        simp only [Prob.ptr] at hs ⊢
        have hcs : (addLeaf p c l).cells = p.cells := rfl
        have hfd : (addLeaf p c l).fillData = p.fillData := rfl
        rw [hcs, hfd] at hs
        simpa only [(hq _).2.2.1, (hq _).2.2.2.1] using hs
      exact h.closed _ ck o this
    | mt j => exact h.closed (.mt j) ck o hs
    | surfTr j => exact h.closed (.surfTr j) ck o hs
    | surfPer j => exact h.closed (.surfPer j) ck o hs
  · intro x hx
    rw [(hq x).2.1]; exact h.univ x hx
  · intro x hx u hu
    rw [(hq x).2.2.1] at hu; exact h.fill x hx u hu
  · intro hd x hx
    rw [(hq x).2.2.1]; exact h.fillOne hd x hx

/-- **C04_wf_stepE** — well-formedness (unique numbers in all five collections, every pointer at a member) is an
    invariant of every operation of a history: number assignments (accepted or rejected, `C04_wf_step`),
    `add_cell_children_to_problem` (`C04_relink_frame`) and geometry edits that add a leaf. -/
theorem C04_wf_stepE (p : Prob) (h : WF p) (e : Edit) (ha : e.Applicable p) : WF (stepE p e).1 := by
  cases e with
  | num op => exact C04_wf_step p h op
  | relink =>
    obtain ⟨L, hinv⟩ := C04_relink_frame p h
    exact h.of_sameLinks L hinv
  | addLeaf c l => exact addLeaf_wf p h c l ha

/-- every edit of the history is applicable in the state it is applied in -/
def ApplicableRun : Prob → List Edit → Prop
  | _, [] => True
  | p, e :: t => e.Applicable p ∧ ApplicableRun (stepE p e).1 t

/-- the leaves a history adds to cell `c`, in order -/
def addedLeaves (c : ObjId) : List Edit → List Leaf
  | [] => []
  | .addLeaf c' l :: t => if c' = c then l :: addedLeaves c t else addedLeaves c t
  | _ :: t => addedLeaves c t

/-- the pointer fields of `q` are those of `p` with the leaves `extra` added behind the geometry of each cell;
    the cells and universes are the same objects in the same order, the other collections have the same members -/
structure LinksKept (p q : Prob) (extra : ObjId → List Leaf) : Prop where
  cellObjs : q.cells.objs = p.cells.objs
  univObjs : q.univs.objs = p.univs.objs
  mem : ∀ k o, o ∈ (q.coll k).objs ↔ o ∈ (p.coll k).objs
  surf : q.surf = p.surf
  mat : q.mat = p.mat
  cellMat : ∀ c, (q.cell c).mat = (p.cell c).mat
  cellUniv : ∀ c, (q.cell c).univ = (p.cell c).univ
  cellFill : ∀ c, (q.cell c).fill = (p.cell c).fill
  cellFillTr : ∀ c, (q.cell c).fillTr = (p.cell c).fillTr
  cellGeom : ∀ c, (q.cell c).geom = (p.cell c).geom ++ extra c

theorem stepE_linksKept (p : Prob) (h : WF p) (e : Edit) :
    LinksKept p (stepE p e).1 (fun c => addedLeaves c [e]) := by
  cases e with
  | num op =>
    have hsh := setNumber_shape p op.kind op.obj op.n
    have hc := hsh.objs .cell; have hu := hsh.objs .univ
    simp only [Prob.coll] at hc hu
    exact ⟨hc, hu, fun k o => by rw [show (stepE p (.num op)).1 = (setNumber p op.kind op.obj op.n).1 from rfl, hsh.objs],
      hsh.surf, hsh.mat, fun c => by rw [show (stepE p (.num op)).1 = (setNumber p op.kind op.obj op.n).1 from rfl, hsh.cell],
      fun c => by rw [show (stepE p (.num op)).1 = (setNumber p op.kind op.obj op.n).1 from rfl, hsh.cell],
      fun c => by rw [show (stepE p (.num op)).1 = (setNumber p op.kind op.obj op.n).1 from rfl, hsh.cell],
      fun c => by rw [show (stepE p (.num op)).1 = (setNumber p op.kind op.obj op.n).1 from rfl, hsh.cell],
      fun c => by rw [show (stepE p (.num op)).1 = (setNumber p op.kind op.obj op.n).1 from rfl, hsh.cell]; simp [addedLeaves]⟩
  | relink =>
    obtain ⟨L, _⟩ := C04_relink_frame p h
    show LinksKept p (addCellChildrenToProblem p).1 _
    exact ⟨by rw [L.cells], by rw [L.univs], L.mem, L.surf, L.mat, fun c => by rw [L.cell], fun c => by rw [L.cell],
      fun c => by rw [L.cell], fun c => by rw [L.cell], fun c => by rw [L.cell]; simp [addedLeaves]⟩
  | addLeaf c l =>
    have hq := addLeaf_cell p c l
    show LinksKept p (addLeaf p c l) _
    refine ⟨rfl, rfl, fun k o => by rw [addLeaf_coll], rfl, rfl, fun x => (hq x).1, fun x => (hq x).2.1,
      fun x => (hq x).2.2.1, fun x => (hq x).2.2.2.1, ?_⟩
    intro x
    rw [(hq x).2.2.2.2]
    by_cases e : x = c
    · subst e; simp [addedLeaves]
    · have e' : ¬ c = x := fun h' => e h'.symm
      simp [addedLeaves, e, e']

theorem LinksKept.trans {a b c : Prob} {e1 e2 : ObjId → List Leaf} (h1 : LinksKept a b e1) (h2 : LinksKept b c e2) :
    LinksKept a c (fun x => e1 x ++ e2 x) :=
  ⟨h2.cellObjs.trans h1.cellObjs, h2.univObjs.trans h1.univObjs, fun k o => (h2.mem k o).trans (h1.mem k o),
   h2.surf.trans h1.surf, h2.mat.trans h1.mat, fun x => (h2.cellMat x).trans (h1.cellMat x),
   fun x => (h2.cellUniv x).trans (h1.cellUniv x), fun x => (h2.cellFill x).trans (h1.cellFill x),
   fun x => (h2.cellFillTr x).trans (h1.cellFillTr x),
   fun x => by rw [h2.cellGeom, h1.cellGeom, List.append_assoc]⟩

theorem addedLeaves_cons (c : ObjId) (e : Edit) (t : List Edit) :
    addedLeaves c (e :: t) = addedLeaves c [e] ++ addedLeaves c t := by
  cases e with
  | num op => simp [addedLeaves]
  | relink => simp [addedLeaves]
  | addLeaf c' l =>
    by_cases h : c' = c <;> simp [addedLeaves, h]

theorem runE_wf (p : Prob) (h : WF p) (es : List Edit) (ha : ApplicableRun p es) :
    WF (runE p es) ∧ LinksKept p (runE p es) (fun c => addedLeaves c es) := by
  induction es generalizing p with
  | nil =>
    exact ⟨h, ⟨rfl, rfl, fun _ _ => Iff.rfl, rfl, rfl, fun _ => rfl, fun _ => rfl, fun _ => rfl, fun _ => rfl,
      fun _ => by simp [addedLeaves, runE]⟩⟩
  | cons e t ih =>
    have h1 := C04_wf_stepE p h e ha.1
    obtain ⟨hw, hk⟩ := ih (stepE p e).1 h1 ha.2
    refine ⟨hw, ?_⟩
    have := (stepE_linksKept p h e).trans hk
    have he : (fun c => addedLeaves c (e :: t)) = fun x => addedLeaves x [e] ++ addedLeaves x t := by
      funext c; exact addedLeaves_cons c e t
    rw [he]; exact this

/-- **C04_history_neutral** — for every well-formed problem and EVERY finite history of number assignments
    (accepted or rejected), calls of `add_cell_children_to_problem` and geometry edits that add a leaf, in any
    interleaving (induction over the history): the final state is well-formed; every pointer field is the one
    before the history — the transform and the periodic surface of every surface, the MT parent of every material,
    material, universe, fill and fill transform of every cell, and the leaves of every cell followed by the added
    ones; the collections have the same members; and at EVERY reference site of the final state the number written
    resolves, by MCNP's look-up in the written file, to exactly one card: the card of the object the pointer holds. -/
theorem C04_history_neutral (p : Prob) (h : WF p) (es : List Edit) (ha : ApplicableRun p es) :
    WF (runE p es) ∧ LinksKept p (runE p es) (fun c => addedLeaves c es) ∧
    ∀ s ck o, (runE p es).ptr s = some (ck, o) →
      ∃ n, (write (runE p es)).at s = some (ck, n) ∧
        resolve (write (runE p es)) ck n = some (cardIdx (runE p es) ck o) ∧
        ((runE p es).coll (kindOf ck)).objs[cardIdx (runE p es) ck o]? = some o := by
  obtain ⟨hw, hk⟩ := runE_wf p h es ha
  exact ⟨hw, hk, fun s ck o hs => C04_resolve (runE p es) hw s ck o hs⟩

/-! ### non-vacuity: the example problem, a swap of the two surfaces (a periodic pair), then relink and a new leaf -/

def exEdits : List Edit :=
  [.num ⟨.surf, 0, 99⟩, .num ⟨.surf, 1, 1⟩, .num ⟨.surf, 0, 2⟩, .relink, .addLeaf 1 { isCell := false, target := 0 }]

theorem exEdits_applicable : ApplicableRun exProb exEdits := by
  refine ⟨trivial, trivial, trivial, trivial, ?_, trivial⟩
  intro _
  decide
example : ((runE exProb exEdits).surfs.objs, (write (runE exProb exEdits)).surfs) =
    ((runE exProb (exEdits.take 3)).surfs.objs.reverse, (write (runE exProb (exEdits.take 3))).surfs.reverse) := by decide
example : (runE exProb exEdits).surf = exProb.surf := (C04_history_neutral exProb exProb_wf exEdits exEdits_applicable).2.1.surf

/-! ### histories with writes in between (round 7, seeded C04f) -/

/-- the edits of a history with writes -/
def editsOf (is : List Item) : List Edit := is.filterMap id
/-- how many writes a history contains -/
def writesIn (is : List Item) : Nat := (is.filter Option.isNone).length

theorem editsOf_none (t : List Item) : editsOf (none :: t) = editsOf t := rfl
theorem editsOf_some (e : Edit) (t : List Item) : editsOf (some e :: t) = e :: editsOf t := rfl
theorem writesIn_none (t : List Item) : writesIn (none :: t) = writesIn t + 1 := rfl
theorem writesIn_some (e : Edit) (t : List Item) : writesIn (some e :: t) = writesIn t := rfl
theorem editsOf_append (a b : List Item) : editsOf (a ++ b) = editsOf a ++ editsOf b := by
  simp [editsOf]

theorem applicableRun_append_left (p : Prob) (a b : List Edit) (h : ApplicableRun p (a ++ b)) : ApplicableRun p a := by
  induction a generalizing p with
  | nil => trivial
  | cons e t ih => exact ⟨h.1, ih _ h.2⟩

theorem runW_aux (p : Prob) (fs : List WFile) (is : List Item) :
    (is.foldl stepW (p, fs)).1 = runE p (editsOf is) ∧
    ∃ gs, (is.foldl stepW (p, fs)).2 = fs ++ gs ∧ gs.length = writesIn is ∧
      ∀ pre post, is = pre ++ none :: post → gs[writesIn pre]? = some (write (runE p (editsOf pre))) := by
  induction is generalizing p fs with
  | nil =>
    refine ⟨rfl, [], by simp, rfl, ?_⟩
    intro pre post h
    cases pre <;> simp at h
  | cons i t ih =>
    cases i with
    | none =>
      obtain ⟨h1, gs, h2, h3, h4⟩ := ih p (fs ++ [write p])
      refine ⟨by rw [List.foldl_cons, editsOf_none]; exact h1, write p :: gs, ?_, ?_, ?_⟩
      · rw [List.foldl_cons]; show (List.foldl stepW (p, fs ++ [write p]) t).2 = _
        rw [h2]; simp
      · rw [writesIn_none, List.length_cons, h3]
      · intro pre post h
        cases pre with
        | nil => rfl
        | cons a pre' =>
          rw [List.cons_append] at h
          injection h with ha ht
          subst ha
          rw [writesIn_none, editsOf_none, List.getElem?_cons_succ]
          exact h4 pre' post ht
    | some e =>
      obtain ⟨h1, gs, h2, h3, h4⟩ := ih (stepE p e).1 fs
      refine ⟨by rw [List.foldl_cons, editsOf_some]; exact h1, gs, by rw [List.foldl_cons]; exact h2, by rw [writesIn_some]; exact h3, ?_⟩
      intro pre post h
      cases pre with
      | nil => simp at h
      | cons a pre' =>
        rw [List.cons_append] at h
        injection h with ha ht
        subst ha
        rw [writesIn_some, editsOf_some]
        exact h4 pre' post ht

/-- **C04_history_writes** — for every well-formed problem and EVERY finite history of edits (number assignments
    accepted or rejected, `add_cell_children_to_problem`, added leaves) with ANY number of `write_to_file` calls at any
    places in it (induction over the history): the final problem is the one the history reaches with the writes left
    out; as many files are written as there are writes; and the file of EVERY write is the write of the state the
    edits before it reach — nothing an earlier write did enters it — so that in every such file, at every reference
    site, the number written resolves by MCNP's look-up to exactly one card: the card of the object the pointer holds,
    which is the object it held before the history (`LinksKept`).  In particular an object that leaves its number,
    is written, and returns (its old number handed on to another object or not) is referred to by its number of
    the moment in every file. -/
theorem C04_history_writes (p : Prob) (h : WF p) (is : List Item) (ha : ApplicableRun p (editsOf is)) :
    (runW p is).1 = runE p (editsOf is) ∧ (runW p is).2.length = writesIn is ∧
    ∀ pre post, is = pre ++ none :: post →
      ∃ f, (runW p is).2[writesIn pre]? = some f ∧ f = write (runE p (editsOf pre)) ∧
        WF (runE p (editsOf pre)) ∧ LinksKept p (runE p (editsOf pre)) (fun c => addedLeaves c (editsOf pre)) ∧
        ∀ s ck o, (runE p (editsOf pre)).ptr s = some (ck, o) →
          ∃ n, f.at s = some (ck, n) ∧ resolve f ck n = some (cardIdx (runE p (editsOf pre)) ck o) ∧
            ((runE p (editsOf pre)).coll (kindOf ck)).objs[cardIdx (runE p (editsOf pre)) ck o]? = some o := by
  obtain ⟨h1, gs, h2, h3, h4⟩ := runW_aux p [] is
  refine ⟨h1, ?_, ?_⟩
  · show (is.foldl stepW (p, [])).2.length = _
    rw [h2, List.nil_append, h3]
  · intro pre post hs
    have hpre : ApplicableRun p (editsOf pre) := by
      rw [hs, editsOf_append] at ha
      exact applicableRun_append_left p _ _ ha
    obtain ⟨hw, hk, hr⟩ := C04_history_neutral p h (editsOf pre) hpre
    refine ⟨write (runE p (editsOf pre)), ?_, rfl, hw, hk, hr⟩
    show (is.foldl stepW (p, [])).2[writesIn pre]? = _
    rw [h2, List.nil_append]
    exact h4 pre post hs

/-! non-vacuity: the periodic pair of `exProb`: surface 0 leaves its number, WRITE, returns and surface 1 takes the
    number just left, WRITE, relink: two files, the first with the intermediate number at the partner's pointer -/
def exItems : List Item :=
  [some (.num ⟨.surf, 0, 99⟩), none, some (.num ⟨.surf, 0, 1⟩), some (.num ⟨.surf, 1, 99⟩), none, some .relink]

theorem exItems_applicable : ApplicableRun exProb (editsOf exItems) :=
  ⟨trivial, trivial, trivial, trivial, trivial⟩
example : (runW exProb exItems).2.length = 2 := (C04_history_writes exProb exProb_wf exItems exItems_applicable).2.1
example : ((runW exProb exItems).2.map (fun f => f.surfs.map (fun s => (s.number, s.per)))) =
    [(write (runE exProb [.num ⟨.surf, 0, 99⟩])).surfs.map (fun s => (s.number, s.per)),
     (write (runE exProb [.num ⟨.surf, 0, 99⟩, .num ⟨.surf, 0, 1⟩, .num ⟨.surf, 1, 99⟩])).surfs.map (fun s => (s.number, s.per))] := by decide

end MontePyVerif.Renumber
