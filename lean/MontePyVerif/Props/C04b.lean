import MontePyVerif.Props.C04
import MontePyVerif.Lemmas.RenumberLink
namespace MontePyVerif.Renumber
open MontePyVerif.Collection
open MontePyVerif.Spec.Refs

/-! ## From a file to a well-formed linked problem and back -/

/-- **Well-formed file** (numbers-only view), MCNP's own rules for a problem (DESIGN 5.2 well-formedness):
    card numbers unique per block, material numbers not 0, every number written at a reference site is
    carried by a card of the block it refers into, every universe a cell is filled with has a cell,
    a per-cell datum is given in one block only, a surface card has one pointer entry (transformation
    *or* periodic surface), a transformation number in a FILL stands inside a cell-block FILL entry. -/
structure WellFormed (wf : WFile) : Prop where
  unique : ∀ ck, (wf.numbers ck).Nodup
  matPos : ∀ m ∈ wf.mats, m.number ≠ 0
  refs : ∀ s ck n, wf.at s = some (ck, n) → n ∈ wf.numbers ck
  fillU : ∀ c, c < wf.cells.length → ∀ u ∈ wf.effFill c, ∃ c', c' < wf.cells.length ∧ wf.effU c' = u
  oneBlockU : wf.uCard.isSome = true → ∀ c ∈ wf.cells, c.u = none
  oneBlockFill : wf.fillCard.isSome = true → ∀ c ∈ wf.cells, c.fill = []
  surfOne : ∀ s ∈ wf.surfs, s.tr = none ∨ s.per = none
  fillTrInFill : ∀ c ∈ wf.cells, c.fillTr ≠ none → c.fill ≠ []

theorem oldU_eq (wf : WFile) (i : Nat) : oldUniverseNumber wf i = wf.effU i := rfl
theorem oldFill_eq (wf : WFile) (i : Nat) : oldFillNumbers wf i = wf.effFill i := rfl

theorem mem_pushUniverses : ∀ (us acc : List Int) (u : Int), (u ∈ us ∨ u ∈ acc) → u ∈ pushUniverses acc us
  | [], acc, u, h => by
    rcases h with h | h
    · cases h
    · exact h
  | x :: t, acc, u, h => by
    simp only [pushUniverses]
    split
    · rename_i hx
      apply mem_pushUniverses t acc u
      rcases h with h | h
      · rcases List.mem_cons.mp h with h | h
        · exact Or.inr (h ▸ hx)
        · exact Or.inl h
      · exact Or.inr h
    · apply mem_pushUniverses t (acc ++ [x]) u
      rcases h with h | h
      · rcases List.mem_cons.mp h with h | h
        · exact Or.inr (by simp [h])
        · exact Or.inl h
      · exact Or.inr (by simp [h])

theorem univNums_nodup (wf : WFile) : (univNums wf).Nodup := pushUniverses_nodup _ [] List.nodup_nil

theorem effU_mem_univNums (wf : WFile) (c : Nat) (hc : c < wf.cells.length) : wf.effU c ∈ univNums wf := by
  apply mem_pushUniverses
  left
  exact List.mem_map.mpr ⟨c, List.mem_range.mpr hc, rfl⟩

theorem mkColl_nums (nums : List Int) : (mkColl nums).objs.map (mkColl nums).num = nums := by
  show (List.range nums.length).map (fun o => nums.getD o 0) = nums
  apply List.ext_getElem
  · simp
  · intro i h1 h2
    simp [List.getD_eq_getElem?_getD]
    have : i < nums.length := by simpa using h1
    simp [this]

theorem mkColl_num_of_lookup {nums : List Int} {n : Int} {o : ObjId} (h : lookup (mkColl nums) n = some o) :
    (mkColl nums).num o = n ∧ o ∈ (mkColl nums).objs := by
  obtain ⟨hlt, hget⟩ := lookup_some h
  refine ⟨?_, by simp [mkColl]; exact hlt⟩
  show nums.getD o 0 = n
  rw [List.getD_eq_getElem?_getD, hget]; rfl

/-- linking a well-formed file never fails (no `BrokenObjectLinkError`, no `KeyError`) -/
theorem link_succeeds (wf : WFile) (h : WellFormed wf) : ∃ p, link wf = some p := by
  have ucell := h.unique .cell; have usurf := h.unique .surf; have umat := h.unique .mat; have utr := h.unique .tr
  simp only [WFile.numbers] at ucell usurf umat utr
  obtain ⟨cl, hcl⟩ := mapM_exists
    (linkCell wf (mkColl (wf.cells.map (·.number))) (mkColl (wf.surfs.map (·.number)))
      (mkColl (wf.mats.map (·.number))) (mkColl wf.trs) (mkColl (univNums wf)))
    (List.range wf.cells.length) (by
      intro i hi
      have hi' : i < wf.cells.length := List.mem_range.mp hi
      have hc : wf.cells[i]? = some wf.cells[i] := List.getElem?_eq_getElem hi'
      apply linkCell_exists hc
      · intro hne
        exact lookup_of_mem umat (h.refs (.cellMat i) .mat _ (by simp [WFile.at, hc, hne]))
      · intro l hl
        obtain ⟨j, hj, rfl⟩ := List.getElem_of_mem hl
        have hat : wf.at (.geom i j) = some (if (wf.cells[i].geom[j]).1 then CardKind.cell else CardKind.surf, (wf.cells[i].geom[j]).2) := by
          simp [WFile.at, hc, List.getElem?_eq_getElem hj]
        have := h.refs _ _ _ hat
        cases hb : (wf.cells[i].geom[j]).1
        · simp only [hb] at this ⊢
          exact lookup_of_mem usurf this
        · simp only [hb] at this ⊢
          exact lookup_of_mem ucell this
      · exact lookup_of_mem (univNums_nodup wf) (effU_mem_univNums wf i hi')
      · intro f hf
        obtain ⟨c', hc', rfl⟩ := h.fillU i hi' f hf
        exact lookup_of_mem (univNums_nodup wf) (effU_mem_univNums wf c' hc')
      · intro t ht
        exact lookup_of_mem utr (h.refs (.fillTr i) .tr _ (by simp [WFile.at, hc, ht])))
  obtain ⟨sl, hsl⟩ := mapM_exists
    (linkSurf (mkColl (wf.surfs.map (·.number))) (mkColl wf.trs)) wf.surfs (by
      intro s hs
      obtain ⟨j, hj, rfl⟩ := List.getElem_of_mem hs
      apply linkSurf_exists
      · intro t ht
        exact lookup_of_mem utr (h.refs (.surfTr j) .tr _ (by simp [WFile.at, List.getElem?_eq_getElem hj, ht]))
      · intro t ht
        exact lookup_of_mem usurf (h.refs (.surfPer j) .surf _ (by simp [WFile.at, List.getElem?_eq_getElem hj, ht])))
  obtain ⟨ml, hml⟩ := mapM_exists (linkMat (mkColl (wf.mats.map (·.number)))) wf.mats (by
      intro m hm
      obtain ⟨j, hj, rfl⟩ := List.getElem_of_mem hm
      apply linkMat_exists
      intro t ht
      exact lookup_of_mem umat (h.refs (.mt j) .mat _ (by simp [WFile.at, List.getElem?_eq_getElem hj, ht])))
  simp only [link]
  have hcl' := hcl; have hsl' := hsl; have hml' := hml
  simp only [univNums] at hcl'
  rw [hcl', hsl', hml']
  exact ⟨_, rfl⟩

/-! ### digest of `Linked`: what the pointers of a linked problem are, card by card -/

theorem range_getElem?_lt {n i : Nat} (h : i < n) : (List.range n)[i]? = some i := List.getElem?_range h
theorem range_getElem?_ge {n i : Nat} (h : ¬ i < n) : (List.range n)[i]? = none := by
  apply List.getElem?_eq_none; simp; omega

theorem linked_cell {wf : WFile} {p : Prob} (L : Linked wf p) (i : Nat) (hi : i < wf.cells.length) :
    ∃ c, wf.cells[i]? = some c ∧
      ((c.mat = 0 ∧ (p.cell i).mat = none) ∨
        (c.mat ≠ 0 ∧ ∃ m, (p.cell i).mat = some m ∧ p.mats.num m = c.mat ∧ m ∈ p.mats.objs)) ∧
      ((p.cell i).geom.length = c.geom.length ∧
        (∀ (j : Nat) a, c.geom[j]? = some a → ∃ l, (p.cell i).geom[j]? = some l ∧ l.isCell = a.1 ∧
          (if a.1 then p.cells else p.surfs).num l.target = a.2 ∧
          l.target ∈ (if a.1 then p.cells else p.surfs).objs)) ∧
      (p.univs.num (p.cell i).univ = wf.effU i ∧ (p.cell i).univ ∈ p.univs.objs) ∧
      ((p.cell i).fill.map p.univs.num = wf.effFill i ∧ (∀ u ∈ (p.cell i).fill, u ∈ p.univs.objs) ∧
        (p.cell i).fill.length = (wf.effFill i).length) ∧
      ((c.fillTr = none ∧ (p.cell i).fillTr = none) ∨
        ∃ t x, c.fillTr = some t ∧ (p.cell i).fillTr = some x ∧ p.trs.num x = t ∧ x ∈ p.trs.objs) := by
  have hc := L.cell i hi
  obtain ⟨c, hci, hmat, hgeom, huniv, hfill, htr⟩ := linkCell_some hc
  refine ⟨c, hci, ?_, ?_, ?_, ?_, ?_⟩
  · rcases hmat with ⟨h0, hn⟩ | ⟨h0, m, hl, hm⟩
    · exact Or.inl ⟨h0, hn⟩
    · rw [L.mats] at hl ⊢
      have := mkColl_num_of_lookup hl
      exact Or.inr ⟨h0, m, hm, this.1, this.2⟩
  · obtain ⟨hlen, hfw, _⟩ := mapM_some_getElem? _ _ _ hgeom
    refine ⟨hlen, ?_⟩
    intro j a ha
    obtain ⟨l, hl, hget⟩ := hfw j a ha
    obtain ⟨h1, h2⟩ := linkLeaf_some hl
    refine ⟨l, hget, h1, ?_⟩
    cases hb : a.1
    · simp only [hb] at h2 ⊢
      rw [L.surfs] at h2 ⊢
      simpa using mkColl_num_of_lookup h2
    · simp only [hb] at h2 ⊢
      rw [L.cells] at h2 ⊢
      simpa using mkColl_num_of_lookup h2
  · rw [L.univs] at huniv ⊢
    rw [oldU_eq] at huniv
    exact mkColl_num_of_lookup huniv
  · rw [oldFill_eq] at hfill
    rw [L.univs] at hfill ⊢
    refine ⟨?_, ?_, (mapM_some_getElem? _ _ _ hfill).1⟩
    · have := mapM_some_map (lookup (mkColl (univNums wf))) (mkColl (univNums wf)).num id _ _ hfill
        (fun a b _ hab => (mkColl_num_of_lookup hab).1)
      simpa using this
    · intro u hu
      obtain ⟨a, _, hab⟩ := mapM_some_mem _ _ _ hfill u hu
      exact (mkColl_num_of_lookup hab).2
  · rcases optBind_some htr with ⟨h1, h2⟩ | ⟨t, x, h1, h2, h3⟩
    · exact Or.inl ⟨h1, h2.symm ▸ rfl⟩
    · rw [L.trs] at h2 ⊢
      have := mkColl_num_of_lookup h2
      exact Or.inr ⟨t, x, h1, h3.symm ▸ rfl, this.1, this.2⟩

theorem linked_opt {nums : List Int} {o : Option Int} {r : Option ObjId}
    (h : optBind o (lookup (mkColl nums)) = some r) :
    (o = none ∧ r = none) ∨ ∃ t x, o = some t ∧ r = some x ∧ (mkColl nums).num x = t ∧ x ∈ (mkColl nums).objs := by
  rcases optBind_some h with ⟨h1, h2⟩ | ⟨t, x, h1, h2, h3⟩
  · exact Or.inl ⟨h1, h2⟩
  · have := mkColl_num_of_lookup h2
    exact Or.inr ⟨t, x, h1, h3, this.1, this.2⟩

theorem linked_surf {wf : WFile} {p : Prob} (L : Linked wf p) (i : Nat) (s : WSurf) (hs : wf.surfs[i]? = some s) :
    ((s.tr = none ∧ (p.surf i).tr = none) ∨
      ∃ t x, s.tr = some t ∧ (p.surf i).tr = some x ∧ p.trs.num x = t ∧ x ∈ p.trs.objs) ∧
    ((s.per = none ∧ (p.surf i).per = none) ∨
      ∃ t x, s.per = some t ∧ (p.surf i).per = some x ∧ p.surfs.num x = t ∧ x ∈ p.surfs.objs) := by
  have h := L.surf i s hs
  rw [L.surfs, L.trs] at h
  obtain ⟨h1, h2⟩ := linkSurf_some h
  rw [L.surfs, L.trs]
  exact ⟨linked_opt h1, linked_opt h2⟩

theorem linked_mat {wf : WFile} {p : Prob} (L : Linked wf p) (i : Nat) (m : WMat) (hm : wf.mats[i]? = some m) :
    (m.mt = none ∧ (p.mat i).mt = none) ∨
      ∃ t x, m.mt = some t ∧ (p.mat i).mt = some x ∧ p.mats.num x = t ∧ x ∈ p.mats.objs := by
  have h := L.mat i m hm
  rw [L.mats] at h
  rw [L.mats]
  exact linked_opt (linkMat_some h)

theorem linked_objs {wf : WFile} {p : Prob} (L : Linked wf p) :
    p.cells.objs = List.range wf.cells.length ∧ p.surfs.objs = List.range wf.surfs.length ∧
    p.mats.objs = List.range wf.mats.length ∧ p.trs.objs = List.range wf.trs.length := by
  rw [L.cells, L.surfs, L.mats, L.trs]
  simp [mkColl]

/-- the pointer a linked problem holds at a site is the card the file's number at that site is carried
    by (and nothing where the file has nothing), and it points at a member of the problem -/
theorem ptr_at {wf : WFile} {p : Prob} (h : WellFormed wf) (L : Linked wf p) (s : Site) :
    (p.ptr s).map (fun x => (x.1, (p.coll (kindOf x.1)).num x.2)) = wf.at s ∧
    ∀ ck o, p.ptr s = some (ck, o) → o ∈ (p.coll (kindOf ck)).objs := by
  obtain ⟨oc, os, om, _⟩ := linked_objs L
  cases s with
  | geom c j =>
    simp only [Prob.ptr, WFile.at, oc]
    by_cases hc : c < wf.cells.length
    · obtain ⟨x, hx, _, ⟨hlen, hg⟩, _⟩ := linked_cell L c hc
      rw [range_getElem?_lt hc, hx]
      simp only [Option.bind_some]
      cases hj : x.geom[j]? with
      | none =>
        have : (p.cell c).geom[j]? = none := by
          apply List.getElem?_eq_none
          have := List.getElem?_eq_none_iff.mp hj
          omega
        simp [this]
      | some a =>
        obtain ⟨l, hl, hic, hnum, hmem⟩ := hg j a hj
        rw [hl]
        cases hb : a.1
        · simp only [hb] at hic hnum hmem
          simp at hnum hmem
          simp [hic, hb, kindOf, Prob.coll, hnum, hmem]
        · simp only [hb] at hic hnum hmem
          simp at hnum hmem
          simp [hic, hb, kindOf, Prob.coll, hnum, hmem]
    · rw [range_getElem?_ge hc, List.getElem?_eq_none (by omega)]
      simp
  | cellMat c =>
    simp only [Prob.ptr, WFile.at, oc]
    by_cases hc : c < wf.cells.length
    · obtain ⟨x, hx, hm, _⟩ := linked_cell L c hc
      rw [range_getElem?_lt hc, hx]
      simp only [Option.bind_some]
      rcases hm with ⟨h0, hn⟩ | ⟨h0, m, hm, hnum, hmem⟩
      · simp [h0, hn]
      · simp [h0, hm, kindOf, Prob.coll, hnum, hmem]
    · rw [range_getElem?_ge hc, List.getElem?_eq_none (by omega)]
      simp
  | mt m =>
    simp only [Prob.ptr, WFile.at, om]
    by_cases hc : m < wf.mats.length
    · have hx : wf.mats[m]? = some wf.mats[m] := List.getElem?_eq_getElem hc
      rw [range_getElem?_lt hc, hx]
      simp only [Option.bind_some]
      rcases linked_mat L m _ hx with ⟨h1, h2⟩ | ⟨t, x, h1, h2, hnum, hmem⟩
      · simp [h1, h2]
      · simp [h1, h2, kindOf, Prob.coll, hnum, hmem]
    · rw [range_getElem?_ge hc, List.getElem?_eq_none (by omega)]
      simp
  | surfTr i =>
    simp only [Prob.ptr, WFile.at, os]
    by_cases hc : i < wf.surfs.length
    · have hx : wf.surfs[i]? = some wf.surfs[i] := List.getElem?_eq_getElem hc
      rw [range_getElem?_lt hc, hx]
      simp only [Option.bind_some]
      rcases (linked_surf L i _ hx).1 with ⟨h1, h2⟩ | ⟨t, x, h1, h2, hnum, hmem⟩
      · simp [h1, h2]
      · simp [h1, h2, kindOf, Prob.coll, hnum, hmem]
    · rw [range_getElem?_ge hc, List.getElem?_eq_none (by omega)]
      simp
  | surfPer i =>
    simp only [Prob.ptr, WFile.at, os]
    by_cases hc : i < wf.surfs.length
    · have hx : wf.surfs[i]? = some wf.surfs[i] := List.getElem?_eq_getElem hc
      rw [range_getElem?_lt hc, hx]
      simp only [Option.bind_some]
      have hone := h.surfOne _ (List.getElem_mem hc)
      obtain ⟨htr, hper⟩ := linked_surf L i _ hx
      rcases hper with ⟨h1, h2⟩ | ⟨t, x, h1, h2, hnum, hmem⟩
      · rcases htr with ⟨h3, h4⟩ | ⟨t', x', h3, h4, _, _⟩
        · simp [h1, h2, h4]
        · simp [h1, h2, h4]
      · have h3 : wf.surfs[i].tr = none := by
          rcases hone with h' | h'
          · exact h'
          · rw [h1] at h'; cases h'
        rcases htr with ⟨_, h4⟩ | ⟨t', x', h3', _, _, _⟩
        · simp [h1, h2, h4, kindOf, Prob.coll, hnum, hmem]
        · rw [h3] at h3'; cases h3'
    · rw [range_getElem?_ge hc, List.getElem?_eq_none (by omega)]
      simp
  | fillTr c =>
    simp only [Prob.ptr, WFile.at, oc]
    by_cases hc : c < wf.cells.length
    · obtain ⟨x, hx, _, _, _, ⟨_, _, hflen⟩, htr⟩ := linked_cell L c hc
      rw [range_getElem?_lt hc, hx]
      simp only [Option.bind_some]
      have hxmem : x ∈ wf.cells := List.mem_of_getElem? hx
      rcases htr with ⟨h1, h2⟩ | ⟨t, y, h1, h2, hnum, hmem⟩
      · simp [h1, h2]
      · have hfne : x.fill ≠ [] := h.fillTrInFill x hxmem (by simp [h1])
        have hfd : p.fillData = false := by
          rw [L.fillData]
          cases hfc : wf.fillCard.isSome
          · rfl
          · exact absurd (h.oneBlockFill hfc x hxmem) hfne
        have hpf : (p.cell c).fill ≠ [] := by
          intro he
          rw [he] at hflen
          have : wf.effFill c = x.fill := by simp [WFile.effFill, hx, hfne]
          rw [this] at hflen
          exact hfne (List.length_eq_zero_iff.mp hflen.symm)
        simp [hfd, hpf, h1, h2, kindOf, Prob.coll, hnum, hmem]
    · rw [range_getElem?_ge hc, List.getElem?_eq_none (by omega)]
      simp

theorem effFill_length_le_one {wf : WFile} (h : WellFormed wf) (hd : wf.fillCard.isSome = true) (c : Nat) :
    (wf.effFill c).length ≤ 1 := by
  unfold WFile.effFill
  cases hx : wf.cells[c]? with
  | none => simp
  | some x =>
    have hxe : x.fill = [] := h.oneBlockFill hd x (List.mem_of_getElem? hx)
    simp only [hxe, ne_eq, not_true_eq_false, if_false]
    cases wf.fillCard with
    | none => simp
    | some l =>
      simp only
      split <;> simp

/-- **C04_link_establishes_wf** — linking a well-formed file yields a problem that satisfies the WHOLE of
    `WF`: unique numbers in all five collections (C06's `Inv`), every pointer points at a member of the
    problem, a data-block FILL has one universe per cell, material numbers are not 0.  With
    `C04_wf_step` every state reachable from a read file by number assignments is well-formed. -/
theorem C04_link_establishes_wf (wf : WFile) (p : Prob) (h : WellFormed wf) (hl : link wf = some p) : WF p := by
  have L := link_linked hl
  obtain ⟨oc, os, om, ot⟩ := linked_objs L
  refine ⟨?_, ?_, fun s => (ptr_at h L s).2, ?_, ?_, ?_, ?_⟩
  · intro k
    cases k <;> simp only [Prob.coll]
    · rw [L.cells]; exact mkColl_inv' _ (h.unique .cell)
    · rw [L.surfs]; exact mkColl_inv' _ (h.unique .surf)
    · rw [L.mats]; exact mkColl_inv' _ (h.unique .mat)
    · rw [L.trs]; exact mkColl_inv' _ (h.unique .tr)
    · rw [L.univs]; exact mkColl_inv' _ (univNums_nodup wf)
  · intro k
    cases k <;> simp only [Prob.coll]
    · rw [L.cells]; rfl
    · rw [L.surfs]; rfl
    · rw [L.mats]; rfl
    · rw [L.trs]; rfl
    · rw [L.univs]; rfl
  · intro c hc
    rw [oc] at hc
    obtain ⟨_, _, _, _, hu, _⟩ := linked_cell L c (List.mem_range.mp hc)
    exact hu.2
  · intro c hc u hu
    rw [oc] at hc
    obtain ⟨_, _, _, _, _, hf, _⟩ := linked_cell L c (List.mem_range.mp hc)
    exact hf.2.1 u hu
  · intro hd c hc
    rw [oc] at hc
    rw [L.fillData] at hd
    obtain ⟨_, _, _, _, _, hf, _⟩ := linked_cell L c (List.mem_range.mp hc)
    rw [hf.2.2]
    exact effFill_length_le_one h hd c
  · intro m hm
    rw [om] at hm
    have hlt : m < wf.mats.length := List.mem_range.mp hm
    rw [L.mats]
    show (wf.mats.map (·.number)).getD m 0 ≠ 0
    rw [List.getD_eq_getElem?_getD, List.getElem?_map, List.getElem?_eq_getElem hlt]
    exact h.matPos _ (List.getElem_mem hlt)

theorem resolve_congr {w1 w2 : WFile} {ck : CardKind} (h : w1.numbers ck = w2.numbers ck) (n : Int) :
    resolve w1 ck n = resolve w2 ck n := by
  unfold resolve; rw [h]

theorem cellsIn_congr {w1 w2 : WFile} (hlen : w1.cells.length = w2.cells.length)
    (h : ∀ c, c < w2.cells.length → w1.effU c = w2.effU c) (n : Int) : w1.cellsIn n = w2.cellsIn n := by
  unfold WFile.cellsIn
  rw [hlen]
  apply List.filter_congr
  intro i hi
  rw [h i (List.mem_range.mp hi)]

/-- **C04_unedited_roundtrip** — the unedited round trip of the reference structure: the problem linked
    from a well-formed file writes, card by card, the card numbers of the file, at every reference site
    the number the file has there (and nothing where the file has nothing), for every cell the universe
    it is in and the universes it is filled with (matrix entries included); so every look-up — of cards
    and of universes — gives in the written file what it gives in the original. -/
theorem C04_unedited_roundtrip (wf : WFile) (p : Prob) (h : WellFormed wf) (hl : link wf = some p) :
    (∀ ck, (write p).numbers ck = wf.numbers ck) ∧
    (∀ s, (write p).at s = wf.at s) ∧
    (∀ c, c < wf.cells.length → (write p).effU c = wf.effU c ∧ (write p).effFill c = wf.effFill c) ∧
    (∀ n, (write p).cellsIn n = wf.cellsIn n) ∧
    (∀ ck n, resolve (write p) ck n = resolve wf ck n) := by
  have L := link_linked hl
  have hwf := C04_link_establishes_wf wf p h hl
  obtain ⟨oc, _, _, _⟩ := linked_objs L
  have hnum : ∀ ck, (write p).numbers ck = wf.numbers ck := by
    intro ck
    rw [numbers_write]
    cases ck <;> simp only [kindOf, Prob.coll, WFile.numbers]
    · rw [L.cells]; exact mkColl_nums _
    · rw [L.surfs]; exact mkColl_nums _
    · rw [L.mats]; exact mkColl_nums _
    · rw [L.trs]; exact mkColl_nums _
  have hu : ∀ c, c < wf.cells.length → (write p).effU c = wf.effU c ∧ (write p).effFill c = wf.effFill c := by
    intro c hc
    have hobj : p.cells.objs[c]? = some c := by rw [oc]; exact range_getElem?_lt hc
    obtain ⟨_, _, _, _, hun, hf, _⟩ := linked_cell L c hc
    exact ⟨by rw [effU_write p c c hobj]; exact hun.1, by rw [effFill_write p hwf.fillOne c c hobj]; exact hf.1⟩
  refine ⟨hnum, ?_, hu, ?_, fun ck n => resolve_congr (hnum ck) n⟩
  · intro s
    rw [at_write p hwf.matPos hwf.closed]
    exact (ptr_at h L s).1
  · intro n
    apply cellsIn_congr
    · simp [write, oc]
    · intro c hc; exact (hu c hc).1

/-- **C04_end_to_end** — for EVERY well-formed file and EVERY finite sequence of number assignments
    (valid ones are applied, invalid ones are rejected and change nothing): MontePy links the file, and in
    the file written after the history
    * every block has as many cards as in the original (card `i` is still object `i`),
    * at every site where the original has a reference a reference is written, and MCNP's look-up of the
      number written there finds exactly one card — the card (index) the original's number resolved to,
    * where the original has no reference none is written,
    * the cells in the universe of every cell, and in each universe a cell is filled with (single or
      matrix entry `j`), are the same cells as in the original.
    No hypothesis besides `WellFormed wf` remains between reading, renumbering and writing. -/
theorem C04_end_to_end (wf : WFile) (h : WellFormed wf) :
    ∃ p0, link wf = some p0 ∧ ∀ ops : List Op,
      (∀ ck, ((write (run p0 ops)).numbers ck).length = (wf.numbers ck).length) ∧
      (∀ s ck n, wf.at s = some (ck, n) → ∃ n', (write (run p0 ops)).at s = some (ck, n') ∧
        resolve (write (run p0 ops)) ck n' = resolve wf ck n ∧ (resolve wf ck n).isSome = true) ∧
      (∀ s, wf.at s = none → (write (run p0 ops)).at s = none) ∧
      (∀ c, c < wf.cells.length →
        (write (run p0 ops)).cellsIn ((write (run p0 ops)).effU c) = wf.cellsIn (wf.effU c) ∧
        ((write (run p0 ops)).effFill c).length = (wf.effFill c).length ∧
        ∀ (j : Nat) u, (wf.effFill c)[j]? = some u →
          ∃ u', ((write (run p0 ops)).effFill c)[j]? = some u' ∧ (write (run p0 ops)).cellsIn u' = wf.cellsIn u) := by
  obtain ⟨p0, hl⟩ := link_succeeds wf h
  refine ⟨p0, hl, ?_⟩
  intro ops
  have L := link_linked hl
  have hwf0 := C04_link_establishes_wf wf p0 h hl
  obtain ⟨hnum, hat, hu, hcin, hres⟩ := C04_unedited_roundtrip wf p0 h hl
  obtain ⟨hwf, hsh⟩ := run_wf p0 hwf0 ops
  obtain ⟨oc, _, _, _⟩ := linked_objs L
  refine ⟨?_, ?_, ?_, ?_⟩
  · intro ck
    rw [← hnum ck, numbers_write, numbers_write, List.length_map, List.length_map, hsh.objs]
  · intro s ck n hs
    have hs0 : (write p0).at s = some (ck, n) := by rw [hat]; exact hs
    rw [at_write p0 hwf0.matPos hwf0.closed] at hs0
    obtain ⟨x, hx, hxe⟩ := Option.map_eq_some_iff.mp hs0
    obtain ⟨ck', o⟩ := x
    simp only [Prod.mk.injEq] at hxe
    obtain ⟨rfl, _⟩ := hxe
    obtain ⟨n0, n', h0, h1, h2, h3⟩ := (C04_history p0 hwf0 ops).2 s ck' o hx
    have hn : n0 = n := by
      rw [hat, hs] at h0
      simpa using h0.symm
    subst hn
    refine ⟨n', h1, ?_, ?_⟩
    · rw [h2, hres]
    · rw [← hres, h3]; rfl
  · intro s hs
    have hs0 : (write p0).at s = none := by rw [hat]; exact hs
    rw [at_write p0 hwf0.matPos hwf0.closed] at hs0
    have hp : p0.ptr s = none := by simpa using hs0
    rw [at_write _ hwf.matPos hwf.closed, hsh.ptr, hp]; rfl
  · intro c hc
    have hobj : p0.cells.objs[c]? = some c := by rw [oc]; exact range_getElem?_lt hc
    obtain ⟨h1, h2, h3, h4⟩ := C04_history_universe p0 hwf0 ops c c hobj
    refine ⟨?_, ?_, ?_⟩
    · rw [h1, hcin, (hu c hc).1]
    · rw [h2, ← (hu c hc).2, h3]; simp
    · intro j u hj
      rw [← (hu c hc).2, h3, List.getElem?_map] at hj
      obtain ⟨x, hx, rfl⟩ := Option.map_eq_some_iff.mp hj
      refine ⟨(run p0 ops).univs.num x, ?_, ?_⟩
      · rw [h2, List.getElem?_map, hx]; rfl
      · rw [h4 x (List.mem_of_getElem? hx), hcin]

end MontePyVerif.Renumber
