import MontePyVerif.Lemmas.Pick
import MontePyVerif.Lemmas.Text
/-!
# C05 — numbers set through the API are written without loss

Model: `Model/ValueFormat.lean` (the repaired `ValueNode.format`, `fortran_float`, CPython's `format` on exact
rationals).  Spec: `Spec/Number.lean` (how MCNP reads a number, the tolerance).  Lemmas: `Lemmas/Round.lean`,
`Lemmas/Dec.lean`, `Lemmas/Pick.lean`.

A formatted number is a `Dec` (sign, digits, digits after the point, exponent) that is then laid out as text.
The theorems below are about **all** nodes, paddings and values.  The arithmetic ones are proved on the `Dec` level;
`Lemmas/Text.lean` proves that the Spec reads the first word of *every* layout (`renderPy`, `renderSci`: sign style, zero
fill, point, divider or none, exponent padding) as exactly `Dec.value`.  The one step that is **not** proved is that the
*model's* `fortranFloat` (the read-back check inside `_format_float`) reads a candidate's text as `Dec.value` too; it only
matters when a candidate before the 17-digit fallback is accepted, and it is validated on every run (`render_ok` of
the driver, unit U-read) — see design_notes/C05.md.
-/
namespace MontePyVerif.C05
open MontePyVerif.ValueFormat

/-! ## the tolerance and the tables of the code -/

/-- the library's tolerance is the double nearest `1e-9`, no absolute tolerance (`constants.py`) -/
theorem C05_tolerance : (1 : ℚ) / 10 ^ 9 ≤ Spec.relTol ∧ Spec.relTol ≤ 1 / 10 ^ 9 + 1 / 10 ^ 24 ∧ Spec.absTol = 0 := by
  unfold Spec.relTol Spec.absTol Gen.relTolNum Gen.relTolDen Gen.absTolNum Gen.absTolDen
  norm_num

/-- `ValueNode._MAX_PRECISION` reaches the 17 significant digits that identify a double -/
theorem C05_max_precision : 17 ≤ Gen.maxPrecision := by decide

/-! ## rounding error of CPython's `format` (re-exported from `Lemmas/Dec.lean`) -/

/-- `.{p}f`: absolute error at most half a unit of the p-th decimal -/
theorem C05_pyformat_error (x : Num) (hx : 0 ≤ x.mag) (p : Nat) :
    |(decF x p).value - x.toRat| ≤ 1 / 2 * (10 : ℚ) ^ (-(p : Int)) ∧
    |(decE x p).value - x.toRat| ≤ 1 / 2 * (10 : ℚ) ^ (-(p : Int)) * x.mag ∧
    |(decG x p).value - x.toRat| ≤ 1 / 2 * (10 : ℚ) ^ (-(((if p = 0 then 1 else p) - 1 : Nat) : Int)) * x.mag :=
  ⟨C05_pyformat_error_f x hx p, C05_pyformat_error_e x hx p, C05_pyformat_error_g x hx p⟩

example : (0 : ℚ) ≤ (⟨false, 11 / 4, false⟩ : Num).mag := by norm_num

/-! ## floats -/

/-- **C05_float** (on the structured level).  Whatever the node (token spelling, padding, reverse-engineered
    formatter, history) and whatever the new value, the text `_format_float` returns is one of the candidate
    renderings, and either it passed the read-back check (`fortran_float` of it is within the tolerance of the
    value) or it is the rendering of a `Dec` whose value is within the tolerance (the 17-digit fallback). -/
theorem C05_float (n : Node) (x : Num) (hx : 0 ≤ x.mag) :
    ∃ sp ∈ floatStyles n, formatFloat n x = formatFloatAs n.fmt x sp ∧
      ((∃ y, fortranFloat (formatFloat n x) = some y ∧ Spec.isClose y x.toRat) ∨
        Spec.isClose (decOf x sp).value x.toRat) := by
  obtain ⟨hne, hlast⟩ := floatStyles_last n
  have hne' : (floatStyles n).map (formatFloatAs n.fmt x) ≠ [] := by simpa using hne
  unfold formatFloat
  rcases pickFirst_spec x _ hne' with h | h
  · have hmem := pickFirst_mem x _ hne'
    obtain ⟨sp, hsp, heq⟩ := List.mem_map.mp hmem
    refine ⟨sp, hsp, heq.symm, Or.inl ?_⟩
    unfold readsBack at h
    split at h
    · rename_i y hy
      exact ⟨y, hy, spec_of_model_isClose _ _ h⟩
    · exact absurd h (by simp)
  · refine ⟨(floatStyles n).getLast hne, List.getLast_mem hne, ?_, Or.inr (enough_close x hx _ hlast)⟩
    rw [h, List.getLast_map]

/-- **C05_default_node_spelling** (tie to the source, re-checked against the regenerated constant on every run):
    a node made from a value at write time, with no token at all (`MCNP_Object._generate_default_node(float, v)`:
    `Transform._update_values` makes one for every rotation entry the TR input did not hold), is given Python's
    `str(v)` as its token, or the value itself when that is `None`/a jump. `str` of a float is `repr`, the shortest
    decimal that reads back as exactly `v` (CPython `float_repr_style = 'short'`, David Gay's algorithm: trusted, not
    modelled; sampled by unit U-repr of the check), so such a node is written with a token that reads back as the
    value set. Any other spelling (a `%g`/`:g` format keeps 6 digits) re-opens this obligation. -/
theorem C05_default_node_spelling : Gen.defaultNodeSpellings = ["default", "str(default)"] := by decide

/-- a node created from scratch: `ValueNode(None, float)` -/
def newNode : Node :=
  { token := .none, ty := .float, padding := none, neverPad := false, value := none, ogValue := none,
    isNegId := false, isNegVal := false, isNeg := none, fmt := floatDefaults, isReversed := false }

example : mkNode .none .float none = some newNode := rfl
example : floatStyles newNode ≠ [] := by decide

/-- **C05_new_node**: an object created from scratch (no token) is never reverse engineered and is written in
    Python's general format, starting from the default precision; `C05_float` applies to it as to any node. -/
theorem C05_new_node (n : Node) (h : n.token = .none) (hr : n.isReversed = false) :
    reverseEngineerFormatting n = n ∧ ∀ sp ∈ floatStyles n, sp.1 = FStyle.g ∧ n.fmt.precision ≤ sp.2 := by
  constructor
  · unfold reverseEngineerFormatting; simp [h, hr]
  · intro sp hsp
    unfold floatStyles at hsp
    simp only [hr, Bool.not_false, if_true, List.mem_map] at hsp
    obtain ⟨q, hq, rfl⟩ := hsp
    refine ⟨rfl, ?_⟩
    unfold pyRange at hq
    have := List.mem_range'_1.mp hq
    exact this.1

/-! ## integers -/

/-- **C05_int** (value level): an integer is written as the `Dec` with no fraction and no exponent whose value
    is exactly that integer, for every sign style and zero padding -/
theorem C05_int_value (k : Int) : (⟨decide (k < 0), k.natAbs, 0, none⟩ : Dec).value = (k : ℚ) := by
  unfold Dec.value pow10Rat
  obtain ⟨m, rfl | rfl⟩ := Int.eq_nat_or_neg k
  · simp
  · by_cases hm : m = 0
    · subst hm; simp
    · simp

/-- an int-typed node writes `int(value)` with `d`: no rounding, no precision -/
theorem C05_int_branch (n : Node) (x : Num) (h : n.ty = .int) :
    formatTemp n x = renderPy n.fmt.sign n.fmt.zeroPadding ⟨decide (x.trunc < 0), x.trunc.natAbs, 0, none⟩ := by
  unfold formatTemp fmtD; simp [h]

/-- `int(x)` of an integer is that integer -/
theorem C05_trunc_ofInt (k : Int) : (Num.ofInt k).trunc = k := by
  unfold Num.trunc Num.ofInt
  simp only []
  have hnum : ((k.natAbs : Nat) : ℚ).num = (k.natAbs : Int) := by simp
  have hden : ((k.natAbs : Nat) : ℚ).den = 1 := by simp
  rw [hnum, hden]
  obtain ⟨m, rfl | rfl⟩ := Int.eq_nat_or_neg k
  · simp
  · by_cases hm : m = 0
    · subst hm; simp
    · simp

/-! ## unchanged values -/

/-- **C05_unchanged**: a value that was not changed is written as its token followed by its padding, verbatim -/
theorem C05_unchanged (n : Node) (h : valueChanged n = false) :
    (format n).2 = n.token.text ++ (match n.padding with | some p => padFormat p | none => []) ∧ (format n).1 = n := by
  unfold format; rw [h]; exact ⟨rfl, rfl⟩

example : ∃ n, mkNode .jump .float (some [.spaces 2]) = some n ∧ valueChanged n = false := ⟨_, rfl, rfl⟩

/-- what `format` writes for a changed value: the number, left-justified in the token's width, then the padding -/
theorem C05_format_changed (n : Node) (h : valueChanged n = true) (x : Num)
    (hx : printValue (reverseEngineerFormatting n) = some x) (hv : n.value.isSome = true) :
    (format n).2 =
      ljust (formatTemp (reverseEngineerFormatting n) x) (reverseEngineerFormatting n).fmt.valueLength
        ++ (padStrings (reverseEngineerFormatting n) (formatTemp (reverseEngineerFormatting n) x).length).1
        ++ (padStrings (reverseEngineerFormatting n) (formatTemp (reverseEngineerFormatting n) x).length).2 := by
  unfold format
  simp only [h, Bool.not_true, Bool.false_eq_true, if_false]
  cases hval : n.value with
  | none => simp [hval] at hv
  | some v => simp [hx]

/-! ## no fusion with the next word -/

/-- a padding whose first item separates words: blanks (at least one; a following run of blanks is not empty
    either), a line break, or a `$` comment -/
inductive PadOK : List PadItem → Prop
  | spaces (k : Nat) (rest : List PadItem) : 1 ≤ k → (∀ j r, rest = .spaces j :: r → 1 ≤ j) → PadOK (.spaces k :: rest)
  | newline (rest : List PadItem) : PadOK (.newline :: rest)
  | comment (c : Text) (rest : List PadItem) : PadOK (.comment ('$' :: c) :: rest)

/-- **C05_separated**: whenever the node's padding separates words, what `format` writes after the number
    (however long the new number is) starts with a blank, a line break or a `$`: the number cannot fuse with
    the next word -/
theorem C05_separated (n : Node) (temp : Text) (items : List PadItem) (hp : n.padding = some items) (hok : PadOK items) :
    ljust temp n.fmt.valueLength ++ (padStrings n temp.length).1 ++ (padStrings n temp.length).2
      = temp ++ (List.replicate (n.fmt.valueLength - temp.length) ' ' ++ (padStrings n temp.length).1 ++ (padStrings n temp.length).2)
    ∧ StartsSep (List.replicate (n.fmt.valueLength - temp.length) ' ' ++ (padStrings n temp.length).1 ++ (padStrings n temp.length).2) := by
  constructor
  · unfold ljust; simp [List.append_assoc]
  · by_cases hlen : 1 ≤ n.fmt.valueLength - temp.length
    · rw [List.append_assoc]; exact replicate_startsSep _ hlen _
    · have h0 : n.fmt.valueLength - temp.length = 0 := by omega
      have hge : n.fmt.valueLength ≤ temp.length := by omega
      rw [h0]
      simp only [List.replicate_zero, List.nil_append]
      cases hok with
      | spaces k rest hk hrest =>
        unfold padStrings
        simp only [hp]
        cases rest with
        | nil => simp [hge]; exact ⟨' ', [], rfl, Or.inl rfl⟩
        | cons it r =>
          cases it with
          | spaces j =>
            have hj := hrest j r rfl
            simp [padFormat, PadItem.format]
            exact replicate_startsSep j hj _
          | newline =>
            simp [padFormat, PadItem.format]
            exact ⟨'\n', _, rfl, Or.inr (Or.inl rfl)⟩
          | comment c =>
            simp [hge]
            exact ⟨' ', _, rfl, Or.inl rfl⟩
      | newline rest =>
        unfold padStrings
        simp only [hp]
        simp [padFormat, PadItem.format]
        exact ⟨'\n', _, rfl, Or.inr (Or.inl rfl)⟩
      | comment c rest =>
        unfold padStrings
        simp only [hp]
        simp [padFormat, PadItem.format]
        exact ⟨'$', _, rfl, Or.inr (Or.inr rfl)⟩

example : PadOK [.spaces 1, .comment "$ hi".toList, .newline] :=
  PadOK.spaces 1 _ (by decide) (by intro j r h; cases h)

/-! ## floats, text level -/

open MontePyVerif.Spec

/-- **C05_candidate_text**: for every formatter (sign style, zero padding, divider, exponent padding), value, style and
    precision, and whatever follows (nothing, or something starting with a blank, a line break or `$`): the Spec reads
    the first word of the candidate's text as exactly the value of the candidate's `Dec` -/
theorem C05_candidate_text (f : Formatter) (x : Num) (sp : FStyle × Nat) (tail : Text) (ht : tail = [] ∨ StartsSep tail) :
    parseChars (firstWord (formatFloatAs f x sp ++ tail)) = some (decOf x sp).value := by
  obtain ⟨st, q⟩ := sp
  cases st
  · show parseChars (firstWord (renderPy f.sign f.zeroPadding (decG x q) ++ tail)) = some (decG x q).value
    exact spec_reads_renderPy f.sign f.zeroPadding (decG x q) tail ht
  · show parseChars (firstWord (renderSci f (decE x q) ++ tail)) = some (decE x q).value
    exact spec_reads_renderSci f (decE x q) tail ht
  · show parseChars (firstWord (renderPy f.sign f.zeroPadding (decF x q) ++ tail)) = some (decF x q).value
    exact spec_reads_renderPy f.sign f.zeroPadding (decF x q) tail ht

/-- **C05_float_text**: for every node and value, MCNP (the Spec) reads the first word of what `_format_float` returns
    as the value `v` of the chosen candidate's `Dec`; and `v` is within the tolerance of the value set (17-digit
    fallback), or the text passed the model's own read-back check (`fortran_float(text)` within the tolerance).
    The only step not proved is `fortran_float(text) = v` in the second case (validated on every run, `render_ok`). -/
theorem C05_float_text (n : Node) (x : Num) (hx : 0 ≤ x.mag) (tail : Text) (ht : tail = [] ∨ StartsSep tail) :
    ∃ sp ∈ floatStyles n, ∃ v, parseChars (firstWord (formatFloat n x ++ tail)) = some v ∧ v = (decOf x sp).value ∧
      (Spec.isClose v x.toRat ∨ ∃ y, fortranFloat (formatFloat n x) = some y ∧ Spec.isClose y x.toRat) := by
  obtain ⟨sp, hsp, heq, hor⟩ := C05_float n x hx
  refine ⟨sp, hsp, (decOf x sp).value, ?_, rfl, ?_⟩
  · rw [heq]; exact C05_candidate_text n.fmt x sp tail ht
  · rcases hor with h | h
    · exact Or.inr h
    · exact Or.inl h

/-- a float written as an integer (`_can_float_to_int_happen`) is within the tolerance of its nearest integer, which
    `C05_int` shows is what MCNP reads -/
theorem C05_float_as_int (n : Node) (v : Num) (hv : n.value = some v) (h : canFloatToIntHappen n = true) :
    Spec.isClose (v.round : ℚ) v.toRat := by
  unfold canFloatToIntHappen at h
  split at h
  · exact absurd h (by simp)
  · rw [hv] at h
    exact spec_of_model_isClose _ _ h

/-! ## integers, text level -/

theorem fmtD_eq (sign : Char) (width : Nat) (k : Int) : ∃ z,
    fmtD sign width k = signText sign (decide (k < 0)) ++ (List.replicate z '0' ++ Nat.toDigits 10 k.natAbs) := by
  refine ⟨fillZeros width (signText sign (decide (k < 0))) (pyBody ⟨decide (k < 0), k.natAbs, 0, none⟩), ?_⟩
  unfold fmtD renderPy
  simp [pyBody, mantissa, intDigits]

/-- **C05_int** (text level): for every sign style, zero padding and integer `k`, and whatever follows (nothing, or
    something that starts with a blank, a line break or `$`), the Spec reads the first word of what an int node
    writes as exactly `k` -/
theorem C05_int (sign : Char) (width : Nat) (k : Int) (tail : Text) (ht : tail = [] ∨ StartsSep tail) :
    parseChars (firstWord (fmtD sign width k ++ tail)) = some (k : ℚ) := by
  obtain ⟨z, hz⟩ := fmtD_eq sign width k
  rw [hz]
  obtain ⟨hd, hne, _⟩ := fill_digits z k.natAbs
  have hval : (if decide (k < 0) = true then -((k.natAbs : Nat) : ℚ) else ((k.natAbs : Nat) : ℚ)) = (k : ℚ) := by
    have := C05_int_value k
    unfold Dec.value pow10Rat at this
    simpa using this
  have hdw : ∀ c ∈ List.replicate z '0' ++ Nat.toDigits 10 k.natAbs, WordChar c := fun c hc => wordChar_digit c (hd c hc)
  -- the word that is read: the text without the blank of sign style " "
  have key : ∀ (sg : Text) (neg : Bool),
      (sg = [] ∧ neg = false ∨ sg = ['+'] ∧ neg = false ∨ sg = ['-'] ∧ neg = true) →
      parseChars (firstWord ((sg ++ (List.replicate z '0' ++ Nat.toDigits 10 k.natAbs)) ++ tail))
        = some (if neg then -((k.natAbs : Nat) : ℚ) else ((k.natAbs : Nat) : ℚ)) := by
    intro sg neg hs
    have hw : ∀ c ∈ sg ++ (List.replicate z '0' ++ Nat.toDigits 10 k.natAbs), WordChar c := by
      intro c hc
      rcases List.mem_append.mp hc with h | h
      · rcases hs with ⟨rfl, _⟩ | ⟨rfl, _⟩ | ⟨rfl, _⟩
        · simp at h
        · simp at h; subst h; exact ⟨by decide, by decide, by decide, by decide⟩
        · simp at h; subst h; exact ⟨by decide, by decide, by decide, by decide⟩
      · exact hdw c h
    rcases firstWord_word _ tail hw ht with h | ⟨h, _⟩
    · rw [h]; exact parse_int_layout sg neg hs z k.natAbs
    · exfalso
      have : sg ++ (List.replicate z '0' ++ Nat.toDigits 10 k.natAbs) ≠ [] := by simp
      exact this h
  unfold signText
  by_cases hk : k < 0
  · simp only [hk, decide_true, if_true] at hval ⊢
    rw [← hval]; exact key ['-'] true (Or.inr (Or.inr ⟨rfl, rfl⟩))
  · simp only [hk, decide_false, Bool.false_eq_true, if_false] at hval ⊢
    rw [← hval]
    split
    · exact key ['+'] false (Or.inr (Or.inl ⟨rfl, rfl⟩))
    · split
      · rw [List.append_assoc, List.singleton_append, firstWord_blank]
        have := key [] false (Or.inl ⟨rfl, rfl⟩)
        simpa using this
      · exact key [] false (Or.inl ⟨rfl, rfl⟩)


example : StartsSep " 2".toList := ⟨' ', ['2'], rfl, Or.inl rfl⟩

end MontePyVerif.C05
