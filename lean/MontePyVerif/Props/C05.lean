import MontePyVerif.Lemmas.Pick
import MontePyVerif.Lemmas.Text
import MontePyVerif.Lemmas.ReadBack
import MontePyVerif.Lemmas.TransformWrite
/-!
# C05 — numbers set through the API are written without loss

Model: `Model/ValueFormat.lean` (the repaired `ValueNode.format`, `fortran_float`, CPython's `format` on exact
rationals).  Spec: `Spec/Number.lean` (how MCNP reads a number, the tolerance).  Lemmas: `Lemmas/Round.lean`,
`Lemmas/Dec.lean`, `Lemmas/Pick.lean`.

A formatted number is a `Dec` (sign, digits, digits after the point, exponent) that is then laid out as text.
The theorems below are about **all** nodes, paddings and values.  The arithmetic ones are proved on the `Dec` level;
`Lemmas/Text.lean` proves that the Spec reads the first word of *every* layout (`renderPy`, `renderSci`: sign style, zero
fill, point, divider or none, exponent padding) as exactly `Dec.value`; `Lemmas/Readers.lean` proves that the Spec and the
model's `fortranFloat` (Python's `float()` automaton, then the `re.sub` that inserts the `E`) read every well-formed
`Spelling` — the `Real` rule of DESIGN.md §5.2 and every text the formatter lays out — as the same number;
`Lemmas/ReadBack.lean` concludes that the read-back check inside `_format_float` reads every candidate as `Dec.value`.
So `C05_float_full`, `C05_end_to_end`, `C05_end_to_end_new`, `C05_changed_float_signed` and `C05_default_node` carry no
hypothesis about any reader.  The only named assumption is `ReprExact` (CPython's `repr`), used by `C05_default_node`.
-/
namespace MontePyVerif.C05
open MontePyVerif.ValueFormat

/-! ## the tolerance and the tables of the code -/

/-- the library's tolerance is the double nearest `1e-9`, no absolute tolerance (`constants.py`) -/
theorem C05_tolerance : (1 : ℚ) / 10 ^ 9 ≤ Spec.relTol ∧ Spec.relTol ≤ 1 / 10 ^ 9 + 1 / 10 ^ 24 ∧ Spec.absTol = 0 := by
  unfold Spec.relTol Spec.absTol Gen.relTolNum Gen.relTolDen Gen.absTolNum Gen.absTolDen
  norm_num

/-- `ValueNode._MAX_PRECISION` reaches the 17 significant digits that identify a double -/
theorem C05_max_precision : 17 ≤ Gen.maxPrecision := by decide

/-! ## rounding error of CPython's `format` (re-exported from `Lemmas/Dec.lean`) -/

/-- `.{p}f`: absolute error at most half a unit of the p-th decimal -/
theorem C05_pyformat_error (x : Num) (hx : 0 ≤ x.mag) (p : Nat) :
    |(decF x p).value - x.toRat| ≤ 1 / 2 * (10 : ℚ) ^ (-(p : Int)) ∧
    |(decE x p).value - x.toRat| ≤ 1 / 2 * (10 : ℚ) ^ (-(p : Int)) * x.mag ∧
    |(decG x p).value - x.toRat| ≤ 1 / 2 * (10 : ℚ) ^ (-(((if p = 0 then 1 else p) - 1 : Nat) : Int)) * x.mag :=
  ⟨C05_pyformat_error_f x hx p, C05_pyformat_error_e x hx p, C05_pyformat_error_g x hx p⟩

example : (0 : ℚ) ≤ (⟨false, 11 / 4, false⟩ : Num).mag := by norm_num

/-! ## floats -/

/-- **C05_float** (on the structured level).  Whatever the node (token spelling, padding, reverse-engineered
    formatter, history) and whatever the new value, the text `_format_float` returns is one of the candidate
    renderings, and either it passed the read-back check (`fortran_float` of it is within the tolerance of the
    value) or it is the rendering of a `Dec` whose value is within the tolerance (the 17-digit fallback). -/
theorem C05_float (n : Node) (x : Num) (hx : 0 ≤ x.mag) :
    ∃ sp ∈ floatStyles n, formatFloat n x = formatFloatAs n.fmt x sp ∧
      ((∃ y, fortranFloat (formatFloat n x) = some y ∧ Spec.isClose y x.toRat) ∨
        Spec.isClose (decOf x sp).value x.toRat) := by
  obtain ⟨hne, hlast⟩ := floatStyles_last n
  have hne' : (floatStyles n).map (formatFloatAs n.fmt x) ≠ [] := by simpa using hne
  unfold formatFloat
  rcases pickFirst_spec x _ hne' with h | h
  · have hmem := pickFirst_mem x _ hne'
    obtain ⟨sp, hsp, heq⟩ := List.mem_map.mp hmem
    refine ⟨sp, hsp, heq.symm, Or.inl ?_⟩
    unfold readsBack at h
    split at h
    · rename_i y hy
      exact ⟨y, hy, spec_of_model_isClose _ _ h⟩
    · exact absurd h (by simp)
  · refine ⟨(floatStyles n).getLast hne, List.getLast_mem hne, ?_, Or.inr (enough_close x hx _ hlast)⟩
    rw [h, List.getLast_map]

/-- **C05_default_node_spelling** (tie to the source, re-checked against the regenerated constant on every run):
    a node made from a value at write time, with no token at all (`MCNP_Object._generate_default_node(float, v)`:
    `Transform._update_values` makes one for every rotation entry the TR input did not hold), is given Python's
    `str(v)` as its token, or the value itself when that is `None`/a jump. `str` of a float is `repr`, the shortest
    decimal that reads back as exactly `v` (CPython `float_repr_style = 'short'`, David Gay's algorithm: trusted, not
    modelled; sampled by unit U-repr of the check), so such a node is written with a token that reads back as the
    value set. Any other spelling (a `%g`/`:g` format keeps 6 digits) re-opens this obligation. -/
theorem C05_default_node_spelling : Gen.defaultNodeSpellings = ["default", "str(default)"] := by decide

/-- a node created from scratch: `ValueNode(None, float)` -/
def newNode : Node :=
  { token := .none, ty := .float, padding := none, neverPad := false, value := none, ogValue := none,
    isNegId := false, isNegVal := false, isNeg := none, fmt := floatDefaults, isReversed := false }

example : mkNode .none .float none = some newNode := rfl
example : floatStyles newNode ≠ [] := by decide

/-- **C05_new_node**: an object created from scratch (no token) is never reverse engineered and is written in
    Python's general format, starting from the default precision; `C05_float` applies to it as to any node. -/
theorem C05_new_node (n : Node) (h : n.token = .none) (hr : n.isReversed = false) :
    reverseEngineerFormatting n = n ∧ ∀ sp ∈ floatStyles n, sp.1 = FStyle.g ∧ n.fmt.precision ≤ sp.2 := by
  constructor
  · unfold reverseEngineerFormatting; simp [h, hr]
  · intro sp hsp
    unfold floatStyles at hsp
    simp only [hr, Bool.not_false, if_true, List.mem_map] at hsp
    obtain ⟨q, hq, rfl⟩ := hsp
    refine ⟨rfl, ?_⟩
    unfold pyRange at hq
    have := List.mem_range'_1.mp hq
    exact this.1

/-! ## integers -/

/-- **C05_int** (value level): an integer is written as the `Dec` with no fraction and no exponent whose value
    is exactly that integer, for every sign style and zero padding -/
theorem C05_int_value (k : Int) : (⟨decide (k < 0), k.natAbs, 0, none⟩ : Dec).value = (k : ℚ) := by
  unfold Dec.value pow10Rat
  obtain ⟨m, rfl | rfl⟩ := Int.eq_nat_or_neg k
  · simp
  · by_cases hm : m = 0
    · subst hm; simp
    · simp

/-- an int-typed node writes `int(value)` with `d`: no rounding, no precision -/
theorem C05_int_branch (n : Node) (x : Num) (h : n.ty = .int) :
    formatTemp n x = renderPy n.fmt.sign n.fmt.zeroPadding ⟨decide (x.trunc < 0), x.trunc.natAbs, 0, none⟩ := by
  unfold formatTemp fmtD; simp [h]

/-- `int(x)` of an integer is that integer -/
theorem C05_trunc_ofInt (k : Int) : (Num.ofInt k).trunc = k := by
  unfold Num.trunc Num.ofInt
  simp only []
  have hnum : ((k.natAbs : Nat) : ℚ).num = (k.natAbs : Int) := by simp
  have hden : ((k.natAbs : Nat) : ℚ).den = 1 := by simp
  rw [hnum, hden]
  obtain ⟨m, rfl | rfl⟩ := Int.eq_nat_or_neg k
  · simp
  · by_cases hm : m = 0
    · subst hm; simp
    · simp

/-! ## unchanged values -/

/-- **C05_unchanged**: a value that was not changed is written as its token followed by its padding, verbatim -/
theorem C05_unchanged (n : Node) (h : valueChanged n = false) :
    (format n).2 = n.token.text ++ (match n.padding with | some p => padFormat p | none => []) ∧ (format n).1 = n := by
  unfold format; rw [h]; exact ⟨rfl, rfl⟩

example : ∃ n, mkNode .jump .float (some [.spaces 2]) = some n ∧ valueChanged n = false := ⟨_, rfl, rfl⟩

/-- what `format` writes for a changed value: the number, left-justified in the token's width, then the padding -/
theorem C05_format_changed (n : Node) (h : valueChanged n = true) (x : Num)
    (hx : printValue (reverseEngineerFormatting n) = some x) (hv : n.value.isSome = true) :
    (format n).2 =
      ljust (formatTemp (reverseEngineerFormatting n) x) (reverseEngineerFormatting n).fmt.valueLength
        ++ (padStrings (reverseEngineerFormatting n) (formatTemp (reverseEngineerFormatting n) x).length).1
        ++ (padStrings (reverseEngineerFormatting n) (formatTemp (reverseEngineerFormatting n) x).length).2 := by
  unfold format
  simp only [h, Bool.not_true, Bool.false_eq_true, if_false]
  cases hval : n.value with
  | none => simp [hval] at hv
  | some v => simp [hx]

/-! ## no fusion with the next word -/

/-- a padding whose first item separates words: blanks (at least one; a following run of blanks is not empty
    either), a line break, or a `$` comment -/
inductive PadOK : List PadItem → Prop
  | spaces (k : Nat) (rest : List PadItem) : 1 ≤ k → (∀ j r, rest = .spaces j :: r → 1 ≤ j) → PadOK (.spaces k :: rest)
  | newline (rest : List PadItem) : PadOK (.newline :: rest)
  | comment (c : Text) (rest : List PadItem) : PadOK (.comment ('$' :: c) :: rest)

/-- **C05_separated**: whenever the node's padding separates words, what `format` writes after the number
    (however long the new number is) starts with a blank, a line break or a `$`: the number cannot fuse with
    the next word -/
theorem C05_separated (n : Node) (temp : Text) (items : List PadItem) (hp : n.padding = some items) (hok : PadOK items) :
    ljust temp n.fmt.valueLength ++ (padStrings n temp.length).1 ++ (padStrings n temp.length).2
      = temp ++ (List.replicate (n.fmt.valueLength - temp.length) ' ' ++ (padStrings n temp.length).1 ++ (padStrings n temp.length).2)
    ∧ StartsSep (List.replicate (n.fmt.valueLength - temp.length) ' ' ++ (padStrings n temp.length).1 ++ (padStrings n temp.length).2) := by
  constructor
  · unfold ljust; simp [List.append_assoc]
  · by_cases hlen : 1 ≤ n.fmt.valueLength - temp.length
    · rw [List.append_assoc]; exact replicate_startsSep _ hlen _
    · have h0 : n.fmt.valueLength - temp.length = 0 := by omega
      have hge : n.fmt.valueLength ≤ temp.length := by omega
      rw [h0]
      simp only [List.replicate_zero, List.nil_append]
      cases hok with
      | spaces k rest hk hrest =>
        unfold padStrings
        simp only [hp]
        cases rest with
        | nil => simp [hge]; exact ⟨' ', [], rfl, Or.inl rfl⟩
        | cons it r =>
          cases it with
          | spaces j =>
            have hj := hrest j r rfl
            simp [padFormat, PadItem.format]
            exact replicate_startsSep j hj _
          | newline =>
            simp [padFormat, PadItem.format]
            exact ⟨'\n', _, rfl, Or.inr (Or.inl rfl)⟩
          | comment c =>
            simp [hge]
            exact ⟨' ', _, rfl, Or.inl rfl⟩
      | newline rest =>
        unfold padStrings
        simp only [hp]
        simp [padFormat, PadItem.format]
        exact ⟨'\n', _, rfl, Or.inr (Or.inl rfl)⟩
      | comment c rest =>
        unfold padStrings
        simp only [hp]
        simp [padFormat, PadItem.format]
        exact ⟨'$', _, rfl, Or.inr (Or.inr rfl)⟩

example : PadOK [.spaces 1, .comment "$ hi".toList, .newline] :=
  PadOK.spaces 1 _ (by decide) (by intro j r h; cases h)

/-! ## floats, text level -/

open MontePyVerif.Spec

/-- **C05_candidate_text**: for every formatter (sign style, zero padding, divider, exponent padding), value, style and
    precision, and whatever follows (nothing, or something starting with a blank, a line break or `$`): the Spec reads
    the first word of the candidate's text as exactly the value of the candidate's `Dec` -/
theorem C05_candidate_text (f : Formatter) (x : Num) (sp : FStyle × Nat) (tail : Text) (ht : tail = [] ∨ StartsSep tail) :
    parseChars (firstWord (formatFloatAs f x sp ++ tail)) = some (decOf x sp).value := by
  obtain ⟨st, q⟩ := sp
  cases st
  · show parseChars (firstWord (renderPy f.sign f.zeroPadding (decG x q) ++ tail)) = some (decG x q).value
    exact spec_reads_renderPy f.sign f.zeroPadding (decG x q) tail ht
  · show parseChars (firstWord (renderSci f (decE x q) ++ tail)) = some (decE x q).value
    exact spec_reads_renderSci f (decE x q) tail ht
  · show parseChars (firstWord (renderPy f.sign f.zeroPadding (decF x q) ++ tail)) = some (decF x q).value
    exact spec_reads_renderPy f.sign f.zeroPadding (decF x q) tail ht

/-- **C05_float_text**: for every node and value, MCNP (the Spec) reads the first word of what `_format_float` returns
    as the value `v` of the chosen candidate's `Dec`; and `v` is within the tolerance of the value set (17-digit
    fallback), or the text passed the model's own read-back check (`fortran_float(text)` within the tolerance).
    The only step not proved is `fortran_float(text) = v` in the second case (validated on every run, `render_ok`). -/
theorem C05_float_text (n : Node) (x : Num) (hx : 0 ≤ x.mag) (tail : Text) (ht : tail = [] ∨ StartsSep tail) :
    ∃ sp ∈ floatStyles n, ∃ v, parseChars (firstWord (formatFloat n x ++ tail)) = some v ∧ v = (decOf x sp).value ∧
      (Spec.isClose v x.toRat ∨ ∃ y, fortranFloat (formatFloat n x) = some y ∧ Spec.isClose y x.toRat) := by
  obtain ⟨sp, hsp, heq, hor⟩ := C05_float n x hx
  refine ⟨sp, hsp, (decOf x sp).value, ?_, rfl, ?_⟩
  · rw [heq]; exact C05_candidate_text n.fmt x sp tail ht
  · rcases hor with h | h
    · exact Or.inr h
    · exact Or.inl h

/-- a float written as an integer (`_can_float_to_int_happen`) is within the tolerance of its nearest integer, which
    `C05_int` shows is what MCNP reads -/
theorem C05_float_as_int (n : Node) (v : Num) (hv : n.value = some v) (h : canFloatToIntHappen n = true) :
    Spec.isClose (v.round : ℚ) v.toRat := by
  unfold canFloatToIntHappen at h
  split at h
  · exact absurd h (by simp)
  · rw [hv] at h
    exact spec_of_model_isClose _ _ h

/-! ## integers, text level -/

theorem fmtD_eq (sign : Char) (width : Nat) (k : Int) : ∃ z,
    fmtD sign width k = signText sign (decide (k < 0)) ++ (List.replicate z '0' ++ Nat.toDigits 10 k.natAbs) := by
  refine ⟨fillZeros width (signText sign (decide (k < 0))) (pyBody ⟨decide (k < 0), k.natAbs, 0, none⟩), ?_⟩
  unfold fmtD renderPy
  simp [pyBody, mantissa, intDigits]

/-- **C05_int** (text level): for every sign style, zero padding and integer `k`, and whatever follows (nothing, or
    something that starts with a blank, a line break or `$`), the Spec reads the first word of what an int node
    writes as exactly `k` -/
theorem C05_int (sign : Char) (width : Nat) (k : Int) (tail : Text) (ht : tail = [] ∨ StartsSep tail) :
    parseChars (firstWord (fmtD sign width k ++ tail)) = some (k : ℚ) := by
  obtain ⟨z, hz⟩ := fmtD_eq sign width k
  rw [hz]
  obtain ⟨hd, hne, _⟩ := fill_digits z k.natAbs
  have hval : (if decide (k < 0) = true then -((k.natAbs : Nat) : ℚ) else ((k.natAbs : Nat) : ℚ)) = (k : ℚ) := by
    have := C05_int_value k
    unfold Dec.value pow10Rat at this
    simpa using this
  have hdw : ∀ c ∈ List.replicate z '0' ++ Nat.toDigits 10 k.natAbs, WordChar c := fun c hc => wordChar_digit c (hd c hc)
  -- the word that is read: the text without the blank of sign style " "
  have key : ∀ (sg : Text) (neg : Bool),
      (sg = [] ∧ neg = false ∨ sg = ['+'] ∧ neg = false ∨ sg = ['-'] ∧ neg = true) →
      parseChars (firstWord ((sg ++ (List.replicate z '0' ++ Nat.toDigits 10 k.natAbs)) ++ tail))
        = some (if neg then -((k.natAbs : Nat) : ℚ) else ((k.natAbs : Nat) : ℚ)) := by
    intro sg neg hs
    have hw : ∀ c ∈ sg ++ (List.replicate z '0' ++ Nat.toDigits 10 k.natAbs), WordChar c := by
      intro c hc
      rcases List.mem_append.mp hc with h | h
      · rcases hs with ⟨rfl, _⟩ | ⟨rfl, _⟩ | ⟨rfl, _⟩
        · simp at h
        · simp at h; subst h; exact ⟨by decide, by decide, by decide, by decide⟩
        · simp at h; subst h; exact ⟨by decide, by decide, by decide, by decide⟩
      · exact hdw c h
    rcases firstWord_word _ tail hw ht with h | ⟨h, _⟩
    · rw [h]; exact parse_int_layout sg neg hs z k.natAbs
    · exfalso
      have : sg ++ (List.replicate z '0' ++ Nat.toDigits 10 k.natAbs) ≠ [] := by simp
      exact this h
  unfold signText
  by_cases hk : k < 0
  · simp only [hk, decide_true, if_true] at hval ⊢
    rw [← hval]; exact key ['-'] true (Or.inr (Or.inr ⟨rfl, rfl⟩))
  · simp only [hk, decide_false, Bool.false_eq_true, if_false] at hval ⊢
    rw [← hval]
    split
    · exact key ['+'] false (Or.inr (Or.inl ⟨rfl, rfl⟩))
    · split
      · rw [List.append_assoc, List.singleton_append, firstWord_blank]
        have := key [] false (Or.inl ⟨rfl, rfl⟩)
        simpa using this
      · exact key [] false (Or.inl ⟨rfl, rfl⟩)


example : StartsSep " 2".toList := ⟨' ', ['2'], rfl, Or.inl rfl⟩

/-! ## full strength: no hypothesis about the model's reader -/

/-- **C05_float_full**: for every node (token spelling, padding, reverse-engineered formatter, history), every value
    and whatever follows the number (nothing, or something that starts with a blank, a line break or `$`): MCNP (the
    Spec) reads the first word of what `_format_float` writes as a value within the library tolerance of the value set.
    The acceptance test of a candidate before the 17-digit fallback is the model's `fortran_float`; by
    `fortran_reads_candidate` it returns the value the Spec reads. -/
theorem C05_float_full (n : Node) (x : Num) (hx : 0 ≤ x.mag) (tail : Text) (ht : tail = [] ∨ StartsSep tail) :
    ∃ v, parseChars (firstWord (formatFloat n x ++ tail)) = some v ∧ Spec.isClose v x.toRat := by
  obtain ⟨sp, _, heq, hor⟩ := C05_float n x hx
  refine ⟨(decOf x sp).value, ?_, ?_⟩
  · rw [heq]; exact C05_candidate_text n.fmt x sp tail ht
  · rcases hor with ⟨y, hy, hc⟩ | h
    · rw [heq, fortran_reads_candidate] at hy
      cases hy; exact hc
    · exact h

/-! ## the original token -/

theorem ofRat_toRat (q : ℚ) : (Num.ofRat q).toRat = q := by
  unfold Num.ofRat Num.toRat ratAbs
  by_cases h : q < 0 <;> simp [h]

theorem ofRat_mag_nonneg (q : ℚ) : 0 ≤ (Num.ofRat q).mag := by
  unfold Num.ofRat ratAbs
  by_cases h : q < 0 <;> simp [h] <;> linarith

/-- **C05_token_reading**: `ValueNode.__init__` (`fortran_float`) reads every original token that is a well-formed
    spelling — in particular every token of the `Real` rule of DESIGN.md §5.2 — as exactly the number MCNP reads -/
theorem C05_token_reading (sp : Spelling) (wf : sp.WF) (pad : Option (List PadItem)) (np : Bool) :
    parseChars sp.text = some sp.value ∧
    mkNode (.str sp.text) .float pad np = some
      { token := .str sp.text, ty := .float, padding := pad, neverPad := np, value := some (Num.ofRat sp.value),
        ogValue := some (Num.ofRat sp.value), isNegId := false, isNegVal := false, isNeg := none,
        fmt := floatDefaults, isReversed := false } := by
  obtain ⟨h1, h2⟩ := readers_agree sp wf
  refine ⟨h2, ?_⟩
  unfold mkNode
  simp only []
  rw [h1, h2]
  rfl

theorem C05_token_reading_G (sp : Spelling) (g : sp.IsGReal) :
    fortranFloat sp.text = parseChars sp.text ∧ parseChars sp.text = some sp.value := readers_agree sp g.wf

/-- `1.5-3` is a spelling of the `Real` rule -/
example : (⟨[], "1".toList, true, "5".toList, some ⟨[], ['-'], "3".toList⟩⟩ : Spelling).IsGReal := by
  refine ⟨⟨Or.inl rfl, ?_, ?_, Or.inl (by simp), ?_, ?_⟩, ?_⟩
  · intro c hc; simp at hc; subst hc; decide
  · intro c hc; simp at hc; subst hc; decide
  · intro h; cases h
  · intro x hx; cases hx
    refine ⟨Or.inl rfl, Or.inr (Or.inr rfl), ?_, by simp, by intro _; simp⟩
    intro c hc; simp at hc; subst hc; decide
  · intro x hx; cases hx; exact ⟨by decide, fun _ => rfl⟩


/-! ## end to end: token spelling × padding × new value -/

theorem reverse_fields (n : Node) :
    (reverseEngineerFormatting n).value = n.value ∧ (reverseEngineerFormatting n).padding = n.padding ∧
    (reverseEngineerFormatting n).ty = n.ty ∧ (reverseEngineerFormatting n).isNegId = n.isNegId ∧
    (reverseEngineerFormatting n).isNegVal = n.isNegVal ∧ (reverseEngineerFormatting n).isNeg = n.isNeg := by
  unfold reverseEngineerFormatting
  split
  · exact ⟨rfl, rfl, rfl, rfl, rfl, rfl⟩
  · split <;> exact ⟨rfl, rfl, rfl, rfl, rfl, rfl⟩

/-- paddings under which the number stays a word of its own: none, empty, or starting with a separator -/
def PadSep (pad : Option (List PadItem)) : Prop :=
  pad = none ∨ pad = some [] ∨ ∃ items, pad = some items ∧ PadOK items

theorem blanks_sep (k : Nat) : List.replicate k ' ' = [] ∨ StartsSep (List.replicate k ' ') := by
  by_cases hk : 1 ≤ k
  · right; have := replicate_startsSep k hk []; simpa using this
  · left; have : k = 0 := by omega
    simp [this]

/-- what `format` writes behind the number is empty or starts with a separator -/
theorem padSep_tail (n : Node) (temp : Text) (h : PadSep n.padding) :
    ∃ tail, ljust temp n.fmt.valueLength ++ (padStrings n temp.length).1 ++ (padStrings n temp.length).2 = temp ++ tail ∧
      (tail = [] ∨ StartsSep tail) := by
  rcases h with h | h | ⟨items, h, hok⟩
  · refine ⟨List.replicate (n.fmt.valueLength - temp.length) ' ', ?_, blanks_sep _⟩
    unfold padStrings ljust; simp [h]
  · refine ⟨List.replicate (n.fmt.valueLength - temp.length) ' ', ?_, blanks_sep _⟩
    unfold padStrings ljust; simp [h]
  · obtain ⟨h1, h2⟩ := C05_separated n temp items h hok
    exact ⟨_, h1, Or.inr h2⟩

/-- `PaddingNode.format()` of an optional padding -/
def padText (pad : Option (List PadItem)) : Text :=
  match pad with
  | some p => padFormat p
  | none => []

theorem padText_sep (pad : Option (List PadItem)) (h : PadSep pad) : padText pad = [] ∨ StartsSep (padText pad) := by
  rcases h with h | h | ⟨items, h, hok⟩
  · left; simp [h, padText]
  · left; simp [h, padText, padFormat]
  · right
    subst h
    cases hok with
    | spaces k rest hk _ =>
      simp only [padText, padFormat, List.map_cons, List.flatten_cons, PadItem.format]
      exact replicate_startsSep k hk _
    | newline rest => exact ⟨'\n', padFormat rest, by simp [padText, padFormat, PadItem.format], Or.inr (Or.inl rfl)⟩
    | comment c rest => exact ⟨'$', c ++ padFormat rest, by simp [padText, padFormat, PadItem.format], Or.inr (Or.inr rfl)⟩

theorem spelling_wordChars (sp : Spelling) (wf : sp.WF) : ∀ c ∈ sp.text, WordChar c := by
  have hsign : ∀ (s : Text), IsSignText s → ∀ c ∈ s, WordChar c := by
    intro s hs c hc
    rcases hs with rfl | rfl | rfl
    · simp at hc
    · simp at hc; exact wordChar_of_mem c (Or.inl hc)
    · simp at hc; exact wordChar_of_mem c (Or.inr (Or.inl hc))
  intro c hc
  unfold Spelling.text Spelling.mantText Spelling.exText at hc
  rcases List.mem_append.mp hc with hc | hc
  · rcases List.mem_append.mp hc with hc | hc
    · rcases List.mem_append.mp hc with hc | hc
      · exact hsign _ wf.sign c hc
      · exact wordChar_digit c (wf.ip c hc)
    · cases hd : sp.dot with
      | false => simp [hd] at hc
      | true =>
        simp only [hd, if_true, List.mem_cons] at hc
        rcases hc with rfl | hc
        · exact wordChar_of_mem _ (Or.inr (Or.inr (Or.inl rfl)))
        · exact wordChar_digit c (wf.fp c hc)
  · cases hx : sp.ex with
    | none => simp [hx] at hc
    | some x =>
      have wx := wf.ex x hx
      simp only [hx, ExpSp.text] at hc
      rcases List.mem_append.mp hc with hc | hc
      · rcases List.mem_append.mp hc with hc | hc
        · rcases wx.letter with h | h | h <;> rw [h] at hc
          · simp at hc
          · simp at hc; exact wordChar_of_mem c (Or.inr (Or.inr (Or.inr (Or.inl hc))))
          · simp at hc; exact wordChar_of_mem c (Or.inr (Or.inr (Or.inr (Or.inr hc))))
        · exact hsign _ wx.sign c hc
      · exact wordChar_digit c (wx.digits c hc)

theorem spelling_ne_nil (sp : Spelling) (wf : sp.WF) : sp.text ≠ [] := by
  unfold Spelling.text Spelling.mantText
  have := mant_ne_nil sp wf
  intro h
  simp only [List.append_eq_nil_iff] at h
  exact this (by simp [h.1.1.2, h.1.2])

theorem isClose_symm (a b : ℚ) (h : Spec.isClose a b) : Spec.isClose b a := by
  unfold Spec.isClose at h ⊢
  rw [absR_eq, absR_eq, absR_eq] at h ⊢
  rw [abs_sub_comm b a, max_comm |a| |b|]
  exact h

/-- **C05_changed_float**: for every float node that is not negatable — whatever its token (spelled, jump, none),
    formatter and history — whose value `x` differs from the original one and whose padding keeps words apart, MCNP
    reads the first word of what `format()` writes as a value within the tolerance of `x` -/
theorem C05_changed_float (n : Node) (hty : n.ty = .float) (hneg : isNegative n = none) (x : Num)
    (hv : n.value = some x) (hx : 0 ≤ x.mag) (hch : valueChanged n = true) (hpad : PadSep n.padding) :
    ∃ v, parseChars (firstWord (format n).2) = some v ∧ Spec.isClose v x.toRat := by
  obtain ⟨rv, rp, rty, rid, rval, rneg⟩ := reverse_fields n
  set n' := reverseEngineerFormatting n with hn'
  have hneg' : isNegative n' = none := by
    unfold isNegative at hneg ⊢; rw [rid, rval, rneg]; exact hneg
  have hpv : printValue n' = some x := by
    unfold printValue; rw [hneg', rv, hv]
  have hfmt := C05_format_changed n hch x hpv (by rw [hv]; rfl)
  rw [hfmt]
  obtain ⟨tail, htail, hsep⟩ := padSep_tail n' (formatTemp n' x) (by rw [rp]; exact hpad)
  rw [htail]
  unfold formatTemp
  have hty' : ¬ (n'.ty = Ty.int) := by rw [rty, hty]; intro h; cases h
  simp only [hty', if_false]
  split
  · rename_i hint
    refine ⟨(x.round : ℚ), C05_int _ _ _ tail hsep, ?_⟩
    exact C05_float_as_int n' x (by rw [rv, hv]) hint
  · exact C05_float_full n' x hx tail hsep

/-- **C05_end_to_end**: for every original token that is a well-formed spelling (the `Real` rule of DESIGN.md §5.2 and
    more: leading zeros, explicit `+`, exponent with or without letter), every padding that keeps words apart and every
    new value `x` set through `value = x`: MCNP (the Spec) reads the first word of what `format()` writes as a value
    within the library tolerance of `x` — whether the token is kept verbatim (value unchanged within the tolerance)
    or a new number is written in the reverse-engineered style with as many digits as needed -/
theorem C05_end_to_end (sp : Spelling) (wf : sp.WF) (pad : Option (List PadItem)) (hpad : PadSep pad) (np : Bool)
    (x : Num) (hx : 0 ≤ x.mag) :
    ∃ n0, mkNode (.str sp.text) .float pad np = some n0 ∧
      ∃ v, parseChars (firstWord (format (setValue n0 (some x))).2) = some v ∧ Spec.isClose v x.toRat := by
  obtain ⟨hread, hmk⟩ := C05_token_reading sp wf pad np
  refine ⟨_, hmk, ?_⟩
  set n0 : Node :=
    { token := .str sp.text, ty := .float, padding := pad, neverPad := np,
      value := some (Num.ofRat sp.value), ogValue := some (Num.ofRat sp.value), isNegId := false, isNegVal := false,
      isNeg := none, fmt := floatDefaults, isReversed := false } with hn0
  have hset : setValue n0 (some x) = { n0 with value := some x } := by
    unfold setValue isNegative; simp [hn0]
  rw [hset]
  set n : Node := { n0 with value := some x } with hn
  by_cases hch : valueChanged n = true
  · exact C05_changed_float n rfl rfl x rfl hx hch hpad
  · have hch' : valueChanged n = false := by simpa using hch
    obtain ⟨ht, _⟩ := C05_unchanged n hch'
    have ht' : (format n).2 = sp.text ++ padText pad := ht
    rw [ht']
    refine ⟨sp.value, ?_, ?_⟩
    · have hfw : firstWord (sp.text ++ padText pad) = sp.text := by
        rcases firstWord_word sp.text _ (spelling_wordChars sp wf) (padText_sep pad hpad) with h | ⟨h, _⟩
        · exact h
        · exact absurd h (spelling_ne_nil sp wf)
      rw [hfw]; exact hread
    · have hcl : ValueFormat.isClose x.toRat (Num.ofRat sp.value).toRat = true := by
        unfold valueChanged printValue isNegative at hch'
        simpa [hn, hn0] using hch'
      rw [ofRat_toRat] at hcl
      exact isClose_symm _ _ (spec_of_model_isClose _ _ hcl)

/-- **C05_end_to_end_new**: an object created from scratch (a node without token) whose value is set to `x`: MCNP
    reads the first word of what `format()` writes as a value within the tolerance of `x` -/
theorem C05_end_to_end_new (pad : Option (List PadItem)) (hpad : PadSep pad) (np : Bool) (x : Num) (hx : 0 ≤ x.mag) :
    ∃ n0, mkNode .none .float pad np = some n0 ∧
      ∃ v, parseChars (firstWord (format (setValue n0 (some x))).2) = some v ∧ Spec.isClose v x.toRat := by
  refine ⟨_, rfl, ?_⟩
  set n0 : Node :=
    { token := .none, ty := .float, padding := pad, neverPad := np, value := none, ogValue := none,
      isNegId := false, isNegVal := false, isNeg := none, fmt := floatDefaults, isReversed := false } with hn0
  have hpad' : PadSep (setValue n0 (some x)).padding := by
    unfold setValue isNegative
    simp only [hn0]
    cases np
    · rcases hpad with h | h | ⟨items, h, hok⟩
      · subst h; exact Or.inr (Or.inr ⟨_, rfl, PadOK.spaces 1 [] (by decide) (by intro j r h; cases h)⟩)
      · subst h; exact Or.inr (Or.inl rfl)
      · subst h; exact Or.inr (Or.inr ⟨items, rfl, hok⟩)
    · simpa using hpad
  have hval : (setValue n0 (some x)).value = some x := by unfold setValue isNegative; simp [hn0]
  have hty : (setValue n0 (some x)).ty = .float := by unfold setValue; simp [hn0]
  have hneg : isNegative (setValue n0 (some x)) = none := by unfold setValue isNegative; simp [hn0]
  have hch : valueChanged (setValue n0 (some x)) = true := by
    unfold valueChanged; rw [hval]
    have : (setValue n0 (some x)).ogValue = none := by unfold setValue; simp [hn0]
    rw [this]
  exact C05_changed_float _ hty hneg x hval hx hch hpad'


/-! ## nodes with a sign flag (cell densities, negatable identifiers' float cousins) -/

theorem isClose_neg (a b : ℚ) (h : Spec.isClose a b) : Spec.isClose (-a) (-b) := by
  unfold Spec.isClose at h ⊢
  rw [absR_eq, absR_eq, absR_eq] at h ⊢
  have e : -a - -b = -(a - b) := by ring
  rw [e, abs_neg, abs_neg, abs_neg]
  exact h

theorem negate_mag (v : Num) : v.negate.mag = v.mag := by
  unfold Num.negate; split <;> rfl

/-- rounding and closeness only depend on the magnitude -/
theorem round_close_of_mag (v y : Num) (h : y.mag = v.mag) (hc : Spec.isClose (v.round : ℚ) v.toRat) :
    Spec.isClose (y.round : ℚ) y.toRat := by
  unfold Num.round Num.toRat at hc ⊢
  rw [h]
  cases hv : v.neg <;> cases hy : y.neg <;> simp only [hv, Bool.false_eq_true, if_false, if_true] at hc ⊢
  · exact hc
  · have := isClose_neg _ _ hc
    simpa using this
  · have := isClose_neg _ _ hc
    simpa using this
  · exact hc

/-- **C05_changed_float_signed**: the same for *every* float node, negatable or not: what is written is the print
    value `y` (the magnitude `value` with the sign `is_negative`), and MCNP reads the first word of `format()` as a
    value within the tolerance of `y` -/
theorem C05_changed_float_signed (n : Node) (hty : n.ty = .float) (v : Num) (hv : n.value = some v) (hx : 0 ≤ v.mag)
    (hch : valueChanged n = true) (hpad : PadSep n.padding) :
    ∃ y, printValue n = some y ∧ y.mag = v.mag ∧
      ∃ w, parseChars (firstWord (format n).2) = some w ∧ Spec.isClose w y.toRat := by
  obtain ⟨rv, rp, rty, rid, rval, rneg⟩ := reverse_fields n
  set n' := reverseEngineerFormatting n with hn'
  have hpv' : printValue n' = printValue n := by
    unfold printValue isNegative; rw [rid, rval, rneg, rv]
  obtain ⟨y, hy, hmag⟩ : ∃ y, printValue n = some y ∧ y.mag = v.mag := by
    unfold printValue
    split
    · exact ⟨v.negate, by simp [hv], negate_mag v⟩
    · exact ⟨v, hv, rfl⟩
  refine ⟨y, hy, hmag, ?_⟩
  have hfmt := C05_format_changed n hch y (by rw [hpv']; exact hy) (by rw [hv]; rfl)
  rw [hfmt]
  obtain ⟨tail, htail, hsep⟩ := padSep_tail n' (formatTemp n' y) (by rw [rp]; exact hpad)
  rw [htail]
  unfold formatTemp
  have hty' : ¬ (n'.ty = Ty.int) := by rw [rty, hty]; intro h; cases h
  simp only [hty', if_false]
  split
  · rename_i hint
    refine ⟨(y.round : ℚ), C05_int _ _ _ tail hsep, ?_⟩
    exact round_close_of_mag v y hmag (C05_float_as_int n' v (by rw [rv, hv]) hint)
  · exact C05_float_full n' y (by rw [hmag]; exact hx) tail hsep

/-! ## a node made at write time from a value (`_generate_default_node(float, v)`: token `str(v)`) -/

/-- **ReprExact** (named assumption; CPython's `repr` guarantee, in the trusted base, not modelled): `t` is what
    `str(v)` returns for a finite float `v` — a decimal literal (digits, optional point, optional `e±dd`: a well-formed
    spelling) that denotes exactly `v` in the model's number abstraction (in CPython: the shortest decimal whose nearest
    double is `v`, DESIGN.md §1.3) -/
def ReprExact (t : Text) (v : ℚ) : Prop := ∃ sp : Spelling, sp.WF ∧ t = sp.text ∧ sp.value = v

theorem isClose_self (a : ℚ) : ValueFormat.isClose a a = true := by
  unfold ValueFormat.isClose; simp

/-- **C05_default_node**: under `ReprExact t v`, the node `ValueNode(str(v), float, padding)` that
    `_generate_default_node` makes at write time holds exactly `v`, counts as unchanged, is written verbatim
    (`str(v)` followed by its padding), and MCNP reads the first word of it as exactly `v` -/
theorem C05_default_node (t : Text) (v : ℚ) (h : ReprExact t v) (pad : Option (List PadItem)) (hpad : PadSep pad)
    (np : Bool) :
    ∃ n, mkNode (.str t) .float pad np = some n ∧ n.value = some (Num.ofRat v) ∧ valueChanged n = false ∧
      (format n).2 = t ++ padText pad ∧ parseChars (firstWord (format n).2) = some v := by
  obtain ⟨sp, wf, rfl, rfl⟩ := h
  obtain ⟨hread, hmk⟩ := C05_token_reading sp wf pad np
  refine ⟨_, hmk, rfl, ?_⟩
  set n : Node :=
    { token := .str sp.text, ty := .float, padding := pad, neverPad := np,
      value := some (Num.ofRat sp.value), ogValue := some (Num.ofRat sp.value), isNegId := false, isNegVal := false,
      isNeg := none, fmt := floatDefaults, isReversed := false } with hn
  have hch : valueChanged n = false := by
    unfold valueChanged printValue isNegative
    simp [hn, isClose_self]
  obtain ⟨ht, _⟩ := C05_unchanged n hch
  have ht' : (format n).2 = sp.text ++ padText pad := ht
  refine ⟨hch, ht', ?_⟩
  rw [ht']
  have hfw : firstWord (sp.text ++ padText pad) = sp.text := by
    rcases firstWord_word sp.text _ (spelling_wordChars sp wf) (padText_sep pad hpad) with h | ⟨h, _⟩
    · exact h
    · exact absurd h (spelling_ne_nil sp wf)
  rw [hfw]; exact hread

/-- `str(0.1) = "0.1"` denotes 1/10 -/
example : ReprExact "0.1".toList (1 / 10) := by
  refine ⟨⟨[], ['0'], true, ['1'], none⟩, ⟨Or.inl rfl, ?_, ?_, Or.inl (by simp), ?_, ?_⟩, rfl, ?_⟩
  · intro c hc; simp at hc; subst hc; decide
  · intro c hc; simp at hc; subst hc; decide
  · intro h; cases h
  · intro x hx; cases hx
  · simp [Spelling.value, Spelling.mant, Spelling.expValue, sgnQ, negOf, Nat.ofDigitChars]

/-- the default padding of `_generate_default_node` is one blank -/
example : PadSep (some [PadItem.spaces 1]) :=
  Or.inr (Or.inr ⟨_, rfl, PadOK.spaces 1 [] (by decide) (by intro j r h; cases h)⟩)

/-! ## the 12 numbers of a TR input: a jump is only written where MCNP reads the number the transform holds

Model: `Model/TransformWrite.lean` (`Transform._default_entry`, the entry loops of `Transform._update_values`).
Spec: `Spec/Transform.lean` (the defaults of a jumped-over entry, by the unit of the card).  The number a written
entry *spells* is the business of the theorems above; here: which entries may stay a jump.  The state quantifies
over every card that can have been read (jumps anywhere, any number of entries, either unit) and over the unit the
transform has when it is written (the public `is_in_degrees` setter), so a unit switched after reading is included. -/

open MontePyVerif.TransformWrite in
/-- `Transform._default_entry` agrees with MCNP's table of defaults, for `TR` and `*TR` and all 12 positions -/
theorem C05_transform_default_entry (inDegrees : Bool) (k : Nat) (hk : k < 12) :
    defaultEntry inDegrees k = Spec.trDefault inDegrees k := defaultEntry_spec inDegrees k hk

open MontePyVerif.TransformWrite in
/-- the entry loop, for every list of nodes, every list of values and every starting position -/
theorem C05_transform_entries (inDegrees : Bool) (k : Nat) (nodes : List (Option Rat)) (vals : List Rat)
    (hk : k + vals.length ≤ 12) :
    Spec.trReadFrom inDegrees k (updateFrom inDegrees k nodes vals) = vals :=
  updateFrom_reads inDegrees vals k nodes hk

example : 3 + ([0, 1, 0, -1, 0] : List Rat).length ≤ 12 := by decide

open MontePyVerif.TransformWrite in
/-- **every transform**, also one whose card lost jumps at its end to an earlier write: MCNP reads the entries
    `_update_values` writes, in the unit whose modifier it writes and with the entries left off at the end taken as
    jumps, as exactly the displacement and the rotation matrix the transform holds -/
theorem C05_transform_written (s : State) (hd : s.disp.length = 3) (hr : s.rot.length ≤ 9) :
    Spec.trRead s.inDegrees (heldNumbers s).length (writtenEntries s) = heldNumbers s := by
  have hlen := heldNumbers_length s hd hr
  have hfull := updateFrom_length s.inDegrees (heldNumbers s) 0 s.nodes
  unfold Spec.trRead writtenEntries
  by_cases hl : leftOffStays s = true
  · simp only [hl, if_true]
    have hnr : needsRotation s = false := by
      unfold leftOffStays at hl; simp only [Bool.and_eq_true, Bool.not_eq_true'] at hl; exact hl.1
    have hheld : heldNumbers s = s.disp := by simp [heldNumbers, hnr]
    have hall : allDefaultFrom s.inDegrees (0 + s.nodes.length) ((heldNumbers s).drop s.nodes.length) = true := by
      unfold leftOffStays at hl; simp only [Bool.and_eq_true] at hl
      rw [hheld, Nat.zero_add]; exact hl.2
    have h := updateFrom_take_reads s.inDegrees (heldNumbers s) 0 s.nodes s.nodes.length (by omega) hall
    have hcount : (heldNumbers s).length - (List.take s.nodes.length (updateFrom s.inDegrees 0 s.nodes (heldNumbers s))).length
        = (heldNumbers s).length - s.nodes.length := by
      rw [List.length_take, hfull]; omega
    rw [hcount]; exact h
  · have hl' : leftOffStays s = false := by simpa using hl
    simp only [hl', Bool.false_eq_true, if_false]
    rw [hfull, Nat.sub_self]
    simpa using updateFrom_reads s.inDegrees (heldNumbers s) 0 s.nodes (by omega)

open MontePyVerif.TransformWrite in
/-- a card that an earlier write left with two entries (`tr1 0 2j`, displacement (0, 1, 0) written `tr1 0 1`),
    now with the displacement (0, 1, 5): the third entry comes back -/
example : let s : State := ⟨false, true, [some 0, some 1], [0, 1, 5], []⟩
    s.disp.length = 3 ∧ s.rot.length ≤ 9 ∧ writtenEntries s = [some 0, some 1, some 5] ∧
    writtenEntries { s with disp := [0, 1, 0] } = [some 0, some 1] := by
  decide

open MontePyVerif.TransformWrite in
/-- a card read in degrees with jumps on the diagonal, now in cosines with a rotation of 90 degrees about z -/
example : let s : State := ⟨false, true, [some 1, some 2, some 3, none, some 90, some 90, some 90, none, some 90, some 90, some 90, none],
                            [1, 2, 3], [0, 1, 0, -1, 0, 0, 0, 0, 1]⟩
    s.disp.length = 3 ∧ s.rot.length ≤ 9 ∧ writtenEntries s =
      [some 1, some 2, some 3, some 0, some 1, some 0, some (-1), some 0, some 0, some 0, some 0, none] := by
  decide

open MontePyVerif.TransformWrite in
/-- **unit switched and matrix set through the API**: whatever card was read (unit, jumps), after
    `is_in_degrees = b` and `rotation_matrix = m` (a matrix that is written: some entry is not 0) the written
    entries, read in the unit `b` that is written, are the displacement and exactly `m` -/
theorem C05_transform_unit_switch (s : State) (b : Bool) (m : List Rat) (hd : s.disp.length = 3)
    (hm : m.length ≤ 9) (hne : m.any (fun x => decide (x ≠ 0)) = true) :
    Spec.trRead b (s.disp ++ m).length (writtenEntries { s with inDegrees := b, rot := m }) = s.disp ++ m := by
  have h := C05_transform_written { s with inDegrees := b, rot := m } hd hm
  have hn : needsRotation { s with inDegrees := b, rot := m } = true := by
    show (m.any (fun x => decide (x ≠ 0)) || decide (8 ≤ s.nodes.length) || !s.mainToAux) = true
    rw [hne]; simp
  have hf : flatPack { s with inDegrees := b, rot := m } = m := by
    have : m ≠ [] := by intro h0; subst h0; simp at hne
    cases m with
    | nil => exact absurd rfl this
    | cons x xs => simp [flatPack]
  simpa [heldNumbers, hn, hf] using h

example : ([1, 91, 90, 89, 1] : List Rat).length ≤ 9 ∧ ([1, 91, 90, 89, 1] : List Rat).any (fun x => decide (x ≠ 0)) = true := by
  decide

/-! ## histories: edits through the setters and through the arrays the getters hand out, between writes -/

open MontePyVerif.TransformWrite in
/-- the well-formedness the setters keep: three displacement entries, at most nine matrix entries -/
def TrWF (s : State) : Prop := s.disp.length = 3 ∧ s.rot.length ≤ 9

open MontePyVerif.TransformWrite in
theorem applyEdit_wf (s : State) (e : Edit) (h : TrWF s) : TrWF (applyEdit s e) := by
  obtain ⟨hd, hr⟩ := h
  cases e with
  | setDegrees b => exact ⟨hd, hr⟩
  | setRotation m =>
    show TrWF (if 5 ≤ m.length ∧ m.length ≤ 9 then { s with rot := m } else s)
    by_cases hm : 5 ≤ m.length ∧ m.length ≤ 9
    · rw [if_pos hm]; exact ⟨hd, hm.2⟩
    · rw [if_neg hm]; exact ⟨hd, hr⟩
  | setDisplacement d =>
    show TrWF (if d.length = 3 then { s with disp := d } else s)
    by_cases hm : d.length = 3
    · rw [if_pos hm]; exact ⟨hm, hr⟩
    · rw [if_neg hm]; exact ⟨hd, hr⟩
  | rotationAt k v => exact ⟨hd, by simpa [applyEdit] using hr⟩
  | displacementAt k v => exact ⟨by simpa [applyEdit] using hd, hr⟩
  | write ns => exact ⟨hd, hr⟩

open MontePyVerif.TransformWrite in
theorem run_wf (es : List Edit) : ∀ (s : State), TrWF s → TrWF (run s es) := by
  induction es with
  | nil => intro s h; exact h
  | cons e es ih => intro s h; exact ih (applyEdit s e) (applyEdit_wf s e h)

open MontePyVerif.TransformWrite in
/-- a step sees of the state only what the transform holds; a write changes nothing of it -/
theorem applyEdit_held (s t : State) (e : Edit) (h : held s = held t) :
    held (applyEdit s e) = (if e.isWrite then held t else held (applyEdit t e)) := by
  simp only [held, Prod.mk.injEq] at h
  obtain ⟨h1, h2, h3, h4⟩ := h
  cases e with
  | setDegrees b => simp [applyEdit, held, Edit.isWrite, h2, h3, h4]
  | setRotation m =>
    simp only [applyEdit, Edit.isWrite]
    split <;> simp [held, h1, h2, h3, h4]
  | setDisplacement d =>
    simp only [applyEdit, Edit.isWrite]
    split <;> simp [held, h1, h2, h3, h4]
  | rotationAt k v => simp [applyEdit, held, Edit.isWrite, h1, h2, h3, h4]
  | displacementAt k v => simp [applyEdit, held, Edit.isWrite, h1, h2, h3, h4]
  | write ns => simp [applyEdit, held, Edit.isWrite, h1, h2, h3, h4]

open MontePyVerif.TransformWrite in
/-- **writes are transparent**: after every history (setters, in-place assignments, any number of writes in between,
    whatever nodes they leave) the transform holds what it holds after the same edits without any write -/
theorem C05_transform_history_frame (es : List Edit) : ∀ (s t : State), held s = held t →
    held (run s es) = held (run t (dropWrites es)) := by
  induction es with
  | nil => intro s t h; exact h
  | cons e es ih =>
    intro s t h
    have hstep := applyEdit_held s t e h
    cases hw : e.isWrite with
    | true =>
      rw [hw] at hstep
      have : dropWrites (e :: es) = dropWrites es := by simp [dropWrites, hw]
      rw [this]
      exact ih (applyEdit s e) t (by simpa using hstep)
    | false =>
      rw [hw] at hstep
      have : dropWrites (e :: es) = e :: dropWrites es := by simp [dropWrites, hw]
      rw [this]
      exact ih (applyEdit s e) (applyEdit t e) (by simpa using hstep)

open MontePyVerif.TransformWrite in
/-- **every write of every history**: whatever was assigned before it — through a setter or in the array a getter
    handed out, before or after earlier writes — MCNP reads the entries the write produces, in the unit whose
    modifier it writes, as exactly the numbers the transform holds at that moment -/
theorem C05_transform_history (es : List Edit) : ∀ (s : State), TrWF s →
    ∀ w ∈ writesOf s es, TrWF w.1 ∧ Spec.trRead w.1.inDegrees (heldNumbers w.1).length w.2 = heldNumbers w.1 := by
  induction es with
  | nil => intro s _ w hw; simp [writesOf] at hw
  | cons e es ih =>
    intro s h w hw
    simp only [writesOf, List.mem_append] at hw
    rcases hw with hw | hw
    · split at hw
      · simp only [List.mem_singleton] at hw
        subst hw
        exact ⟨h, C05_transform_written s h.1 h.2⟩
      · simp at hw
    · exact ih (applyEdit s e) (applyEdit_wf s e h) w hw

open MontePyVerif.TransformWrite in
/-- the held entry an in-place assignment names is the value assigned, whatever happened before (writes included) -/
theorem C05_transform_inplace_held (es : List Edit) (s : State) (k : Nat) (v : Rat) (hk : k < (run s es).rot.length) :
    (run s (es ++ [Edit.rotationAt k v])).rot[k]? = some v := by
  simp only [run, List.foldl_append, List.foldl_cons, List.foldl_nil, applyEdit] at hk ⊢
  rw [List.getElem?_set_self (by simpa using hk)]

open MontePyVerif.TransformWrite in
/-- non-vacuity, and the history of seeded C05f: `tr1 1 2 3 1 0 0 0 1 0 0 0 1` is written, `rotation_matrix[4] = 5`
    is assigned in the array the getter returned, the input is written again: the second write holds 5 at entry 7 -/
example : let s : State := ⟨false, true, [some 1, some 2, some 3, some 1, some 0, some 0, some 0, some 1, some 0, some 0, some 0, some 1],
                            [1, 2, 3], [1, 0, 0, 0, 1, 0, 0, 0, 1]⟩
    let es := [Edit.write s.nodes, Edit.rotationAt 4 5, Edit.write s.nodes]
    TrWF s ∧ (writesOf s es).map (fun w => w.2[7]?) = [some (some 1), some (some 5)] := by
  refine ⟨⟨by decide, by decide⟩, by decide⟩

end MontePyVerif.C05
