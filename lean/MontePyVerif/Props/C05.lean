import MontePyVerif.Model.ValueFormat
import MontePyVerif.Spec.Number
/-! # C05 — numbers set through the API are written without loss (theorems follow) -/
namespace MontePyVerif.C05
open MontePyVerif.ValueFormat

theorem C05_stub : pyRange 1 3 = [1, 2] := by decide

end MontePyVerif.C05
