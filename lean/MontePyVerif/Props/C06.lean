import MontePyVerif.Model.Collection
/-! # C06 — numbered collections never hold two objects with one number; lookups are current -/
namespace MontePyVerif.Collection

theorem C06_stub : (clear ⟨true, [], [], fun _ => 0, fun _ => false⟩).2 = .ok := rfl

end MontePyVerif.Collection
