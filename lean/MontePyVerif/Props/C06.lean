import MontePyVerif.Lemmas.Collection
/-!
# C06 — numbered collections never hold two objects with one number; lookups are current

Property (fixed text, properties.jsonl): in every collection of a problem, after any sequence of
collection operations and number assignments, no two members share a number; lookup by number
returns the member whose current number is that number and fails for numbers no member has;
numbers offered by `request_number`/`next_number` are free; an operation that raises
`NumberConflictError` leaves the collection unchanged.

Model: `Model/Collection.lean` (one definition per method of `NumberedObjectCollection` and the
number setters).  The invariant `Inv` is in `Lemmas/Collection.lean`.
Only property theorems live here; helper lemmas are in `Lemmas/Collection.lean`.
-/
namespace MontePyVerif.Collection

/-- The only operation whose safety depends on the caller: a number assignment on a *member* is
    checked against the collection only through the object's link to the owning problem. -/
def Admissible (s : St) : Op → Prop
  | .setNumber o _ => o ∈ s.objs → s.link o = true
  | _ => True

/-- In a collection owned by a problem every operation is admissible (members are always linked). -/
theorem owned_admissible {s : St} (h : Inv s) (how : s.owned = true) (op : Op) : Admissible s op := by
  cases op <;> simp only [Admissible]
  exact fun hm => h.linked how _ hm

/-- **C06_init** — a collection built from a list (`__init__`) satisfies the invariant whenever
    construction succeeds (free-standing), and an owned collection starts empty. -/
theorem C06_init (owned : Bool) (num : ObjId → Int) (os : List ObjId) (s : St)
    (h : init owned num os = some s) (hown : owned = true → os = []) : Inv s := by
  unfold init at h
  split at h
  · cases h
  · rename_i c hc
    cases h
    -- generalised loop invariant of `initLoop`
    have key : ∀ (l : List ObjId) (c0 c1 : Cache) (pre : List ObjId),
        initLoop num l c0 = some c1 →
        (∀ n, dget c0 n ≠ none ↔ n ∈ pre.map num) → (pre.map num).Nodup → CacheOK c0 (pre ++ l) →
        ((pre ++ l).map num).Nodup ∧ CacheOK c1 (pre ++ l) := by
      intro l
      induction l with
      | nil =>
        intro c0 c1 pre h1 _ hnd hk
        simp only [initLoop] at h1
        cases h1
        exact ⟨by simpa using hnd, hk⟩
      | cons o t ih =>
        intro c0 c1 pre h1 hkeys hnd hk
        simp only [initLoop] at h1
        split at h1
        · cases h1
        · rename_i hnone
          have hfresh : num o ∉ pre.map num := by
            intro hm
            exact (hkeys (num o)).mpr hm hnone
          have hnd' : ((pre ++ [o]).map num).Nodup := by
            rw [List.map_append]
            refine List.nodup_append.mpr ⟨hnd, by simp, ?_⟩
            intro a ha b hb
            simp at hb
            subst hb
            exact fun e => hfresh (e ▸ ha)
          have hkeys' : ∀ n, dget (dset c0 (num o) o) n ≠ none ↔ n ∈ (pre ++ [o]).map num := by
            intro n
            rw [List.map_append, List.mem_append]
            have hd : ∀ (c : Cache) (k : Int) (v : ObjId) (n : Int),
                dget (dset c k v) n ≠ none ↔ (dget c n ≠ none ∨ n = k) := by
              intro c k v n
              induction c with
              | nil => simp [dset, dget]; exact eq_comm
              | cons a t ih =>
                obtain ⟨k', v'⟩ := a
                simp only [dset]
                split
                · rename_i hk'
                  subst hk'
                  simp only [dget]
                  by_cases e : k' = n
                  · simp [e]
                  · have e' : n ≠ k' := fun x => e x.symm
                    simp [e, e']
                · simp only [dget]
                  by_cases e : k' = n
                  · simp [e]
                  · simp [e, ih]
            rw [hd, hkeys n]
            simp
          have hk' : CacheOK (dset c0 (num o) o) ((pre ++ [o]) ++ t) := by
            have : (pre ++ [o]) ++ t = pre ++ o :: t := by simp
            rw [this]
            exact hk.dset _ (by simp)
          have := ih (dset c0 (num o) o) c1 (pre ++ [o]) h1 hkeys' hnd' hk'
          simpa using this
    have := key os [] c [] hc (by simp [dget]) (by simp) (by intro p hp; cases hp)
    refine ⟨by simpa using this.1, by simpa using this.2, ?_⟩
    intro how x hx
    have := hown how
    subst this
    cases hx

/-- **C06_step** — every admissible operation preserves the invariant, *also when it raises*
    (the state component is the state at the raise point). -/
theorem C06_step (s : St) (op : Op) (h : Inv s) (hadm : Admissible s op) : Inv (step s op).1 := by
  cases op with
  | append o => exact append_inv h o
  | setitem o => exact append_inv h o
  | appendRenumber o k => exact appendRenumber_inv h o k
  | extend os => exact extend_inv h os
  | iadd os => exact iadd_inv h os
  | remove o => exact remove_inv h o
  | pop p => exact pop_inv h p
  | delitem n => exact delitem_inv h n
  | clear => exact clear_inv h
  | setNumber o n => exact setNumber_inv h o n hadm
  | get n => exact h.of_core (get_core s n) (get_cacheOK s n h.cache)
  | getitem n =>
    show Inv (getitem s n).1
    unfold getitem
    have i1 : Inv (get s n).1 := h.of_core (get_core s n) (get_cacheOK s n h.cache)
    split
    · rename_i s1 heq
      have : s1 = (get s n).1 := by rw [heq]
      exact this ▸ i1
    · rename_i s1 o heq
      have : s1 = (get s n).1 := by rw [heq]
      exact this ▸ i1
  | contains o => exact h
  | numbers =>
    exact h.of_core ⟨rfl, rfl, rfl, rfl⟩ (refresh_cacheOK _ _ _ _ (fun _ h => h) h.cache)
  | keys => exact h
  | items => exact h
  | len => exact h
  | checkNumber n => exact h.of_core (checkNumber_core s n) (checkNumber_cacheOK s n h.cache)
  | requestNumber a k => exact h.of_core (requestNumber_core s a k) (requestNumber_cacheOK s a k h.cache)
  | nextNumber k => exact h.of_core (nextNumber_core s k) (nextNumber_cacheOK s k h.cache)
  | slice a b =>
    exact h.of_core (sliceLoop_core _ s a []) (sliceLoop_cacheOK _ s a [] h.cache)

/-- no operation changes whether the collection is owned by a problem -/
theorem step_owned (s : St) (op : Op) : (step s op).1.owned = s.owned := by
  cases op with
  | append o => 
    show (append s o).1.owned = _
    unfold append; split; rename_i s1 f heq
    have : s1 = (inNumbers s (s.num o)).1 := by rw [heq]
    subst this
    split
    · exact (conflict_core _ _).owned
    · rfl
  | setitem o =>
    show (append s o).1.owned = _
    unfold append; split; rename_i s1 f heq
    have : s1 = (inNumbers s (s.num o)).1 := by rw [heq]
    subst this
    split
    · exact (conflict_core _ _).owned
    · rfl
  | appendRenumber o k =>
    show (appendRenumber s o k).1.owned = _
    have app : ∀ (t : St) (x : ObjId), (append t x).1.owned = t.owned := by
      intro t x
      unfold append; split; rename_i s1 f heq
      have : s1 = (inNumbers t (t.num x)).1 := by rw [heq]
      subst this
      split
      · exact (conflict_core _ _).owned
      · rfl
    unfold appendRenumber
    split
    · rfl
    · simp only []
      have c0 := (checkNumber_core s (s.num o)).owned
      split
      · split
        · rw [app, c0]
        · rw [app, c0]
      · split
        · split
          · rw [(requestNumber_core _ _ _).owned, c0]
          · split
            · split
              · rw [app, (setNumber_objs _ _ _).2.2]; show (requestNumber _ _ _).1.owned = _; rw [(requestNumber_core _ _ _).owned, c0]
              · rw [app, (setNumber_objs _ _ _).2.2]; show (requestNumber _ _ _).1.owned = _; rw [(requestNumber_core _ _ _).owned, c0]
            · rw [(setNumber_objs _ _ _).2.2]; show (requestNumber _ _ _).1.owned = _; rw [(requestNumber_core _ _ _).owned, c0]
        · rw [(requestNumber_core _ _ _).owned, c0]
  | extend os =>
    show (extend s os).1.owned = _
    unfold extend
    split
    · rename_i s1 n heq
      have : s1 = (checkAll true s os).1 := by rw [heq]
      subst this
      exact (conflict_core _ _).owned
    · rename_i s1 heq
      have : s1 = (checkAll true s os).1 := by rw [heq]
      subst this
      rfl
  | iadd os =>
    show (iadd s os).1.owned = _
    unfold iadd
    split
    · rename_i s1 n heq
      have : s1 = (checkAll false s os).1 := by rw [heq]
      subst this
      exact (conflict_core _ _).owned
    · rename_i s1 heq
      have : s1 = (checkAll false s os).1 := by rw [heq]
      subst this
      rfl
  | remove o => show (remove s o).1.owned = _; unfold remove; split <;> rfl
  | pop p =>
    show (pop s p).1.owned = _
    unfold pop
    split
    · rfl
    · split <;> rfl
  | delitem n =>
    show (delitem s n).1.owned = _
    unfold delitem
    split
    · rename_i s1 heq
      have : s1 = (get s n).1 := by rw [heq]
      exact this ▸ (get_core s n).owned
    · rename_i s1 o heq
      have : s1 = (get s n).1 := by rw [heq]
      subst this
      split <;> exact (get_core s n).owned
  | clear => rfl
  | setNumber o n => exact (setNumber_objs s o n).2.2
  | get n => exact (get_core s n).owned
  | getitem n =>
    show (getitem s n).1.owned = _
    unfold getitem
    split
    · rename_i s1 heq
      have : s1 = (get s n).1 := by rw [heq]
      exact this ▸ (get_core s n).owned
    · rename_i s1 o heq
      have : s1 = (get s n).1 := by rw [heq]
      exact this ▸ (get_core s n).owned
  | contains o => rfl
  | numbers => rfl
  | keys => rfl
  | items => rfl
  | len => rfl
  | checkNumber n => exact (checkNumber_core s n).owned
  | requestNumber a k => exact (requestNumber_core s a k).owned
  | nextNumber k => exact (nextNumber_core s k).owned
  | slice a b => exact (sliceLoop_core _ s a []).owned

/-- **C06_reachable** — in a collection owned by a problem the invariant holds after *every* finite
    history of operations (any operations, any arguments, including the failing ones). -/
theorem C06_reachable (s : St) (ops : List Op) (h : Inv s) (how : s.owned = true) : Inv (run s ops) := by
  induction ops generalizing s with
  | nil => exact h
  | cons op t ih =>
    show Inv (run (step s op).1 t)
    exact ih _ (C06_step s op h (owned_admissible h how op)) (by rw [step_owned]; exact how)

/-- histories all of whose number assignments are admissible at the state they are applied in -/
def AdmissibleRun : St → List Op → Prop
  | _, [] => True
  | s, op :: t => Admissible s op ∧ AdmissibleRun (step s op).1 t

/-- **C06_free_standing_partial** — for any collection (owned or free-standing) the invariant holds
    along every history that never assigns a number to an unlinked member.  The excluded class is
    exactly `Admissible`: `setNumber` on a member whose object has no link to a problem owning the
    collection. -/
theorem C06_free_standing_partial (s : St) (ops : List Op) (h : Inv s) (hadm : AdmissibleRun s ops) :
    Inv (run s ops) := by
  induction ops generalizing s with
  | nil => exact h
  | cons op t ih => exact ih _ (C06_step s op h hadm.1) hadm.2

/-- **C06_free_standing_refuted** — without that hypothesis the full statement is false of the code:
    two members of a free-standing collection, the second renumbered to the first one's number. -/
theorem C06_free_standing_refuted :
    ∃ (s : St) (op : Op), Inv s ∧ ¬ Inv (step s op).1 := by
  refine ⟨⟨false, [0, 1], [], fun o => if o = 0 then 1 else 2, fun _ => false, id⟩, .setNumber 1 1, ?_, ?_⟩
  · exact ⟨by decide, (by intro p hp; cases hp), (by intro h; cases h)⟩
  · intro h
    have := h.nodup
    revert this
    decide

/-- **C06_get** — look-up by number returns exactly the member whose current number it is. -/
theorem C06_get (s : St) (n : Int) (o : ObjId) (h : Inv s) :
    (get s n).2 = some o ↔ (o ∈ s.objs ∧ s.num o = n) :=
  ⟨get_some h.cache, fun ⟨ho, hn⟩ => get_of_mem h.nodup h.cache ho hn⟩

/-- look-up fails exactly for the numbers no member has -/
theorem C06_get_none (s : St) (n : Int) (h : Inv s) : (get s n).2 = none ↔ n ∉ s.objs.map s.num := by
  constructor
  · intro hn hm
    obtain ⟨o, ho, hoe⟩ := List.mem_map.mp hm
    rw [get_of_mem h.nodup h.cache ho hoe] at hn
    cases hn
  · intro hn
    cases hg : (get s n).2 with
    | none => rfl
    | some o =>
      have := get_some h.cache hg
      exact absurd (List.mem_map.mpr ⟨o, this.1, this.2⟩) hn

/-- **C06_request_free** — a number offered by `request_number` is not in use (no invariant needed). -/
theorem C06_request_free (s : St) (a k n : Int) (h : (requestNumber s a k).2 = .int n) :
    n ∉ s.objs.map s.num ∧ (requestNumber s a k).1.objs = s.objs ∧ (requestNumber s a k).1.num = s.num :=
  ⟨requestNumber_free h, (requestNumber_core s a k).objs, (requestNumber_core s a k).num⟩

/-- **C06_next_free** — a number offered by `next_number` is not in use. -/
theorem C06_next_free (s : St) (k n : Int) (h : (nextNumber s k).2 = .int n) :
    n ∉ s.objs.map s.num ∧ (nextNumber s k).1.objs = s.objs ∧ (nextNumber s k).1.num = s.num :=
  ⟨nextNumber_free h, (nextNumber_core s k).objs, (nextNumber_core s k).num⟩

/-- **C06_request_terminates** — `request_number` always returns (the fuel of the model's loop,
    `len + 1`, is sufficient): for `step ≠ 0` it returns a number, for `step = 0` it raises
    `ValueError` (the repaired code; before the repair the call did not return on a taken number). -/
theorem C06_request_terminates (s : St) (a k : Int) :
    (requestNumber s a k).2 ≠ .hang ∧
    (k ≠ 0 → ∃ n, (requestNumber s a k).2 = .int n) ∧
    (k = 0 → (requestNumber s a k).2 = .err .valueError) := by
  refine ⟨requestNumber_not_hang s a k, ?_, ?_⟩
  · intro hk
    have hh := requestNumber_not_hang s a k
    unfold requestNumber at hh ⊢
    simp only [hk, if_false] at hh ⊢
    split
    · exact ⟨_, rfl⟩
    · rename_i s1 heq
      simp [heq] at hh
  · intro hk
    simp [requestNumber, hk]

/-- **C06_request_first** — `request_number(start, step)` offers the FIRST number of the walk
    `start, start+step, start+2·step, …` that no member has: every candidate it passed over is the current
    number of a member, and the offered one is not (no invariant needed; whatever the cache holds). -/
theorem C06_request_first (s : St) (a k n : Int) (h : (requestNumber s a k).2 = .int n) :
    ∃ j : Nat, n = a + j * k ∧ (∀ i : Nat, i < j → a + i * k ∈ s.objs.map s.num) ∧ n ∉ s.objs.map s.num := by
  obtain ⟨j, hj, hall⟩ := requestNumber_first h
  exact ⟨j, hj, hall, requestNumber_free h⟩

/-- **C06_offer_ignores_cache** — what `request_number`, `next_number` and `check_number` answer is a function
    of the members and their current numbers: two states that differ at most in the number cache (`Core`:
    same members, numbers, links) get the same answers. A number assignment changes `num` and leaves the cache
    behind; this theorem is why the next request cannot notice (seeded C06e answered from the cache). -/
theorem C06_offer_ignores_cache (s s' : St) (hc : Core s s') (a k n : Int) :
    (requestNumber s' a k).2 = (requestNumber s a k).2 ∧ (nextNumber s' k).2 = (nextNumber s k).2 ∧
    (checkNumber s' n).2 = (checkNumber s n).2 :=
  ⟨requestNumber_cache_indep hc a k, nextNumber_cache_indep hc k, checkNumber_cache_indep hc n⟩

/-- **C06_conflict_noop** — an operation that raises `NumberConflictError` leaves the members, their
    order and every member's number as they were; with `C06_get` (look-ups are a function of members
    and numbers under `Inv`, which `C06_step` preserves) every look-up answers as before. -/
theorem C06_conflict_noop (s : St) (op : Op) (h : (step s op).2 = .err .numberConflict) :
    (step s op).1.objs = s.objs ∧ (step s op).1.num = s.num := by
  have fromCore : ∀ {s' : St}, Core s s' → s'.objs = s.objs ∧ s'.num = s.num := fun c => ⟨c.objs, c.num⟩
  cases op with
  | append o => exact fromCore (append_err_core (by show (append s o).2 ≠ _; rw [show (append s o).2 = _ from h]; simp))
  | setitem o => exact fromCore (append_err_core (by show (append s o).2 ≠ _; rw [show (append s o).2 = _ from h]; simp))
  | appendRenumber o k =>
    change (appendRenumber s o k).2 = _ at h
    show (appendRenumber s o k).1.objs = _ ∧ (appendRenumber s o k).1.num = _
    unfold appendRenumber at h ⊢
    split
    · exact ⟨rfl, rfl⟩
    · rename_i hno
      simp only [hno, if_false] at h
      simp only [] at h ⊢
      have c0 := checkNumber_core s (s.num o)
      split
      · rename_i hok0
        simp only [hok0, if_true] at h
        split
        · rename_i hok; simp [hok] at h
        · rename_i hnok
          have c1 := append_err_core hnok
          exact ⟨by rw [c1.objs, c0.objs], by rw [c1.num, c0.num]⟩
      · rename_i hnok0
        simp only [hnok0, if_false] at h
        have c2 := requestNumber_core (checkNumber s (s.num o)).1 (s.num o) k
        split
        · rename_i n hn
          simp only [hn] at h
          split
          · rename_i hle; simp [hle] at h
          · rename_i hpos
            simp only [hpos, if_false] at h
            generalize hs3 : ({ (requestNumber (checkNumber s (s.num o)).1 (s.num o) k).1 with
                link := fun x => if x = o ∧ s.owned = true then true
                  else (requestNumber (checkNumber s (s.num o)).1 (s.num o) k).1.link x } : St) = s3 at h ⊢
            have hobj3 : s3.objs = (requestNumber (checkNumber s (s.num o)).1 (s.num o) k).1.objs := by rw [← hs3]
            have hnum3 : s3.num = (requestNumber (checkNumber s (s.num o)).1 (s.num o) k).1.num := by rw [← hs3]
            -- the offered number is free, the object is not a member: the second append cannot conflict
            have hfree : n ∉ (checkNumber s (s.num o)).1.objs.map (checkNumber s (s.num o)).1.num := by
              apply requestNumber_free (a := s.num o) (k := k)
              cases hr : (requestNumber (checkNumber s (s.num o)).1 (s.num o) k).2 <;> simp [hr, Out.int?] at hn ⊢
              exact hn
            have ho3 : o ∉ s3.objs := by rw [hobj3, c2.objs, c0.objs]; exact hno
            split
            · rename_i hok3
              simp only [hok3, if_true] at h
              have hn3 := setNumber_ok_num hok3
              have ho3' := (setNumber_objs s3 o n).1
              have hfresh : (setNumber s3 o n).1.num o ∉ (setNumber s3 o n).1.objs.map (setNumber s3 o n).1.num := by
                rw [hn3, ho3', map_update_of_not_mem _ _ _ _ ho3, hobj3, hnum3, c2.objs, c2.num]
                simpa using hfree
              have hok4 := append_ok_of_fresh hfresh
              simp [hok4] at h
            · rename_i hnok3
              have c3 := setNumber_err_core hnok3
              exact ⟨by rw [c3.objs, hobj3, c2.objs, c0.objs], by rw [c3.num, hnum3, c2.num, c0.num]⟩
        · exact ⟨by rw [c2.objs, c0.objs], by rw [c2.num, c0.num]⟩
  | extend os =>
    change (extend s os).2 = _ at h
    show (extend s os).1.objs = _ ∧ (extend s os).1.num = _
    unfold extend at h ⊢
    split
    · rename_i s1 n heq
      have e1 : s1 = (checkAll true s os).1 := by rw [heq]
      subst e1
      exact fromCore (Core.trans (b := (checkAll true s os).1) ⟨rfl, rfl, rfl, rfl⟩ (conflict_core _ _))
    · rename_i s1 heq
      simp [heq] at h
  | iadd os =>
    change (iadd s os).2 = _ at h
    show (iadd s os).1.objs = _ ∧ (iadd s os).1.num = _
    unfold iadd at h ⊢
    split
    · rename_i s1 n heq
      have e1 : s1 = (checkAll false s os).1 := by rw [heq]
      subst e1
      exact fromCore (Core.trans (b := (checkAll false s os).1) ⟨rfl, rfl, rfl, rfl⟩ (conflict_core _ _))
    · rename_i s1 heq
      simp [heq] at h
  | remove o => change (remove s o).2 = _ at h; unfold remove at h; split at h <;> simp at h
  | pop p =>
    change (pop s p).2 = _ at h
    unfold pop at h
    split at h
    · simp at h
    · split at h <;> simp at h
  | delitem n =>
    change (delitem s n).2 = _ at h
    unfold delitem at h
    split at h
    · simp at h
    · split at h <;> simp at h
  | clear => simp [step, clear] at h
  | setNumber o n =>
    exact fromCore (setNumber_err_core (by show (setNumber s o n).2 ≠ _; rw [show (setNumber s o n).2 = _ from h]; simp))
  | get n => simp [step] at h
  | getitem n => change (getitem s n).2 = _ at h; unfold getitem at h; split at h <;> simp at h
  | contains o => simp [step] at h
  | numbers => simp [step] at h
  | keys => simp [step] at h
  | items => simp [step] at h
  | len => simp [step] at h
  | checkNumber n => exact fromCore (checkNumber_core s n)
  | requestNumber a k => exact fromCore (requestNumber_core s a k)
  | nextNumber k => exact fromCore (nextNumber_core s k)
  | slice a b => simp [step, slice] at h

/-! ### Non-vacuity: concrete non-trivial states and histories meeting the hypotheses -/

/-- an owned collection with two members and a stale cache entry satisfies `Inv` … -/
def exState : St :=
  { owned := true, objs := [4, 7], cache := [(9, 7), (1, 4)],
    num := fun o => if o = 4 then 1 else if o = 7 then 2 else 1, link := fun o => o = 4 ∨ o = 7 }

example : Inv exState :=
  ⟨by decide, by intro p hp; simp [exState] at hp; rcases hp with rfl | rfl <;> simp [exState],
   by intro _ x hx; simp [exState] at hx ⊢; exact hx⟩

/-- … a conflict is really reachable from it (hypothesis of `C06_conflict_noop`) … -/
example : (step exState (.append 9)).2 = .err .numberConflict := by decide
example : (step exState (.setNumber 7 1)).2 = .err .numberConflict := by decide
example : (step exState (.extend [11, 12])).2 = .err .numberConflict := by decide
/-- … `request_number` really offers numbers and really skips taken ones … -/
example : (requestNumber exState 1 1).2 = .int 3 := by decide
example : (nextNumber exState 5).2 = .int 7 := by decide
/-- … the hypothesis of `C06_offer_ignores_cache` is met by states whose caches really differ (an empty cache, and the
    cache a number assignment leaves behind: member 7 renumbered 2 → 5 is still cached under 2) … -/
example : Core exState { exState with cache := [] } := ⟨rfl, rfl, rfl, rfl⟩
example : (step (step exState (.get 2)).1 (.setNumber 7 5)).1.cache = [(9, 7), (1, 4), (2, 7)] := by decide
example : (requestNumber (step (step exState (.get 2)).1 (.setNumber 7 5)).1 5 1).2 = .int 6 := by decide
/-- … and the free-standing partial theorem has admissible non-trivial histories. -/
example : AdmissibleRun { exState with owned := false, link := fun _ => false }
    [.append 9, .pop 0, .setNumber 4 2, .extend [4]] := by
  refine ⟨trivial, trivial, ?_, trivial, trivial⟩
  intro hm
  exact absurd hm (by decide)

end MontePyVerif.Collection
