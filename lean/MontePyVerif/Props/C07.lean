import MontePyVerif.Props.C19
import MontePyVerif.Props.C07Columns
/-!
# C07 — untouched inputs and tokens are written verbatim; edits stay local

Same model of the writer loop as C19 (`Props/C19.lean`): state `Nat → τ`, formatter
`fmt i : (Nat → τ) → τ × List Str`.  Locality is a *frame* property:

* every formatter has a read-set (`ReadsOnly`): the objects whose state can influence its lines —
  the object itself, the objects it refers to by number (a cell reads its surfaces, complements,
  material, universe and fill; an `MT` card reads its material; a surface reads its transform and
  periodic partner) and, for data-block cards that list per-cell data, every cell;
* an edit touches a set of objects (`Touches`).

`C07_local`: an input whose read-set is disjoint from the touched set is written exactly as before —
for any number of objects, any edit, and (C07_local_history) any sequence of edits.  The harness
measures the read-sets on the real code: it diffs every input of the unedited and of the edited
write and demands that the changed ones lie in the property's own `affected` rule.

`C07_untouched_verbatim`: the leaf-echo mechanism ("only nodes whose value changed are
re-formatted"): an input none of whose leaves changed formats to the concatenation of its original
tokens and paddings, i.e. to its source text; with edited leaves, every other leaf is still echoed.
-/
namespace MontePyVerif.Local
open MontePyVerif.Spec.File (Str)
open MontePyVerif.Repeat

variable {τ : Type}

/-- the lines of object `i` depend only on the states of the objects in `reads i` -/
def ReadsOnly (fmt : Fmt τ) (reads : Nat → List Nat) : Prop :=
  ∀ i s s', (∀ j ∈ reads i, s j = s' j) → (fmt i s).2 = (fmt i s').2

/-- the edit changes no object outside `A` -/
def Touches (e : (Nat → τ) → (Nat → τ)) (A : List Nat) : Prop :=
  ∀ s j, j ∉ A → e s j = s j

/-- **C07_local** — an input that does not read any touched object is written exactly as before,
    whatever else is in the problem and wherever it stands in the file. -/
theorem C07_local (fmt : Fmt τ) (hi : Idem fmt) (hv : Invisible fmt) (reads : Nat → List Nat)
    (hr : ReadsOnly fmt reads) (e : (Nat → τ) → (Nat → τ)) (A : List Nat) (he : Touches e A)
    (is : List Nat) (s : Nat → τ) :
    ∀ k (hk : k < is.length), (∀ j ∈ reads is[k], j ∉ A) →
      (writeAll fmt is (e s)).2[k]'(by rw [writeAll_lines fmt hi hv]; simpa using hk) =
      (writeAll fmt is s).2[k]'(by rw [writeAll_lines fmt hi hv]; simpa using hk) := by
  intro k hk hdis
  simp only [writeAll_lines fmt hi hv, List.getElem_map]
  exact hr _ _ _ (fun j hj => he s j (hdis j hj))

/-- a history of edits, each touching its own set -/
def runEdits : List (((Nat → τ) → (Nat → τ)) × List Nat) → (Nat → τ) → (Nat → τ)
  | [], s => s
  | (e, _) :: t, s => runEdits t (e s)

/-- **C07_local_history** — the same along any sequence of edits: an input whose read-set avoids
    every touched set keeps its text. -/
theorem C07_local_history (fmt : Fmt τ) (hi : Idem fmt) (hv : Invisible fmt) (reads : Nat → List Nat)
    (hr : ReadsOnly fmt reads) (es : List (((Nat → τ) → (Nat → τ)) × List Nat))
    (hes : ∀ p ∈ es, Touches p.1 p.2) (is : List Nat) (s : Nat → τ) :
    ∀ k (hk : k < is.length), (∀ p ∈ es, ∀ j ∈ reads is[k], j ∉ p.2) →
      (writeAll fmt is (runEdits es s)).2[k]'(by rw [writeAll_lines fmt hi hv]; simpa using hk) =
      (writeAll fmt is s).2[k]'(by rw [writeAll_lines fmt hi hv]; simpa using hk) := by
  intro k hk hdis
  simp only [writeAll_lines fmt hi hv, List.getElem_map]
  induction es generalizing s with
  | nil => rfl
  | cons p t ih =>
    obtain ⟨e, A⟩ := p
    simp only [runEdits]
    rw [ih (fun q hq => hes q (List.mem_cons_of_mem _ hq)) (e s)
      (fun q hq => hdis q (List.mem_cons_of_mem _ hq))]
    exact hr _ _ _ (fun j hj => (hes (e, A) List.mem_cons_self) s j (hdis (e, A) List.mem_cons_self j hj))

/-! ### the leaf-echo mechanism -/

/-- a leaf of the syntax tree: original token, trailing padding, and — when its value was changed
    through the API — the text the formatter produces for the new value -/
structure Leaf where
  token : Str
  pad : Str
  changed : Bool
  newText : Str

/-- `ValueNode.format`: an unchanged value short-circuits to the original token -/
def Leaf.format (l : Leaf) : Str := (if l.changed then l.newText else l.token) ++ l.pad

/-- `SyntaxNode.format`: concatenation of the leaves in order -/
def formatInput (ls : List Leaf) : Str := (ls.map Leaf.format).flatten

/-- the text the input was read from (lossless tree: every character is in one token or padding) -/
def sourceText (ls : List Leaf) : Str := (ls.map (fun l => l.token ++ l.pad)).flatten

/-- **C07_untouched_verbatim** — an input none of whose leaves changed is written as its source
    text; and whatever was edited, the input is the concatenation, in the original order, of the
    original token and padding of every unedited leaf and the new text and original padding of the
    edited ones (nothing else moves). -/
theorem C07_untouched_verbatim (ls : List Leaf) :
    ((∀ l ∈ ls, l.changed = false) → formatInput ls = sourceText ls) ∧
    formatInput ls = (ls.map (fun l => if l.changed then l.newText ++ l.pad else l.token ++ l.pad)).flatten := by
  constructor
  · intro h
    unfold formatInput sourceText
    congr 1
    apply List.map_congr_left
    intro l hl
    simp [Leaf.format, h l hl]
  · unfold formatInput
    congr 1
    apply List.map_congr_left
    intro l _
    unfold Leaf.format
    split <;> rfl

/-! ### Non-vacuity -/

/-- a three-object problem: object 0 reads itself and object 1 (a cell and its surface), 1 and 2 read only themselves -/
def exFmt : Fmt Nat := fun i s => (s i, [toString (if i = 0 then s 0 * 100 + s 1 else s i) |>.toList])
def exReads : Nat → List Nat := fun i => if i = 0 then [0, 1] else [i]

theorem exFmt_pure (s : Nat → Nat) (i : Nat) : (fmtAt exFmt s i).1 = s := by
  funext j
  simp only [fmtAt, exFmt]
  split
  · rename_i h; rw [h]
  · rfl
example : Idem exFmt := by intro s i; rw [exFmt_pure]
example : Invisible exFmt := by intro s i j _; rw [exFmt_pure]
example : ReadsOnly exFmt exReads := by
  intro i s s' h
  simp only [exFmt, exReads] at *
  by_cases h0 : i = 0
  · subst h0; simp at h; simp [h.1, h.2]
  · simp [h0] at h ⊢; rw [h]
/-- renumbering object 1 (the surface) touches `[1]`: object 2 is written as before, object 0 may change -/
example : Touches (fun (s : Nat → Nat) j => if j = 1 then 7 else s j) [1] := by
  intro s j hj; simp at hj; simp [hj]

end MontePyVerif.Local
