import MontePyVerif.Model.ValueFormat
/-!
# C07 — "padding is adjusted to keep following columns" (the mechanism named in the property's anchors)

On the model of `syntax_node.py: ValueNode.format` (`Model/ValueFormat.lean`, tied to the code by C05's
correspondence U-valueformat, exact text):

* **`C07_leaf_echo`** — a leaf whose value did not change is written as its token followed by its padding,
  character for character (whatever the token's spelling).
* **`C07_columns`** — a leaf whose value changed, whose padding starts with a run of `k` blanks and whose new text
  is shorter than token + blanks, is written in exactly the `token.length + k` columns the old text and its blanks
  occupied, followed by the rest of the padding unchanged: every later token of the line starts in the column it
  started in before.
* **`C07_columns_grow`** — when the new text needs all those columns or more, it is followed by exactly one blank
  (none if the padding goes on with blanks or a line break of its own) and the rest of the padding: later tokens
  move right by the excess, nothing else changes, no padding item is lost.
-/
namespace MontePyVerif.C07Columns
open MontePyVerif.ValueFormat

theorem reverseEngineerFloat_valueLength (f : Formatter) (t : Text) :
    (reverseEngineerFloat f t).valueLength = f.valueLength := by
  unfold reverseEngineerFloat
  split
  · split <;> split <;> rfl
  · split <;> rfl

/-- `_reverse_engineer_formatting` leaves token, padding and values alone … -/
theorem reverse_frame (n : Node) :
    (reverseEngineerFormatting n).padding = n.padding ∧ (reverseEngineerFormatting n).token = n.token ∧
    (reverseEngineerFormatting n).value = n.value := by
  unfold reverseEngineerFormatting
  split
  · exact ⟨rfl, rfl, rfl⟩
  · split <;> exact ⟨rfl, rfl, rfl⟩

/-- … and sets the width to the token's length plus the blanks that follow it -/
theorem reverse_valueLength (n : Node) (s : Text) (k : Nat) (rest : List PadItem)
    (htok : n.token = .str s) (hrev : n.isReversed = false) (hpad : n.padding = some (.spaces k :: rest)) :
    (reverseEngineerFormatting n).fmt.valueLength = s.length + k := by
  unfold reverseEngineerFormatting
  simp only [hrev, Bool.false_eq_true, if_false, htok, hpad]
  split
  · rw [reverseEngineerFloat_valueLength]
    repeat (first | split | rfl)
  · repeat (first | split | rfl)

/-- **C07_leaf_echo** -/
theorem C07_leaf_echo (n : Node) (h : valueChanged n = false) :
    (format n).2 = n.token.text ++ (match n.padding with | some p => padFormat p | none => []) := by
  unfold format
  simp only [h, Bool.not_false, if_true]
  cases n.padding <;> rfl

def saving : List PadItem → Bool
  | .spaces _ :: _ => true
  | .newline :: _ => true
  | _ => false

theorem padStrings_spaces (m : Node) (k : Nat) (rest : List PadItem) (h : m.padding = some (.spaces k :: rest))
    (len : Nat) :
    padStrings m len = (if len ≥ m.fmt.valueLength && !saving rest then [' '] else [], padFormat rest) := by
  simp only [padStrings, h]
  cases rest with
  | nil => rfl
  | cons r rs => cases r <;> rfl

theorem length_ljust (t : Text) (w : Nat) (h : t.length ≤ w) : (ljust t w).length = w := by
  unfold ljust
  simp
  omega

/-- **C07_columns** -/
theorem C07_columns (n : Node) (s : Text) (k : Nat) (rest : List PadItem) (x : Num)
    (htok : n.token = .str s) (hrev : n.isReversed = false) (hpad : n.padding = some (.spaces k :: rest))
    (hch : valueChanged n = true) (hval : n.value.isSome = true)
    (hx : printValue (reverseEngineerFormatting n) = some x)
    (hfit : (formatTemp (reverseEngineerFormatting n) x).length < s.length + k) :
    ∃ w : Text, (format n).2 = w ++ padFormat rest ∧ w.length = s.length + k ∧
      w = formatTemp (reverseEngineerFormatting n) x ++
            List.replicate (s.length + k - (formatTemp (reverseEngineerFormatting n) x).length) ' ' := by
  have hvl := reverse_valueLength n s k rest htok hrev hpad
  have hfr := reverse_frame n
  refine ⟨ljust (formatTemp (reverseEngineerFormatting n) x) (s.length + k), ?_, ?_, ?_⟩
  · have hps := padStrings_spaces (reverseEngineerFormatting n) k rest (by rw [hfr.1]; exact hpad)
      (formatTemp (reverseEngineerFormatting n) x).length
    unfold format
    simp only [hch, Bool.not_true, Bool.false_eq_true, if_false]
    cases hv : n.value with
    | none => simp [hv] at hval
    | some v =>
      simp only [hx, hps, hvl]
      have : ¬ ((formatTemp (reverseEngineerFormatting n) x).length ≥ s.length + k) := by omega
      simp [this]
  · exact length_ljust _ _ (by omega)
  · rfl

/-- **C07_columns_grow** -/
theorem C07_columns_grow (n : Node) (s : Text) (k : Nat) (rest : List PadItem) (x : Num)
    (htok : n.token = .str s) (hrev : n.isReversed = false) (hpad : n.padding = some (.spaces k :: rest))
    (hch : valueChanged n = true) (hval : n.value.isSome = true)
    (hx : printValue (reverseEngineerFormatting n) = some x)
    (hbig : (formatTemp (reverseEngineerFormatting n) x).length ≥ s.length + k) :
    (format n).2 = formatTemp (reverseEngineerFormatting n) x ++
      (match rest with
       | .spaces _ :: _ => []
       | .newline :: _ => []
       | _ => [' ']) ++ padFormat rest := by
  have hvl := reverse_valueLength n s k rest htok hrev hpad
  have hfr := reverse_frame n
  have hps := padStrings_spaces (reverseEngineerFormatting n) k rest (by rw [hfr.1]; exact hpad)
    (formatTemp (reverseEngineerFormatting n) x).length
  unfold format
  simp only [hch, Bool.not_true, Bool.false_eq_true, if_false]
  cases hv : n.value with
  | none => simp [hv] at hval
  | some v =>
    simp only [hx, hps, hvl, ljust]
    have h0 : s.length + k - (formatTemp (reverseEngineerFormatting n) x).length = 0 := by omega
    rw [h0]
    cases rest with
    | nil => simp [hbig, saving]
    | cons r rs => cases r <;> simp [hbig, saving]

/-! ### Non-vacuity: `1.5` followed by four blanks and a `$` comment, set to 2.25 -/

def exN : Option Node :=
  (mkNode (.str "1.5".toList) .float (some [.spaces 4, .comment "$ note".toList, .newline])).map
    (fun n => setValue n (some (Num.ofRat (9 / 4))))

/-- the hypotheses of `C07_columns` hold for it (token, not yet reverse engineered, padding shape, changed value,
    new text `2.25` of 4 < 3 + 4 columns) … -/
example : exN.map (fun n => (n.token, n.isReversed, n.padding, valueChanged n, n.value.isSome)) =
    some (.str "1.5".toList, false, some [.spaces 4, .comment "$ note".toList, .newline], true, true) := by
  decide +kernel

example : exN.map (fun n => (printValue (reverseEngineerFormatting n)).map
      (fun x => (formatTemp (reverseEngineerFormatting n) x))) = some (some "2.25".toList) := by
  decide +kernel

/-- … and the comment starts in column 8 as before: `1.5    $ note` → `2.25   $ note` -/
example : exN.map (fun n => (format n).2) = some "2.25   $ note\n".toList := by decide +kernel

end MontePyVerif.C07Columns
