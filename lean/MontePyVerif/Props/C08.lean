import MontePyVerif.Model.ListNode
import MontePyVerif.Spec.Shortcut
/-! # C08 — shortcuts expand as MCNP defines and re-compress without changing values -/
namespace MontePyVerif.C08
open MontePyVerif.Model.Shortcut MontePyVerif.Model.ListNode

theorem C08_stub : flatten [] = [] := rfl

end MontePyVerif.C08
