import MontePyVerif.Model.ListNode
import MontePyVerif.Model.ShortcutParse
import MontePyVerif.Spec.Shortcut
import MontePyVerif.Gen.Shortcuts
/-!
# C08 — shortcuts expand as MCNP defines and re-compress without changing values

Proved here (all inputs, no bound on sizes):
* `C08_consume_inv`      — `update_with_new_values` neither loses, duplicates nor reorders a value node;
* `C08_jump_only_none`, `C08_repeat_matches_first`, `C08_multiply_at_most_two`
                          — what a shortcut may consume (the defining relation of its run);
* `C08_run_append`, `C08_spec_repeat`, `C08_spec_jump`, `C08_spec_multiply` — sanity of the Spec reader;
* `C08_tables`            — the code's `Shortcuts` enum (generated table `Gen/Shortcuts.lean`) has exactly the five
                            kinds and letters that model, harness and Spec assume.
* `C08_recompress`, `C08_grow_shrink` — for ALL original shortcut lists and ALL new value lists the words written by
                            `format (update_with_new_values ..)` are read by the Spec as the new values;
* `C08_expand`            — for every token list of G the parse-time expansion (Model/ShortcutParse.lean) accepts exactly
                            when the Spec does and yields exactly the Spec's values (`C08_expand_zero_count_refuted`: why
                            the count 0 is outside G);
* `C08_wellformed`        — plain nodes hold numbers, jump shortcuts only jumps, other shortcuts only numbers;
* `C08_format_sound`      — local correctness of `ShortcutNode.format` for every run and every carried entry.
-/
namespace MontePyVerif.C08
open MontePyVerif.Model.Shortcut MontePyVerif.Model.ListNode

theorem canConsume_nodes (s : Sc) (n : Leaf) (f l : Bool) : (canConsumeNode s n f l).2.nodes = s.nodes := by
  unfold canConsumeNode
  repeat' split
  all_goals rfl

theorem consume_fwd (s : Sc) (n : Leaf) (l : Bool) :
    (consumeEdgeNode s n true l).2.nodes = if (consumeEdgeNode s n true l).1 then s.nodes ++ [n] else s.nodes := by
  unfold consumeEdgeNode
  have h := canConsume_nodes s n true l
  cases hc : canConsumeNode s n true l with
  | mk ok s' =>
    rw [hc] at h
    simp only at h
    cases ok <;> simp [h]

theorem consume_bwd (s : Sc) (n : Leaf) (l : Bool) :
    (consumeEdgeNode s n false l).2.nodes = if (consumeEdgeNode s n false l).1 then n :: s.nodes else s.nodes := by
  unfold consumeEdgeNode
  have h := canConsume_nodes s n false l
  cases hc : canConsumeNode s n false l with
  | mk ok s' =>
    rw [hc] at h
    simp only at h
    cases ok <;> simp [h]

theorem gconsume_fwd (s : Sc) (n : Leaf) (l : Bool) :
    (guardedConsume s n true l).2.nodes = if (guardedConsume s n true l).1 then s.nodes ++ [n] else s.nodes := by
  unfold guardedConsume
  split
  · exact consume_fwd s n l
  · simp

theorem gconsume_bwd (s : Sc) (n : Leaf) (l : Bool) :
    (guardedConsume s n false l).2.nodes = if (guardedConsume s n false l).1 then n :: s.nodes else s.nodes := by
  unfold guardedConsume
  split
  · exact consume_bwd s n l
  · simp

theorem flatRev_orphan (out : List Item) (v : Leaf) :
    flatRev (checkForOrphanJump out v).1 = flatRev out ++ [v] := by
  unfold checkForOrphanJump
  split
  · have h := consume_fwd { orphanJump with runIds := [v.id] } v false
    cases hc : consumeEdgeNode { orphanJump with runIds := [v.id] } v true false with
    | mk ok s =>
      rw [hc] at h
      cases ok <;> simp_all [flatRev, Item.leaves, orphanJump]
  · simp [flatRev, Item.leaves]

theorem flatRev_reverseExp (budget : Nat) : ∀ (s : Sc) (out : List Item),
    flatRev (tryReverseExpansion s budget out).2 ++ (tryReverseExpansion s budget out).1.nodes
      = flatRev out ++ s.nodes := by
  induction budget with
  | zero => intro s out; simp [tryReverseExpansion]
  | succ b ih =>
    intro s out
    unfold tryReverseExpansion
    split
    · rename_i l rest
      have h := gconsume_bwd s l false
      cases hc : guardedConsume s l false false with
      | mk ok s' =>
        rw [hc] at h
        cases ok
        · simp_all [flatRev, Item.leaves]
        · simp only [if_true]
          rw [ih s' rest]
          simp_all [flatRev, Item.leaves]
    · rfl


theorem flatRev_stepPlain (st : PassSt) (v : Leaf) : flatRev (stepPlain st v).out = flatRev st.out ++ [v] := by
  unfold stepPlain
  split
  · rename_i sid s rest hcur hout
    have h := gconsume_fwd s v (st.i == st.lastEnd + 1 && st.lastEnd != 0)
    cases hc : guardedConsume s v true (st.i == st.lastEnd + 1 && st.lastEnd != 0) with
    | mk ok s1 =>
      rw [hc] at h
      simp only [hc]
      cases ok
      · simp only [Bool.false_eq_true, if_false]
        rw [flatRev_orphan]
        simp_all [flatRev, Item.leaves]
      · simp_all [flatRev, Item.leaves]
  · exact flatRev_orphan st.out v

theorem flatRev_stepPass (st : PassSt) (v : Leaf) (b : Option (Int × Sc))
    (hb : ∀ p, b = some p → p.2.nodes = []) :
    flatRev (stepPass st v b).out = flatRev st.out ++ [v] := by
  unfold stepPass
  split
  · rename_i sid s
    have hs : s.nodes = [] := hb (sid, s) rfl
    simp only
    have h := consume_fwd s v (st.i == (if st.cur = true then st.i - 1 else st.lastEnd) + 1 && (if st.cur = true then st.i - 1 else st.lastEnd) != 0)
    cases hc : consumeEdgeNode s v true (st.i == (if st.cur = true then st.i - 1 else st.lastEnd) + 1 && (if st.cur = true then st.i - 1 else st.lastEnd) != 0) with
    | mk ok s1 =>
      rw [hc] at h
      cases ok
      · simp only [Bool.false_eq_true, if_false]
        exact flatRev_stepPlain st v
      · simp only [if_true]
        have hr := flatRev_reverseExp (if st.i > 1 then st.i - 1 - (if st.cur = true then st.i - 1 else st.lastEnd) else 0) s1 st.out
        simp only [flatRev, Item.leaves]
        rw [hr]
        simp_all
  · exact flatRev_stepPlain st v

theorem flatRev_expandShortcuts : ∀ (slots : List (Leaf × Option (Int × Sc))) (st : PassSt),
    (∀ q ∈ slots, ∀ p, q.2 = some p → p.2.nodes = []) →
    flatRev (expandShortcuts slots st).out = flatRev st.out ++ slots.map (·.1)
  | [], st, _ => by simp [expandShortcuts]
  | (v, b) :: rest, st, h => by
    simp only [expandShortcuts]
    rw [flatRev_expandShortcuts rest _ (fun q hq => h q (List.mem_cons_of_mem _ hq)),
      flatRev_stepPass st v b (h (v, b) List.mem_cons_self)]
    simp

theorem flatten_reverse (out : List Item) : flatten out.reverse = flatRev out := by
  induction out with
  | nil => rfl
  | cons x rest ih => simp [flatten, flatRev] at *; rw [ih]

theorem bindOne_fst (vals : List Leaf) (slots : List (Leaf × Option (Int × Sc))) (p : Int × Sc) :
    (bindOne vals slots p).map (·.1) = slots.map (·.1) := by
  unfold bindOne
  split
  · rfl
  · simp only [List.map_map]
    congr 1
    funext q
    simp only [Function.comp]
    split <;> rfl

theorem bindOne_empty (vals : List Leaf) (slots : List (Leaf × Option (Int × Sc))) (p : Int × Sc)
    (h : ∀ q ∈ slots, ∀ r, q.2 = some r → r.2.nodes = []) :
    ∀ q ∈ bindOne vals slots p, ∀ r, q.2 = some r → r.2.nodes = [] := by
  unfold bindOne
  split
  · exact h
  · intro q hq r hr
    simp only [List.mem_map] at hq
    obtain ⟨q0, hq0, rfl⟩ := hq
    split at hr
    · simp only [Option.some.injEq] at hr
      subst hr
      rfl
    · exact h q0 hq0 r hr

theorem bind_inv (vals : List Leaf) : ∀ (scs : List (Int × Sc)) (slots : List (Leaf × Option (Int × Sc))),
    (∀ q ∈ slots, ∀ r, q.2 = some r → r.2.nodes = []) →
    (scs.foldl (bindOne vals) slots).map (·.1) = slots.map (·.1) ∧
    (∀ q ∈ scs.foldl (bindOne vals) slots, ∀ r, q.2 = some r → r.2.nodes = [])
  | [], slots, h => ⟨rfl, h⟩
  | p :: rest, slots, h => by
    simp only [List.foldl_cons]
    have ih := bind_inv vals rest (bindOne vals slots p) (bindOne_empty vals slots p h)
    exact ⟨by rw [ih.1, bindOne_fst], ih.2⟩

/-- the leaves of the trailing jump shortcuts that `update_with_new_values` drops ("jumps the user left off"),
    on the items most recent first -/
def poppedRev : List Item → List Leaf
  | Item.sc _ s :: rest => if s.kind == Kind.jmp && s.origLen == 0 then poppedRev rest ++ s.nodes else []
  | _ => []

def poppedLeaves (items : List Item) : List Leaf := poppedRev items.reverse

theorem flatRev_pop : ∀ (out : List Item), flatRev (popRev out) ++ poppedRev out = flatRev out
  | [] => by simp [popRev, poppedRev, flatRev]
  | Item.leaf l :: rest => by simp [popRev, poppedRev]
  | Item.sc sid s :: rest => by
    simp only [popRev, poppedRev]
    split
    · rw [← List.append_assoc, flatRev_pop rest]; simp [flatRev, Item.leaves]
    · simp

theorem flatten_pop (items : List Item) : flatten (popTrailingJump items) ++ poppedLeaves items = flatten items := by
  unfold popTrailingJump poppedLeaves
  rw [flatten_reverse, flatRev_pop]
  have := flatten_reverse items.reverse
  rw [List.reverse_reverse] at this
  exact this.symm

/-- **C08_consume_inv (order and completeness).** For every list of original shortcuts and every list of new
    value nodes, the nodes of the list after `update_with_new_values`, flattened (`list(ListNode)`), followed by
    the nodes of the trailing user-left-off jump that is dropped on purpose, are exactly `new_vals`, in order:
    nothing is lost, duplicated or reordered by binding, forward expansion, reverse expansion or orphan jumps. -/
theorem C08_consume_inv (scs : List (Int × Sc)) (vals : List Leaf) :
    flatten (updateWithNewValues scs vals) ++
      poppedLeaves (expandShortcuts (bindShortcuts scs vals) ⟨[], false, 0, 0⟩).out.reverse = vals := by
  have hb := bind_inv vals scs (vals.map (fun v => (v, none))) (by
    intro q hq r hr
    simp only [List.mem_map] at hq
    obtain ⟨v, _, rfl⟩ := hq
    simp at hr)
  have hfst : (bindShortcuts scs vals).map (·.1) = vals := by
    rw [show bindShortcuts scs vals = scs.foldl (bindOne vals) (vals.map (fun v => (v, none))) from rfl, hb.1]
    simp only [List.map_map]
    have : ((fun x : Leaf × Option (Int × Sc) => x.fst) ∘ fun v => (v, none)) = id := rfl
    rw [this]; simp
  unfold updateWithNewValues
  split
  · rename_i h
    have hv : vals = [] := by simpa using h
    subst hv
    have : bindShortcuts scs [] = [] := by simpa using hfst
    rw [this]
    simp [flatten, poppedLeaves, poppedRev, expandShortcuts]
  · have hb2 : ∀ q ∈ bindShortcuts scs vals, ∀ r, q.2 = some r → r.2.nodes = [] := hb.2
    rw [flatten_pop, flatten_reverse, flatRev_expandShortcuts _ _ hb2, hfst]
    simp [flatRev]


/-- non-vacuity: a bound repeat that consumes forward and backward, an orphan jump, and the trailing pop -/
example :
    let mk (i : Nat) (v : Option Rat) : Leaf := ⟨i, v, 0, "", "", false, false, true⟩
    let rep : Sc := { orphanJump with kind := .rep, nodes := [mk 2 (some 1)], origLen := 2 }
    let vals := [mk 0 (some 5), mk 1 (some 1), mk 2 (some 1), mk 3 (some 1), mk 4 none]
    ((updateWithNewValues [(0, rep)] vals).map (fun it => match it with
        | .leaf l => [l.id] | .sc _ s => s.nodes.map (·.id))) = [[0], [1, 2, 3]] := by decide

/-- a jump shortcut only ever consumes jumps (values that are `None`) -/
theorem C08_jump_only_none (s : Sc) (n : Leaf) (f l : Bool) (hk : s.kind = .jmp)
    (h : (consumeEdgeNode s n f l).1 = true) : n.val = none := by
  unfold consumeEdgeNode canConsumeNode at h
  rw [hk] at h
  simp only at h
  cases hv : n.val with
  | none => rfl
  | some x => simp [hv] at h

/-- a non-empty repeat run only grows at its end by a value that matches the FIRST node of the run (the one
    whose text is written), never merely its neighbour (repaired by fix 8f01ae2) -/
theorem C08_repeat_matches_first (s : Sc) (first : Leaf) (rest : List Leaf) (n : Leaf) (l : Bool)
    (hk : s.kind = .rep) (hn : s.nodes = first :: rest)
    (h : (consumeEdgeNode s n true l).1 = true) : isSameRepeatValue first n = true := by
  unfold consumeEdgeNode canConsumeNode at h
  rw [hk] at h
  simp only [hn] at h
  cases hv : isSameRepeatValue first n with
  | true => rfl
  | false => simp [hv] at h

/-- growing at the front, the new first node has to match every node already in the run -/
theorem C08_repeat_front_matches_all (s : Sc) (first : Leaf) (rest : List Leaf) (n : Leaf) (l : Bool)
    (hk : s.kind = .rep) (hn : s.nodes = first :: rest)
    (h : (consumeEdgeNode s n false l).1 = true) : ∀ o ∈ s.nodes, isSameRepeatValue o n = true := by
  unfold consumeEdgeNode canConsumeNode at h
  rw [hk] at h
  simp only [hn] at h
  cases hv : (first :: rest).all (fun o => isSameRepeatValue o n) with
  | true => rw [hn]; simpa using hv
  | false => simp [hv] at h

/-- a multiply never covers more than two values -/
theorem C08_multiply_at_most_two (s : Sc) (n : Leaf) (f l : Bool) (hk : s.kind = .mul)
    (h : (consumeEdgeNode s n f l).1 = true) : s.nodes.length ≤ 1 := by
  unfold consumeEdgeNode canConsumeNode at h
  rw [hk] at h
  simp only at h
  match hn : s.nodes with
  | [] => simp
  | [_] => simp
  | _ :: _ :: _ => simp [hn] at h

/-! ## The Spec reader -/
open MontePyVerif.Spec.Shortcut in
/-- the reader is a fold: reading `xs ++ ys` is reading `ys` from the state `xs` leaves -/
theorem C08_run_append : ∀ (xs ys : List Entry) (s : St),
    run (xs ++ ys) s = (run xs s).bind (run ys)
  | [], ys, s => by simp [run]
  | x :: xs, ys, s => by
    simp only [List.cons_append, run]
    cases step s x with
    | none => rfl
    | some s' => exact C08_run_append xs ys s'

open MontePyVerif.Spec.Shortcut in
/-- `x nR` reads as `n+1` copies of `x` -/
theorem C08_spec_repeat (x : Rat) (n : Nat) :
    expand [Entry.num x, Entry.rep (some n)] = some (List.replicate (n + 1) (Val.num x)) := by
  simp [expand, run, step, St.init, List.replicate_succ]

open MontePyVerif.Spec.Shortcut in
/-- `nJ` reads as `n` defaults, and nothing may continue from a jump -/
theorem C08_spec_jump (n : Nat) (x : Rat) :
    expand [Entry.jmp (some n)] = some (List.replicate n Val.jump) ∧
    expand [Entry.jmp (some n), Entry.rep none] = none ∧
    expand [Entry.jmp (some n), Entry.mul x] = none := by
  simp [expand, run, step, St.init]

open MontePyVerif.Spec.Shortcut in
/-- `a xM yM` reads as `a, a*x, a*x*y` -/
theorem C08_spec_multiply (a x y : Rat) :
    expand [Entry.num a, Entry.mul x, Entry.mul y] = some [Val.num a, Val.num (a * x), Val.num (a * x * y)] := by
  simp [expand, run, step, St.init]

/-- the code has exactly the five shortcut kinds, written with exactly the letters, that `Model.Shortcut.Kind`,
    the harness' serialiser and the Spec's word reader (`parseWord`: suffixes r, j, i, ilog/log, m) assume;
    the table is regenerated from `shortcuts.py` on every run, so a new or renamed shortcut re-opens this proof -/
theorem C08_tables :
    MontePyVerif.Gen.shortcutLetters =
      [("REPEAT", "r"), ("JUMP", "j"), ("INTERPOLATE", "i"), ("LOG_INTERPOLATE", "ilog"), ("MULTIPLY", "m")] := rfl

open MontePyVerif.Spec.Shortcut (Entry Val St step run expand isClose matchesAll between)

/-! ## Re-compression: the written words read back as the values -/

/-- the MCNP word a word of the model's output stands for (a plain node whose value is `None` has no word) -/
def Word.toEntry : Word → Option Entry
  | .num l => l.val.map Entry.num
  | .rep n shown => some (Entry.rep (if shown then some n else none))
  | .mul x => some (Entry.mul x)
  | .jmp n shown => some (Entry.jmp (if shown then some n else none))
  | .lin n shown => some (Entry.lin (if shown then some n else none))
  | .log n shown => some (Entry.log (if shown then some n else none))

/-- the word list as MCNP entries -/
def entries : List Word → Option (List Entry)
  | [] => some []
  | w :: ws => match Word.toEntry w, entries ws with
    | some e, some es => some (e :: es)
    | _, _ => none

/-- the Spec reader run directly on the model's words -/
def runW : List Word → St → Option St
  | [], s => some s
  | w :: ws, s => match Word.toEntry w with
    | none => none
    | some e => match step s e with
      | none => none
      | some s' => runW ws s'

theorem runW_append : ∀ (a b : List Word) (s : St), runW (a ++ b) s = (runW a s).bind (runW b)
  | [], b, s => by simp [runW]
  | w :: a, b, s => by
    simp only [List.cons_append, runW]
    cases Word.toEntry w with
    | none => rfl
    | some e =>
      simp only
      cases step s e with
      | none => rfl
      | some s' => exact runW_append a b s'

theorem runW_entries : ∀ (ws : List Word) (s : St),
    runW ws s = match entries ws with | some es => run es s | none => none
  | [], s => by simp [runW, entries, run]
  | w :: ws, s => by
    simp only [runW, entries]
    cases hw : Word.toEntry w with
    | none => simp
    | some e =>
      simp only
      cases hs : step s e with
      | none => cases entries ws <;> simp [run, hs]
      | some s' =>
        simp only
        rw [runW_entries ws s']
        cases entries ws <;> simp [run, hs]

/-- position by position, same length -/
def MatchL : List Val → List (Option Rat) → Prop
  | [], [] => True
  | v :: vs, y :: ys => v.matches y = true ∧ MatchL vs ys
  | _, _ => False

theorem MatchL_append : ∀ (a : List Val) (c : List (Option Rat)) (b : List Val) (d : List (Option Rat)),
    MatchL a c → MatchL b d → MatchL (a ++ b) (c ++ d)
  | [], [], b, d, _, h => by simpa using h
  | [], _ :: _, _, _, h, _ => by simp [MatchL] at h
  | _ :: _, [], _, _, h, _ => by simp [MatchL] at h
  | v :: a, y :: c, b, d, h, h2 => by
    simp only [List.cons_append, MatchL] at *
    exact ⟨h.1, MatchL_append a c b d h.2 h2⟩

theorem matchesAll_of_MatchL : ∀ (vs : List Val) (ys zs : List (Option Rat)),
    MatchL vs ys → (∀ z ∈ zs, z = none) → matchesAll vs (ys ++ zs) = true
  | [], [], zs, _, hz => by
    simp only [List.nil_append, matchesAll, List.all_eq_true]
    intro z hzm; simp [hz z hzm]
  | [], _ :: _, _, h, _ => by simp [MatchL] at h
  | _ :: _, [], _, h, _ => by simp [MatchL] at h
  | v :: vs, y :: ys, zs, h, hz => by
    simp only [MatchL] at h
    simp only [List.cons_append, matchesAll, Bool.and_eq_true]
    exact ⟨h.1, matchesAll_of_MatchL vs ys zs h.2 hz⟩

theorem rabs_sub (a b : Rat) : rabs (b - a) = rabs (a - b) := by
  unfold rabs; grind

theorem rabs_nonneg (x : Rat) : 0 ≤ rabs x := by unfold rabs; grind

/-- the model's `math.isclose` implies the Spec's closeness -/
theorem isclose_sound (a b : Rat) (h : isclose a b = true) : isClose a b = true := by
  unfold isclose at h
  unfold isClose
  simp only [MontePyVerif.Spec.Shortcut.abs, MontePyVerif.Spec.Shortcut.relTol, MontePyVerif.Spec.Shortcut.absTol] at *
  split at h
  · rename_i hab
    subst hab
    have h0 : a - a = 0 := by grind
    have := rabs_nonneg (relTol * a)
    simp only [rabs, relTol] at this
    simp [h0]
    grind
  · have := rabs_sub a b
    simp only [rabs, relTol, absTol] at *
    grind

theorem isClose_refl (a : Rat) : isClose a a = true := isclose_sound a a (by simp [isclose])

/-! ### what a shortcut may hold -/

/-- a jump shortcut holds only jumps; every other shortcut holds only numbers -/
def ScOk (s : Sc) : Prop :=
  (s.kind = Kind.jmp → ∀ n ∈ s.nodes, n.val = none) ∧ (s.kind ≠ Kind.jmp → ∀ n ∈ s.nodes, n.val.isSome = true)

def ItemOk : Item → Prop
  | .leaf l => l.val.isSome = true
  | .sc _ s => ScOk s

theorem canConsume_kind (s : Sc) (n : Leaf) (f l : Bool) : (canConsumeNode s n f l).2.kind = s.kind := by
  unfold canConsumeNode
  repeat' split
  all_goals rfl

theorem sameRepeat_some (e n : Leaf) (h : isSameRepeatValue e n = true) : n.val.isSome = true := by
  unfold isSameRepeatValue at h
  split at h
  · simp at h
  · split at h
    · rename_i hn; simp [hn]
    · simp at h

theorem validEdge_some (s : Sc) (n : Leaf) (f : Bool) (h : isValidInterpolateEdge s n f = true) :
    n.val.isSome = true := by
  unfold isValidInterpolateEdge at h
  split at h
  · simp at h
  · rename_i hn; simp [hn]

theorem consume_val (s : Sc) (n : Leaf) (f l : Bool) (h : (consumeEdgeNode s n f l).1 = true) :
    (s.kind = Kind.jmp → n.val = none) ∧ (s.kind ≠ Kind.jmp → n.val.isSome = true) := by
  constructor
  · intro hk; exact C08_jump_only_none s n f l hk h
  · intro hk
    unfold consumeEdgeNode at h
    have hc : (canConsumeNode s n f l).1 = true := by
      cases hcc : canConsumeNode s n f l with
      | mk ok s' => rw [hcc] at h; cases ok <;> simp_all
    clear h
    unfold canConsumeNode at hc
    cases hkind : s.kind with
    | jmp => exact absurd hkind hk
    | rep =>
      rw [hkind] at hc
      simp only at hc
      split at hc
      · exact hc
      · rename_i first rest hn
        cases f with
        | true => simp only [if_true] at hc; exact sameRepeat_some first n hc
        | false =>
          simp only [Bool.false_eq_true, if_false] at hc
          rw [hn] at hc
          simp only [List.all_cons, Bool.and_eq_true] at hc
          exact sameRepeat_some first n hc.1
    | lin => rw [hkind] at hc; exact validEdge_some s n f hc
    | log => rw [hkind] at hc; exact validEdge_some s n f hc
    | mul =>
      rw [hkind] at hc
      simp only at hc
      split at hc
      · simp at hc
      · rename_i hnone
        cases hv : n.val with
        | none => simp [hv] at hnone
        | some x => rfl


theorem consume_kind (s : Sc) (n : Leaf) (f l : Bool) : (consumeEdgeNode s n f l).2.kind = s.kind := by
  unfold consumeEdgeNode
  have h := canConsume_kind s n f l
  cases hc : canConsumeNode s n f l with
  | mk ok s' => rw [hc] at h; cases ok <;> simp_all

theorem consume_nodes_mem (s : Sc) (n : Leaf) (f l : Bool) :
    ∀ m ∈ (consumeEdgeNode s n f l).2.nodes, m ∈ s.nodes ∨ (m = n ∧ (consumeEdgeNode s n f l).1 = true) := by
  intro m hm
  cases f with
  | true =>
    rw [consume_fwd] at hm
    split at hm
    · rename_i hok
      simp only [List.mem_append, List.mem_singleton] at hm
      rcases hm with h | h
      · exact Or.inl h
      · exact Or.inr ⟨h, hok⟩
    · exact Or.inl hm
  | false =>
    rw [consume_bwd] at hm
    split at hm
    · rename_i hok
      simp only [List.mem_cons] at hm
      rcases hm with h | h
      · exact Or.inr ⟨h, hok⟩
      · exact Or.inl h
    · exact Or.inl hm

/-- consuming keeps a shortcut well-formed, whether or not the node is taken -/
theorem consume_ok (s : Sc) (n : Leaf) (f l : Bool) (h : ScOk s) : ScOk (consumeEdgeNode s n f l).2 := by
  unfold ScOk
  rw [consume_kind]
  constructor
  · intro hk m hm
    rcases consume_nodes_mem s n f l m hm with h1 | ⟨h1, hok⟩
    · exact h.1 hk m h1
    · rw [h1]; exact (consume_val s n f l hok).1 hk
  · intro hk m hm
    rcases consume_nodes_mem s n f l m hm with h1 | ⟨h1, hok⟩
    · exact h.2 hk m h1
    · rw [h1]; exact (consume_val s n f l hok).2 hk

theorem gconsume_ok (s : Sc) (n : Leaf) (f l : Bool) (h : ScOk s) : ScOk (guardedConsume s n f l).2 := by
  unfold guardedConsume
  split
  · exact consume_ok s n f l h
  · exact h

def AllOk (out : List Item) : Prop := ∀ it ∈ out, ItemOk it

theorem allOk_cons {it : Item} {out : List Item} (h1 : ItemOk it) (h2 : AllOk out) : AllOk (it :: out) := by
  intro x hx
  simp only [List.mem_cons] at hx
  rcases hx with rfl | hx
  · exact h1
  · exact h2 x hx

theorem orphan_ok (ids : List Nat) : ScOk { orphanJump with runIds := ids } := by
  unfold ScOk orphanJump; simp

theorem allOk_orphan (out : List Item) (v : Leaf) (h : AllOk out) : AllOk (checkForOrphanJump out v).1 := by
  unfold checkForOrphanJump
  split
  · rename_i hnone
    have hok : (consumeEdgeNode { orphanJump with runIds := [v.id] } v true false).1 = true := by
      simp [consumeEdgeNode, canConsumeNode, orphanJump, hnone]
    cases hc : consumeEdgeNode { orphanJump with runIds := [v.id] } v true false with
    | mk ok s =>
      rw [hc] at hok
      simp only at hok
      subst hok
      simp only [if_true]
      have := consume_ok { orphanJump with runIds := [v.id] } v true false (orphan_ok [v.id])
      rw [hc] at this
      exact allOk_cons this h
  · rename_i hsome
    refine allOk_cons ?_ h
    cases hv : v.val with
    | none => simp [hv] at hsome
    | some x => simp [ItemOk, hv]

theorem allOk_reverseExp (budget : Nat) : ∀ (s : Sc) (out : List Item), ScOk s → AllOk out →
    ScOk (tryReverseExpansion s budget out).1 ∧ AllOk (tryReverseExpansion s budget out).2 := by
  induction budget with
  | zero => intro s out hs ho; simpa [tryReverseExpansion] using ⟨hs, ho⟩
  | succ b ih =>
    intro s out hs ho
    unfold tryReverseExpansion
    split
    · rename_i l rest
      have hso := gconsume_ok s l false false hs
      cases hc : guardedConsume s l false false with
      | mk ok s' =>
        rw [hc] at hso
        cases ok
        · exact ⟨hso, ho⟩
        · simp only [if_true]
          exact ih s' rest hso (fun x hx => ho x (List.mem_cons_of_mem _ hx))
    · exact ⟨hs, ho⟩

theorem allOk_stepPlain (st : PassSt) (v : Leaf) (h : AllOk st.out) : AllOk (stepPlain st v).out := by
  unfold stepPlain
  split
  · rename_i sid s rest hcur hout
    have hs : ScOk s := h (Item.sc sid s) (by rw [hout]; exact List.mem_cons_self)
    have hrest : AllOk rest := fun x hx => h x (by rw [hout]; exact List.mem_cons_of_mem _ hx)
    have hso := gconsume_ok s v true (st.i == st.lastEnd + 1 && st.lastEnd != 0) hs
    cases hc : guardedConsume s v true (st.i == st.lastEnd + 1 && st.lastEnd != 0) with
    | mk ok s1 =>
      rw [hc] at hso
      simp only [hc]
      cases ok
      · simp only [Bool.false_eq_true, if_false]
        exact allOk_orphan _ v (allOk_cons hso hrest)
      · simp only [if_true]
        exact allOk_cons hso hrest
  · exact allOk_orphan st.out v h

theorem allOk_stepPass (st : PassSt) (v : Leaf) (b : Option (Int × Sc))
    (hb : ∀ p, b = some p → p.2.nodes = []) (h : AllOk st.out) : AllOk (stepPass st v b).out := by
  unfold stepPass
  split
  · rename_i sid s
    have hs : ScOk s := by
      have := hb (sid, s) rfl
      unfold ScOk; simp only at this; rw [this]; simp
    simp only
    have hso := consume_ok s v true (st.i == (if st.cur = true then st.i - 1 else st.lastEnd) + 1 && (if st.cur = true then st.i - 1 else st.lastEnd) != 0) hs
    cases hc : consumeEdgeNode s v true (st.i == (if st.cur = true then st.i - 1 else st.lastEnd) + 1 && (if st.cur = true then st.i - 1 else st.lastEnd) != 0) with
    | mk ok s1 =>
      rw [hc] at hso
      cases ok
      · simp only [Bool.false_eq_true, if_false]
        exact allOk_stepPlain st v h
      · simp only [if_true]
        have hr := allOk_reverseExp (if st.i > 1 then st.i - 1 - (if st.cur = true then st.i - 1 else st.lastEnd) else 0) s1 st.out hso h
        exact allOk_cons hr.1 hr.2
  · exact allOk_stepPlain st v h

theorem allOk_expandShortcuts : ∀ (slots : List (Leaf × Option (Int × Sc))) (st : PassSt),
    (∀ q ∈ slots, ∀ p, q.2 = some p → p.2.nodes = []) → AllOk st.out →
    AllOk (expandShortcuts slots st).out
  | [], st, _, h => by simpa [expandShortcuts] using h
  | (v, b) :: rest, st, hb, h => by
    simp only [expandShortcuts]
    exact allOk_expandShortcuts rest _ (fun q hq => hb q (List.mem_cons_of_mem _ hq))
      (allOk_stepPass st v b (hb (v, b) List.mem_cons_self) h)


/-! ### each shortcut text denotes its run -/

/-- reading `ws` from the Spec state `S` succeeds, leaves no interpolation open, appends values that match
    `leaves` position by position, and leaves `tail` as the previous entry -/
def Sound (ws : List Word) (tail : Option Rat) (leaves : List Leaf) (S : St) : Prop :=
  ∃ S', runW ws S = some S' ∧ S'.pend = none ∧
    (∃ vs, S'.out = S.out ++ vs ∧ MatchL vs (leaves.map (·.val))) ∧ ∀ t, tail = some t → S'.prev = some t

theorem countText_getD (s : Sc) (n : Nat) (c : String) (shown : Bool) (h : countText s n = (c, shown)) :
    (if shown = true then some n else none : Option Nat).getD 1 = n := by
  unfold countText at h
  split at h
  · rename_i hc
    simp only [Prod.mk.injEq] at h
    simp only [Bool.and_eq_true, beq_iff_eq] at hc
    rw [← h.2]; simp [hc.1]
  · simp only [Prod.mk.injEq] at h
    rw [← h.2]; simp

theorem runW_nums : ∀ (nodes : List Leaf) (S : St), (∀ n ∈ nodes, n.val.isSome = true) → S.pend = none →
    ∃ S', runW (nodes.map Word.num) S = some S' ∧ S'.pend = none ∧
      (∃ vs, S'.out = S.out ++ vs ∧ MatchL vs (nodes.map (·.val))) ∧
      S'.prev = (match nodes.getLast? with | some l => l.val | none => S.prev)
  | [], S, _, hp => ⟨S, by simp [runW], hp, ⟨[], by simp, by simp [MatchL]⟩, by simp⟩
  | l :: ls, S, hs, hp => by
    obtain ⟨out, prev, pend⟩ := S
    simp only at hp
    subst hp
    have hl := hs l List.mem_cons_self
    cases hv : l.val with
    | none => simp [hv] at hl
    | some x =>
      obtain ⟨S', h1, h2, ⟨vs, h3, h4⟩, h5⟩ := runW_nums ls ⟨out ++ [Val.num x], some x, none⟩
        (fun n hn => hs n (List.mem_cons_of_mem _ hn)) rfl
      refine ⟨S', ?_, h2, ⟨Val.num x :: vs, ?_, ?_⟩, ?_⟩
      · simp only [List.map_cons, runW, Word.toEntry, hv, Option.map_some, step]
        exact h1
      · rw [h3]; simp
      · simp only [List.map_cons, hv, MatchL]
        exact ⟨by simp [Val.matches, isClose_refl], h4⟩
      · rw [h5]
        cases ls with
        | nil => simp [hv]
        | cons l2 ls' =>
          simp only [List.getLast?_cons_cons]
          cases hgl : (l2 :: ls').getLast? with
          | none => simp at hgl
          | some z => rfl

theorem sound_explicit (s : Sc) (S : St) (hp : S.pend = none) (hs : ∀ n ∈ s.nodes, n.val.isSome = true) :
    Sound (formatExplicit s).words (formatExplicit s).tail s.nodes S := by
  obtain ⟨S', h1, h2, h3, h5⟩ := runW_nums s.nodes S hs hp
  refine ⟨S', h1, h2, h3, ?_⟩
  intro t ht
  rw [h5]
  simp only [formatExplicit] at ht
  split at ht
  · rename_i l hl; simp [hl, ht]
  · simp at ht

theorem MatchL_jumps : ∀ (nodes : List Leaf), (∀ n ∈ nodes, n.val = none) →
    MatchL (List.replicate nodes.length Val.jump) (nodes.map (·.val))
  | [], _ => by simp [MatchL]
  | l :: ls, h => by
    simp only [List.length_cons, List.replicate_succ, List.map_cons, MatchL]
    refine ⟨?_, MatchL_jumps ls (fun n hn => h n (List.mem_cons_of_mem _ hn))⟩
    rw [h l List.mem_cons_self]; rfl

theorem sound_jump (s : Sc) (S : St) (hp : S.pend = none) (hn : ∀ n ∈ s.nodes, n.val = none) :
    Sound (formatJump s).words (formatJump s).tail s.nodes S := by
  obtain ⟨out, prev, pend⟩ := S
  simp only at hp
  subst hp
  unfold formatJump
  simp only
  split
  · rename_i h0
    have : s.nodes = [] := by
      have : s.nodes.length = 0 := by simpa using h0
      exact List.eq_nil_of_length_eq_zero this
    refine ⟨⟨out, prev, none⟩, by simp [runW], rfl, ⟨[], by simp, by simp [this, MatchL]⟩, by simp⟩
  · cases hct : countText s s.nodes.length with
    | mk c shown =>
      have hg := countText_getD s _ c shown hct
      simp only
      refine ⟨⟨out ++ List.replicate s.nodes.length Val.jump, none, none⟩, ?_, rfl, ⟨_, rfl, MatchL_jumps s.nodes hn⟩, by simp⟩
      simp only [runW, Word.toEntry, step, hg]

theorem MatchL_allRepeat (c : Rat) : ∀ (nodes : List Leaf), allRepeat c nodes = true →
    MatchL (List.replicate nodes.length (Val.num c)) (nodes.map (·.val))
  | [], _ => by simp [MatchL]
  | l :: ls, h => by
    simp only [allRepeat, List.all_cons, Bool.and_eq_true] at h
    simp only [List.length_cons, List.replicate_succ, List.map_cons, MatchL]
    refine ⟨?_, MatchL_allRepeat c ls (by simpa [allRepeat] using h.2)⟩
    have h1 := h.1
    split at h1
    · simp at h1
    · rename_i y hy
      rw [hy]
      simp only [Val.matches]
      split at h1
      · exact isclose_sound c y h1
      · have : c = y := by simpa using h1
        rw [this]; exact isClose_refl y

theorem sound_repeat (s : Sc) (carried : Option Rat) (S : St) (f : Fmt) (hp : S.pend = none)
    (hc : ∀ c, carried = some c → S.prev = some c) (h : formatRepeat s carried = some f) :
    Sound f.words f.tail s.nodes S := by
  obtain ⟨out, prev, pend⟩ := S
  simp only at hp hc
  subst hp
  unfold formatRepeat at h
  simp only at h
  split at h
  · rename_i c heq
    have hcar : carried = some c ∧ allRepeat c s.nodes = true := by
      cases carried with
      | none => simp at heq
      | some c0 =>
        simp only at heq
        split at heq
        · rename_i hcond
          simp only [Option.some.injEq] at heq
          subst heq
          simp only [Bool.and_eq_true] at hcond
          exact ⟨rfl, hcond.2⟩
        · simp at heq
    have hprev := hc c hcar.1
    subst hprev
    cases hct : countText s s.nodes.length with
    | mk ct shown =>
      have hg := countText_getD s _ ct shown hct
      rw [hct] at h
      simp only [Option.some.injEq] at h
      subst h
      refine ⟨⟨out ++ List.replicate s.nodes.length (Val.num c), some c, none⟩, ?_, rfl,
        ⟨_, rfl, MatchL_allRepeat c s.nodes hcar.2⟩, by simp⟩
      simp only [runW, Word.toEntry, step, hg]
  · split at h
    · rename_i first rest hn
      split at h
      · rename_i a ha
        split at h
        · rename_i hcond
          simp only [Bool.and_eq_true] at hcond
          cases hct : countText s rest.length with
          | mk ct shown =>
            have hg := countText_getD s _ ct shown hct
            rw [hct] at h
            simp only [Option.some.injEq] at h
            subst h
            refine ⟨⟨out ++ [Val.num a] ++ List.replicate rest.length (Val.num a), some a, none⟩, ?_, rfl,
              ⟨Val.num a :: List.replicate rest.length (Val.num a), by simp, ?_⟩, by simp⟩
            · simp only [runW, Word.toEntry, ha, Option.map_some, step, hg]
            · rw [hn]
              simp only [List.map_cons, ha, MatchL]
              exact ⟨by simp [Val.matches, isClose_refl], MatchL_allRepeat a rest hcond.2⟩
        · simp at h
      · simp at h
    · simp at h


theorem sound_multiply (s : Sc) (carried : Option Rat) (S : St) (f : Fmt) (hp : S.pend = none)
    (hc : ∀ c, carried = some c → S.prev = some c) (h : formatMultiply s carried = some f) :
    Sound f.words f.tail s.nodes S := by
  obtain ⟨out, prev, pend⟩ := S
  simp only at hp hc
  subst hp
  unfold formatMultiply at h
  simp only at h
  split at h
  · simp at h
  · rename_i base first product heq
    split at h
    · rename_i b p w hw
      split at h
      · simp at h
      · split at h
        · rename_i hclose
          simp only [Option.some.injEq] at h
          subst h
          split at heq
          · rename_i c pl hnodes
            simp only [Option.some.injEq, Prod.mk.injEq] at heq
            obtain ⟨hb, hf, hpv⟩ := heq
            subst hf
            subst hb
            have hprev := hc c rfl
            subst hprev
            refine ⟨⟨out ++ [Val.num (c * w)], some (c * w), none⟩, ?_, rfl, ⟨[Val.num (c * w)], rfl, ?_⟩, by simp⟩
            · simp only [List.nil_append, runW, Word.toEntry, step]
            · rw [hnodes]
              simp only [List.map_cons, List.map_nil, hpv, MatchL, Val.matches, and_true]
              exact isclose_sound _ _ hclose
          · rename_i a pn hnodes
            simp only [Option.some.injEq, Prod.mk.injEq] at heq
            obtain ⟨hb, hf, hpv⟩ := heq
            subst hf
            refine ⟨⟨out ++ [Val.num b] ++ [Val.num (b * w)], some (b * w), none⟩, ?_, rfl,
              ⟨[Val.num b, Val.num (b * w)], by simp, ?_⟩, by simp⟩
            · simp only [List.cons_append, List.nil_append, runW, Word.toEntry, hb, Option.map_some, step]
            · rw [hnodes]
              simp only [List.map_cons, List.map_nil, hpv, hb, MatchL, Val.matches, and_true]
              exact ⟨isClose_refl b, isclose_sound _ _ hclose⟩
          · simp at heq
        · simp at h
    · simp at h

theorem lin_alg (b e D k : Rat) : b + (e - b) / D * k = b + (e - b) * k / D := by grind

theorem iscloseScale_matches (b e : Rat) (n k : Nat) (x y : Rat)
    (hx : x = MontePyVerif.Spec.Shortcut.linValue b e n k) (h : iscloseScale x y (scaleOf b e) = true) :
    (Val.linv b e n k).matches (some y) = true := by
  subst hx
  unfold iscloseScale at h
  simp only [Val.matches, Bool.or_eq_true, decide_eq_true_eq] at h ⊢
  rcases h with h | h
  · left; exact isclose_sound _ _ h
  · right
    rw [rabs_sub] at h
    exact h

theorem MatchL_lin (b e : Rat) (n : Nat) (lastL : Leaf) (hl : lastL.val = some e) :
    ∀ (init : List Leaf) (i : Nat),
      linOk b ((e - b) / ((n + 1 : Nat) : Rat)) (scaleOf b e) i (init ++ [lastL]) = true →
      MatchL ((List.range' i init.length).map (fun j => Val.linv b e n (j + 1)) ++ [Val.num e])
        ((init ++ [lastL]).map (·.val))
  | [], i, _ => by simp [MatchL, hl, Val.matches, isClose_refl]
  | l :: init, i, h => by
    simp only [List.cons_append, linOk, Bool.and_eq_true] at h
    simp only [List.length_cons, List.range'_succ, List.map_cons, List.cons_append, MatchL]
    refine ⟨?_, MatchL_lin b e n lastL hl init (i + 1) h.2⟩
    have h1 := h.1
    split at h1
    · rename_i y hy
      rw [hy]
      rw [lin_alg] at h1
      exact iscloseScale_matches b e n (i + 1) _ y (by simp [MontePyVerif.Spec.Shortcut.linValue]) h1
    · simp at h1

theorem logv_matches (b e y : Rat) (n j : Nat) :
    (Val.logv b e n (j + 1)).matches (some y) = powClose y (n + 1) (b ^ (n + 1 - (j + 1)) * e ^ (j + 1)) := rfl

theorem MatchL_log (b e : Rat) (n : Nat) (lastL : Leaf) (hl : lastL.val = some e) :
    ∀ (init : List Leaf) (i : Nat), logOk b e (n + 1) i (init ++ [lastL]) = true →
      MatchL ((List.range' i init.length).map (fun j => Val.logv b e n (j + 1)) ++ [Val.num e])
        ((init ++ [lastL]).map (·.val))
  | [], i, _ => by simp [MatchL, hl, Val.matches, isClose_refl]
  | l :: init, i, h => by
    simp only [List.cons_append, logOk, Bool.and_eq_true] at h
    simp only [List.length_cons, List.range'_succ, List.map_cons, List.cons_append, MatchL]
    refine ⟨?_, MatchL_log b e n lastL hl init (i + 1) h.2⟩
    have h1 := h.1
    split at h1
    · rename_i y hy
      rw [hy, logv_matches]
      exact h1
    · simp at h1


/-- the interpolation word and its closing number, read from a state whose previous entry is `b`, denote a run
    that `_is_interpolation` accepted from `b` -/
theorem interp_run (s : Sc) (b : Rat) (nodes : List Leaf) (e : Leaf) (S : St) (hp : S.pend = none)
    (hprev : S.prev = some b) (hI : isInterpolation s (some b) nodes = true) (he : nodes.getLast? = some e)
    (shown : Bool) (ct : String) (hct : countText s (nodes.length - 1) = (ct, shown)) :
    ∃ S', runW [if s.kind == Kind.log then Word.log (nodes.length - 1) shown else Word.lin (nodes.length - 1) shown,
        Word.num e] S = some S' ∧ S'.pend = none ∧
      (∃ vs, S'.out = S.out ++ vs ∧ MatchL vs (nodes.map (·.val))) ∧ S'.prev = e.val := by
  obtain ⟨out, prev, pend⟩ := S
  simp only at hp hprev
  subst hp hprev
  have hg := countText_getD s _ ct shown hct
  obtain ⟨init, hinit⟩ := List.getLast?_eq_some_iff.mp he
  subst hinit
  unfold isInterpolation at hI
  simp only [he] at hI
  split at hI
  · simp at hI
  · rename_i ev hev
    split at hI
    · simp at hI
    · have hlen : (init ++ [e]).length - 1 = init.length := by simp
      rw [hlen] at hg ⊢
      split at hI
      · rename_i hlog
        split at hI
        · simp at hI
        · rename_i hpos
          simp only [Bool.or_eq_true, decide_eq_true_eq, not_or] at hpos
          have hlen2 : (init ++ [e]).length = init.length + 1 := by simp
          rw [hlen2] at hI
          have hm := MatchL_log b ev init.length e hev init 0 hI
          refine ⟨⟨out ++ between b ev init.length true ++ [Val.num ev], some ev, none⟩, ?_, rfl,
            ⟨between b ev init.length true ++ [Val.num ev], by simp, ?_⟩, by simp [hev]⟩
          · simp only [hlog, if_true, runW, Word.toEntry, step, hg, hev, Option.map_some, Bool.true_and]
            have h1 : ¬ (b ≤ 0) := hpos.1
            have h2 : ¬ (ev ≤ 0) := hpos.2
            simp [h1, h2]
          · simpa [between, List.range_eq_range'] using hm
      · rename_i hlog
        have hlen2 : ((init ++ [e]).length : Rat) = ((init.length + 1 : Nat) : Rat) := by simp
        rw [hlen2] at hI
        have hm := MatchL_lin b ev init.length e hev init 0 hI
        refine ⟨⟨out ++ between b ev init.length false ++ [Val.num ev], some ev, none⟩, ?_, rfl,
          ⟨between b ev init.length false ++ [Val.num ev], by simp, ?_⟩, by simp [hev]⟩
        · simp only [hlog, runW, Word.toEntry, step, hg, hev, Option.map_some]
          simp
          rw [hg]
        · simpa [between, List.range_eq_range'] using hm

theorem sound_interpolate (s : Sc) (carried : Option Rat) (S : St) (f : Fmt) (hp : S.pend = none)
    (hc : ∀ c, carried = some c → S.prev = some c) (h : formatInterpolate s carried = some f) :
    Sound f.words f.tail s.nodes S := by
  unfold formatInterpolate at h
  split at h
  · rename_i hcond
    simp only [Bool.and_eq_true] at hcond
    split at h
    · rename_i e he
      simp only [Option.some.injEq] at h
      subst h
      cases hcar : carried with
      | none => simp [hcar] at hcond
      | some c =>
        rw [hcar] at hcond
        cases hct : countText s (s.nodes.length - 1) with
        | mk ct shown =>
          obtain ⟨S', h1, h2, h3, h4⟩ := interp_run s c s.nodes e S hp (hc c hcar) hcond.2 he shown ct hct
          refine ⟨S', ?_, h2, h3, ?_⟩
          · simpa [mkInterp, hct] using h1
          · intro t ht
            simp only [mkInterp] at ht
            rw [h4, ht]
    · simp at h
  · split at h
    · rename_i first rest hn
      split at h
      · rename_i hcond
        simp only [Bool.and_eq_true] at hcond
        split at h
        · rename_i e he
          simp only [Option.some.injEq] at h
          subst h
          have hI := hcond.2
          cases hfv : first.val with
          | none => simp [isInterpolation, hfv] at hI
          | some b =>
            rw [hfv] at hI
            obtain ⟨out, prev, pend⟩ := S
            simp only at hp
            subst hp
            cases hct : countText s (rest.length - 1) with
            | mk ct shown =>
              obtain ⟨S', h1, h2, ⟨vs, h3, h3'⟩, h4⟩ := interp_run s b rest e ⟨out ++ [Val.num b], some b, none⟩ rfl rfl
                hI he shown ct hct
              refine ⟨S', ?_, h2, ⟨Val.num b :: vs, ?_, ?_⟩, ?_⟩
              · simp only [mkInterp, hct, List.cons_append, List.nil_append]
                simp only [runW, Word.toEntry, hfv, Option.map_some, step] at h1 ⊢
                exact h1
              · rw [h3]; simp
              · rw [hn]
                simp only [List.map_cons, hfv, MatchL]
                exact ⟨by simp [Val.matches, isClose_refl], h3'⟩
              · intro t ht
                simp only [mkInterp] at ht
                rw [h4, ht]
        · simp at h
      · simp at h
    · simp at h

/-- **local correctness of `ShortcutNode.format`**: whatever run a well-formed shortcut holds and whatever entry is
    carried over from the previous shortcut, the words written denote exactly the run -/
theorem sound_format (s : Sc) (carried : Option Rat) (S : St) (hok : ScOk s) (hp : S.pend = none)
    (hc : ∀ c, carried = some c → S.prev = some c) :
    Sound (MontePyVerif.Model.Shortcut.format s carried).words (MontePyVerif.Model.Shortcut.format s carried).tail s.nodes S := by
  unfold MontePyVerif.Model.Shortcut.format
  simp only
  generalize hcar : (if s.ownStart = true then none else carried) = c'
  have hc' : ∀ c, c' = some c → S.prev = some c := by
    intro c h
    subst hcar
    split at h
    · simp at h
    · exact hc c h
  cases hk : s.kind with
  | jmp =>
    simp only
    exact sound_jump s S hp (hok.1 hk)
  | rep =>
    simp only
    have hsome := hok.2 (by rw [hk]; simp)
    cases hf : formatRepeat s c' with
    | none => exact sound_explicit s S hp hsome
    | some f => exact sound_repeat s c' S f hp hc' hf
  | mul =>
    simp only
    have hsome := hok.2 (by rw [hk]; simp)
    cases hf : formatMultiply s c' with
    | none => exact sound_explicit s S hp hsome
    | some f => exact sound_multiply s c' S f hp hc' hf
  | lin =>
    simp only
    have hsome := hok.2 (by rw [hk]; simp)
    cases hf : formatInterpolate s c' with
    | none => exact sound_explicit s S hp hsome
    | some f => exact sound_interpolate s c' S f hp hc' hf
  | log =>
    simp only
    have hsome := hok.2 (by rw [hk]; simp)
    cases hf : formatInterpolate s c' with
    | none => exact sound_explicit s S hp hsome
    | some f => exact sound_interpolate s c' S f hp hc' hf

/-! ### the loop of `ListNode.format` -/

/-- invariant of `ListNode.format`: the words written so far read, from the start, as the values of the nodes
    formatted so far, no interpolation is open, and the entry a following shortcut may continue from
    (`_written_tail`) is the Spec's previous entry -/
def FInv (st : FmtSt) (done : List Item) : Prop :=
  ∃ S, runW st.words St.init = some S ∧ S.pend = none ∧ MatchL S.out ((flatten done).map (·.val)) ∧
    ∀ c, st.carried = some c → S.prev = some c

theorem flatten_snoc (done : List Item) (it : Item) : flatten (done ++ [it]) = flatten done ++ it.leaves := by
  simp [flatten]

theorem finv_step (st : FmtSt) (done : List Item) (it : Item) (isLast : Bool) (h : FInv st done)
    (hok : ItemOk it) : FInv (formatStep st it isLast) (done ++ [it]) := by
  obtain ⟨S, h1, h2, h3, h4⟩ := h
  cases it with
  | leaf l =>
    simp only [ItemOk] at hok
    cases hv : l.val with
    | none => simp [hv] at hok
    | some x =>
      obtain ⟨out, prev, pend⟩ := S
      simp only at h2
      subst h2
      refine ⟨⟨out ++ [Val.num x], some x, none⟩, ?_, rfl, ?_, by simp [formatStep]⟩
      · simp only [formatStep, runW_append, h1, Option.bind_some, runW, Word.toEntry, hv, Option.map_some, step]
      · rw [flatten_snoc]
        simp only [Item.leaves, List.map_append, List.map_cons, List.map_nil, hv]
        exact MatchL_append _ _ _ _ h3 (by simp [MatchL, Val.matches, isClose_refl])
  | sc sid s =>
    simp only [ItemOk] at hok
    have hc' : ∀ c, (match st.last with | some (Item.sc _ _) => st.carried | _ => none) = some c → S.prev = some c := by
      intro c hc
      split at hc
      · exact h4 c hc
      · simp at hc
    obtain ⟨S', g1, g2, ⟨vs, g3, g3'⟩, g4⟩ := sound_format s _ S hok h2 hc'
    refine ⟨S', ?_, g2, ?_, ?_⟩
    · simp only [formatStep, runW_append, h1, Option.bind_some]
      exact g1
    · rw [flatten_snoc, g3]
      simp only [Item.leaves, List.map_append]
      exact MatchL_append _ _ _ _ h3 g3'
    · intro c hc
      simp only [formatStep] at hc
      exact g4 c hc

theorem finv_loop : ∀ (items : List Item) (st : FmtSt) (done : List Item), FInv st done →
    (∀ it ∈ items, ItemOk it) → FInv (formatLoop items st) (done ++ items)
  | [], st, done, h, _ => by simpa [formatLoop] using h
  | [x], st, done, h, hok => by
    simp only [formatLoop]
    exact finv_step st done x true h (hok x List.mem_cons_self)
  | x :: y :: rest, st, done, h, hok => by
    simp only [formatLoop]
    have := finv_loop (y :: rest) (formatStep st x false) (done ++ [x])
      (finv_step st done x false h (hok x List.mem_cons_self)) (fun it hit => hok it (List.mem_cons_of_mem _ hit))
    simpa using this

/-- every node list `update_with_new_values` can produce is well-formed: plain nodes hold numbers, jump shortcuts
    hold only jumps, other shortcuts only numbers (so "jumps stay jumps": a `None` is never left as a plain node,
    which would print nothing) -/
theorem allOk_pass (scs : List (Int × Sc)) (vals : List Leaf) :
    AllOk (expandShortcuts (bindShortcuts scs vals) ⟨[], false, 0, 0⟩).out := by
  have hb := bind_inv vals scs (vals.map (fun v => (v, none))) (by
    intro q hq r hr
    simp only [List.mem_map] at hq
    obtain ⟨v, _, rfl⟩ := hq
    simp at hr)
  exact allOk_expandShortcuts _ _ hb.2 (by intro it hit; simp at hit)

theorem mem_popRev : ∀ (out : List Item) (it : Item), it ∈ popRev out → it ∈ out
  | [], _, h => by simpa [popRev] using h
  | Item.leaf l :: rest, _, h => by simpa [popRev] using h
  | Item.sc sid s :: rest, it, h => by
    simp only [popRev] at h
    split at h
    · exact List.mem_cons_of_mem _ (mem_popRev rest it h)
    · exact h

theorem mem_pop (items : List Item) (it : Item) (h : it ∈ popTrailingJump items) : it ∈ items := by
  unfold popTrailingJump at h
  have := mem_popRev items.reverse it (List.mem_reverse.mp h)
  exact List.mem_reverse.mp this

theorem allOk_update (scs : List (Int × Sc)) (vals : List Leaf) :
    ∀ it ∈ updateWithNewValues scs vals, ItemOk it := by
  intro it hit
  unfold updateWithNewValues at hit
  split at hit
  · simp at hit
  · exact allOk_pass scs vals it (List.mem_reverse.mp (mem_pop _ it hit))

theorem poppedRev_none : ∀ (out : List Item), (∀ it ∈ out, ItemOk it) → ∀ l ∈ poppedRev out, l.val = none
  | [], _, l, hl => by simp [poppedRev] at hl
  | Item.leaf _ :: rest, _, l, hl => by simp [poppedRev] at hl
  | Item.sc sid s :: rest, h, l, hl => by
    simp only [poppedRev] at hl
    split at hl
    · rename_i hcond
      simp only [Bool.and_eq_true, beq_iff_eq] at hcond
      simp only [List.mem_append] at hl
      rcases hl with hl | hl
      · exact poppedRev_none rest (fun it hit => h it (List.mem_cons_of_mem _ hit)) l hl
      · exact (h (Item.sc sid s) List.mem_cons_self).1 hcond.1 l hl
    · simp at hl

theorem popped_none (items : List Item) (h : ∀ it ∈ items, ItemOk it) : ∀ l ∈ poppedLeaves items, l.val = none := by
  unfold poppedLeaves
  exact poppedRev_none items.reverse (fun it hit => h it (List.mem_reverse.mp hit))

/-- "the written list reads as the values": the words `ListNode.format` writes after
    `update_with_new_values scs vals` are MCNP entries, MCNP's reader accepts them, and what it reads agrees with
    `vals` position by position within the library tolerance — numbers as numbers, jumps as jumps, and only
    trailing jumps (defaults) may be left unwritten -/
def Recompresses (scs : List (Int × Sc)) (vals : List Leaf) : Prop :=
  ∃ es vs, entries (MontePyVerif.Model.ListNode.format (updateWithNewValues scs vals)).words = some es ∧
    expand es = some vs ∧ matchesAll vs (vals.map (·.val)) = true

/-- **C08_recompress.** For ALL original shortcut lists (any state) and ALL new value lists. -/
theorem C08_recompress (scs : List (Int × Sc)) (vals : List Leaf) : Recompresses scs vals := by
  have hok := allOk_update scs vals
  have hinv : FInv (MontePyVerif.Model.ListNode.format (updateWithNewValues scs vals)) ([] ++ updateWithNewValues scs vals) :=
    finv_loop _ _ [] ⟨St.init, by simp [runW], rfl, by simp [St.init, flatten, MatchL], by simp⟩ hok
  obtain ⟨S, h1, h2, h3, _⟩ := hinv
  rw [runW_entries] at h1
  cases hes : entries (MontePyVerif.Model.ListNode.format (updateWithNewValues scs vals)).words with
  | none => simp [hes] at h1
  | some es =>
    rw [hes] at h1
    simp only at h1
    refine ⟨es, S.out, hes, ?_, ?_⟩
    · simp [expand, h1, h2]
    · have hci := C08_consume_inv scs vals
      have hpop := popped_none _ (fun it hit => allOk_pass scs vals it (List.mem_reverse.mp hit))
      rw [← hci]
      simp only [List.nil_append] at h3
      simp only [List.map_append]
      exact matchesAll_of_MatchL _ _ _ h3 (by
        intro z hz
        simp only [List.mem_map] at hz
        obtain ⟨l, hl, rfl⟩ := hz
        exact hpop l hl)

/-- **C08_grow_shrink.** Insertion of a value node at any position and deletion at any position (a cell added or
    removed), after any state of the list: the written list still reads as the values. -/
theorem C08_grow_shrink (scs : List (Int × Sc)) (vals : List Leaf) (i : Nat) (x : Leaf) :
    Recompresses scs (vals.take i ++ x :: vals.drop i) ∧ Recompresses scs (vals.eraseIdx i) :=
  ⟨C08_recompress _ _, C08_recompress _ _⟩

/-- every node list `update_with_new_values` produces is well-formed -/
theorem C08_wellformed (scs : List (Int × Sc)) (vals : List Leaf) :
    ∀ it ∈ updateWithNewValues scs vals, ItemOk it := allOk_update scs vals

/-- local correctness of `ShortcutNode.format` (alias of `sound_format`) -/
theorem C08_format_sound (s : Sc) (carried : Option Rat) (S : St) (hok : ScOk s) (hp : S.pend = none)
    (hc : ∀ c, carried = some c → S.prev = some c) :
    Sound (MontePyVerif.Model.Shortcut.format s carried).words (MontePyVerif.Model.Shortcut.format s carried).tail
      s.nodes S := sound_format s carried S hok hp hc

/-- a repeat run of two 2s (used for non-vacuity) -/
def exampleRun : Sc :=
  { orphanJump with kind := Kind.rep, nodes := [⟨0, some 2, 0, "", "", false, false, true⟩, ⟨1, some 2, 0, "", "", false, false, true⟩] }

/-- non-vacuity of `C08_format_sound`: its hypotheses hold for a repeat run of two 2s continuing a carried 2,
    read from the Spec state after the word `2` -/
example : Sound (MontePyVerif.Model.Shortcut.format exampleRun (some 2)).words
    (MontePyVerif.Model.Shortcut.format exampleRun (some 2)).tail exampleRun.nodes ⟨[Val.num 2], some 2, none⟩ :=
  C08_format_sound exampleRun (some 2) ⟨[Val.num 2], some 2, none⟩
    (by constructor <;> simp [exampleRun, orphanJump]) rfl (by simp)

open MontePyVerif.Model.ShortcutParse

/-! ## Parse-time expansion agrees with MCNP's reading -/

def PTok.toEntry : PTok → Entry
  | .num x => Entry.num x
  | .rep n => Entry.rep n
  | .mul x => Entry.mul x
  | .jmp n => Entry.jmp n
  | .lin n => Entry.lin n
  | .log n => Entry.log n

def PVal.toVal : PVal → Val
  | .num x => Val.num x
  | .jump => Val.jump
  | .logv a b n k => Val.logv a b n k

/-- the token is a word of the grammar G of DESIGN 5.2: a count, when written, is `1 … 999` (never `0`) -/
def PTok.inG : PTok → Bool
  | .rep (some 0) | .jmp (some 0) | .lin (some 0) | .log (some 0) => false
  | _ => true

/-- the number a symbolic linear interpolate stands for (the other values are kept as they are) -/
def evalLin : Val → Val
  | .linv a b n k => Val.num (MontePyVerif.Spec.Shortcut.linValue a b n k)
  | v => v

@[simp] theorem evalLin_num (x : Rat) : evalLin (Val.num x) = Val.num x := rfl
@[simp] theorem evalLin_jump : evalLin Val.jump = Val.jump := rfl
@[simp] theorem evalLin_logv (a b : Rat) (n k : Nat) : evalLin (Val.logv a b n k) = Val.logv a b n k := rfl
@[simp] theorem evalLin_linv (a b : Rat) (n k : Nat) :
    evalLin (Val.linv a b n k) = Val.num (MontePyVerif.Spec.Shortcut.linValue a b n k) := rfl

def PRel (acc : List PItem) (S : St) : Prop :=
  S.pend = none ∧ (flatRevP acc).map PVal.toVal = S.out.map evalLin ∧ lastNum acc = S.prev

def finish (s : St) : Option (List Val) := if s.pend.isNone then some (s.out.map evalLin) else none

theorem flatP_reverse (acc : List PItem) : flatP acc.reverse = flatRevP acc := by
  induction acc with
  | nil => rfl
  | cons x rest ih => simp [flatP, flatRevP] at *; rw [ih]

theorem absorb_flat (acc : List PItem) : flatRevP (absorb acc).2 ++ (absorb acc).1 = flatRevP acc := by
  cases acc with
  | nil => simp [absorb, flatRevP]
  | cons it rest =>
    cases it with
    | value x => simp [absorb, flatRevP, PItem.vals]
    | sc k ns => simp [absorb, flatRevP]

theorem getD_pos (n : Option Nat) (h : n ≠ some 0) : ∃ m, n.getD 1 = m + 1 := by
  cases n with
  | none => exact ⟨0, rfl⟩
  | some k =>
    cases k with
    | zero => exact absurd rfl h
    | succ m => exact ⟨m, rfl⟩

theorem lastNum_snoc (ns : List PVal) (x : Rat) (rest : List PItem) (k : PKind) :
    lastNum (PItem.sc k (ns ++ [PVal.num x]) :: rest) = some x := by
  simp [lastNum, PItem.vals]

theorem rel_repeat (acc acc' : List PItem) (S : St) (n : Option Nat) (h : PRel acc S) (hn : n ≠ some 0)
    (he : expandRepeat acc n = some acc') :
    ∃ S', step S (Entry.rep n) = some S' ∧ PRel acc' S' := by
  obtain ⟨out, prev, pend⟩ := S
  obtain ⟨h1, h2, h3⟩ := h
  simp only at h1 h2 h3
  subst h1
  unfold expandRepeat at he
  split at he
  · simp at he
  · rename_i a ha
    simp only [Option.some.injEq] at he
    subst he
    rw [ha] at h3
    subst h3
    obtain ⟨m, hm⟩ := getD_pos n hn
    refine ⟨⟨out ++ List.replicate (n.getD 1) (Val.num a), some a, none⟩, by simp [step], rfl, ?_, ?_⟩
    · simp only [flatRevP, PItem.vals, ← List.append_assoc, absorb_flat, List.map_append, h2, List.map_replicate,
        PVal.toVal, evalLin_num]
    · simp only [hm, List.replicate_succ', ← List.append_assoc]
      exact lastNum_snoc _ a _ _

theorem rel_multiply (acc acc' : List PItem) (S : St) (x : Rat) (h : PRel acc S)
    (he : expandMultiply acc x = some acc') :
    ∃ S', step S (Entry.mul x) = some S' ∧ PRel acc' S' := by
  obtain ⟨out, prev, pend⟩ := S
  obtain ⟨h1, h2, h3⟩ := h
  simp only at h1 h2 h3
  subst h1
  unfold expandMultiply at he
  split at he
  · simp at he
  · rename_i a ha
    simp only [Option.some.injEq] at he
    subst he
    rw [ha] at h3
    subst h3
    refine ⟨⟨out ++ [Val.num (a * x)], some (a * x), none⟩, by simp [step], rfl, ?_, lastNum_snoc _ _ _ _⟩
    simp only [flatRevP, PItem.vals, ← List.append_assoc, absorb_flat, List.map_append, h2, List.map_cons,
      List.map_nil, PVal.toVal, evalLin_num]

theorem rel_jump (acc : List PItem) (S : St) (n : Option Nat) (h : PRel acc S) (hn : n ≠ some 0) :
    ∃ S', step S (Entry.jmp n) = some S' ∧ PRel (expandJump acc n) S' := by
  obtain ⟨out, prev, pend⟩ := S
  obtain ⟨h1, h2, h3⟩ := h
  simp only at h1 h2 h3
  subst h1
  obtain ⟨m, hm⟩ := getD_pos n hn
  refine ⟨⟨out ++ List.replicate (n.getD 1) Val.jump, none, none⟩, by simp [step], rfl, ?_, ?_⟩
  · simp only [expandJump, flatRevP, PItem.vals, List.map_append, h2, List.map_replicate, PVal.toVal, evalLin_jump]
  · simp [expandJump, lastNum, PItem.vals, hm, List.replicate_succ']

theorem lin_alg' (b e D k : Rat) : b + (e - b) / D * k = b + (e - b) * k / D := by grind

theorem rel_interp (acc acc' : List PItem) (S : St) (n : Option Nat) (isLog : Bool) (e : Rat) (h : PRel acc S)
    (he : expandInterpolate acc n isLog e = some acc') :
    ∃ S1 S', step S (if isLog then Entry.log n else Entry.lin n) = some S1 ∧ step S1 (Entry.num e) = some S' ∧
      PRel acc' S' := by
  obtain ⟨out, prev, pend⟩ := S
  obtain ⟨h1, h2, h3⟩ := h
  simp only at h1 h2 h3
  subst h1
  unfold expandInterpolate at he
  split at he
  · simp at he
  · rename_i b hb
    rw [hb] at h3
    subst h3
    simp only at he
    split at he
    · simp at he
    · rename_i hdom
      simp only [Option.some.injEq] at he
      subst he
      refine ⟨⟨out, some b, some (b, n.getD 1, isLog)⟩, ⟨out ++ between b e (n.getD 1) isLog ++ [Val.num e], some e, none⟩,
        ?_, ?_, rfl, ?_, ?_⟩
      · cases isLog <;> simp [step]
      · simp only [step]
        simp only [hdom]
        simp
      · simp only [flatRevP, PItem.vals, ← List.append_assoc, absorb_flat, List.map_append, h2, List.map_cons,
          List.map_nil, PVal.toVal, List.map_map, between]
        congr 2
        apply List.map_congr_left
        intro i _
        cases isLog
        · simp [PVal.toVal, lin_alg', MontePyVerif.Spec.Shortcut.linValue]
        · simp [PVal.toVal]
      · exact lastNum_snoc _ e _ _


theorem step_pend_nonnum (S : St) (p : Rat × Nat × Bool) (hp : S.pend = some p) (t : Entry)
    (ht : ∀ x, t ≠ Entry.num x) : step S t = none := by
  cases t with
  | num x => exact absurd rfl (ht x)
  | rep n => simp [step, hp]
  | mul x => simp [step, hp]
  | jmp n => simp [step, hp]
  | lin n => simp [step, hp]
  | log n => simp [step, hp]

theorem step_interp_none (S : St) (isLog : Bool) (n : Option Nat) (hp : S.pend = none) (hprev : S.prev = none) :
    step S (if isLog then Entry.log n else Entry.lin n) = none := by
  cases isLog <;> simp [step, hp, hprev]

theorem step_interp_some (S : St) (isLog : Bool) (n : Option Nat) (a : Rat) (hp : S.pend = none)
    (hprev : S.prev = some a) :
    step S (if isLog then Entry.log n else Entry.lin n) = some ⟨S.out, some a, some (a, n.getD 1, isLog)⟩ := by
  cases isLog <;> simp [step, hp, hprev]

/-- an interpolation token: the model looks ahead for the closing number, the Spec keeps it pending -/
theorem sim_interp (isLog : Bool) (n : Option Nat) (rest : List PTok) (acc : List PItem) (S : St) (h : PRel acc S)
    (ih : ∀ e ts acc' S', rest = PTok.num e :: ts → PRel acc' S' →
      (parseAux ts acc').map (fun items => (flatP items).map PVal.toVal) = (run (ts.map PTok.toEntry) S').bind finish) :
    (match rest with
      | PTok.num e :: ts => (match expandInterpolate acc n isLog e with
        | some acc' => parseAux ts acc'
        | none => none)
      | _ => none).map (fun items => (flatP items).map PVal.toVal)
    = (run ((if isLog then Entry.log n else Entry.lin n) :: rest.map PTok.toEntry) S).bind finish := by
  simp only [run]
  cases hprev : S.prev with
  | none =>
    rw [step_interp_none S isLog n h.1 hprev]
    have hl : lastNum acc = none := by rw [h.2.2, hprev]
    cases rest with
    | nil => simp
    | cons t ts =>
      cases t <;> simp [expandInterpolate, hl]
  | some a =>
    rw [step_interp_some S isLog n a h.1 hprev]
    simp only
    cases rest with
    | nil => simp [run, finish]
    | cons t ts =>
      cases t with
      | num e =>
        simp only [List.map_cons, PTok.toEntry, run]
        cases he : expandInterpolate acc n isLog e with
        | none =>
          simp only [Option.map_none]
          have hl : lastNum acc = some a := by rw [h.2.2, hprev]
          unfold expandInterpolate at he
          simp only [hl] at he
          split at he
          · rename_i hdom
            simp only [step, hdom, if_true, Option.bind_none]
          · simp at he
        | some acc' =>
          obtain ⟨S1, S', g1, g2, g3⟩ := rel_interp acc acc' S n isLog e h he
          rw [step_interp_some S isLog n a h.1 hprev] at g1
          simp only [Option.some.injEq] at g1
          subst g1
          rw [g2]
          exact ih e ts acc' S' rfl g3
      | rep m => simp [PTok.toEntry, run, step]
      | mul x => simp [PTok.toEntry, run, step]
      | jmp m => simp [PTok.toEntry, run, step]
      | lin m => simp [PTok.toEntry, run, step]
      | log m => simp [PTok.toEntry, run, step]


theorem parseAux_interp (isLog : Bool) (n : Option Nat) (rest : List PTok) (acc : List PItem) :
    parseAux ((if isLog then PTok.log n else PTok.lin n) :: rest) acc =
      (match rest with
      | PTok.num e :: ts => (match expandInterpolate acc n isLog e with
        | some acc' => parseAux ts acc'
        | none => none)
      | _ => none) := by
  cases isLog <;> (cases rest with
    | nil => simp [parseAux]
    | cons t ts => cases t <;> first | rfl | simp [parseAux])

theorem rel_num (acc : List PItem) (S : St) (x : Rat) (h : PRel acc S) :
    ∃ S', step S (Entry.num x) = some S' ∧ PRel (PItem.value x :: acc) S' := by
  obtain ⟨out, prev, pend⟩ := S
  obtain ⟨h1, h2, h3⟩ := h
  simp only at h1 h2 h3
  subst h1
  exact ⟨⟨out ++ [Val.num x], some x, none⟩, by simp [step], rfl,
    by simp [flatRevP, PItem.vals, h2, PVal.toVal], by simp [lastNum, PItem.vals]⟩

theorem sim : ∀ (k : Nat) (ts : List PTok) (acc : List PItem) (S : St), ts.length ≤ k → PRel acc S →
    (∀ t ∈ ts, PTok.inG t = true) →
    (parseAux ts acc).map (fun items => (flatP items).map PVal.toVal) = (run (ts.map PTok.toEntry) S).bind finish := by
  intro k
  induction k with
  | zero =>
    intro ts acc S hlen h _
    have : ts = [] := List.eq_nil_of_length_eq_zero (Nat.le_zero.mp hlen)
    subst this
    simp [parseAux, run, finish, h.1, flatP_reverse, h.2.1]
  | succ k ih =>
    intro ts acc S hlen h hg
    cases ts with
    | nil => simp [parseAux, run, finish, h.1, flatP_reverse, h.2.1]
    | cons t ts =>
      have hlen' : ts.length ≤ k := by simp at hlen; omega
      have hg' : ∀ t' ∈ ts, PTok.inG t' = true := fun t' ht' => hg t' (List.mem_cons_of_mem _ ht')
      have hgt := hg t List.mem_cons_self
      cases t with
      | num x =>
        obtain ⟨S', g1, g2⟩ := rel_num acc S x h
        simp only [parseAux, List.map_cons, PTok.toEntry, run, g1]
        exact ih ts _ S' hlen' g2 hg'
      | jmp n =>
        have hn : n ≠ some 0 := by intro hn; subst hn; simp [PTok.inG] at hgt
        obtain ⟨S', g1, g2⟩ := rel_jump acc S n h hn
        simp only [parseAux, List.map_cons, PTok.toEntry, run, g1]
        exact ih ts _ S' hlen' g2 hg'
      | rep n =>
        have hn : n ≠ some 0 := by intro hn; subst hn; simp [PTok.inG] at hgt
        simp only [parseAux, List.map_cons, PTok.toEntry, run]
        cases he : expandRepeat acc n with
        | none =>
          have : S.prev = none := by
            unfold expandRepeat at he
            split at he
            · rename_i hl; rw [← h.2.2]; exact hl
            · simp at he
          simp [step, h.1, this]
        | some acc' =>
          obtain ⟨S', g1, g2⟩ := rel_repeat acc acc' S n h hn he
          simp only [g1]
          exact ih ts _ S' hlen' g2 hg'
      | mul x =>
        simp only [parseAux, List.map_cons, PTok.toEntry, run]
        cases he : expandMultiply acc x with
        | none =>
          have : S.prev = none := by
            unfold expandMultiply at he
            split at he
            · rename_i hl; rw [← h.2.2]; exact hl
            · simp at he
          simp [step, h.1, this]
        | some acc' =>
          obtain ⟨S', g1, g2⟩ := rel_multiply acc acc' S x h he
          simp only [g1]
          exact ih ts _ S' hlen' g2 hg'
      | lin n =>
        have := sim_interp false n ts acc S h (fun e ts' acc' S' hts hr =>
          ih ts' acc' S' (by subst hts; simp at hlen'; omega) hr
            (fun t' ht' => hg' t' (by subst hts; exact List.mem_cons_of_mem _ ht')))
        have hp := parseAux_interp false n ts acc
        simp only [Bool.false_eq_true, if_false] at this hp
        rw [hp]
        simpa [PTok.toEntry] using this
      | log n =>
        have := sim_interp true n ts acc S h (fun e ts' acc' S' hts hr =>
          ih ts' acc' S' (by subst hts; simp at hlen'; omega) hr
            (fun t' ht' => hg' t' (by subst hts; exact List.mem_cons_of_mem _ ht')))
        have hp := parseAux_interp true n ts acc
        simp only [if_true] at this hp
        rw [hp]
        simpa [PTok.toEntry] using this

/-- **C08_expand.** For every token list of the grammar G (every kind, every count ≥ 1 or omitted, adjacent
    shortcuts, shortcuts at either end): the parser accepts the list exactly when MCNP's reader does, and then the
    values of the (virtual) value nodes, in list order, ARE what MCNP reads, position by position — numbers (linear
    interpolates exactly, on rationals: `evalLin` replaces the Spec's symbolic `linv a b n k` by its number), jumps as jumps, logarithmic interpolates as the same symbolic value
    `logv a b n k` (whose double the correspondence checks against the defining relation). -/
theorem C08_expand (ts : List PTok) (hG : ∀ t ∈ ts, PTok.inG t = true) :
    (parseList ts).map (fun items => (flatP items).map PVal.toVal)
      = (expand (ts.map PTok.toEntry)).map (fun vs => vs.map evalLin) := by
  have := sim ts.length ts [] St.init (Nat.le_refl _) ⟨rfl, rfl, rfl⟩ hG
  unfold parseList
  rw [this]
  unfold expand finish
  cases run (ts.map PTok.toEntry) St.init with
  | none => rfl
  | some S => simp only [Option.bind_some]; split <;> rfl

/-- non-vacuity: a list of G with every kind, adjacent shortcuts and shortcuts at both ends -/
example : ∀ t ∈ [PTok.jmp none, PTok.num 1, PTok.rep (some 2), PTok.mul 3, PTok.lin (some 2), PTok.num 12,
    PTok.log none, PTok.num 48, PTok.rep none, PTok.jmp (some 2)], PTok.inG t = true := by decide

/-- the count `0` is outside G for a reason: after a `0R` that follows a shortcut the code finds no value to
    continue from (it rejects the list), while MCNP's reading would continue from the repeated entry -/
theorem C08_expand_zero_count_refuted :
    ¬ ((parseList [PTok.num 1, PTok.rep none, PTok.rep (some 0), PTok.rep none]).map
        (fun items => (flatP items).map PVal.toVal)
      = (expand ([PTok.num 1, PTok.rep none, PTok.rep (some 0), PTok.rep none].map PTok.toEntry)).map
          (fun vs => vs.map evalLin)) := by decide

/-! ## Own nodes standing in for copies (`_keep_own_nodes`) -/

theorem keepZip_vals (oi ni : List Nat) : ∀ (own vals : List Leaf),
    (keepZip oi ni own vals).map (·.val) = vals.map (·.val)
  | _, [] => by cases ‹List Leaf› <;> simp [keepZip]
  | [], v :: vs => by simp [keepZip]
  | o :: own, v :: vs => by
    simp only [keepZip, List.map_cons, keepZip_vals oi ni own vs, List.cons.injEq, and_true]
    split
    · rename_i h
      simp only [Bool.and_eq_true, beq_iff_eq] at h
      exact h.2
    · rfl

/-- standing in never changes a value: the list is rebuilt from nodes that hold exactly the new values -/
theorem C08_keep_own_values (own vals : List Leaf) :
    (keepOwnNodes own vals).map (·.val) = vals.map (·.val) := keepZip_vals _ _ own vals

/-- **C08_recompress for the whole of `update_with_new_values`** (own nodes standing in for copies of themselves,
    as the data-block importances hand them in): for ALL shortcut lists, ALL own node lists and ALL new value
    lists the written words read as the new values. -/
theorem C08_recompress_full (scs : List (Int × Sc)) (own vals : List Leaf) :
    ∃ es vs, entries (MontePyVerif.Model.ListNode.format (updateWithNewValuesFull scs own vals)).words = some es ∧
      expand es = some vs ∧ matchesAll vs (vals.map (·.val)) = true := by
  obtain ⟨es, vs, h1, h2, h3⟩ := C08_recompress scs (keepOwnNodes own vals)
  exact ⟨es, vs, h1, h2, by rw [← C08_keep_own_values own vals]; exact h3⟩

theorem keepZip_copies (oi ni : List Nat) (copy : Leaf → Leaf)
    (hcopy : ∀ o, (copy o).ty = o.ty ∧ (copy o).val = o.val) :
    ∀ (own : List Leaf), (∀ o ∈ own, oi.contains (copy o).id = false ∧ ni.contains o.id = false) →
      keepZip oi ni own (own.map copy) = own
  | [], _ => rfl
  | o :: rest, h => by
    have ho := h o List.mem_cons_self
    simp only [List.map_cons, keepZip, ho.1, ho.2, (hcopy o).1, (hcopy o).2, Bool.not_false, beq_self_eq_true,
      Bool.and_self, if_true, keepZip_copies oi ni copy hcopy rest (fun x hx => h x (List.mem_cons_of_mem _ hx))]

/-- an unedited list handed in as copies (any relabelling `copy` that keeps type and value, with identities that
    are not identities of the list) is rebuilt from its own nodes, all of them, in order — so every shortcut can be
    bound again and tokens, paddings and comments stay -/
theorem C08_keep_own_unedited (own : List Leaf) (copy : Leaf → Leaf)
    (hcopy : ∀ o, (copy o).ty = o.ty ∧ (copy o).val = o.val)
    (hfresh : ∀ o ∈ own, (own.map (·.id)).contains (copy o).id = false ∧
      ((own.map copy).map (·.id)).contains o.id = false) :
    keepOwnNodes own (own.map copy) = own := keepZip_copies _ _ copy hcopy own hfresh

/-- standing in is repeatable (what makes a second write rebuild the same list): the own nodes handed in again are
    kept as they are -/
theorem C08_keep_own_idempotent (own : List Leaf) : keepOwnNodes own own = own := by
  unfold keepOwnNodes
  suffices h : ∀ (oi ni : List Nat) (l : List Leaf), (∀ o ∈ l, oi.contains o.id = true) → keepZip oi ni l l = l by
    exact h _ _ own (fun o ho => by simp only [List.contains_iff_mem, List.mem_map]; exact ⟨o, ho, rfl⟩)
  intro oi ni l
  induction l with
  | nil => intro _; rfl
  | cons o rest ih =>
    intro h
    simp only [keepZip, h o List.mem_cons_self, Bool.not_true, Bool.false_and, Bool.false_eq_true, if_false,
      ih (fun x hx => h x (List.mem_cons_of_mem _ hx))]

/-! ## An unchanged entry stays what it was written as -/

/-- every node a shortcut holds is one it stood for when it was bound (or, for a left-off jump, the node it was
    made for), or a fresh node (new to the list, or its value changed since the last rebuild) -/
def RunOk (s : Sc) : Prop := ∀ n ∈ s.nodes, s.runIds.contains n.id = true ∨ n.fresh = true

def ItemRun : Item → Prop
  | .leaf _ => True
  | .sc _ s => RunOk s

def AllRun (out : List Item) : Prop := ∀ it ∈ out, ItemRun it

theorem canConsume_runIds (s : Sc) (n : Leaf) (f l : Bool) : (canConsumeNode s n f l).2.runIds = s.runIds := by
  unfold canConsumeNode
  repeat' split
  all_goals rfl

theorem consume_runIds (s : Sc) (n : Leaf) (f l : Bool) : (consumeEdgeNode s n f l).2.runIds = s.runIds := by
  unfold consumeEdgeNode
  have h := canConsume_runIds s n f l
  cases hc : canConsumeNode s n f l with
  | mk ok s' => rw [hc] at h; cases ok <;> simp_all

/-- taking a node it may take keeps `RunOk` -/
theorem consume_run (s : Sc) (n : Leaf) (f l : Bool) (h : RunOk s)
    (hn : s.runIds.contains n.id = true ∨ n.fresh = true) : RunOk (consumeEdgeNode s n f l).2 := by
  intro m hm
  rw [consume_runIds]
  rcases consume_nodes_mem s n f l m hm with h1 | ⟨h1, _⟩
  · exact h m h1
  · rw [h1]; exact hn

theorem gconsume_run (s : Sc) (n : Leaf) (f l : Bool) (h : RunOk s) : RunOk (guardedConsume s n f l).2 := by
  unfold guardedConsume
  split
  · rename_i hm
    refine consume_run s n f l h ?_
    simpa [mayTake] using hm
  · exact h

theorem allRun_cons {it : Item} {out : List Item} (h1 : ItemRun it) (h2 : AllRun out) : AllRun (it :: out) := by
  intro x hx
  simp only [List.mem_cons] at hx
  rcases hx with rfl | hx
  · exact h1
  · exact h2 x hx

theorem allRun_orphan (out : List Item) (v : Leaf) (h : AllRun out) : AllRun (checkForOrphanJump out v).1 := by
  unfold checkForOrphanJump
  split
  · cases hc : consumeEdgeNode { orphanJump with runIds := [v.id] } v true false with
    | mk ok s =>
      have := consume_run { orphanJump with runIds := [v.id] } v true false
        (by intro n hn; simp [orphanJump] at hn) (Or.inl (by simp))
      rw [hc] at this
      cases ok
      · exact allRun_cons trivial h
      · exact allRun_cons this h
  · exact allRun_cons trivial h

theorem allRun_reverseExp (budget : Nat) : ∀ (s : Sc) (out : List Item), RunOk s → AllRun out →
    RunOk (tryReverseExpansion s budget out).1 ∧ AllRun (tryReverseExpansion s budget out).2 := by
  induction budget with
  | zero => intro s out hs ho; simpa [tryReverseExpansion] using ⟨hs, ho⟩
  | succ b ih =>
    intro s out hs ho
    unfold tryReverseExpansion
    split
    · rename_i l rest
      have hso := gconsume_run s l false false hs
      cases hc : guardedConsume s l false false with
      | mk ok s' =>
        rw [hc] at hso
        cases ok
        · exact ⟨hso, ho⟩
        · simp only [if_true]
          exact ih s' rest hso (fun x hx => ho x (List.mem_cons_of_mem _ hx))
    · exact ⟨hs, ho⟩

theorem allRun_stepPlain (st : PassSt) (v : Leaf) (h : AllRun st.out) : AllRun (stepPlain st v).out := by
  unfold stepPlain
  split
  · rename_i sid s rest hcur hout
    have hs : RunOk s := h (Item.sc sid s) (by rw [hout]; exact List.mem_cons_self)
    have hrest : AllRun rest := fun x hx => h x (by rw [hout]; exact List.mem_cons_of_mem _ hx)
    have hso := gconsume_run s v true (st.i == st.lastEnd + 1 && st.lastEnd != 0) hs
    cases hc : guardedConsume s v true (st.i == st.lastEnd + 1 && st.lastEnd != 0) with
    | mk ok s1 =>
      rw [hc] at hso
      simp only [hc]
      cases ok
      · simp only [Bool.false_eq_true, if_false]
        exact allRun_orphan _ v (allRun_cons hso hrest)
      · simp only [if_true]
        exact allRun_cons hso hrest
  · exact allRun_orphan st.out v h

/-- a slot is well bound: the shortcut bound to it is empty and stood for the node of the slot -/
def SlotOk (q : Leaf × Option (Int × Sc)) : Prop :=
  ∀ r, q.2 = some r → r.2.nodes = [] ∧ r.2.runIds.contains q.1.id = true

theorem allRun_stepPass (st : PassSt) (v : Leaf) (b : Option (Int × Sc)) (hb : SlotOk (v, b))
    (h : AllRun st.out) : AllRun (stepPass st v b).out := by
  unfold stepPass
  split
  · rename_i sid s
    obtain ⟨hn, hr⟩ := hb (sid, s) rfl
    simp only at hn hr
    have hs : RunOk s := by intro n hm; rw [hn] at hm; simp at hm
    simp only
    have hso := consume_run s v true (st.i == (if st.cur = true then st.i - 1 else st.lastEnd) + 1 && (if st.cur = true then st.i - 1 else st.lastEnd) != 0) hs (Or.inl hr)
    cases hc : consumeEdgeNode s v true (st.i == (if st.cur = true then st.i - 1 else st.lastEnd) + 1 && (if st.cur = true then st.i - 1 else st.lastEnd) != 0) with
    | mk ok s1 =>
      rw [hc] at hso
      cases ok
      · simp only [Bool.false_eq_true, if_false]
        exact allRun_stepPlain st v h
      · simp only [if_true]
        have hrx := allRun_reverseExp (if st.i > 1 then st.i - 1 - (if st.cur = true then st.i - 1 else st.lastEnd) else 0) s1 st.out hso h
        exact allRun_cons hrx.1 hrx.2
  · exact allRun_stepPlain st v h

theorem allRun_expandShortcuts : ∀ (slots : List (Leaf × Option (Int × Sc))) (st : PassSt),
    (∀ q ∈ slots, SlotOk q) → AllRun st.out → AllRun (expandShortcuts slots st).out
  | [], st, _, h => by simpa [expandShortcuts] using h
  | (v, b) :: rest, st, hb, h => by
    simp only [expandShortcuts]
    exact allRun_expandShortcuts rest _ (fun q hq => hb q (List.mem_cons_of_mem _ hq))
      (allRun_stepPass st v b (hb (v, b) List.mem_cons_self) h)

theorem bindOne_slotOk (vals : List Leaf) (slots : List (Leaf × Option (Int × Sc))) (p : Int × Sc)
    (h : ∀ q ∈ slots, SlotOk q) : ∀ q ∈ bindOne vals slots p, SlotOk q := by
  unfold bindOne
  split
  · exact h
  · rename_i n hfind
    intro q hq
    simp only [List.mem_map] at hq
    obtain ⟨q0, hq0, rfl⟩ := hq
    by_cases hid : (q0.1.id == n.id) = true
    · simp only [hid, if_true]
      intro r hr
      simp only [Option.some.injEq] at hr
      subst hr
      refine ⟨rfl, ?_⟩
      simp only [List.contains_iff_mem, List.mem_map]
      exact ⟨n, List.mem_of_find?_eq_some hfind, (beq_iff_eq.mp hid).symm⟩
    · simp only [hid, Bool.false_eq_true, if_false]
      exact h q0 hq0

theorem bind_slotOk (vals : List Leaf) : ∀ (scs : List (Int × Sc)) (slots : List (Leaf × Option (Int × Sc))),
    (∀ q ∈ slots, SlotOk q) → ∀ q ∈ scs.foldl (bindOne vals) slots, SlotOk q
  | [], _, h => h
  | p :: rest, slots, h => by
    simp only [List.foldl_cons]
    exact bind_slotOk vals rest _ (bindOne_slotOk vals slots p h)

/-- **C08_unedited_no_regroup.** After `update_with_new_values`, every node a shortcut holds is one it stood for
    before (or the node a left-off jump was made for), or a fresh node.  In particular, when no value is fresh — the
    list is rebuilt from its own, unchanged values: an unedited write, or a second write — no shortcut takes in an
    entry it did not stand for: `1 2r 1` stays `1 2r 1`, a multiply keeps its own base, and the grouping of a second
    rebuild can only be the grouping of the first (this retires findings C08-F3 and C08-F4). -/
theorem C08_unedited_no_regroup (scs : List (Int × Sc)) (vals : List Leaf) :
    ∀ it ∈ updateWithNewValues scs vals, ItemRun it := by
  intro it hit
  unfold updateWithNewValues at hit
  split at hit
  · simp at hit
  · have hslots : ∀ q ∈ bindShortcuts scs vals, SlotOk q :=
      bind_slotOk vals scs _ (by
        intro q hq r hr
        simp only [List.mem_map] at hq
        obtain ⟨v, _, rfl⟩ := hq
        simp at hr)
    have hall := allRun_expandShortcuts (bindShortcuts scs vals) ⟨[], false, 0, 0⟩ hslots
      (by intro x hx; simp at hx)
    exact hall it (List.mem_reverse.mp (mem_pop _ it hit))

/-- the unedited case spelled out: no fresh value, so every shortcut's run lies within the run it was bound with -/
theorem C08_unedited_runs_within (scs : List (Int × Sc)) (vals : List Leaf)
    (hun : ∀ v ∈ vals, v.fresh = false) :
    ∀ sid s, Item.sc sid s ∈ updateWithNewValues scs vals → ∀ n ∈ s.nodes, s.runIds.contains n.id = true := by
  intro sid s hmem n hn
  have hrun := C08_unedited_no_regroup scs vals (Item.sc sid s) hmem n hn
  rcases hrun with h | h
  · exact h
  · have hv : n ∈ vals := by
      have hci := C08_consume_inv scs vals
      rw [← hci]
      apply List.mem_append_left
      simp only [flatten, List.mem_flatten, List.mem_map]
      exact ⟨s.nodes, ⟨Item.sc sid s, hmem, rfl⟩, hn⟩
    rw [hun n hv] at h
    simp at h

end MontePyVerif.C08
