import MontePyVerif.Model.ListNode
import MontePyVerif.Spec.Shortcut
import MontePyVerif.Gen.Shortcuts
/-!
# C08 — shortcuts expand as MCNP defines and re-compress without changing values

Proved here (all inputs, no bound on sizes):
* `C08_consume_inv`      — `update_with_new_values` neither loses, duplicates nor reorders a value node;
* `C08_jump_only_none`, `C08_repeat_matches_first`, `C08_multiply_at_most_two`
                          — what a shortcut may consume (the defining relation of its run);
* `C08_run_append`, `C08_spec_repeat`, `C08_spec_jump`, `C08_spec_multiply` — sanity of the Spec reader;
* `C08_tables`            — the code's `Shortcuts` enum (generated table `Gen/Shortcuts.lean`) has exactly the five
                            kinds and letters that model, harness and Spec assume.
Not proved yet (see design_notes/C08.md): `C08_expand` (no model of the parse-time expansion yet) and
`C08_recompress` (Spec.expand of the formatted words ≈ values); both are checked per case by the harness.
-/
namespace MontePyVerif.C08
open MontePyVerif.Model.Shortcut MontePyVerif.Model.ListNode

theorem canConsume_nodes (s : Sc) (n : Leaf) (f l : Bool) : (canConsumeNode s n f l).2.nodes = s.nodes := by
  unfold canConsumeNode
  repeat' split
  all_goals rfl

theorem consume_fwd (s : Sc) (n : Leaf) (l : Bool) :
    (consumeEdgeNode s n true l).2.nodes = if (consumeEdgeNode s n true l).1 then s.nodes ++ [n] else s.nodes := by
  unfold consumeEdgeNode
  have h := canConsume_nodes s n true l
  cases hc : canConsumeNode s n true l with
  | mk ok s' =>
    rw [hc] at h
    simp only at h
    cases ok <;> simp [h]

theorem consume_bwd (s : Sc) (n : Leaf) (l : Bool) :
    (consumeEdgeNode s n false l).2.nodes = if (consumeEdgeNode s n false l).1 then n :: s.nodes else s.nodes := by
  unfold consumeEdgeNode
  have h := canConsume_nodes s n false l
  cases hc : canConsumeNode s n false l with
  | mk ok s' =>
    rw [hc] at h
    simp only at h
    cases ok <;> simp [h]

theorem flatRev_orphan (out : List Item) (v : Leaf) :
    flatRev (checkForOrphanJump out v).1 = flatRev out ++ [v] := by
  unfold checkForOrphanJump
  split
  · have h := consume_fwd orphanJump v false
    cases hc : consumeEdgeNode orphanJump v true false with
    | mk ok s =>
      rw [hc] at h
      cases ok <;> simp_all [flatRev, Item.leaves, orphanJump]
  · simp [flatRev, Item.leaves]

theorem flatRev_reverseExp (budget : Nat) : ∀ (s : Sc) (out : List Item),
    flatRev (tryReverseExpansion s budget out).2 ++ (tryReverseExpansion s budget out).1.nodes
      = flatRev out ++ s.nodes := by
  induction budget with
  | zero => intro s out; simp [tryReverseExpansion]
  | succ b ih =>
    intro s out
    unfold tryReverseExpansion
    split
    · rename_i l rest
      have h := consume_bwd s l false
      cases hc : consumeEdgeNode s l false false with
      | mk ok s' =>
        rw [hc] at h
        cases ok
        · simp_all [flatRev, Item.leaves]
        · simp only [if_true]
          rw [ih s' rest]
          simp_all [flatRev, Item.leaves]
    · rfl


theorem flatRev_stepPass (st : PassSt) (v : Leaf) (b : Option (Int × Sc))
    (hb : ∀ p, b = some p → p.2.nodes = []) :
    flatRev (stepPass st v b).out = flatRev st.out ++ [v] := by
  unfold stepPass
  split
  · rename_i sid s
    have hs : s.nodes = [] := hb (sid, s) rfl
    simp only
    have h := consume_fwd s v (st.i == (if st.cur = true then st.i - 1 else st.lastEnd) + 1 && (if st.cur = true then st.i - 1 else st.lastEnd) != 0)
    cases hc : consumeEdgeNode s v true (st.i == (if st.cur = true then st.i - 1 else st.lastEnd) + 1 && (if st.cur = true then st.i - 1 else st.lastEnd) != 0) with
    | mk ok s1 =>
      rw [hc] at h
      cases ok
      · simp only [Bool.false_eq_true, if_false]
        exact flatRev_orphan st.out v
      · simp only [if_true]
        have hr := flatRev_reverseExp (if st.i > 1 then st.i - 1 - (if st.cur = true then st.i - 1 else st.lastEnd) else 0) s1 st.out
        simp only [flatRev, Item.leaves]
        rw [hr]
        simp_all
  · split
    · rename_i sid s rest hcur hout
      have h := consume_fwd s v (st.i == st.lastEnd + 1 && st.lastEnd != 0)
      cases hc : consumeEdgeNode s v true (st.i == st.lastEnd + 1 && st.lastEnd != 0) with
      | mk ok s1 =>
        rw [hc] at h
        simp only [hc]
        cases ok
        · simp only [Bool.false_eq_true, if_false]
          rw [flatRev_orphan]
          simp_all [flatRev, Item.leaves]
        · simp_all [flatRev, Item.leaves]
    · exact flatRev_orphan st.out v

theorem flatRev_expandShortcuts : ∀ (slots : List (Leaf × Option (Int × Sc))) (st : PassSt),
    (∀ q ∈ slots, ∀ p, q.2 = some p → p.2.nodes = []) →
    flatRev (expandShortcuts slots st).out = flatRev st.out ++ slots.map (·.1)
  | [], st, _ => by simp [expandShortcuts]
  | (v, b) :: rest, st, h => by
    simp only [expandShortcuts]
    rw [flatRev_expandShortcuts rest _ (fun q hq => h q (List.mem_cons_of_mem _ hq)),
      flatRev_stepPass st v b (h (v, b) List.mem_cons_self)]
    simp

theorem flatten_reverse (out : List Item) : flatten out.reverse = flatRev out := by
  induction out with
  | nil => rfl
  | cons x rest ih => simp [flatten, flatRev] at *; rw [ih]

theorem bindOne_fst (vals : List Leaf) (slots : List (Leaf × Option (Int × Sc))) (p : Int × Sc) :
    (bindOne vals slots p).map (·.1) = slots.map (·.1) := by
  unfold bindOne
  split
  · rfl
  · simp only [List.map_map]
    congr 1
    funext q
    simp only [Function.comp]
    split <;> rfl

theorem bindOne_empty (vals : List Leaf) (slots : List (Leaf × Option (Int × Sc))) (p : Int × Sc)
    (h : ∀ q ∈ slots, ∀ r, q.2 = some r → r.2.nodes = []) :
    ∀ q ∈ bindOne vals slots p, ∀ r, q.2 = some r → r.2.nodes = [] := by
  unfold bindOne
  split
  · exact h
  · intro q hq r hr
    simp only [List.mem_map] at hq
    obtain ⟨q0, hq0, rfl⟩ := hq
    split at hr
    · simp only [Option.some.injEq] at hr
      subst hr
      rfl
    · exact h q0 hq0 r hr

theorem bind_inv (vals : List Leaf) : ∀ (scs : List (Int × Sc)) (slots : List (Leaf × Option (Int × Sc))),
    (∀ q ∈ slots, ∀ r, q.2 = some r → r.2.nodes = []) →
    (scs.foldl (bindOne vals) slots).map (·.1) = slots.map (·.1) ∧
    (∀ q ∈ scs.foldl (bindOne vals) slots, ∀ r, q.2 = some r → r.2.nodes = [])
  | [], slots, h => ⟨rfl, h⟩
  | p :: rest, slots, h => by
    simp only [List.foldl_cons]
    have ih := bind_inv vals rest (bindOne vals slots p) (bindOne_empty vals slots p h)
    exact ⟨by rw [ih.1, bindOne_fst], ih.2⟩

/-- the leaves of the trailing jump shortcut that `update_with_new_values` drops ("a jump the user left off") -/
def poppedLeaves (items : List Item) : List Leaf :=
  match items.getLast? with
  | some (Item.sc _ s) => if s.kind == Kind.jmp && s.origLen == 0 then s.nodes else []
  | _ => []

theorem flatten_pop (items : List Item) : flatten (popTrailingJump items) ++ poppedLeaves items = flatten items := by
  unfold popTrailingJump poppedLeaves
  rcases List.eq_nil_or_concat items with h | ⟨init, last, h⟩
  · subst h; simp [flatten]
  · subst h
    simp only [List.concat_eq_append, List.getLast?_append, List.getLast?_singleton, Option.some_or]
    cases last with
    | leaf l => simp
    | sc sid s =>
      simp only
      split
      · simp [flatten, Item.leaves]
      · simp

/-- **C08_consume_inv (order and completeness).** For every list of original shortcuts and every list of new
    value nodes, the nodes of the list after `update_with_new_values`, flattened (`list(ListNode)`), followed by
    the nodes of the trailing user-left-off jump that is dropped on purpose, are exactly `new_vals`, in order:
    nothing is lost, duplicated or reordered by binding, forward expansion, reverse expansion or orphan jumps. -/
theorem C08_consume_inv (scs : List (Int × Sc)) (vals : List Leaf) :
    flatten (updateWithNewValues scs vals) ++
      poppedLeaves (expandShortcuts (bindShortcuts scs vals) ⟨[], false, 0, 0⟩).out.reverse = vals := by
  have hb := bind_inv vals scs (vals.map (fun v => (v, none))) (by
    intro q hq r hr
    simp only [List.mem_map] at hq
    obtain ⟨v, _, rfl⟩ := hq
    simp at hr)
  have hfst : (bindShortcuts scs vals).map (·.1) = vals := by
    rw [show bindShortcuts scs vals = scs.foldl (bindOne vals) (vals.map (fun v => (v, none))) from rfl, hb.1]
    simp only [List.map_map]
    have : ((fun x : Leaf × Option (Int × Sc) => x.fst) ∘ fun v => (v, none)) = id := rfl
    rw [this]; simp
  unfold updateWithNewValues
  split
  · rename_i h
    have hv : vals = [] := by simpa using h
    subst hv
    have : bindShortcuts scs [] = [] := by simpa using hfst
    rw [this]
    simp [flatten, poppedLeaves, expandShortcuts]
  · have hb2 : ∀ q ∈ bindShortcuts scs vals, ∀ r, q.2 = some r → r.2.nodes = [] := hb.2
    rw [flatten_pop, flatten_reverse, flatRev_expandShortcuts _ _ hb2, hfst]
    simp [flatRev]


/-- non-vacuity: a bound repeat that consumes forward and backward, an orphan jump, and the trailing pop -/
example :
    let mk (i : Nat) (v : Option Rat) : Leaf := ⟨i, v, 0, "", "", false, false⟩
    let rep : Sc := { orphanJump with kind := .rep, nodes := [mk 2 (some 1)], origLen := 2 }
    let vals := [mk 0 (some 5), mk 1 (some 1), mk 2 (some 1), mk 3 (some 1), mk 4 none]
    ((updateWithNewValues [(0, rep)] vals).map (fun it => match it with
        | .leaf l => [l.id] | .sc _ s => s.nodes.map (·.id))) = [[0], [1, 2, 3]] := by decide

/-- a jump shortcut only ever consumes jumps (values that are `None`) -/
theorem C08_jump_only_none (s : Sc) (n : Leaf) (f l : Bool) (hk : s.kind = .jmp)
    (h : (consumeEdgeNode s n f l).1 = true) : n.val = none := by
  unfold consumeEdgeNode canConsumeNode at h
  rw [hk] at h
  simp only at h
  cases hv : n.val with
  | none => rfl
  | some x => simp [hv] at h

/-- a non-empty repeat run only grows at its end by a value that matches the FIRST node of the run (the one
    whose text is written), never merely its neighbour (repaired by fix 8f01ae2) -/
theorem C08_repeat_matches_first (s : Sc) (first : Leaf) (rest : List Leaf) (n : Leaf) (l : Bool)
    (hk : s.kind = .rep) (hn : s.nodes = first :: rest)
    (h : (consumeEdgeNode s n true l).1 = true) : isSameRepeatValue first n = true := by
  unfold consumeEdgeNode canConsumeNode at h
  rw [hk] at h
  simp only [hn] at h
  cases hv : isSameRepeatValue first n with
  | true => rfl
  | false => simp [hv] at h

/-- growing at the front, the new first node has to match every node already in the run -/
theorem C08_repeat_front_matches_all (s : Sc) (first : Leaf) (rest : List Leaf) (n : Leaf) (l : Bool)
    (hk : s.kind = .rep) (hn : s.nodes = first :: rest)
    (h : (consumeEdgeNode s n false l).1 = true) : ∀ o ∈ s.nodes, isSameRepeatValue o n = true := by
  unfold consumeEdgeNode canConsumeNode at h
  rw [hk] at h
  simp only [hn] at h
  cases hv : (first :: rest).all (fun o => isSameRepeatValue o n) with
  | true => rw [hn]; simpa using hv
  | false => simp [hv] at h

/-- a multiply never covers more than two values -/
theorem C08_multiply_at_most_two (s : Sc) (n : Leaf) (f l : Bool) (hk : s.kind = .mul)
    (h : (consumeEdgeNode s n f l).1 = true) : s.nodes.length ≤ 1 := by
  unfold consumeEdgeNode canConsumeNode at h
  rw [hk] at h
  simp only at h
  match hn : s.nodes with
  | [] => simp
  | [_] => simp
  | _ :: _ :: _ => simp [hn] at h

/-! ## The Spec reader -/
open MontePyVerif.Spec.Shortcut in
/-- the reader is a fold: reading `xs ++ ys` is reading `ys` from the state `xs` leaves -/
theorem C08_run_append : ∀ (xs ys : List Entry) (s : St),
    run (xs ++ ys) s = (run xs s).bind (run ys)
  | [], ys, s => by simp [run]
  | x :: xs, ys, s => by
    simp only [List.cons_append, run]
    cases step s x with
    | none => rfl
    | some s' => exact C08_run_append xs ys s'

open MontePyVerif.Spec.Shortcut in
/-- `x nR` reads as `n+1` copies of `x` -/
theorem C08_spec_repeat (x : Rat) (n : Nat) :
    expand [Entry.num x, Entry.rep (some n)] = some (List.replicate (n + 1) (Val.num x)) := by
  simp [expand, run, step, St.init, List.replicate_succ]

open MontePyVerif.Spec.Shortcut in
/-- `nJ` reads as `n` defaults, and nothing may continue from a jump -/
theorem C08_spec_jump (n : Nat) (x : Rat) :
    expand [Entry.jmp (some n)] = some (List.replicate n Val.jump) ∧
    expand [Entry.jmp (some n), Entry.rep none] = none ∧
    expand [Entry.jmp (some n), Entry.mul x] = none := by
  simp [expand, run, step, St.init]

open MontePyVerif.Spec.Shortcut in
/-- `a xM yM` reads as `a, a*x, a*x*y` -/
theorem C08_spec_multiply (a x y : Rat) :
    expand [Entry.num a, Entry.mul x, Entry.mul y] = some [Val.num a, Val.num (a * x), Val.num (a * x * y)] := by
  simp [expand, run, step, St.init]

/-- the code has exactly the five shortcut kinds, written with exactly the letters, that `Model.Shortcut.Kind`,
    the harness' serialiser and the Spec's word reader (`parseWord`: suffixes r, j, i, ilog/log, m) assume;
    the table is regenerated from `shortcuts.py` on every run, so a new or renamed shortcut re-opens this proof -/
theorem C08_tables :
    MontePyVerif.Gen.shortcutLetters =
      [("REPEAT", "r"), ("JUMP", "j"), ("INTERPOLATE", "i"), ("LOG_INTERPOLATE", "ilog"), ("MULTIPLY", "m")] := rfl

end MontePyVerif.C08
