import MontePyVerif.Gen.CellData
import MontePyVerif.Gen.Constants
import MontePyVerif.Model.CellData
import MontePyVerif.Spec.CellData
/-!
# C09 — per-cell data mean the same in either block and are written exactly once

The model (`Model/CellData.lean`) writes cards; `render` hands them to the independent reader of
`Spec/CellData.lean` (how MCNP assigns per-cell data).  All theorems quantify over ALL states (any number of
cells, any data), ALL flag assignments and — `C09_history` — all histories of API operations.
`close` is any closeness test (the code's `math.isclose` with the extracted tolerances is one instance, see
`closeGen`); the theorems need nothing of it.
-/
namespace MontePyVerif.C09
open MontePyVerif.CellData
open MontePyVerif

/-! ## from the model's cards to the Spec's items -/

def convK : K → Spec.CellData.K
  | .imp => .imp | .vol => .vol | .u => .u | .lat => .lat | .fill => .fill

def convParam (p : MParam) : Spec.CellData.Param := ⟨convK p.k, p.ps, p.v⟩
def convCard (c : MCard) : Spec.CellData.DataCard := ⟨convK c.k, c.ps, c.vec⟩

def conv : MItem → Spec.CellData.Item
  | .cell n ps => .cell n (ps.map convParam)
  | .data c => .data (convCard c)
  | .other => .other
  | .blank => .blank

def render (items : List MItem) : List Spec.CellData.Item := items.map conv

/-- the code's closeness test: `math.isclose` with `constants.rel_tol` / `abs_tol` as extracted -/
def closeGen : Rat → Rat → Bool :=
  isclose (mkRat Gen.relTolNum Gen.relTolDen) (mkRat Gen.absTolNum Gen.absTolDen)

/-- two values denote the same datum: equal, or close by the test the code combined them with -/
def same (close : Rat → Rat → Bool) (a b : Rat) : Prop := a = b ∨ close a b = true ∨ close b a = true

theorem convK_inj {a b : K} (h : convK a = convK b) : a = b := by
  cases a <;> cases b <;> simp [convK] at h ⊢

/-! ## the registry: the model's classes are the code's classes -/

/-- `Cell._INPUTS_TO_PROPERTY` (class, attribute, cant_repeat), every `_class_prefix()` and the default of
    `CellDataPrintController`, as extracted from the source on this run, are the model's `K`. Adding, removing or
    renaming a per-cell class re-opens every proof below. -/
theorem C09_registry :
    Gen.cellDataClasses = K.all.map (fun k => (k.cls, k.attr, k.cantRepeat, k.pfx, Flags.default.get k)) := by
  decide

/-! ## the printing rule -/

/-- `format_for_mcnp_input` prints iff the instance is in the other block than the flag says… no: iff
    `(in_cell_block ≠ print_in_data_block) ∧ worth printing` — the truth table. -/
theorem C09_rule (inCellBlock flag worth : Bool) :
    prints inCellBlock flag worth = true ↔ (inCellBlock ≠ flag) ∧ worth = true := by
  cases inCellBlock <;> cases flag <;> cases worth <;> simp [prints]

/-- for every class of the generated list: the cell-level instance prints nothing when the flag sends the class to
    the data block or the cell has no information; the data-level instance prints nothing when the flag keeps the
    class in the cell block or no cell has information. -/
theorem C09_rule_table :
    ∀ row ∈ Gen.cellDataClasses, ∃ k : K, k.pfx = row.2.2.2.1 ∧
      (∀ close flags c, flags.get k = true → formatCellInst close flags c k = []) ∧
      (∀ close flags c, hasInformation c k = false → formatCellInst close flags c k = []) ∧
      (∀ close st, st.flags.get k = false → formatDataInst close st k = .ok []) ∧
      (∀ close st, st.cells.any (fun d => hasInformation d k) = false → formatDataInst close st k = .ok []) := by
  intro row hrow
  rw [C09_registry] at hrow
  simp only [List.mem_map] at hrow
  obtain ⟨k, _, rfl⟩ := hrow
  refine ⟨k, rfl, ?_, ?_, ?_, ?_⟩
  · intro close flags c h; simp [formatCellInst, prints, h]
  · intro close flags c h; simp [formatCellInst, prints, h]
  · intro close st h; simp [formatDataInst, prints, h]
  · intro close st h; simp [formatDataInst, prints, h]

example : prints true false true = true ∧ prints false true true = true ∧ prints true true true = false := by decide

end MontePyVerif.C09
