import MontePyVerif.Gen.CellData
import MontePyVerif.Gen.Constants
import MontePyVerif.Model.CellData
import MontePyVerif.Spec.CellData
/-!
# C09 — per-cell data mean the same in either block and are written exactly once

The model (`Model/CellData.lean`) writes cards; `render` hands them to the independent reader of
`Spec/CellData.lean` (how MCNP assigns per-cell data).  All theorems quantify over ALL states (any number of
cells, any data), ALL flag assignments and — `C09_history` — all histories of API operations.
`close` is any closeness test (the code's `math.isclose` with the extracted tolerances is one instance, see
`closeGen`); the theorems need nothing of it.
-/
namespace MontePyVerif.C09
open MontePyVerif.CellData
open MontePyVerif

/-! ## from the model's cards to the Spec's items -/

def convK : K → Spec.CellData.K
  | .imp => .imp | .vol => .vol | .u => .u | .lat => .lat | .fill => .fill

def convParam (p : MParam) : Spec.CellData.Param := ⟨convK p.k, p.ps, p.v⟩
def convCard (c : MCard) : Spec.CellData.DataCard := ⟨convK c.k, c.ps, c.vec⟩

def conv : MItem → Spec.CellData.Item
  | .cell n ps => .cell n (ps.map convParam)
  | .data c => .data (convCard c)
  | .other => .other
  | .blank => .blank

def render (items : List MItem) : List Spec.CellData.Item := items.map conv

/-- the code's closeness test: `math.isclose` with `constants.rel_tol` / `abs_tol` as extracted -/
def closeGen : Rat → Rat → Bool :=
  isclose (mkRat Gen.relTolNum Gen.relTolDen) (mkRat Gen.absTolNum Gen.absTolDen)

/-- two values denote the same datum: equal, or close by the test the code combined them with -/
def same (close : Rat → Rat → Bool) (a b : Rat) : Prop := a = b ∨ close a b = true ∨ close b a = true

theorem convK_inj {a b : K} (h : convK a = convK b) : a = b := by
  cases a <;> cases b <;> simp [convK] at h ⊢

/-! ## the registry: the model's classes are the code's classes -/

/-- `Cell._INPUTS_TO_PROPERTY` (class, attribute, cant_repeat), every `_class_prefix()` and the default of
    `CellDataPrintController`, as extracted from the source on this run, are the model's `K`. Adding, removing or
    renaming a per-cell class re-opens every proof below. -/
theorem C09_registry :
    Gen.cellDataClasses = K.all.map (fun k => (k.cls, k.attr, k.cantRepeat, k.pfx, Flags.default.get k)) := by
  decide

/-! ## the printing rule -/

/-- `format_for_mcnp_input` prints iff the instance is in the other block than the flag says… no: iff
    `(in_cell_block ≠ print_in_data_block) ∧ worth printing` — the truth table. -/
theorem C09_rule (inCellBlock flag worth : Bool) :
    prints inCellBlock flag worth = true ↔ (inCellBlock ≠ flag) ∧ worth = true := by
  cases inCellBlock <;> cases flag <;> cases worth <;> simp [prints]

/-- for every class of the generated list: the cell-level instance prints nothing when the flag sends the class to
    the data block or the cell has no information; the data-level instance prints nothing when the flag keeps the
    class in the cell block or no cell has information. -/
theorem C09_rule_table :
    ∀ row ∈ Gen.cellDataClasses, ∃ k : K, k.pfx = row.2.2.2.1 ∧
      (∀ close flags c, flags.get k = true → formatCellInst close flags c k = []) ∧
      (∀ close flags c, hasInformation c k = false → formatCellInst close flags c k = []) ∧
      (∀ close st, st.flags.get k = false → formatDataInst close st k = .ok []) ∧
      (∀ close st, st.cells.any (fun d => hasInformation d k) = false → formatDataInst close st k = .ok []) := by
  intro row hrow
  rw [C09_registry] at hrow
  simp only [List.mem_map] at hrow
  obtain ⟨k, _, rfl⟩ := hrow
  refine ⟨k, rfl, ?_, ?_, ?_, ?_⟩
  · intro close flags c h; simp [formatCellInst, prints, h]
  · intro close flags c h; simp [formatCellInst, prints, h]
  · intro close st h; simp [formatDataInst, prints, h]
  · intro close st h; simp [formatDataInst, prints, h]

example : prints true false true = true ∧ prints false true true = true ∧ prints true true true = false := by decide


/-! ## how the Spec reads a written file (lemmas) -/
open MontePyVerif.Spec.CellData (Item Item.card? Item.cell? splitBlank blocks cellCards dataCards table cellEntries dataEntries cardEntry applies Blk)


theorem splitBlank_append (xs ys : List Item) (h : ∀ x ∈ xs, x.isBlank = false) :
    splitBlank (xs ++ Item.blank :: ys) = (xs, ys) := by
  induction xs with
  | nil => simp [splitBlank, Item.isBlank]
  | cons x t ih =>
    have hx : x.isBlank = false := h x (by simp)
    have ht : ∀ y ∈ t, y.isBlank = false := fun y hy => h y (by simp [hy])
    simp [splitBlank, hx, ih ht]

/-- the items a list of data-level instances formats to: only cards, never a blank line -/
def NoBlank (xs : List MItem) : Prop := ∀ x ∈ xs, (conv x).isBlank = false

theorem noBlank_data (cs : List MCard) : NoBlank (cs.map MItem.data) := by
  intro x hx
  simp only [List.mem_map] at hx
  obtain ⟨c, _, rfl⟩ := hx
  rfl

theorem noBlank_append {a b : List MItem} (ha : NoBlank a) (hb : NoBlank b) : NoBlank (a ++ b) := by
  intro x hx
  rcases List.mem_append.mp hx with h | h
  · exact ha x h
  · exact hb x h

theorem formatDataInsts_noBlank (close : Rat → Rat → Bool) (st : St) (ks : List K) (r : List MItem)
    (h : formatDataInsts close st ks = .ok r) : NoBlank r := by
  induction ks generalizing r with
  | nil => simp [formatDataInsts] at h; subst h; intro x hx; simp at hx
  | cons k rest ih =>
    simp only [formatDataInsts] at h
    split at h
    · simp at h
    · rename_i cs _
      split at h
      · simp at h
      · rename_i r' hr'
        simp at h; subst h
        exact noBlank_append (noBlank_data cs) (ih r' hr')

theorem formatDataInputs_noBlank (close : Rat → Rat → Bool) (st : St) (l : List (Option K)) (r : List MItem)
    (h : formatDataInputs close st l = .ok r) : NoBlank r := by
  induction l generalizing r with
  | nil => simp [formatDataInputs] at h; subst h; intro x hx; simp at hx
  | cons o rest ih =>
    cases o with
    | none =>
      simp only [formatDataInputs] at h
      split at h
      · simp at h
      · rename_i r' hr'
        simp at h; subst h
        intro x hx
        rcases List.mem_cons.mp hx with rfl | hx
        · rfl
        · exact ih r' hr' x hx
    | some k =>
      simp only [formatDataInputs] at h
      split at h
      · simp at h
      · rename_i cs _
        split at h
        · simp at h
        · rename_i r' hr'
          simp at h; subst h
          exact noBlank_append (noBlank_data cs) (ih r' hr')

/-- the shape of every written file: the cell cards, a blank line, the surface block, a blank line, the data
    inputs followed by the modifier cards, and only then the blank line that ends the data block -/
theorem write_shape (close : Rat → Rat → Bool) (st : St) (items : List MItem)
    (h : writeToFile close st = .ok items) :
    ∃ d m, formatDataInputs close st st.dataInputs = .ok d ∧ runChildrenFormat close st = .ok m ∧
      items = st.cells.map (formatCell close st.flags) ++ [MItem.blank] ++ [MItem.other] ++ [MItem.blank] ++ d ++ m ++ [MItem.blank] := by
  simp only [writeToFile] at h
  split at h
  · simp at h
  · rename_i d hd
    split at h
    · simp at h
    · rename_i m hm
      simp at h
      exact ⟨d, m, hd, hm, by simp [← h]⟩

theorem cells_noBlank (close : Rat → Rat → Bool) (f : Flags) (cs : List Cell) :
    ∀ x ∈ render (cs.map (formatCell close f)), x.isBlank = false := by
  intro x hx
  simp only [render, List.map_map, List.mem_map] at hx
  obtain ⟨c, _, rfl⟩ := hx
  rfl

/-- what the Spec reads in a written file: the blocks -/
theorem blocks_of_write (close : Rat → Rat → Bool) (st : St) (d m : List MItem)
    (hd : NoBlank d) (hm : NoBlank m) :
    blocks (render (st.cells.map (formatCell close st.flags) ++ [MItem.blank] ++ [MItem.other] ++ [MItem.blank] ++ d ++ m ++ [MItem.blank]))
      = (render (st.cells.map (formatCell close st.flags)), [Item.other], render (d ++ m)) := by
  have h1 : render (st.cells.map (formatCell close st.flags) ++ [MItem.blank] ++ [MItem.other] ++ [MItem.blank] ++ d ++ m ++ [MItem.blank])
      = render (st.cells.map (formatCell close st.flags)) ++ Item.blank :: ([Item.other] ++ Item.blank :: (render (d ++ m) ++ Item.blank :: [])) := by
    simp [render, conv]
  rw [h1]
  unfold blocks
  simp only []
  rw [splitBlank_append _ _ (cells_noBlank close st.flags st.cells)]
  simp only []
  rw [splitBlank_append [Item.other] _ (by intro x hx; simp at hx; subst hx; rfl)]
  simp only []
  rw [splitBlank_append (render (d ++ m)) [] (by
    intro x hx
    simp only [render, List.mem_map] at hx
    obtain ⟨y, hy, rfl⟩ := hx
    exact noBlank_append hd hm y hy)]


def mcard? : MItem → Option MCard
  | .data c => some c
  | _ => none

def cardsOf (xs : List MItem) : List MCard := xs.filterMap mcard?

theorem cardsOf_append (a b : List MItem) : cardsOf (a ++ b) = cardsOf a ++ cardsOf b := by
  simp [cardsOf, List.filterMap_append]

theorem cardsOf_data (cs : List MCard) : cardsOf (cs.map MItem.data) = cs := by
  induction cs with
  | nil => rfl
  | cons c t ih => simp [cardsOf, mcard?] at ih ⊢; exact ih

theorem dataCards_render (xs : List MItem) :
    (render xs).filterMap Item.card? = (cardsOf xs).map convCard := by
  induction xs with
  | nil => rfl
  | cons x t ih =>
    have e : render (x :: t) = conv x :: render t := rfl
    have e2 : cardsOf (x :: t) = (match mcard? x with | some c => [c] | none => []) ++ cardsOf t := by
      simp only [cardsOf, List.filterMap_cons]
      cases mcard? x <;> rfl
    rw [e, e2, List.filterMap_cons, List.map_append, ← ih]
    cases x <;> simp [conv, mcard?, Item.card?]

/-- the entries the data cards `cs` give for datum `(k, p)` of the `i`-th cell -/
def ent (cs : List MCard) (i : Nat) (k : K) (p : P) : List Rat := dataEntries (cs.map convCard) i (convK k) p

theorem ent_append (a b : List MCard) (i : Nat) (k : K) (p : P) : ent (a ++ b) i k p = ent a i k p ++ ent b i k p := by
  simp [ent, dataEntries, List.filterMap_append]

theorem ent_other (cs : List MCard) (i : Nat) (k : K) (p : P) (h : ∀ c ∈ cs, c.k ≠ k) : ent cs i k p = [] := by
  induction cs with
  | nil => rfl
  | cons c t ih =>
    have hc : c.k ≠ k := h c (by simp)
    have ht : ∀ d ∈ t, d.k ≠ k := fun d hd => h d (by simp [hd])
    have : cardEntry (convCard c) i (convK k) p = none := by
      have : (convK c.k == convK k) = false := by
        simp only [beq_eq_false_iff_ne, ne_eq]
        exact fun e => hc (convK_inj e)
      simp [cardEntry, applies, convCard, this]
    have ih' := ih ht
    simp only [ent, dataEntries, List.map_cons, List.filterMap_cons, this] at ih' ⊢
    exact ih'

/-- the cards of the data-level instance of class `k` carry class `k` -/
theorem formatDataInst_class (close : Rat → Rat → Bool) (st : St) (k : K) (cs : List MCard)
    (h : formatDataInst close st k = .ok cs) : ∀ c ∈ cs, c.k = k := by
  unfold formatDataInst at h
  split at h
  · cases k with
    | imp =>
      simp only [impFormatData] at h
      split at h
      · simp at h
      · simp at h; subst h
        intro c hc
        simp only [List.mem_map] at hc
        obtain ⟨g, _, rfl⟩ := hc
        rfl
    | vol | u | lat | fill =>
      simp only at h
      split at h
      · simp at h
      · simp at h; subst h
        intro c hc; simp at hc; subst hc; rfl
  · simp at h; subst h; intro c hc; simp at hc

theorem ent_replicate_succ (n : Nat) (e : List Rat) :
    (List.replicate (n + 1) e).flatten = e ++ (List.replicate n e).flatten := by
  simp [List.replicate_succ]

/-- counting: a list of classes formats the cards of class `k` once per occurrence of `k` -/
theorem formatDataInsts_ent (close : Rat → Rat → Bool) (st : St) (k : K) (cs : List MCard)
    (hk : formatDataInst close st k = .ok cs) (i : Nat) (p : P) :
    ∀ (ks : List K) (r : List MItem), formatDataInsts close st ks = .ok r →
      ent (cardsOf r) i k p = (List.replicate (ks.count k) (ent cs i k p)).flatten := by
  intro ks
  induction ks with
  | nil => intro r h; simp [formatDataInsts] at h; subst h; simp [cardsOf, ent, dataEntries]
  | cons k' rest ih =>
    intro r h
    simp only [formatDataInsts] at h
    split at h
    · simp at h
    · rename_i cs' hcs'
      split at h
      · simp at h
      · rename_i r' hr'
        simp at h; subst h
        rw [cardsOf_append, cardsOf_data, ent_append, ih r' hr']
        by_cases e : k' = k
        · subst e
          rw [hk] at hcs'
          cases hcs'
          simp [List.replicate_succ]
        · have : ent cs' i k p = [] := ent_other cs' i k p (fun c hc => by rw [formatDataInst_class close st k' cs' hcs' c hc]; exact e)
          simp [this, e]

/-- the loop over `data_inputs` formats the same cards as the list of its modifier instances -/
theorem formatDataInputs_cards (close : Rat → Rat → Bool) (st : St) :
    ∀ (l : List (Option K)) (r : List MItem), formatDataInputs close st l = .ok r →
      ∃ r', formatDataInsts close st (l.filterMap id) = .ok r' ∧ cardsOf r = cardsOf r' := by
  intro l
  induction l with
  | nil => intro r h; simp [formatDataInputs] at h; subst h; exact ⟨[], by simp [formatDataInsts], rfl⟩
  | cons o rest ih =>
    intro r h
    cases o with
    | none =>
      simp only [formatDataInputs] at h
      split at h
      · simp at h
      · rename_i r0 hr0
        simp at h; subst h
        obtain ⟨r', h1, h2⟩ := ih r0 hr0
        refine ⟨r', by simpa using h1, ?_⟩
        rw [← h2]
        simp [cardsOf, List.filterMap_cons, mcard?]
    | some k =>
      simp only [formatDataInputs] at h
      split at h
      · simp at h
      · rename_i cs hcs
        split at h
        · simp at h
        · rename_i r0 hr0
          simp at h; subst h
          obtain ⟨r', h1, h2⟩ := ih r0 hr0
          refine ⟨cs.map MItem.data ++ r', ?_, ?_⟩
          · simp [formatDataInsts, hcs, h1]
          · rw [cardsOf_append, cardsOf_append, h2]

theorem count_all_filter (f : K → Bool) (k : K) : (K.all.filter f).count k = if f k then 1 else 0 := by
  cases k <;> simp [K.all, List.filter_cons] <;> (repeat' split) <;> simp_all

/-- well-formed `data_inputs`: the data-level instance of a class is listed at most once -/
def DataInputsOnce (st : St) : Prop := ∀ k, st.dataInputs.count (some k) ≤ 1

theorem count_filterMap_id (l : List (Option K)) (k : K) : (l.filterMap id).count k = l.count (some k) := by
  induction l with
  | nil => rfl
  | cons o t ih =>
    cases o with
    | none => simp [ih]
    | some k' =>
      by_cases e : k' = k
      · subst e; simp [ih]
      · have : ¬ (some k' = some k) := fun h => e (Option.some.inj h)
        simp [e, ih]

/-- in a written file the cards of class `k` are the cards of ONE formatting of the data-level instance -/
theorem write_ent (close : Rat → Rat → Bool) (st : St) (hw : DataInputsOnce st) (d m : List MItem)
    (hd : formatDataInputs close st st.dataInputs = .ok d) (hm : runChildrenFormat close st = .ok m)
    (k : K) (cs : List MCard) (hk : formatDataInst close st k = .ok cs) (i : Nat) (p : P) :
    ent (cardsOf (d ++ m)) i k p = ent cs i k p := by
  obtain ⟨d', hd', hcd⟩ := formatDataInputs_cards close st st.dataInputs d hd
  rw [cardsOf_append, ent_append, hcd, formatDataInsts_ent close st k cs hk i p _ d' hd',
    formatDataInsts_ent close st k cs hk i p _ m hm, count_filterMap_id, count_all_filter]
  have h1 := hw k
  by_cases hc : st.dataInputs.contains (some k) = true
  · have hpos : 0 < st.dataInputs.count (some k) := by
      rw [List.count_pos_iff]; simpa using hc
    have : st.dataInputs.count (some k) = 1 := by omega
    have hmem : some k ∈ st.dataInputs := by simpa using hc
    simp [this, hmem]
  · have : st.dataInputs.count (some k) = 0 := by
      rw [List.count_eq_zero]; simpa using hc
    have hmem : ¬ some k ∈ st.dataInputs := by simpa using hc
    simp [this, hmem]



theorem collect_get (k : K) : ∀ (cells : List Cell) (vs : List (Option Rat)), collectNewValues k cells = .ok vs →
    ∀ (i : Nat) (c : Cell), cells[i]? = some c → ∃ v, treeValue c k = .ok v ∧ vs[i]? = some v := by
  intro cells
  induction cells with
  | nil => intro vs _ i c hc; simp at hc
  | cons c0 rest ih =>
    intro vs h i c hc
    simp only [collectNewValues] at h
    split at h
    · simp at h
    · rename_i v hv
      split at h
      · simp at h
      · rename_i vs' hvs'
        simp at h; subst h
        cases i with
        | zero => simp at hc; subst hc; exact ⟨v, hv, rfl⟩
        | succ j => simpa using ih vs' hvs' j c (by simpa using hc)

theorem collect_length (k : K) : ∀ (cells : List Cell) (vs : List (Option Rat)), collectNewValues k cells = .ok vs →
    vs.length = cells.length := by
  intro cells
  induction cells with
  | nil => intro vs h; simp [collectNewValues] at h; subst h; rfl
  | cons c0 rest ih =>
    intro vs h
    simp only [collectNewValues] at h
    split at h
    · simp at h
    · split at h
      · simp at h
      · rename_i vs' hvs'
        simp at h; subst h
        simp [ih vs' hvs']

theorem convK_ne_imp {k : K} (h : k ≠ K.imp) : (convK k != Spec.CellData.K.imp) = true := by
  cases k <;> simp [convK] at h ⊢

theorem ent_single (k : K) (hk : k ≠ K.imp) (vs : List (Option Rat)) (no : Bool) (i : Nat) (p : P) :
    ent [⟨k, [], vs, no⟩] i k p = ((vs[i]?).join).toList := by
  simp only [ent, dataEntries, List.map_cons, List.map_nil, List.filterMap_cons, List.filterMap_nil, cardEntry,
    applies, convCard, beq_self_eq_true, convK_ne_imp hk, Bool.true_or, Bool.and_self, if_true]
  cases (vs[i]?).join <;> rfl

/-! cell side -/
def cellEnt (ps : List MParam) (k : K) (p : P) : List Rat := cellEntries (ps.map convParam) (convK k) p

theorem cellEnt_append (a b : List MParam) (k : K) (p : P) : cellEnt (a ++ b) k p = cellEnt a k p ++ cellEnt b k p := by
  simp [cellEnt, cellEntries, List.filter_append]

theorem cellEnt_other (ps : List MParam) (k : K) (p : P) (h : ∀ q ∈ ps, q.k ≠ k) : cellEnt ps k p = [] := by
  induction ps with
  | nil => rfl
  | cons q t ih =>
    have hq : q.k ≠ k := h q (by simp)
    have ht : ∀ d ∈ t, d.k ≠ k := fun d hd => h d (by simp [hd])
    have : applies (convParam q).k (convParam q).ps (convK k) p = false := by
      have : (convK q.k == convK k) = false := by
        simp only [beq_eq_false_iff_ne, ne_eq]
        exact fun e => hq (convK_inj e)
      simp [applies, convParam, this]
    have ih' := ih ht
    simp only [cellEnt, cellEntries, List.map_cons, List.filter_cons, this] at ih' ⊢
    simpa using ih'

theorem impFormatCell_class (close : Rat → Rat → Bool) (es : List ImpE) :
    ∀ (l : List ImpE) (printed : List P), ∀ q ∈ impFormatCell close es l printed, q.k = K.imp := by
  intro l
  induction l with
  | nil => intro printed q hq; simp [impFormatCell] at hq
  | cons e rest ih =>
    intro printed q hq
    simp only [impFormatCell] at hq
    split at hq
    · exact ih _ q hq
    · rcases List.mem_cons.mp hq with rfl | h
      · rfl
      · exact ih _ q h

theorem formatCellInst_class (close : Rat → Rat → Bool) (f : Flags) (c : Cell) (k : K) :
    ∀ q ∈ formatCellInst close f c k, q.k = k := by
  intro q hq
  unfold formatCellInst at hq
  split at hq
  · cases k with
    | imp => exact impFormatCell_class close c.imp c.imp [] q hq
    | vol | u | lat | fill =>
      simp only at hq
      split at hq
      · simp at hq; subst hq; rfl
      · simp at hq
  · simp at hq

theorem cellEnt_flatMap (close : Rat → Rat → Bool) (f : Flags) (c : Cell) (k : K) (p : P) :
    ∀ ks : List K, cellEnt (ks.flatMap (formatCellInst close f c)) k p
      = (List.replicate (ks.count k) (cellEnt (formatCellInst close f c k) k p)).flatten := by
  intro ks
  induction ks with
  | nil => simp [cellEnt, cellEntries]
  | cons k' rest ih =>
    rw [List.flatMap_cons, cellEnt_append, ih]
    by_cases e : k' = k
    · subst e; simp [List.replicate_succ]
    · have : cellEnt (formatCellInst close f c k') k p = [] :=
        cellEnt_other _ k p (fun q hq => by rw [formatCellInst_class close f c k' q hq]; exact e)
      simp [this, e]

theorem count_all (k : K) : K.all.count k = 1 := by cases k <;> decide

theorem cellEnt_all (close : Rat → Rat → Bool) (f : Flags) (c : Cell) (k : K) (p : P) :
    cellEnt (K.all.flatMap (formatCellInst close f c)) k p = cellEnt (formatCellInst close f c k) k p := by
  rw [cellEnt_flatMap, count_all]; simp

theorem cellEnt_inst (close : Rat → Rat → Bool) (f : Flags) (c : Cell) (k : K) (hk : k ≠ K.imp) (p : P) :
    cellEnt (formatCellInst close f c k) k p
      = if prints true (f.get k) (hasInformation c k) then (cellValue c k).toList else [] := by
  unfold formatCellInst
  split
  · cases k with
    | imp => exact absurd rfl hk
    | vol | u | lat | fill =>
      simp only
      split
      · rename_i v hv
        simp [cellEnt, cellEntries, applies, convParam, convK, hv]
      · rename_i hv
        simp [cellEnt, cellEntries, hv]
  · rfl



/-! ## the theorems -/

/-- what the Spec reads in a written file -/
theorem read_write (close : Rat → Rat → Bool) (st : St) (items : List MItem)
    (h : writeToFile close st = .ok items) :
    ∃ d m, formatDataInputs close st st.dataInputs = .ok d ∧ runChildrenFormat close st = .ok m ∧
      cellCards (render items) = st.cells.map (fun c => (c.number, (K.all.flatMap (formatCellInst close st.flags c)).map convParam)) ∧
      dataCards (render items) = (cardsOf (d ++ m)).map convCard ∧
      (render items).filterMap Item.card? = (cardsOf (d ++ m)).map convCard := by
  obtain ⟨d, m, hd, hm, rfl⟩ := write_shape close st items h
  have hb := blocks_of_write close st d m (formatDataInputs_noBlank close st _ d hd)
    (formatDataInsts_noBlank close st _ m hm)
  refine ⟨d, m, hd, hm, ?_, ?_, ?_⟩
  · simp only [cellCards, hb]
    simp [render, conv, formatCell, List.filterMap_map, Function.comp_def, Item.cell?]
  · simp only [dataCards, hb]
    exact dataCards_render (d ++ m)
  · rw [dataCards_render]
    have e0 : ∀ l : List Cell, List.filterMap (fun _ => (none : Option MCard)) l = [] := by
      intro l; induction l with
      | nil => rfl
      | cons _ _ ih => simp [ih]
    simp [cardsOf, List.filterMap_append, formatCell, List.filterMap_map, Function.comp_def, mcard?, e0,
      List.filterMap_cons]

/-- **every emitted per-cell data card lies inside the data block proper**: all the cell-parameter cards of the
    written file are among the cards MCNP reads (none after the blank line that ends the data block) -/
theorem C09_in_block (close : Rat → Rat → Bool) (st : St) (items : List MItem)
    (h : writeToFile close st = .ok items) :
    Spec.CellData.allDataCardsRead (render items) = true := by
  obtain ⟨d, m, _, _, _, h2, h3⟩ := read_write close st items h
  simp [Spec.CellData.allDataCardsRead, h2, h3]

example : ∃ items, writeToFile closeGen
    { cells := [⟨1, [⟨0, 1, [0]⟩], some 3, some 2, false, none, none, false, false, Flags.default⟩], mode := [0],
      flags := Flags.default, volCalc := true, dataInputs := [none], realTree := [], nextId := 0 } = .ok items ∧
    Spec.CellData.dataCards (render items) ≠ [] := by
  refine ⟨_, rfl, ?_⟩
  decide



/-- the table of a written file, datum `(k, p)` of the `i`-th cell `c`, in the model's terms -/
theorem table_write (close : Rat → Rat → Bool) (st : St) (hw : DataInputsOnce st) (items : List MItem)
    (h : writeToFile close st = .ok items) (i : Nat) (c : Cell) (hc : st.cells[i]? = some c) (k : K) (p : P)
    (cs : List MCard) (hk : formatDataInst close st k = .ok cs) :
    table (render items) i (convK k) p
      = (cellEnt (formatCellInst close st.flags c k) k p).map (fun v => (Blk.cell, v))
        ++ (ent cs i k p).map (fun v => (Blk.data, v)) := by
  obtain ⟨d, m, hd, hm, h1, h2, _⟩ := read_write close st items h
  unfold table
  rw [h1, h2]
  have : (st.cells.map (fun c => (c.number, (K.all.flatMap (formatCellInst close st.flags c)).map convParam)))[i]?
      = some (c.number, (K.all.flatMap (formatCellInst close st.flags c)).map convParam) := by
    simp [hc]
  rw [this]
  simp only []
  have e1 : cellEntries ((K.all.flatMap (formatCellInst close st.flags c)).map convParam) (convK k) p
      = cellEnt (formatCellInst close st.flags c k) k p := cellEnt_all close st.flags c k p
  have e2 : dataEntries ((cardsOf (d ++ m)).map convCard) i (convK k) p = ent cs i k p :=
    write_ent close st hw d m hd hm k cs hk i p
  rw [e1, e2]

/-- a successful write formatted every data-level instance -/
theorem write_inst_ok (close : Rat → Rat → Bool) (st : St) (items : List MItem)
    (h : writeToFile close st = .ok items) (k : K) : ∃ cs, formatDataInst close st k = .ok cs := by
  obtain ⟨d, m, hd, hm, _⟩ := write_shape close st items h
  have aux1 : ∀ (ks : List K) (r : List MItem), formatDataInsts close st ks = .ok r → k ∈ ks →
      ∃ cs, formatDataInst close st k = .ok cs := by
    intro ks
    induction ks with
    | nil => intro r _ hk; simp at hk
    | cons k' rest ih =>
      intro r hr hk
      simp only [formatDataInsts] at hr
      split at hr
      · simp at hr
      · rename_i cs hcs
        split at hr
        · simp at hr
        · rename_i r' hr'
          rcases List.mem_cons.mp hk with rfl | hk'
          · exact ⟨cs, hcs⟩
          · exact ih r' hr' hk'
  by_cases hin : some k ∈ st.dataInputs
  · obtain ⟨d', hd', _⟩ := formatDataInputs_cards close st st.dataInputs d hd
    exact aux1 _ d' hd' (by simpa using hin)
  · refine aux1 _ m hm ?_
    have : k ∈ K.all := by cases k <;> simp [K.all]
    simp [List.mem_filter, this, hin]

theorem formatDataInst_nonimp (close : Rat → Rat → Bool) (st : St) (k : K) (hk : k ≠ K.imp) :
    formatDataInst close st k
      = if prints false (st.flags.get k) (st.cells.any (fun d => hasInformation d k)) then
          (collectNewValues k st.cells).map (fun vs => [(⟨k, [], vs, k == K.vol && !st.volCalc⟩ : MCard)])
        else .ok [] := by
  unfold formatDataInst
  cases k with
  | imp => exact absurd rfl hk
  | vol | u | lat | fill =>
    split
    · simp only
      cases collectNewValues _ st.cells <;> rfl
    · rfl

/-- **exactly once, in the block the flag names, with the cell's value** (VOL, U, LAT, FILL).
    For every state, every flag assignment, every cell and every class: a datum the cell holds occurs in the
    written file exactly once — on the cell's own card if the flag keeps the class in the cell block, else in
    the data-block card at the cell's index — with exactly the cell's value. -/
theorem C09_exactly_once (close : Rat → Rat → Bool) (st : St) (hw : DataInputsOnce st) (items : List MItem)
    (h : writeToFile close st = .ok items) (i : Nat) (c : Cell) (hc : st.cells[i]? = some c)
    (k : K) (hk : k ≠ K.imp) (p : P) (v : Rat) (hv : treeValue c k = .ok (some v)) :
    table (render items) i (convK k) p = [(if st.flags.get k then Blk.data else Blk.cell, v)] := by
  obtain ⟨cs, hcs⟩ := write_inst_ok close st items h k
  rw [table_write close st hw items h i c hc k p cs hcs, cellEnt_inst close st.flags c k hk p]
  have hinfo : hasInformation c k = true ∧ cellValue c k = some v := by
    cases k with
    | imp => exact absurd rfl hk
    | vol => simp [treeValue] at hv; simp [hasInformation, cellValue, hv]
    | u =>
      simp only [treeValue] at hv
      cases hu : c.uni with
      | none => simp [hu] at hv
      | some n =>
        simp only [hu] at hv
        by_cases hn : n = 0
        · simp [hn] at hv
        · simp [hn] at hv
          simp [hasInformation, cellValue, hu, hn, hv]
    | lat =>
      simp only [treeValue] at hv
      cases hl : c.lat with
      | none => simp [hl] at hv
      | some n => simp [hl] at hv; simp [hasInformation, cellValue, hl, hv]
    | fill =>
      simp only [treeValue] at hv
      split at hv
      · simp at hv
      · cases hl : c.fill with
        | none => simp [hl] at hv
        | some n => simp [hl] at hv; simp [hasInformation, cellValue, hl, hv]
  have hany : st.cells.any (fun d => hasInformation d k) = true := by
    rw [List.any_eq_true]
    exact ⟨c, List.mem_of_getElem? hc, hinfo.1⟩
  rw [formatDataInst_nonimp close st k hk] at hcs
  cases hf : st.flags.get k with
  | false =>
    simp [prints, hf] at hcs
    subst hcs
    simp [prints, hinfo.1, hinfo.2, ent, dataEntries]
  | true =>
    simp only [prints, hf, hany] at hcs
    cases hvs : collectNewValues k st.cells with
    | error e => simp [hvs, Except.map] at hcs
    | ok vs =>
      simp [hvs, Except.map] at hcs
      subst hcs
      obtain ⟨v', hv', hget⟩ := collect_get k st.cells vs hvs i c hc
      rw [hv] at hv'
      cases hv'
      rw [ent_single k hk]
      simp [prints, hget]



/-- **nothing spurious** (VOL, U, LAT, FILL): a cell that holds no datum of the class (no volume, universe 0 or
    none, no lattice, no fill) gets none from the written file, in either block, under any flag assignment. -/
theorem C09_no_spurious (close : Rat → Rat → Bool) (st : St) (hw : DataInputsOnce st) (items : List MItem)
    (h : writeToFile close st = .ok items) (i : Nat) (c : Cell) (hc : st.cells[i]? = some c)
    (k : K) (hk : k ≠ K.imp) (p : P) (hv : treeValue c k = .ok none) :
    table (render items) i (convK k) p = [] := by
  obtain ⟨cs, hcs⟩ := write_inst_ok close st items h k
  rw [table_write close st hw items h i c hc k p cs hcs, cellEnt_inst close st.flags c k hk p]
  have hinfo : hasInformation c k = false := by
    cases k with
    | imp => exact absurd rfl hk
    | vol => simp [treeValue] at hv; simp [hasInformation, hv]
    | u =>
      simp only [treeValue] at hv
      cases hu : c.uni with
      | none => simp [hasInformation, hu]
      | some n =>
        simp only [hu] at hv
        by_cases hn : n = 0
        · simp [hasInformation, hu, hn]
        · simp [hn] at hv
    | lat =>
      simp only [treeValue] at hv
      cases hl : c.lat with
      | none => simp [hasInformation, hl]
      | some n => simp [hl] at hv
    | fill =>
      simp only [treeValue] at hv
      split at hv
      · simp at hv
      · rename_i hcx
        cases hl : c.fill with
        | none =>
          have hcx' : c.fillComplex = false ∧ c.fillMulti = false := by simpa using hcx
          simp [hasInformation, hl, hcx'.2]
        | some n => simp [hl] at hv
  rw [formatDataInst_nonimp close st k hk] at hcs
  split at hcs
  · cases hvs : collectNewValues k st.cells with
    | error e => simp [hvs, Except.map] at hcs
    | ok vs =>
      simp [hvs, Except.map] at hcs
      subst hcs
      obtain ⟨v', hv', hget⟩ := collect_get k st.cells vs hvs i c hc
      rw [hv] at hv'
      cases hv'
      rw [ent_single k hk]
      simp [prints, hinfo, hget]
  · simp at hcs
    subst hcs
    simp [prints, hinfo, ent, dataEntries]

/-- **aligned**: the vector of the data-block card of a class (VOL, U, LAT, FILL), whenever it is written, has one
    entry per cell, and entry `i` is the value of the `i`-th cell in cell order (a jump where the cell holds none). -/
theorem C09_aligned (close : Rat → Rat → Bool) (st : St) (k : K) (hk : k ≠ K.imp) (cs : List MCard)
    (h : formatDataInst close st k = .ok cs) :
    ∀ card ∈ cs, card.vec.length = st.cells.length ∧
      ∀ (i : Nat) (c : Cell), st.cells[i]? = some c → ∃ v, treeValue c k = .ok v ∧ card.vec[i]? = some v := by
  intro card hcard
  rw [formatDataInst_nonimp close st k hk] at h
  split at h
  · cases hvs : collectNewValues k st.cells with
    | error e => simp [hvs, Except.map] at h
    | ok vs =>
      simp [hvs, Except.map] at h
      subst h
      simp at hcard
      subst hcard
      exact ⟨collect_length k st.cells vs hvs, collect_get k st.cells vs hvs⟩
  · simp at h
    subst h
    simp at hcard

/-- **same meaning under any two flag assignments** (VOL, U, LAT, FILL): the datum the written file gives a cell is
    the same value whatever the flags are — only the block differs. -/
theorem C09_same_meaning (close : Rat → Rat → Bool) (st : St) (hw : DataInputsOnce st) (f1 f2 : Flags)
    (items1 items2 : List MItem)
    (h1 : writeToFile close { st with flags := f1 } = .ok items1)
    (h2 : writeToFile close { st with flags := f2 } = .ok items2)
    (i : Nat) (c : Cell) (hc : st.cells[i]? = some c) (k : K) (hk : k ≠ K.imp) (p : P) :
    (table (render items1) i (convK k) p).map (·.2) = (table (render items2) i (convK k) p).map (·.2) := by
  have hv : (∃ v, treeValue c k = .ok (some v)) ∨ treeValue c k = .ok none ∨ ∃ e, treeValue c k = .error e := by
    cases hh : treeValue c k with
    | error e => exact Or.inr (Or.inr ⟨e, rfl⟩)
    | ok o => cases o with
      | none => exact Or.inr (Or.inl rfl)
      | some v => exact Or.inl ⟨v, rfl⟩
  rcases hv with ⟨v, hv⟩ | hv | ⟨e, hv⟩
  · rw [C09_exactly_once close { st with flags := f1 } hw items1 h1 i c hc k hk p v hv,
      C09_exactly_once close { st with flags := f2 } hw items2 h2 i c hc k hk p v hv]
    rfl
  · rw [C09_no_spurious close { st with flags := f1 } hw items1 h1 i c hc k hk p hv,
      C09_no_spurious close { st with flags := f2 } hw items2 h2 i c hc k hk p hv]
  · -- only a FILL with a transform / a matrix has no value: it stays on the cell card under both assignments
    -- (when the cell has such a fill to print, a write with FILL in the data block is refused)
    cases k with
    | imp => exact absurd rfl hk
    | vol => simp [treeValue] at hv
    | u => simp [treeValue] at hv
    | lat => simp [treeValue] at hv
    | fill =>
      have tbl : ∀ f items, writeToFile close { st with flags := f } = .ok items →
          (table (render items) i (convK K.fill) p).map (·.2)
            = if hasInformation c K.fill then (cellValue c K.fill).toList else [] := by
        intro f items hwr
        obtain ⟨cs, hcs⟩ := write_inst_ok close { st with flags := f } items hwr K.fill
        rw [table_write close { st with flags := f } hw items hwr i c hc K.fill p cs hcs,
          cellEnt_inst close _ c K.fill (by decide) p]
        rw [formatDataInst_nonimp close _ K.fill (by decide)] at hcs
        cases hi : hasInformation c K.fill with
        | false =>
          -- nothing on the cell card; the data-block card, if any, was collected from every cell: refused
          split at hcs
          · cases hvs : collectNewValues K.fill st.cells with
            | error e => simp [hvs, Except.map] at hcs
            | ok vs =>
              obtain ⟨v', hv', _⟩ := collect_get K.fill st.cells vs hvs i c hc
              rw [hv] at hv'
              cases hv'
          · simp at hcs
            subst hcs
            simp [prints, ent, dataEntries]
        | true =>
          have hany : st.cells.any (fun d => hasInformation d K.fill) = true := by
            rw [List.any_eq_true]
            exact ⟨c, List.mem_of_getElem? hc, hi⟩
          cases hf : f.get K.fill with
          | true =>
            exfalso
            simp only [prints, hf, hany] at hcs
            cases hvs : collectNewValues K.fill st.cells with
            | error e => simp [hvs, Except.map] at hcs
            | ok vs =>
              obtain ⟨v', hv', _⟩ := collect_get K.fill st.cells vs hvs i c hc
              rw [hv] at hv'
              cases hv'
          | false =>
            simp [prints, hf] at hcs
            subst hcs
            simp [prints, hf, ent, dataEntries, cellValue]
      rw [tbl f1 items1 h1, tbl f2 items2 h2]

/-- FILL with a transform or a matrix cannot be printed in the data block: when such a cell has a fill to print and
    FILL goes to the data block the write is refused (`ValueError`); it never writes a vector without that fill. -/
theorem C09_fill_complex_refused (close : Rat → Rat → Bool) (st : St) (c : Cell) (hc : c ∈ st.cells)
    (hx : c.fillComplex = true ∨ c.fillMulti = true) (hi : hasInformation c K.fill = true)
    (hf : st.flags.get K.fill = true) :
    formatDataInst close st K.fill = .error .valueError := by
  rw [formatDataInst_nonimp close st K.fill (by decide)]
  have hany : st.cells.any (fun d => hasInformation d K.fill) = true := by
    rw [List.any_eq_true]; exact ⟨c, hc, hi⟩
  simp only [prints, hf, hany]
  have hxe : (c.fillComplex || c.fillMulti) = true := by
    rcases hx with h | h <;> simp [h]
  have : ∀ cells : List Cell, c ∈ cells → collectNewValues K.fill cells = .error .valueError := by
    intro cells
    induction cells with
    | nil => intro h; simp at h
    | cons c0 rest ih =>
      intro h
      simp only [collectNewValues]
      by_cases e : (c0.fillComplex || c0.fillMulti) = true
      · simp [treeValue, e]
      · rcases List.mem_cons.mp h with rfl | h'
        · exact absurd hxe e
        · have e' : (c0.fillComplex || c0.fillMulti) = false := by simpa using e
          simp [treeValue, e', ih h']
  simp [this st.cells hc, Except.map]

theorem afterWrite_dataInputs (close : Rat → Rat → Bool) (st : St) : (afterWrite close st).dataInputs = st.dataInputs := by
  unfold afterWrite
  repeat' split
  all_goals rfl

theorem step_dataInputs (close : Rat → Rat → Bool) (st : St) (op : Op) :
    (step close st op).1.dataInputs = st.dataInputs := by
  cases op with
  | write => exact afterWrite_dataInputs close st
  | observe => rfl
  | _ => simp only [step] <;> (repeat' split) <;> rfl

/-- the invariant the theorems need (each data-level instance is listed at most once in `data_inputs`) holds after
    ANY sequence of flag settings, cell insertions, deletions, reorderings, per-cell data edits, observations and WRITES -/
theorem C09_history_wf (close : Rat → Rat → Bool) (st : St) (hw : DataInputsOnce st) (ops : List Op) :
    DataInputsOnce (run close st ops) := by
  induction ops generalizing st with
  | nil => exact hw
  | cons op rest ih =>
    have : run close st (op :: rest) = run close (step close st op).1 rest := rfl
    rw [this]
    apply ih
    intro k
    rw [step_dataInputs]
    exact hw k

/-! ## loading -/

/-- **loading is aligned**: when a class is given in the data block, entry `i` of the card goes to the `i`-th cell
    (a jump or a missing trailing entry leaves the cell without datum; extra entries go nowhere) -/
theorem C09_load_aligned (pr : Parsed) (vec : List (Option Rat)) (vals : List (Option Rat))
    (hd : pr.dataVec = some vec) (hne : vec ≠ []) (h : pushToCells pr = .ok vals) :
    vals.length = pr.cellVals.length ∧ ∀ i, i < pr.cellVals.length → vals[i]? = some ((vec[i]?).join) := by
  unfold pushToCells at h
  simp only [hd] at h
  have : vec.isEmpty = false := by cases vec <;> simp_all
  simp only [this, Bool.false_eq_true, if_false] at h
  split at h
  · simp at h
  · simp at h
    subst h
    constructor
    · simp
    · intro i hi
      simp [hi]

/-- **data in both blocks is refused**: a class given on some cell card and in the data block is
    `MalformedInputError`, it is never loaded twice -/
theorem C09_load_redundant (pr : Parsed) (vec : List (Option Rat)) (hd : pr.dataVec = some vec) (hne : vec ≠ [])
    (hc : ∃ v ∈ pr.cellVals, v.isSome = true) : pushToCells pr = .error .malformedInput := by
  unfold pushToCells
  simp only [hd]
  have : vec.isEmpty = false := by cases vec <;> simp_all
  simp only [this, Bool.false_eq_true, if_false]
  have : checkRedundantDefinitions pr = true := by
    obtain ⟨v, hv, hs⟩ := hc
    simp only [checkRedundantDefinitions, List.any_eq_true]
    exact ⟨v, hv, hs⟩
  simp [this]

example : pushToCells ⟨[none, none, none], some [some 3, none, some 2]⟩ = .ok [some 3, none, some 2] := by rfl
example : pushToCells ⟨[none, some 1, none], some [some 3]⟩ = .error .malformedInput := by rfl



/-! ## importances -/

theorem cellEnt_imp_cons (ps : List P) (v : Rat) (t : List MParam) (p : P) :
    cellEnt (⟨K.imp, ps, v⟩ :: t) K.imp p = (if p ∈ ps then [v] else []) ++ cellEnt t K.imp p := by
  by_cases h : p ∈ ps <;> simp [cellEnt, cellEntries, applies, convParam, convK, h]

theorem impKeep_mem (close : Rat → Rat → Bool) (es : List ImpE) (printed : List P) (e : ImpE) (p : P) :
    p ∈ impKeep close es printed e ↔
      p ∈ e.cl ∧ (p = e.p ∨ (p ∉ printed ∧ close (impGet es e.p) (impGet es p) = true)) := by
  simp [impKeep, List.mem_filter]

/-- a particle that is printed already is not printed again -/
theorem impFormatCell_printed (close : Rat → Rat → Bool) (es : List ImpE) (p : P) :
    ∀ (l : List ImpE) (printed : List P), p ∈ printed →
      cellEnt (impFormatCell close es l printed) K.imp p = [] := by
  intro l
  induction l with
  | nil => intro printed _; rfl
  | cons e rest ih =>
    intro printed hp
    simp only [impFormatCell]
    split
    · exact ih printed hp
    · rename_i hne
      have hne' : e.p ∉ printed := by simpa using hne
      rw [cellEnt_imp_cons]
      have hk : p ∉ impKeep close es printed e := by
        rw [impKeep_mem]
        rintro ⟨_, h | ⟨h, _⟩⟩
        · exact hne' (h ▸ hp)
        · exact h hp
      rw [if_neg hk, List.nil_append]
      exact ih _ (List.mem_append_left _ (List.mem_append_left _ hp))

/-- **each importance a cell holds is printed exactly once on its card** (`Importance._format_tree`, cell-block
    branch, for ANY list of entries): for a particle `p` that is not printed yet and has an entry in the rest of the
    loop, every tree naming its own particle, the loop prints exactly one `IMP` parameter that lists `p`; its value is
    the value of `p`'s own entry, or the value of an entry that `p`'s importance was found close to. -/
theorem impFormatCell_once (close : Rat → Rat → Bool) (es : List ImpE) (p : P) :
    ∀ (l : List ImpE) (printed : List P), p ∉ printed →
      (∃ e ∈ l, e.p = p) → (∀ e ∈ l, e.p ∈ e.cl) →
      ∃ v, cellEnt (impFormatCell close es l printed) K.imp p = [v] ∧
        ((∃ e ∈ l, e.p = p ∧ v = e.v) ∨ ∃ e ∈ l, v = e.v ∧ close (impGet es e.p) (impGet es p) = true) := by
  intro l
  induction l with
  | nil => intro printed _ h; obtain ⟨e, he, _⟩ := h; simp at he
  | cons e rest ih =>
    intro printed hp hex hcl
    simp only [impFormatCell]
    have hclr : ∀ x ∈ rest, x.p ∈ x.cl := fun x hx => hcl x (List.mem_cons_of_mem _ hx)
    have lift : ∀ v, ((∃ x ∈ rest, x.p = p ∧ v = x.v) ∨ ∃ x ∈ rest, v = x.v ∧ close (impGet es x.p) (impGet es p) = true) →
        ((∃ x ∈ e :: rest, x.p = p ∧ v = x.v) ∨ ∃ x ∈ e :: rest, v = x.v ∧ close (impGet es x.p) (impGet es p) = true) := by
      intro v h2
      rcases h2 with ⟨x, hx, hxp, hv⟩ | ⟨x, hx, hv, hc⟩
      · exact Or.inl ⟨x, List.mem_cons_of_mem _ hx, hxp, hv⟩
      · exact Or.inr ⟨x, List.mem_cons_of_mem _ hx, hv, hc⟩
    have down : e.p ≠ p → ∃ x ∈ rest, x.p = p := by
      intro hne
      obtain ⟨x, hx, hxp⟩ := hex
      rcases List.mem_cons.mp hx with rfl | hx'
      · exact absurd hxp hne
      · exact ⟨x, hx', hxp⟩
    split
    · rename_i hin
      have hin' : e.p ∈ printed := by simpa using hin
      have hne : e.p ≠ p := fun h => hp (h ▸ hin')
      obtain ⟨v, h1, h2⟩ := ih printed hp (down hne) hclr
      exact ⟨v, h1, lift v h2⟩
    · rw [cellEnt_imp_cons]
      by_cases hk : p ∈ impKeep close es printed e
      · have hp2 : p ∈ printed ++ impKeep close es printed e ++ [e.p] :=
          List.mem_append_left _ (List.mem_append_right _ hk)
        refine ⟨e.v, ?_, ?_⟩
        · rw [if_pos hk, impFormatCell_printed close es p rest _ hp2]; rfl
        · by_cases hpe : e.p = p
          · exact Or.inl ⟨e, List.mem_cons_self, hpe, rfl⟩
          · right
            refine ⟨e, List.mem_cons_self, rfl, ?_⟩
            rcases (impKeep_mem close es printed e p).mp hk with ⟨_, h | ⟨_, h⟩⟩
            · exact absurd h.symm hpe
            · exact h
      · have hne : e.p ≠ p := by
          intro h
          apply hk
          rw [impKeep_mem]
          exact ⟨h ▸ hcl e List.mem_cons_self, Or.inl h.symm⟩
        have hp2 : p ∉ printed ++ impKeep close es printed e ++ [e.p] := by
          intro hm
          rcases List.mem_append.mp hm with hm | hm
          · rcases List.mem_append.mp hm with hm | hm
            · exact hp hm
            · exact hk hm
          · simp at hm; exact hne hm.symm
        obtain ⟨v, h1, h2⟩ := ih _ hp2 (down hne) hclr
        refine ⟨v, ?_, lift v h2⟩
        rw [if_neg hk, List.nil_append]
        exact h1



/-- **importances on the cell card: exactly once per particle the cell holds** — for every state and flag
    assignment, in the written file: when IMP is kept in the cell block, every particle for which the cell holds an
    importance (every tree naming its own particle) is given by exactly one `IMP` entry of the cell's own card and by
    nothing in the data block; the value is that of the particle's own entry or of an entry it was found close to.
    When IMP goes to the data block the cell card gives none. -/
theorem C09_imp_cell_once (close : Rat → Rat → Bool) (st : St) (hw : DataInputsOnce st) (items : List MItem)
    (h : writeToFile close st = .ok items) (i : Nat) (c : Cell) (hc : st.cells[i]? = some c) (p : P) :
    (st.flags.imp = false → (∃ e ∈ c.imp, e.p = p) → (∀ e ∈ c.imp, e.p ∈ e.cl) →
      ∃ v, table (render items) i (convK K.imp) p = [(Blk.cell, v)] ∧
        ((∃ e ∈ c.imp, e.p = p ∧ v = e.v) ∨
         ∃ e ∈ c.imp, v = e.v ∧ close (impGet c.imp e.p) (impGet c.imp p) = true)) ∧
    (st.flags.imp = true → ∀ x ∈ table (render items) i (convK K.imp) p, x.1 = Blk.data) := by
  obtain ⟨cs, hcs⟩ := write_inst_ok close st items h K.imp
  rw [table_write close st hw items h i c hc K.imp p cs hcs]
  constructor
  · intro hf hex hcl
    have hcs' : cs = [] := by
      unfold formatDataInst at hcs
      simp [prints, Flags.get, hf] at hcs
      exact hcs
    subst hcs'
    obtain ⟨v, h1, h2⟩ := impFormatCell_once close c.imp p c.imp [] (by simp) hex hcl
    refine ⟨v, ?_, h2⟩
    have : formatCellInst close st.flags c K.imp = impFormatCell close c.imp c.imp [] := by
      simp [formatCellInst, prints, Flags.get, hf, hasInformation]
    rw [this, h1]
    simp [ent, dataEntries]
  · intro hf x hx
    have : formatCellInst close st.flags c K.imp = [] := by
      simp [formatCellInst, prints, Flags.get, hf]
    rw [this] at hx
    simp [cellEnt, cellEntries] at hx
    obtain ⟨_, _, rfl⟩ := hx
    rfl

example :
    let c : Cell := ⟨1, [⟨0, 1, [0, 1]⟩, ⟨1, 1, [0, 1]⟩, ⟨2, 2, [2]⟩], none, some 0, false, none, none, false, false, Flags.default⟩
    (∀ e ∈ c.imp, e.p ∈ e.cl) ∧
    cellEnt (impFormatCell (fun a b => a == b) c.imp c.imp []) K.imp 1 = [1] ∧
    cellEnt (impFormatCell (fun a b => a == b) c.imp c.imp []) K.imp 2 = [2] := by
  refine ⟨by decide, by decide, by decide⟩

/-! importances in the data block -/

theorem impCollectOne_get (p : P) : ∀ (cells : List Cell) (vs : List Rat), impCollectOne p cells = .ok vs →
    vs.length = cells.length ∧ ∀ (i : Nat) (c : Cell), cells[i]? = some c → impHas c.imp p = true ∧ vs[i]? = some (impGet c.imp p) := by
  intro cells
  induction cells with
  | nil => intro vs h; simp [impCollectOne] at h; subst h; simp
  | cons c0 rest ih =>
    intro vs h
    simp only [impCollectOne] at h
    split at h
    · simp at h
    · rename_i e he
      split at h
      · simp at h
      · rename_i vs' hvs'
        simp at h; subst h
        obtain ⟨hl, hg⟩ := ih vs' hvs'
        refine ⟨by simp [hl], ?_⟩
        intro i c hc
        cases i with
        | zero =>
          simp at hc; subst hc
          refine ⟨?_, by simp [impGet, he]⟩
          simp only [impHas, List.any_eq_true]
          exact ⟨e, List.mem_of_find?_eq_some he, by simpa using List.find?_some he⟩
        | succ j => simpa using hg j c (by simpa using hc)

theorem impCollect_mem (cells : List Cell) : ∀ (mode : List P) (nv : List (P × List Rat × List P)),
    impCollect cells mode = .ok nv → ∀ x ∈ nv, impCollectOne x.1 cells = .ok x.2.1 := by
  intro mode
  induction mode with
  | nil => intro nv h x hx; simp [impCollect] at h; subst h; simp at hx
  | cons p rest ih =>
    intro nv h x hx
    simp only [impCollect] at h
    split at h
    · simp at h
    · rename_i vs hvs
      split at h
      · simp at h
      · rename_i r hr
        simp at h; subst h
        rcases List.mem_cons.mp hx with rfl | hx'
        · exact hvs
        · exact ih r hr x hx'

theorem tryCombine_mem (close : Rat → Rat → Bool) (nv : List (P × List Rat × List P)) :
    ∀ (l : List (P × List Rat × List P)) (covered : List P), ∀ g ∈ tryCombineValues close nv l covered,
      ∃ x ∈ l, g.1.head? = some x.1 ∧ g.2 = x.2.1 := by
  intro l
  induction l with
  | nil => intro covered g hg; simp [tryCombineValues] at hg
  | cons x rest ih =>
    intro covered g hg
    obtain ⟨p, gold, pair⟩ := x
    simp only [tryCombineValues] at hg
    split at hg
    · obtain ⟨y, hy, h1, h2⟩ := ih covered g hg
      exact ⟨y, List.mem_cons_of_mem _ hy, h1, h2⟩
    · rcases List.mem_cons.mp hg with rfl | hg'
      · exact ⟨(p, gold, pair), List.mem_cons_self, rfl, rfl⟩
      · obtain ⟨y, hy, h1, h2⟩ := ih _ g hg'
        exact ⟨y, List.mem_cons_of_mem _ hy, h1, h2⟩

/-- an IMP vector cannot have a hole: when IMP goes to the data block and some cell holds no importance for a
    particle of the mode, the write is refused (`ParticleTypeNotInCell`) -/
theorem C09_imp_refused (cells : List Cell) (p : P) (c : Cell) (hc : c ∈ cells) (hp : impHas c.imp p = false) :
    impCollectOne p cells = .error .particleTypeNotInCell := by
  induction cells with
  | nil => simp at hc
  | cons c0 rest ih =>
    simp only [impCollectOne]
    cases hf : c0.imp.find? (fun e => e.p == p) with
    | none => rfl
    | some e =>
      rcases List.mem_cons.mp hc with rfl | hc'
      · exfalso
        have : impHas c.imp p = true := by
          simp only [impHas, List.any_eq_true]
          exact ⟨e, List.mem_of_find?_eq_some hf, by simpa using List.find?_some hf⟩
        rw [hp] at this; cases this
      · simp [ih hc']



/-! ## importances in the data block: `_try_combine_values` covers every particle of the mode exactly once -/

/-- `_try_combine_values`, inner loop: a particle it adds is not covered yet, is not the gold particle, and its
    vector is close to the gold vector entry by entry -/
theorem combineInner_mem (close : Rat → Rat → Bool) (nv : List (P × List Rat × List P)) (p : P) (gold : List Rat) :
    ∀ (pair cov : List P), ∀ t ∈ combineInner close nv p gold pair cov,
      t ∉ cov ∧ t ≠ p ∧ allClose close gold (newVals nv t) = true := by
  intro pair
  induction pair with
  | nil => intro cov t ht; simp [combineInner] at ht
  | cons a rest ih =>
    intro cov t ht
    simp only [combineInner] at ht
    split at ht
    · exact ih cov t ht
    · rename_i hcond
      have hcond' : ¬ (a = p ∨ a ∈ cov) := by simpa using hcond
      split at ht
      · rename_i hclose
        rcases List.mem_cons.mp ht with rfl | ht'
        · exact ⟨fun h => hcond' (Or.inr h), fun h => hcond' (Or.inl h), hclose⟩
        · obtain ⟨h1, h2, h3⟩ := ih _ t ht'
          exact ⟨fun h => h1 (List.mem_append_left _ h), h2, h3⟩
      · exact ih cov t ht

/-- the groups of `_try_combine_values` that list particle `q` -/
def groupsOf (q : P) (gs : List (List P × List Rat)) : List (List P × List Rat) := gs.filter (fun g => g.1.contains q)

/-- a covered particle is in no later group -/
theorem tryCombine_covered (close : Rat → Rat → Bool) (nv : List (P × List Rat × List P)) (q : P) :
    ∀ (l : List (P × List Rat × List P)) (cov : List P), q ∈ cov →
      groupsOf q (tryCombineValues close nv l cov) = [] := by
  intro l
  induction l with
  | nil => intro cov _; rfl
  | cons x rest ih =>
    intro cov hq
    obtain ⟨p, gold, pair⟩ := x
    simp only [tryCombineValues]
    split
    · exact ih cov hq
    · rename_i hp
      have hp' : p ∉ cov := by simpa using hp
      have hne : q ≠ p := fun h => hp' (h ▸ hq)
      have hm : q ∉ combineInner close nv p gold pair (cov ++ [p]) := by
        intro hmem
        exact (combineInner_mem close nv p gold pair _ q hmem).1 (List.mem_append_left _ hq)
      have hcont : (p :: combineInner close nv p gold pair (cov ++ [p])).contains q = false := by
        simp only [List.contains_eq_mem, List.mem_cons, decide_eq_false_iff_not, not_or]
        exact ⟨hne, hm⟩
      simp only [groupsOf, List.filter_cons, hcont, Bool.false_eq_true, if_false]
      exact ih _ (List.mem_append_left _ (List.mem_append_left _ hq))

/-- **every particle of the mode is in exactly one group** (`_try_combine_values`, for ANY vectors and pairings):
    a particle that is not covered yet and has an entry in the rest of the loop ends up in exactly one group, whose
    gold vector is its own vector or one its vector was found close to entry by entry -/
theorem tryCombine_once (close : Rat → Rat → Bool) (nv : List (P × List Rat × List P)) (q : P) :
    ∀ (l : List (P × List Rat × List P)) (cov : List P), q ∉ cov → (∃ x ∈ l, x.1 = q) →
      ∃ g, groupsOf q (tryCombineValues close nv l cov) = [g] ∧
        ((∃ x ∈ l, x.1 = q ∧ g.2 = x.2.1) ∨ (∃ x ∈ l, g.2 = x.2.1 ∧ allClose close g.2 (newVals nv q) = true)) := by
  intro l
  induction l with
  | nil => intro cov _ h; obtain ⟨x, hx, _⟩ := h; simp at hx
  | cons x rest ih =>
    intro cov hq hex
    obtain ⟨p, gold, pair⟩ := x
    have lift : ∀ g : List P × List Rat,
        ((∃ x ∈ rest, x.1 = q ∧ g.2 = x.2.1) ∨ (∃ x ∈ rest, g.2 = x.2.1 ∧ allClose close g.2 (newVals nv q) = true)) →
        ((∃ x ∈ (p, gold, pair) :: rest, x.1 = q ∧ g.2 = x.2.1) ∨
          (∃ x ∈ (p, gold, pair) :: rest, g.2 = x.2.1 ∧ allClose close g.2 (newVals nv q) = true)) := by
      intro g h
      rcases h with ⟨x, hx, h1, h2⟩ | ⟨x, hx, h1, h2⟩
      · exact Or.inl ⟨x, List.mem_cons_of_mem _ hx, h1, h2⟩
      · exact Or.inr ⟨x, List.mem_cons_of_mem _ hx, h1, h2⟩
    have down : p ≠ q → ∃ x ∈ rest, x.1 = q := by
      intro hne
      obtain ⟨x, hx, hxq⟩ := hex
      rcases List.mem_cons.mp hx with rfl | hx'
      · exact absurd hxq hne
      · exact ⟨x, hx', hxq⟩
    simp only [tryCombineValues]
    split
    · rename_i hp
      have hp' : p ∈ cov := by simpa using hp
      have hne : p ≠ q := fun h => hq (h ▸ hp')
      obtain ⟨g, h1, h2⟩ := ih cov hq (down hne)
      exact ⟨g, h1, lift g h2⟩
    · by_cases hin : q = p ∨ q ∈ combineInner close nv p gold pair (cov ++ [p])
      · -- this group lists q; q is covered from here on
        have hcont : (p :: combineInner close nv p gold pair (cov ++ [p])).contains q = true := by
          simp only [List.contains_eq_mem, List.mem_cons, decide_eq_true_eq]
          exact hin
        have hcov : q ∈ cov ++ [p] ++ combineInner close nv p gold pair (cov ++ [p]) := by
          rcases hin with rfl | h
          · exact List.mem_append_left _ (List.mem_append_right _ (by simp))
          · exact List.mem_append_right _ h
        refine ⟨(p :: combineInner close nv p gold pair (cov ++ [p]), gold), ?_, ?_⟩
        · simp only [groupsOf, List.filter_cons, hcont, if_true]
          have := tryCombine_covered close nv q rest _ hcov
          simp only [groupsOf] at this
          rw [this]
        · rcases hin with rfl | h
          · exact Or.inl ⟨(q, gold, pair), List.mem_cons_self, rfl, rfl⟩
          · exact Or.inr ⟨(p, gold, pair), List.mem_cons_self, rfl,
              (combineInner_mem close nv p gold pair _ q h).2.2⟩
      · have hin' : q ≠ p ∧ q ∉ combineInner close nv p gold pair (cov ++ [p]) := by
          constructor
          · exact fun h => hin (Or.inl h)
          · exact fun h => hin (Or.inr h)
        have hcont : (p :: combineInner close nv p gold pair (cov ++ [p])).contains q = false := by
          simp only [List.contains_eq_mem, List.mem_cons, decide_eq_false_iff_not, not_or]
          exact hin'
        have hcov : q ∉ cov ++ [p] ++ combineInner close nv p gold pair (cov ++ [p]) := by
          intro hm
          rcases List.mem_append.mp hm with hm | hm
          · rcases List.mem_append.mp hm with hm | hm
            · exact hq hm
            · simp at hm; exact hin'.1 hm
          · exact hin'.2 hm
        obtain ⟨g, h1, h2⟩ := ih _ hcov (down (fun h => hin'.1 h.symm))
        refine ⟨g, ?_, lift g h2⟩
        simp only [groupsOf, List.filter_cons, hcont, Bool.false_eq_true, if_false]
        exact h1

theorem impCollect_keys (cells : List Cell) : ∀ (mode : List P) (nv : List (P × List Rat × List P)),
    impCollect cells mode = .ok nv → nv.map (·.1) = mode := by
  intro mode
  induction mode with
  | nil => intro nv h; simp [impCollect] at h; subst h; rfl
  | cons p rest ih =>
    intro nv h
    simp only [impCollect] at h
    split at h
    · simp at h
    · split at h
      · simp at h
      · rename_i r hr
        simp at h; subst h
        simp [ih r hr]

theorem newVals_collect (cells : List Cell) (mode : List P) (nv : List (P × List Rat × List P))
    (h : impCollect cells mode = .ok nv) (q : P) (hq : q ∈ mode) :
    impCollectOne q cells = .ok (newVals nv q) := by
  have hk := impCollect_keys cells mode nv h
  have hex : ∃ x ∈ nv, x.1 = q := by
    rw [← hk] at hq
    simpa using hq
  unfold newVals
  cases hf : nv.find? (fun x => x.1 == q) with
  | none =>
    obtain ⟨x, hx, hxq⟩ := hex
    have := List.find?_eq_none.mp hf x hx
    simp [hxq] at this
  | some x =>
    have hx : x ∈ nv := List.mem_of_find?_eq_some hf
    have hxq : x.1 = q := by simpa using List.find?_some hf
    have := impCollect_mem cells mode nv h x hx
    rw [hxq] at this
    exact this

theorem allClose_get (close : Rat → Rat → Bool) : ∀ (a b : List Rat), allClose close a b = true →
    ∀ (i : Nat) (x y : Rat), a[i]? = some x → b[i]? = some y → close x y = true := by
  intro a
  induction a with
  | nil => intro b _ i x y hx; simp at hx
  | cons a0 as ih =>
    intro b h i x y hx hy
    cases b with
    | nil => simp at hy
    | cons b0 bs =>
      simp only [allClose, Bool.and_eq_true] at h
      cases i with
      | zero => simp at hx hy; subst hx; subst hy; exact h.1
      | succ j => exact ih bs h.2 j x y (by simpa using hx) (by simpa using hy)

theorem ent_one (g : List P × List Rat) (i : Nat) (q : P) :
    ent [(⟨K.imp, g.1, g.2.map some, false⟩ : MCard)] i K.imp q
      = if g.1.contains q then (((g.2.map some)[i]?).join).toList else [] := by
  by_cases h : q ∈ g.1
  · simp only [ent, dataEntries, List.map_cons, List.map_nil, List.filterMap_cons, List.filterMap_nil, cardEntry,
      applies, convCard, convK]
    simp only [List.contains_eq_mem, h, decide_true, beq_self_eq_true, Bool.or_true, Bool.and_self, if_true]
    cases ((g.2.map some)[i]?).join <;> rfl
  · simp only [ent, dataEntries, List.map_cons, List.map_nil, List.filterMap_cons, List.filterMap_nil, cardEntry,
      applies, convCard, convK]
    simp [h]

theorem ent_groups (gs : List (List P × List Rat)) (i : Nat) (q : P) :
    ent (gs.map (fun g => (⟨K.imp, g.1, g.2.map some, false⟩ : MCard))) i K.imp q
      = (groupsOf q gs).filterMap (fun g => ((g.2.map some)[i]?).join) := by
  induction gs with
  | nil => rfl
  | cons g rest ih =>
    have e : (g :: rest).map (fun g => (⟨K.imp, g.1, g.2.map some, false⟩ : MCard))
        = [(⟨K.imp, g.1, g.2.map some, false⟩ : MCard)] ++ rest.map (fun g => (⟨K.imp, g.1, g.2.map some, false⟩ : MCard)) := rfl
    rw [e, ent_append, ih, ent_one]
    by_cases h : g.1.contains q = true
    · simp only [groupsOf, List.filter_cons, h, if_true, List.filterMap_cons]
      cases ((g.2.map some)[i]?).join <;> rfl
    · have h' : g.1.contains q = false := by simpa using h
      simp only [groupsOf, List.filter_cons, h', Bool.false_eq_true, if_false, List.nil_append]



/-! ### the data-block trees: identity -/

/-- the invariant of `_real_tree`: one entry per particle, every particle its OWN tree, identities below the next
    fresh one -/
def RTInv (rt : List (P × Nat)) (n : Nat) : Prop :=
  (rt.map (·.1)).Nodup ∧ (rt.map (·.2)).Nodup ∧ ∀ x ∈ rt, x.2 < n

theorem rtId_of_mem {rt : List (P × Nat)} (hk : (rt.map (·.1)).Nodup) {p : P} {t : Nat} (h : (p, t) ∈ rt) :
    rtId rt p = some t := by
  induction rt with
  | nil => simp at h
  | cons x rest ih =>
    simp only [List.map_cons, List.nodup_cons] at hk
    rcases List.mem_cons.mp h with rfl | h'
    · simp [rtId]
    · have hne : x.1 ≠ p := by
        intro e
        apply hk.1
        rw [e]
        exact List.mem_map_of_mem (f := (·.1)) h'
      have : (x.1 == p) = false := by simpa using hne
      have ih' := ih hk.2 h'
      simp only [rtId, List.find?_cons, this] at ih' ⊢
      exact ih'

theorem mem_of_rtId {rt : List (P × Nat)} {p : P} {t : Nat} (h : rtId rt p = some t) : (p, t) ∈ rt := by
  unfold rtId at h
  cases hf : rt.find? (fun x => x.1 == p) with
  | none => simp [hf] at h
  | some x =>
    simp [hf] at h
    have hx : x ∈ rt := List.mem_of_find?_eq_some hf
    have hp : x.1 = p := by simpa using List.find?_some hf
    have : x = (p, t) := by
      cases x; simp at hp h; simp [hp, h]
    rw [← this]; exact hx

/-- with every particle its own tree, a tree identity names its particle -/
theorem rt_inj {rt : List (P × Nat)} (hi : (rt.map (·.2)).Nodup) {p p' : P} {t : Nat}
    (h : (p, t) ∈ rt) (h' : (p', t) ∈ rt) : p = p' := by
  induction rt with
  | nil => simp at h
  | cons x rest ih =>
    simp only [List.map_cons, List.nodup_cons] at hi
    rcases List.mem_cons.mp h with rfl | h1 <;> rcases List.mem_cons.mp h' with h2 | h2
    · cases h2; rfl
    · exact absurd (List.mem_map_of_mem (f := (·.2)) h2) hi.1
    · subst h2; exact absurd (List.mem_map_of_mem (f := (·.2)) h1) hi.1
    · exact ih hi.2 h1 h2

theorem rt_fun {rt : List (P × Nat)} (hk : (rt.map (·.1)).Nodup) {p : P} {t t' : Nat}
    (h : (p, t) ∈ rt) (h' : (p, t') ∈ rt) : t = t' := by
  have a := rtId_of_mem hk h
  have b := rtId_of_mem hk h'
  rw [a] at b
  exact Option.some.inj b

/-- `allocate` keeps the invariant: new trees get fresh identities -/
theorem allocate_inv : ∀ (ps : List P) (rt : List (P × Nat)) (n : Nat), RTInv rt n →
    RTInv (allocate rt n ps).1 (allocate rt n ps).2 := by
  intro ps
  induction ps with
  | nil => intro rt n h; exact h
  | cons p rest ih =>
    intro rt n h
    simp only [allocate]
    split
    · exact ih rt n h
    · rename_i hnew
      apply ih
      obtain ⟨h1, h2, h3⟩ := h
      have hnew' : ∀ x ∈ rt, x.1 ≠ p := by
        intro x hx e
        apply hnew
        rw [List.any_eq_true]
        exact ⟨x, hx, by simp [e]⟩
      refine ⟨?_, ?_, ?_⟩
      · rw [List.map_append, List.nodup_append]
        refine ⟨h1, by simp, ?_⟩
        intro a ha b hb
        simp at hb
        subst hb
        obtain ⟨x, hx, rfl⟩ := List.mem_map.mp ha
        exact hnew' x hx
      · rw [List.map_append, List.nodup_append]
        refine ⟨h2, by simp, ?_⟩
        intro a ha b hb
        simp at hb
        subst hb
        obtain ⟨x, hx, rfl⟩ := List.mem_map.mp ha
        exact Nat.ne_of_lt (h3 x hx)
      · intro x hx
        rcases List.mem_append.mp hx with hx | hx
        · exact Nat.lt_succ_of_lt (h3 x hx)
        · simp at hx; subst hx; exact Nat.lt_succ_self n

/-- `allocate` only appends: the entries there stay -/
theorem allocate_mono : ∀ (ps : List P) (rt : List (P × Nat)) (n : Nat), ∀ x ∈ rt, x ∈ (allocate rt n ps).1 := by
  intro ps
  induction ps with
  | nil => intro rt n x hx; exact hx
  | cons p rest ih =>
    intro rt n x hx
    simp only [allocate]
    split
    · exact ih rt n x hx
    · exact ih _ _ x (List.mem_append_left _ hx)

/-- after `allocate` every particle met has a tree -/
theorem allocate_keys : ∀ (ps : List P) (rt : List (P × Nat)) (n : Nat), ∀ p ∈ ps,
    ∃ t, (p, t) ∈ (allocate rt n ps).1 := by
  intro ps
  induction ps with
  | nil => intro rt n p hp; simp at hp
  | cons p0 rest ih =>
    intro rt n p hp
    simp only [allocate]
    rcases List.mem_cons.mp hp with rfl | hp'
    · split
      · rename_i hold
        rw [List.any_eq_true] at hold
        obtain ⟨x, hx, hxp⟩ := hold
        have : x.1 = p := by simpa using hxp
        exact ⟨x.2, allocate_mono rest rt n (p, x.2) (by rw [← this]; exact hx)⟩
      · exact ⟨n, allocate_mono rest _ _ (p, n) (List.mem_append_right _ (by simp))⟩
    · split
      · exact ih rt n p hp'
      · exact ih _ _ p hp'

/-- the groups are pairwise disjoint: two groups that list one particle are the same group -/
def Disjoint (gs : List (List P × List Rat)) : Prop :=
  ∀ g1 ∈ gs, ∀ g2 ∈ gs, ∀ x, x ∈ g1.1 → x ∈ g2.1 → g1 = g2

theorem mem_groupsOf {q : P} {gs : List (List P × List Rat)} {g : List P × List Rat} (hg : g ∈ gs) (hq : q ∈ g.1) :
    g ∈ groupsOf q gs := by
  simp only [groupsOf, List.mem_filter]
  exact ⟨hg, by simpa using hq⟩

/-- `_try_combine_values` yields pairwise disjoint groups (a particle that is covered is in no later group) -/
theorem tryCombine_disjoint (close : Rat → Rat → Bool) (nv : List (P × List Rat × List P)) :
    ∀ (l : List (P × List Rat × List P)) (cov : List P), Disjoint (tryCombineValues close nv l cov) := by
  intro l
  induction l with
  | nil => intro cov g1 h1; simp [tryCombineValues] at h1
  | cons x rest ih =>
    intro cov
    obtain ⟨p, gold, pair⟩ := x
    simp only [tryCombineValues]
    split
    · exact ih cov
    · intro g1 h1 g2 h2 x hx1 hx2
      have later : ∀ g ∈ tryCombineValues close nv rest (cov ++ [p] ++ combineInner close nv p gold pair (cov ++ [p])),
          ∀ y, y ∈ (p :: combineInner close nv p gold pair (cov ++ [p])) → y ∉ g.1 := by
        intro g hg y hy hyg
        have hcov : y ∈ cov ++ [p] ++ combineInner close nv p gold pair (cov ++ [p]) := by
          rcases List.mem_cons.mp hy with rfl | h
          · exact List.mem_append_left _ (List.mem_append_right _ (by simp))
          · exact List.mem_append_right _ h
        have := tryCombine_covered close nv y rest _ hcov
        have hm := mem_groupsOf hg hyg
        rw [this] at hm
        simp at hm
      rcases List.mem_cons.mp h1 with rfl | h1' <;> rcases List.mem_cons.mp h2 with rfl | h2'
      · rfl
      · exact absurd hx2 (later g2 h2' x hx1)
      · exact absurd hx1 (later g1 h1' x hx2)
      · exact ih _ g1 h1' g2 h2' x hx1 hx2

/-! what a tree holds after `_update_values` -/

theorem treeAfter_mem {writes : List (Nat × (List P × List Rat))} {t : Nat} {g : List P × List Rat}
    (h : treeAfter writes t = some g) : (t, g) ∈ writes := by
  unfold treeAfter at h
  cases hl : (writes.filter (fun w => w.1 == t)).getLast? with
  | none => simp [hl] at h
  | some w =>
    simp [hl] at h
    have hm : w ∈ writes.filter (fun w => w.1 == t) := List.mem_of_getLast? hl
    rw [List.mem_filter] at hm
    have : w = (t, g) := by
      cases w; simp at hm h; simp [hm.2, h]
    rw [← this]; exact hm.1

theorem treeAfter_of_all {writes : List (Nat × (List P × List Rat))} {t : Nat} {g : List P × List Rat}
    (hne : (t, g) ∈ writes) (hall : ∀ g', (t, g') ∈ writes → g' = g) : treeAfter writes t = some g := by
  unfold treeAfter
  have hmem : (t, g) ∈ writes.filter (fun w => w.1 == t) := by
    rw [List.mem_filter]; exact ⟨hne, by simp⟩
  cases hl : (writes.filter (fun w => w.1 == t)).getLast? with
  | none =>
    rw [List.getLast?_eq_none_iff] at hl
    rw [hl] at hmem; simp at hmem
  | some w =>
    have hm : w ∈ writes.filter (fun w => w.1 == t) := List.mem_of_getLast? hl
    rw [List.mem_filter] at hm
    have hw1 : w.1 = t := by simpa using hm.2
    have : w.2 = g := hall w.2 (by rw [← hw1]; exact hm.1)
    simp [this]

theorem impWrites_mem {rt : List (P × Nat)} {gs : List (List P × List Rat)} {t : Nat} {g : List P × List Rat} :
    (t, g) ∈ impWrites rt gs ↔ g ∈ gs ∧ ∃ p ∈ g.1, rtId rt p = some t := by
  simp only [impWrites, List.mem_flatMap, List.mem_filterMap, Option.map_eq_some_iff]
  constructor
  · rintro ⟨g', hg', p, hp, t', ht', heq⟩
    cases heq
    exact ⟨hg', p, hp, ht'⟩
  · rintro ⟨hg, p, hp, ht⟩
    exact ⟨g, hg, p, hp, t, ht, rfl⟩

/-- with every particle its own tree, the tree of a particle of a group holds that group after `_update_values` -/
theorem treeAfter_group {rt : List (P × Nat)} {n : Nat} (hinv : RTInv rt n) {gs : List (List P × List Rat)}
    (hd : Disjoint gs) {q : P} {tq : Nat} (hq : (q, tq) ∈ rt) {gq : List P × List Rat} (hgq : gq ∈ gs) (hqg : q ∈ gq.1) :
    treeAfter (impWrites rt gs) tq = some gq := by
  apply treeAfter_of_all
  · exact impWrites_mem.mpr ⟨hgq, q, hqg, rtId_of_mem hinv.1 hq⟩
  · intro g' hg'
    obtain ⟨hg'gs, p, hp, hpt⟩ := impWrites_mem.mp hg'
    have : q = p := rt_inj hinv.2.1 hq (mem_of_rtId hpt)
    subst this
    exact hd g' hg'gs gq hgq q hp hqg

/-- a tree holds a group of `gs` that lists the tree's own particle -/
theorem treeAfter_own {rt : List (P × Nat)} {n : Nat} (hinv : RTInv rt n) {gs : List (List P × List Rat)}
    {p : P} {t : Nat} (hp : (p, t) ∈ rt) {g : List P × List Rat} (h : treeAfter (impWrites rt gs) t = some g) :
    g ∈ gs ∧ p ∈ g.1 := by
  obtain ⟨hg, p', hp', hpt⟩ := impWrites_mem.mp (treeAfter_mem h)
  have : p = p' := rt_inj hinv.2.1 hp (mem_of_rtId hpt)
  subst this
  exact ⟨hg, hp'⟩



/-- what is printed so far is a union of whole groups -/
def Whole (gs : List (List P × List Rat)) (printed : List P) : Prop :=
  ∀ x ∈ printed, ∃ g ∈ gs, x ∈ g.1 ∧ ∀ y ∈ g.1, y ∈ printed

theorem whole_append {gs : List (List P × List Rat)} {printed : List P} (h : Whole gs printed)
    {g : List P × List Rat} (hg : g ∈ gs) : Whole gs (printed ++ g.1) := by
  intro x hx
  rcases List.mem_append.mp hx with hx | hx
  · obtain ⟨g0, hg0, hx0, hall⟩ := h x hx
    exact ⟨g0, hg0, hx0, fun y hy => List.mem_append_left _ (hall y hy)⟩
  · exact ⟨g, hg, hx, fun y hy => List.mem_append_right _ hy⟩

/-- `_format_tree` (data block): a particle printed already is in no later printed tree -/
theorem fmt_printed {rt : List (P × Nat)} {n : Nat} (hinv : RTInv rt n) {gs : List (List P × List Rat)}
    (hd : Disjoint gs) (q : P) :
    ∀ (ents : List (P × Nat)) (printed : List P), (∀ e ∈ ents, e ∈ rt) → Whole gs printed → q ∈ printed →
      groupsOf q (impFormatTreeData (impWrites rt gs) ents printed) = [] := by
  intro ents
  induction ents with
  | nil => intro printed _ _ _; rfl
  | cons e rest ih =>
    intro printed hsub hwh hq
    obtain ⟨p, t⟩ := e
    have hsub' : ∀ e ∈ rest, e ∈ rt := fun e he => hsub e (List.mem_cons_of_mem _ he)
    simp only [impFormatTreeData]
    split
    · exact ih printed hsub' hwh hq
    · rename_i hp
      have hp' : p ∉ printed := by simpa using hp
      split
      · rename_i g hg
        obtain ⟨hggs, hpg⟩ := treeAfter_own hinv (hsub (p, t) List.mem_cons_self) hg
        have hqg : q ∉ g.1 := by
          intro hqg
          obtain ⟨g0, hg0, hq0, hall⟩ := hwh q hq
          have : g0 = g := hd g0 hg0 g hggs q hq0 hqg
          subst this
          exact hp' (hall p hpg)
        have hcont : g.1.contains q = false := by simpa using hqg
        simp only [groupsOf, List.filter_cons, hcont, Bool.false_eq_true, if_false]
        exact ih _ hsub' (whole_append hwh hggs) (List.mem_append_left _ hq)
      · exact ih printed hsub' hwh hq

/-- `_format_tree` (data block): **with every particle its own tree, a particle that has a tree and is in a group is
    printed exactly once, with its group** -/
theorem fmt_once {rt : List (P × Nat)} {n : Nat} (hinv : RTInv rt n) {gs : List (List P × List Rat)}
    (hd : Disjoint gs) (q : P) (tq : Nat) (gq : List P × List Rat) (hgq : gq ∈ gs) (hqg : q ∈ gq.1) :
    ∀ (ents : List (P × Nat)) (printed : List P), (∀ e ∈ ents, e ∈ rt) → Whole gs printed → q ∉ printed →
      (q, tq) ∈ ents → groupsOf q (impFormatTreeData (impWrites rt gs) ents printed) = [gq] := by
  intro ents
  induction ents with
  | nil => intro printed _ _ _ h; simp at h
  | cons e rest ih =>
    intro printed hsub hwh hq hmem
    obtain ⟨p, t⟩ := e
    have hsub' : ∀ e ∈ rest, e ∈ rt := fun e he => hsub e (List.mem_cons_of_mem _ he)
    have hprt : (p, t) ∈ rt := hsub (p, t) List.mem_cons_self
    have hqrt : (q, tq) ∈ rt := hsub (q, tq) hmem
    -- the tree of q itself holds q's group
    have hown : treeAfter (impWrites rt gs) tq = some gq := treeAfter_group hinv hd hqrt hgq hqg
    have down : p ≠ q → (q, tq) ∈ rest := by
      intro hne
      rcases List.mem_cons.mp hmem with h | h
      · cases h; exact absurd rfl hne
      · exact h
    simp only [impFormatTreeData]
    split
    · rename_i hp
      have hp' : p ∈ printed := by simpa using hp
      exact ih printed hsub' hwh hq (down (fun e => hq (e ▸ hp')))
    · split
      · rename_i g hg
        obtain ⟨hggs, hpg⟩ := treeAfter_own hinv hprt hg
        by_cases hqin : q ∈ g.1
        · have : g = gq := hd g hggs gq hgq q hqin hqg
          subst this
          have hcont : g.1.contains q = true := by simpa using hqin
          simp only [groupsOf, List.filter_cons, hcont, if_true]
          have := fmt_printed hinv hd q rest (printed ++ g.1) hsub' (whole_append hwh hggs) (List.mem_append_right _ hqin)
          simp only [groupsOf] at this
          rw [this]
        · have hne : p ≠ q := by
            intro e
            subst e
            have : t = tq := rt_fun hinv.1 hprt hqrt
            subst this
            rw [hown] at hg
            cases hg
            exact hqin hqg
          have hcont : g.1.contains q = false := by simpa using hqin
          simp only [groupsOf, List.filter_cons, hcont, Bool.false_eq_true, if_false]
          have hq' : q ∉ printed ++ g.1 := by
            intro h
            rcases List.mem_append.mp h with h | h
            · exact hq h
            · exact hqin h
          exact ih _ hsub' (whole_append hwh hggs) hq' (down hne)
      · rename_i hnone
        have hne : p ≠ q := by
          intro e
          subst e
          have : t = tq := rt_fun hinv.1 hprt hqrt
          subst this
          rw [hown] at hnone
          cases hnone
        exact ih printed hsub' hwh hq (down hne)



theorem impGroups_eq (close : Rat → Rat → Bool) (st : St) (gs : List (List P × List Rat))
    (h : impGroups close st = .ok gs) :
    ∃ nv, impCollect st.cells st.mode = .ok nv ∧ gs = tryCombineValues close nv nv [] := by
  unfold impGroups at h
  cases hnv : impCollect st.cells st.mode with
  | error e => simp [hnv] at h
  | ok nv => simp [hnv] at h; exact ⟨nv, rfl, h.symm⟩

/-- every tree that is printed holds one of the groups -/
theorem fmt_sub (rt : List (P × Nat)) (gs : List (List P × List Rat)) :
    ∀ (ents : List (P × Nat)) (printed : List P), ∀ g ∈ impFormatTreeData (impWrites rt gs) ents printed, g ∈ gs := by
  intro ents
  induction ents with
  | nil => intro printed g hg; simp [impFormatTreeData] at hg
  | cons e rest ih =>
    intro printed g hg
    obtain ⟨p, t⟩ := e
    simp only [impFormatTreeData] at hg
    split at hg
    · exact ih printed g hg
    · split at hg
      · rename_i g0 hg0
        rcases List.mem_cons.mp hg with rfl | h
        · exact (impWrites_mem.mp (treeAfter_mem hg0)).1
        · exact ih _ g h
      · exact ih printed g hg

/-- **IMP cards of the data block are aligned**: every `IMP` card the data-level instance writes has one entry per
    cell (no jump), and entry `i` is the importance the `i`-th cell (in cell order) holds for the card's first
    particle; the other particles of a combined card were found close to it entry by entry (`_try_combine_values`). -/
theorem C09_imp_data_aligned (close : Rat → Rat → Bool) (st : St) (cs : List MCard)
    (h : formatDataInst close st K.imp = .ok cs) :
    ∀ card ∈ cs, ∃ p, card.ps.head? = some p ∧ card.vec.length = st.cells.length ∧
      ∀ (i : Nat) (c : Cell), st.cells[i]? = some c → impHas c.imp p = true ∧ card.vec[i]? = some (some (impGet c.imp p)) := by
  intro card hcard
  unfold formatDataInst at h
  split at h
  · simp only [impFormatData] at h
    cases hgs : impGroups close st with
    | error e => simp [hgs] at h
    | ok gs =>
      simp [hgs] at h; subst h
      obtain ⟨nv, hnv, rfl⟩ := impGroups_eq close st gs hgs
      simp only [List.mem_map] at hcard
      obtain ⟨g, hg, rfl⟩ := hcard
      have hg' := fmt_sub _ _ _ _ g hg
      obtain ⟨x, hx, h1, h2⟩ := tryCombine_mem close nv nv [] g hg'
      have hone := impCollect_mem st.cells st.mode nv hnv x hx
      obtain ⟨hl, hget⟩ := impCollectOne_get x.1 st.cells x.2.1 hone
      refine ⟨x.1, h1, by simp [h2, hl], ?_⟩
      intro i c hc
      obtain ⟨a, b⟩ := hget i c hc
      refine ⟨a, ?_⟩
      simp [h2, b]
  · simp at h; subst h; simp at hcard

/-- **with every particle its own tree, the data block prints every particle of the mode exactly once**: the trees
    printed by `_format_tree` after `_update_values` that list `q` are exactly `q`'s group -/
theorem impData_once (close : Rat → Rat → Bool) (st : St) (hrt : RTInv st.realTree st.nextId)
    (nv : List (P × List Rat × List P)) (hnv : impCollect st.cells st.mode = .ok nv) (q : P) (hq : q ∈ st.mode) :
    ∃ g, groupsOf q (impFormatTreeData
          (impWrites (impRealTreeAfter st (tryCombineValues close nv nv [])).1 (tryCombineValues close nv nv []))
          (impRealTreeAfter st (tryCombineValues close nv nv [])).1 []) = [g] ∧
      ((∃ x ∈ nv, x.1 = q ∧ g.2 = x.2.1) ∨ (∃ x ∈ nv, g.2 = x.2.1 ∧ allClose close g.2 (newVals nv q) = true)) := by
  have hk := impCollect_keys st.cells st.mode nv hnv
  have hex : ∃ x ∈ nv, x.1 = q := by
    rw [← hk] at hq
    simpa using hq
  obtain ⟨g, hg, hval⟩ := tryCombine_once close nv q nv [] (by simp) hex
  refine ⟨g, ?_, hval⟩
  have hgm : g ∈ groupsOf q (tryCombineValues close nv nv []) := by rw [hg]; simp
  simp only [groupsOf, List.mem_filter] at hgm
  have hggs := hgm.1
  have hqg : q ∈ g.1 := by simpa using hgm.2
  have hinv' := allocate_inv ((tryCombineValues close nv nv []).flatMap (·.1)) st.realTree st.nextId hrt
  have hqall : q ∈ (tryCombineValues close nv nv []).flatMap (·.1) := by
    rw [List.mem_flatMap]; exact ⟨g, hggs, hqg⟩
  obtain ⟨tq, htq⟩ := allocate_keys _ st.realTree st.nextId q hqall
  exact fmt_once hinv' (tryCombine_disjoint close nv nv []) q tq g hggs hqg _ [] (fun e he => he)
    (by intro x hx; simp at hx) (by simp) htq



/-- **importances in the data block: exactly once per particle of the mode** — for every state in which every
    particle has its OWN data-block tree (`RTInv`), when IMP goes to the data block and the write succeeds, the file
    gives the `i`-th cell exactly one importance for every particle `q` of the mode, in the data block, at the cell's
    index; its value is the importance the cell holds for `q`, or the importance it holds for a particle whose whole
    vector was found close to `q`'s (a combined `imp:n,p` card). -/
theorem C09_imp_data_once (close : Rat → Rat → Bool) (st : St) (hw : DataInputsOnce st)
    (hrt : RTInv st.realTree st.nextId) (items : List MItem)
    (h : writeToFile close st = .ok items) (hf : st.flags.imp = true)
    (i : Nat) (c : Cell) (hc : st.cells[i]? = some c) (q : P) (hq : q ∈ st.mode) :
    ∃ v, table (render items) i (convK K.imp) q = [(Blk.data, v)] ∧
      (v = impGet c.imp q ∨ ∃ p ∈ st.mode, v = impGet c.imp p ∧ close v (impGet c.imp q) = true) := by
  obtain ⟨cs, hcs⟩ := write_inst_ok close st items h K.imp
  rw [table_write close st hw items h i c hc K.imp q cs hcs]
  have hcell : formatCellInst close st.flags c K.imp = [] := by
    simp [formatCellInst, prints, Flags.get, hf]
  have hany : st.cells.any (fun d => hasInformation d K.imp) = true := by
    rw [List.any_eq_true]
    exact ⟨c, List.mem_of_getElem? hc, rfl⟩
  unfold formatDataInst at hcs
  simp only [prints, Flags.get, hf, hany] at hcs
  simp only [Bool.false_bne, Bool.and_self, if_true, impFormatData] at hcs
  cases hgs : impGroups close st with
  | error e => simp [hgs] at hcs
  | ok gs =>
    simp [hgs] at hcs
    subst hcs
    obtain ⟨nv, hnv, rfl⟩ := impGroups_eq close st gs hgs
    have hk := impCollect_keys st.cells st.mode nv hnv
    obtain ⟨g, hg, hval⟩ := impData_once close st hrt nv hnv q hq
    have hqv := newVals_collect st.cells st.mode nv hnv q hq
    obtain ⟨hql, hqget⟩ := impCollectOne_get q st.cells _ hqv
    obtain ⟨_, hqi⟩ := hqget i c hc
    have key : ∃ v, g.2[i]? = some v ∧
        (v = impGet c.imp q ∨ ∃ p ∈ st.mode, v = impGet c.imp p ∧ close v (impGet c.imp q) = true) := by
      rcases hval with ⟨x, hx, hxq, hgx⟩ | ⟨x, hx, hgx, hclose⟩
      · have hone := impCollect_mem st.cells st.mode nv hnv x hx
        rw [hxq] at hone
        obtain ⟨_, hget⟩ := impCollectOne_get q st.cells _ hone
        obtain ⟨_, hi⟩ := hget i c hc
        exact ⟨impGet c.imp q, by rw [hgx]; exact hi, Or.inl rfl⟩
      · have hone := impCollect_mem st.cells st.mode nv hnv x hx
        obtain ⟨_, hget⟩ := impCollectOne_get x.1 st.cells _ hone
        obtain ⟨_, hi⟩ := hget i c hc
        have hxm : x.1 ∈ st.mode := by
          rw [← hk]; exact List.mem_map_of_mem hx
        refine ⟨impGet c.imp x.1, by rw [hgx]; exact hi, Or.inr ⟨x.1, hxm, rfl, ?_⟩⟩
        exact allClose_get close g.2 _ hclose i _ _ (by rw [hgx]; exact hi) hqi
    obtain ⟨v, hv, hrel⟩ := key
    refine ⟨v, ?_, hrel⟩
    rw [hcell, ent_groups, hg]
    simp [cellEnt, cellEntries, hv]

/-- **identity matters** (witnesses): if two particles share ONE data-block tree — what `dict.fromkeys(parts, tree)`
    would make — and then get different vectors, the later write wins: one particle is not printed at all
    (first witness), or one is printed twice and the other not at all (second witness, the other set order). -/
theorem C09_imp_shared_tree_refuted :
    let rt : List (P × Nat) := [(0, 0), (1, 0)]                      -- n and p share tree 0
    let gs : List (List P × List Rat) := [([0], [1, 1]), ([1], [1, 8])]   -- the particles differ: two sets
    let gs' : List (List P × List Rat) := [([1], [1, 8]), ([0], [1, 1])]
    ¬ RTInv rt 1 ∧
    groupsOf 0 (impFormatTreeData (impWrites rt gs) rt []) = [] ∧
    (groupsOf 0 (impFormatTreeData (impWrites rt gs') rt [])).length = 2 ∧
    groupsOf 1 (impFormatTreeData (impWrites rt gs') rt []) = [] := by
  refine ⟨?_, by decide, by decide, by decide⟩
  intro h
  have := h.2.1
  simp at this

/-! ## histories, writes included -/

theorem afterWrite_rt (close : Rat → Rat → Bool) (st : St) (h : RTInv st.realTree st.nextId) :
    RTInv (afterWrite close st).realTree (afterWrite close st).nextId := by
  unfold afterWrite
  split
  · exact h
  · split
    · split
      · exact allocate_inv _ _ _ h
      · exact h
    · exact h

theorem step_rt (close : Rat → Rat → Bool) (st : St) (op : Op) (h : RTInv st.realTree st.nextId) :
    RTInv (step close st op).1.realTree (step close st op).1.nextId := by
  cases op with
  | write => exact afterWrite_rt close st h
  | observe => exact h
  | _ => simp only [step] <;> (repeat' split) <;> exact h

/-- **every particle keeps its own data-block tree**: the identity invariant holds after ANY sequence of edits, flag
    changes, cell insertions / deletions / reorderings, observations and WRITES (a write creates trees: fresh ones) -/
theorem C09_history_trees (close : Rat → Rat → Bool) (st : St) (h : RTInv st.realTree st.nextId) (ops : List Op) :
    RTInv (run close st ops).realTree (run close st ops).nextId := by
  induction ops generalizing st with
  | nil => exact h
  | cons op rest ih =>
    have : run close st (op :: rest) = run close (step close st op).1 rest := rfl
    rw [this]
    exact ih _ (step_rt close st op h)

/-- **history**: after ANY sequence of edits, flag changes, cell insertions, deletions, reorderings, observations and
    WRITES (each of which may create data-block trees), the file that is written next gives every datum a cell then
    holds exactly once, in the block the flag then names, aligned to the cell's position at that time, with the cell's
    value — VOL, U, LAT, FILL, and the importance of every particle of the mode when IMP goes to the data block
    (cell block: `C09_imp_cell_once`, which needs no history) — and every per-cell card is inside the data block. -/
theorem C09_history (close : Rat → Rat → Bool) (st : St) (hw : DataInputsOnce st)
    (hrt : RTInv st.realTree st.nextId) (ops : List Op) (items : List MItem)
    (h : writeToFile close (run close st ops) = .ok items) :
    Spec.CellData.allDataCardsRead (render items) = true ∧
    ∀ (i : Nat) (c : Cell), (run close st ops).cells[i]? = some c →
      (∀ (k : K), k ≠ K.imp → ∀ (p : P),
        (∀ v, treeValue c k = .ok (some v) →
          table (render items) i (convK k) p = [(if (run close st ops).flags.get k then Blk.data else Blk.cell, v)]) ∧
        (treeValue c k = .ok none → table (render items) i (convK k) p = [])) ∧
      ((run close st ops).flags.imp = true → ∀ q ∈ (run close st ops).mode,
        ∃ v, table (render items) i (convK K.imp) q = [(Blk.data, v)] ∧
          (v = impGet c.imp q ∨ ∃ p ∈ (run close st ops).mode, v = impGet c.imp p ∧ close v (impGet c.imp q) = true)) := by
  have hw' := C09_history_wf close st hw ops
  have hrt' := C09_history_trees close st hrt ops
  refine ⟨C09_in_block close _ items h, ?_⟩
  intro i c hc
  refine ⟨?_, ?_⟩
  · intro k hk p
    exact ⟨fun v hv => C09_exactly_once close _ hw' items h i c hc k hk p v hv,
      fun hv => C09_no_spurious close _ hw' items h i c hc k hk p hv⟩
  · intro hf q hq
    exact C09_imp_data_once close _ hw' hrt' items h hf i c hc q hq

/-- non-vacuity: a history with a WRITE in the middle (IMP in the data block: the write creates the trees of n and p),
    then an edit that makes the particles differ, an append, a move and a flag change; the next write succeeds and
    gives cell 0 its two different importances in the data block, and the volume of the moved cell at its new index -/
example :
    let eq : Rat → Rat → Bool := fun a b => a == b
    let st : St := { cells := [⟨1, [⟨0, 1, [0, 1]⟩, ⟨1, 1, [0, 1]⟩], some 3, some 2, false, none, none, false, false, ⟨false, false, false, false, false⟩⟩,
                               ⟨2, [⟨0, 1, [0, 1]⟩, ⟨1, 1, [0, 1]⟩], none, some 0, false, none, none, false, false, ⟨false, false, false, false, false⟩⟩],
                     mode := [0, 1], flags := ⟨true, false, false, false, false⟩, volCalc := true, dataInputs := [none],
                     realTree := [], nextId := 0 }
    let ops := [Op.write, Op.setImp 0 [1] 8, Op.observe,
                Op.append ⟨3, [⟨0, 0, [0]⟩, ⟨1, 0, [1]⟩], some 5, none, false, none, none, false, false, ⟨false, false, false, false, false⟩⟩,
                Op.moveEnd 1, Op.setFlag K.vol true]
    DataInputsOnce st ∧ RTInv st.realTree st.nextId ∧
    (run eq st [Op.write]).realTree = [(0, 0), (1, 1)] ∧
    ∃ items, writeToFile eq (run eq st ops) = .ok items ∧
      table (render items) 0 (convK K.imp) 0 = [(Blk.data, 1)] ∧ table (render items) 0 (convK K.imp) 1 = [(Blk.data, 8)] ∧
      table (render items) 0 (convK K.vol) 0 = [(Blk.data, 3)] ∧ table (render items) 1 (convK K.vol) 0 = [(Blk.data, 5)] := by
  refine ⟨?_, ?_, by decide, _, rfl, by decide, by decide, by decide, by decide⟩
  · intro k; cases k <;> decide
  · exact ⟨by simp, by simp, by simp⟩


/-! ## undo after an intermediate write: the file is a function of the CURRENT values, not of the history

A write leaves the cells and flags alone (`C09_write_frame`); the cards of VOL / U / LAT / FILL are computed from the
current cells at every write (`C09_values_only`); so a history that gives the data the values they had — with writes
anywhere in between — writes each of them exactly once at the original value (`C09_undo`, from `C09_history`). -/

/-- `write_to_file` (and any observation) leaves every value the file is a function of alone: the cells with their
    data, the flags, `allow_mcnp_volume_calc`, `data_inputs`, the mode. Only the data-block importance trees change. -/
theorem C09_write_frame (close : Rat → Rat → Bool) (st : St) :
    (afterWrite close st).cells = st.cells ∧ (afterWrite close st).flags = st.flags ∧
    (afterWrite close st).volCalc = st.volCalc ∧ (afterWrite close st).dataInputs = st.dataInputs ∧
    (afterWrite close st).mode = st.mode := by
  unfold afterWrite
  split
  · exact ⟨rfl, rfl, rfl, rfl, rfl⟩
  · split
    · split <;> exact ⟨rfl, rfl, rfl, rfl, rfl⟩
    · exact ⟨rfl, rfl, rfl, rfl, rfl⟩

/-- the data-block card of VOL / U / LAT / FILL and every cell card are functions of the CURRENT values (cells, flags,
    `allow_mcnp_volume_calc`) only: `cell_modifier.py: _update_values` rebuilds the list from the cells at every write
    (`update_with_new_values`), whatever an earlier write left in it -/
theorem C09_values_only (close : Rat → Rat → Bool) (s t : St) (hc : s.cells = t.cells) (hf : s.flags = t.flags)
    (hv : s.volCalc = t.volCalc) (k : K) (hk : k ≠ K.imp) :
    formatDataInst close s k = formatDataInst close t k ∧
    s.cells.map (formatCell close s.flags) = t.cells.map (formatCell close t.flags) := by
  refine ⟨?_, by rw [hc, hf]⟩
  unfold formatDataInst
  rw [hc, hf, hv]
  cases k <;> first | exact absurd rfl hk | rfl

/-- UNDO, for ANY history with writes anywhere in it: if the history ends with the cells (and flags) it started with —
    edits undone after intermediate writes — the file written then gives every cell, for VOL / U / LAT / FILL,
    exactly the datum the ORIGINAL state holds, once, in the block the flag names, at the cell's index; and nothing to
    a cell that holds none. Nothing of an earlier write (a jump where the datum was unset) survives. -/
theorem C09_undo (close : Rat → Rat → Bool) (st : St) (hw : DataInputsOnce st)
    (hrt : RTInv st.realTree st.nextId) (ops : List Op) (items : List MItem)
    (h : writeToFile close (run close st ops) = .ok items)
    (hc : (run close st ops).cells = st.cells) (hf : (run close st ops).flags = st.flags) :
    ∀ (i : Nat) (c : Cell), st.cells[i]? = some c → ∀ (k : K), k ≠ K.imp → ∀ (p : P),
      (∀ v, treeValue c k = .ok (some v) →
        table (render items) i (convK k) p = [(if st.flags.get k then Blk.data else Blk.cell, v)]) ∧
      (treeValue c k = .ok none → table (render items) i (convK k) p = []) := by
  intro i c hi k hk p
  have H := (C09_history close st hw hrt ops items h).2 i c (by rw [hc]; exact hi)
  have := H.1 k hk p
  rw [hf] at this
  exact this

/-- non-vacuity of `C09_undo`: unset (volume deleted, back to universe 0), WRITE, the values of the file again, WRITE -/
example :
    let eq : Rat → Rat → Bool := fun a b => a == b
    let st : St := { cells := [⟨1, [⟨0, 1, [0]⟩], some 3, some 1, false, none, none, false, false, ⟨false, false, false, false, false⟩⟩,
                               ⟨2, [⟨0, 1, [0]⟩], some 5, some 2, false, none, none, false, false, ⟨false, false, false, false, false⟩⟩,
                               ⟨3, [⟨0, 0, [0]⟩], some 7, some 2, false, none, none, false, false, ⟨false, false, false, false, false⟩⟩],
                     mode := [0], flags := ⟨true, true, true, true, true⟩, volCalc := true, dataInputs := [none],
                     realTree := [], nextId := 0 }
    let ops := [Op.setVol 1 none, Op.setUni 1 0, Op.write, Op.setVol 1 (some 5), Op.setUni 1 2, Op.write]
    (run eq st ops).cells = st.cells ∧ (run eq st ops).flags = st.flags ∧
    (∃ items, writeToFile eq (run eq st [Op.setVol 1 none, Op.setUni 1 0]) = .ok items ∧
      table (render items) 1 (convK K.vol) 0 = [] ∧ table (render items) 1 (convK K.u) 0 = []) ∧
    ∃ items, writeToFile eq (run eq st ops) = .ok items ∧
      table (render items) 1 (convK K.vol) 0 = [(Blk.data, 5)] ∧ table (render items) 1 (convK K.u) 0 = [(Blk.data, 2)] := by
  refine ⟨by rfl, by rfl, ⟨_, rfl, by decide, by decide⟩, _, rfl, by decide, by decide⟩


/-! ## the cell's parameters tree: every modifier class keeps its place whatever else the card carries

`Cell.format_for_mcnp_input` reaches a cell-level modifier only through its node in `cell._tree["parameters"]`
(`formatCellTree`); the write theorems above are about `formatCell`, which visits every class.  The two are the same
card because `_parse_keyword_modifiers` leaves a node for EVERY class, for any other parameters on the card. -/

/-- `K.pfxC` is `_class_prefix()` -/
theorem K.pfxC_eq (k : K) : k.pfxC = k.pfx.toList := by
  cases k <;> decide

theorem mem_slots_of_not_found_default (ps : List Param) (k : K)
    (h : (k == K.imp) = false ∨ ps.any (fun p => hasInfix K.imp.pfxC p.key) = false) : k ∈ slots ps := by
  unfold slots
  refine List.mem_filter.mpr ⟨by cases k <;> decide, ?_⟩
  by_cases hf : k ∈ foundClassPrefixes ps
  · simp [hf]
  · have hd : k ∈ defaultsAppended ps := by
      unfold defaultsAppended
      refine List.mem_filter.mpr ⟨by cases k <;> decide, ?_⟩
      rcases h with h | h
      · simp [hf, h]
      · simp [hf, h]
    simp [hd]

/-- for ANY parameters on the card — any keys, any prefixes —, every class other than IMP has a node in the
    parameters tree after `_parse_keyword_modifiers`: given on the card, or its blank tree appended -/
theorem C09_slots_others (ps : List Param) (k : K) (hk : k ≠ K.imp) : k ∈ slots ps :=
  mem_slots_of_not_found_default ps k (Or.inl (by cases k <;> first | exact absurd rfl hk | decide))

theorem found_of_imp_key (ps : List Param) (hi : impKeysAreImp ps = true)
    (h : ps.any (fun p => hasInfix K.imp.pfxC p.key) = true) : K.imp ∈ foundClassPrefixes ps := by
  unfold foundClassPrefixes
  refine List.mem_filter.mpr ⟨by decide, ?_⟩
  obtain ⟨p, hp, hin⟩ := List.any_eq_true.mp h
  refine List.any_eq_true.mpr ⟨p, hp, ?_⟩
  have := List.all_eq_true.mp hi p hp
  simpa [hin] using this

/-- when every key that contains `imp` is an IMP parameter (`impKeysAreImp`: the only shape the IMP-only guard of the
    second loop looks at), every class has its node: the walk over the tree is the walk over all classes, and the
    card the code writes (`formatCellTree`) is the card the write theorems are about (`formatCell`) -/
theorem C09_slots_complete (close : Rat → Rat → Bool) (flags : Flags) (c : Cell) (ps : List Param)
    (hi : impKeysAreImp ps = true) :
    slots ps = K.all ∧ formatCellTree close flags c ps = formatCell close flags c := by
  have hall : ∀ k ∈ K.all, k ∈ slots ps := by
    intro k _
    by_cases hk : k = K.imp
    · subst hk
      by_cases h : ps.any (fun p => hasInfix K.imp.pfxC p.key) = true
      · have hf := found_of_imp_key ps hi h
        unfold slots
        refine List.mem_filter.mpr ⟨by decide, ?_⟩
        simp [hf]
      · exact mem_slots_of_not_found_default ps K.imp (Or.inr (by simpa using h))
    · exact C09_slots_others ps k hk
  have hs : slots ps = K.all := by
    unfold slots
    exact List.filter_eq_self.mpr (fun k hk => by
      have := hall k hk
      unfold slots at this
      exact (List.mem_filter.mp this).2)
  exact ⟨hs, by unfold formatCellTree formatCell; rw [hs]⟩

/-- a class WITHOUT a node is not printed on the card at all: the node is what the exactly-once theorems rest on -/
theorem C09_slot_needed (close : Rat → Rat → Bool) (flags : Flags) (c : Cell) (sl : List K) (k : K) (hk : k ∉ sl) :
    ∀ q ∈ sl.flatMap (formatCellInst close flags c), q.k ≠ k := by
  intro q hq
  obtain ⟨k', hk', hq'⟩ := List.mem_flatMap.mp hq
  rw [formatCellInst_class close flags c k' q hq']
  intro h
  exact hk (h ▸ hk')

/-- the keyword table of the lexer that reads cell cards, as extracted on this run: `imp` is the only keyword that
    contains `imp` (so the IMP-only guard of the second loop cannot hide the IMP node behind another parameter's
    prefix), while the prefix `u` of the universe class is inside other keywords — the guard must stay IMP-only -/
theorem C09_cell_keywords :
    (∀ kw ∈ Gen.cellLexerKeywords, hasInfix K.imp.pfxC kw.toList = true → kw = K.imp.pfx) ∧
    (∀ k ∈ K.all, k.pfx ∈ Gen.cellLexerKeywords) ∧
    (∃ kw ∈ Gen.cellLexerKeywords, kw ≠ K.u.pfx ∧ hasInfix K.u.pfxC kw.toList = true) := by
  refine ⟨by decide, by decide, "nonu", by decide, by decide, by decide⟩

/-- non-vacuity and the shape of the defect the IMP-only guard excludes: a card `imp:n=1 nonu=1 unc:n=0 tmp1=2.5e-8`
    keeps a node for all five classes, and a cell in universe 5 with U printed in the cell block gets `u=5` -/
example :
    let ps : List Param := [⟨"imp:n".toList, "imp".toList⟩, ⟨"nonu".toList, "nonu".toList⟩, ⟨"unc:n".toList, "unc".toList⟩,
                            ⟨"tmp1".toList, "tmp".toList⟩]
    let c : Cell := ⟨1, [⟨0, 1, [0]⟩], none, some 5, false, none, none, false, false, ⟨true, false, false, false, false⟩⟩
    impKeysAreImp ps = true ∧ slots ps = K.all ∧
      formatCellTree (fun a b => a == b) ⟨true, true, false, true, true⟩ c ps = .cell 1 [⟨K.u, [], 5⟩] := by
  decide


end MontePyVerif.C09
