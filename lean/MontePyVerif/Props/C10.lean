import MontePyVerif.Model.Wrap
import MontePyVerif.Gen.CommentProbe
import MontePyVerif.Spec.Text
/-! # C10 — written lines obey MCNP's physical line rules without changing content -/
namespace MontePyVerif.C10
open MontePyVerif MontePyVerif.Wrap

/-- what the proofs need from the tables of the code: every regime leaves room behind the continuation indent
    and behind the `     $ ` prefix of a continued comment; the default version is in the table; the TextWrapper
    is configured as the model assumes. -/
theorem C10_tables :
    (∀ e ∈ Gen.lineLength, Gen.blankSpaceContinue + 2 < e.2) ∧
    (Gen.lineLength.lookup Gen.defaultVersion).isSome = true ∧
    Gen.textwrapBreakLongWords = true ∧ Gen.textwrapMaxLinesIsNone = true ∧
    -- the configuration Model/Wrap.lean mirrors (a change of the TextWrapper call re-opens this proof)
    Gen.wrapDropWhitespace = false ∧ Gen.wrapBreakOnHyphens = false ∧ Gen.wrapBreakLongWords = true ∧
    Gen.wrapExpandTabs = true ∧ Gen.wrapReplaceWhitespace = true := by decide

set_option maxRecDepth 20000 in
/-- C10_comment_probe — the model's comment-line test and the working tree's `MCNP_Object._is_comment_line` give the
    same answer on every probe of the generated list (comment markers and data words that merely begin with c —
    `c14`, `cf4`, `cut:n`, `ctme` … — with 0..5 leading blanks, followed by nothing, a blank, a letter or a digit).
    The probe answers are measured on the code at every run (tools/extractors/c10_comment_probe.py): a change of the
    code's test re-opens this proof. -/
theorem C10_comment_probe : ∀ p ∈ Gen.commentLineProbes, isCommentLine p.1 = p.2 := by decide

/-! ## the greedy-fill invariant of `_wrap_chunks` -/

theorem fillLine_append (width : Nat) : ∀ (chunks : List Str) (curLen : Nat),
    (fillLine width curLen chunks).1 ++ (fillLine width curLen chunks).2 = chunks
  | [], _ => by simp [fillLine]
  | c :: rest, curLen => by
    unfold fillLine
    split
    · simp [fillLine_append width rest (curLen + c.length)]
    · simp

theorem fillLine_len (width : Nat) : ∀ (chunks : List Str) (curLen : Nat), curLen ≤ width →
    curLen + (fillLine width curLen chunks).1.flatten.length ≤ width
  | [], _, h => by simp [fillLine]; exact h
  | c :: rest, curLen, h => by
    unfold fillLine
    split
    · rename_i hfit
      have := fillLine_len width rest (curLen + c.length) hfit
      simp only [List.flatten_cons, List.length_append]; omega
    · simp; exact h

theorem finishLine_flatten (width : Nat) (taken rest : List Str) :
    (finishLine width taken rest).1.flatten ++ (finishLine width taken rest).2.flatten = taken.flatten ++ rest.flatten := by
  cases rest with
  | nil => simp [finishLine]
  | cons c rest' =>
    simp only [finishLine]
    split
    · simp [List.flatten_append, List.append_assoc]
      rw [← List.append_assoc (List.take _ c), List.take_append_drop]
    · rfl

theorem finishLine_len (width : Nat) (taken rest : List Str) (hw : 1 ≤ width) (h : taken.flatten.length ≤ width) :
    (finishLine width taken rest).1.flatten.length ≤ width := by
  cases rest with
  | nil => simpa [finishLine] using h
  | cons c rest' =>
    simp only [finishLine]
    split
    · have : ¬ width < 1 := by omega
      simp only [this, if_false, List.flatten_append, List.length_append, List.flatten_cons, List.flatten_nil,
        List.append_nil, List.length_take]
      omega
    · exact h

theorem oneLine_flatten (width : Nat) (chunks : List Str) :
    (oneLine width chunks).1.flatten ++ (oneLine width chunks).2.flatten = chunks.flatten := by
  unfold oneLine
  rw [finishLine_flatten, ← List.flatten_append, fillLine_append]

theorem oneLine_len (width : Nat) (chunks : List Str) (hw : 1 ≤ width) :
    (oneLine width chunks).1.flatten.length ≤ width := by
  unfold oneLine
  apply finishLine_len _ _ _ hw
  have := fillLine_len width chunks 0 (Nat.zero_le _)
  omega

/-- `_wrap_chunks`: every line fits, provided both indents leave at least one column. -/
theorem wrapChunks_width (W : Nat) (init subs : Str) (hi : init.length < W) (hs : subs.length < W)
    (first : Bool) (chunks : List Str) :
    ∀ l ∈ wrapChunks W init subs first chunks, l.length ≤ W := by
  fun_induction wrapChunks W init subs first chunks with
  | case1 => simp
  | case2 first c rest indent r hempty ih => exact ih
  | case3 first c rest indent r hne ih =>
    intro l hl
    simp only [List.mem_cons] at hl
    rcases hl with rfl | hl
    · have hind : indent.length < W := by
        simp only [indent]; split <;> assumption
      have := oneLine_len (W - indent.length) (c :: rest) (by omega)
      simp only [List.length_append]
      simp only [r] at *
      omega
    · exact ih l hl

/-- the text of a wrapped paragraph with the indents taken off again -/
def unindent (init subs : Str) : Bool → List Str → Str
  | _, [] => []
  | first, l :: ls => l.drop (if first then init.length else subs.length) ++ unindent init subs false ls

/-- `_wrap_chunks` neither loses nor invents a character: taking the indents off and concatenating gives the
    chunks back (greedy-fill invariant, all chunk lists, all widths). -/
theorem wrapChunks_flatten (W : Nat) (init subs : Str) (first : Bool) (chunks : List Str) :
    unindent init subs first (wrapChunks W init subs first chunks) = chunks.flatten := by
  fun_induction wrapChunks W init subs first chunks with
  | case1 => simp [unindent]
  | case2 first c rest indent r hempty ih =>
    rw [ih]
    have h := oneLine_flatten (W - indent.length) (c :: rest)
    have h1 : r.1 = [] := by simpa using hempty
    simp only [r] at h1
    rw [h1] at h
    simpa using h
  | case3 first c rest indent r hne ih =>
    simp only [unindent]
    rw [ih]
    have h := oneLine_flatten (W - indent.length) (c :: rest)
    have : (indent ++ r.1.flatten).drop (if first then init.length else subs.length) = r.1.flatten := by
      have : (if first then init.length else subs.length) = indent.length := by
        simp only [indent]; split <;> rfl
      rw [this, List.drop_left]
    rw [this]
    exact h

/-! ## `_split` -/

theorem splitChunks_flatten : ∀ (t : Str), (splitChunks t).flatten = t
  | [] => by simp [splitChunks]
  | c :: rest => by
    have ih := splitChunks_flatten rest
    unfold splitChunks
    split
    · rename_i d ds more heq
      rw [heq] at ih
      split <;> simp_all
    · rename_i more heq
      rw [heq] at ih
      simp_all
    · rename_i heq
      rw [heq] at ih
      simp_all

/-- C10_flatten — `TextWrapper.wrap` (as configured by MontePy) neither loses nor invents a character, for every
    text and width: the lines with their indents taken off concatenate to the (tab-expanded) text. -/
theorem C10_flatten (W : Nat) (init subs text : Str) :
    unindent init subs true (textwrapWrap W init subs text) = munge text := by
  unfold textwrapWrap
  rw [wrapChunks_flatten, splitChunks_flatten]

theorem textwrapWrap_width (W : Nat) (init subs text : Str) (hi : init.length < W) (hs : subs.length < W) :
    ∀ l ∈ textwrapWrap W init subs text, l.length ≤ W :=
  wrapChunks_width W init subs hi hs true _

/-! ## `_wrap_line` -/

theorem leadBlanks_le (l : Str) : leadBlanks l ≤ l.length := by
  fun_induction leadBlanks l <;> simp <;> omega

theorem mem_dropLast_append {α} (ret : List α) (x l : α) (h : l ∈ ret.dropLast ++ [x]) : l ∈ ret ∨ l = x := by
  simp only [List.mem_append, List.mem_singleton] at h
  rcases h with h | h
  · exact Or.inl (List.dropLast_subset _ h)
  · exact Or.inr h

/-- every line `_wrap_line` returns fits the line length, whatever the line (no exception: an over-long word is cut). -/
theorem wrapLine_width (line : Str) (W : Nat) (init subs : Str)
    (hi : init.length < W) (hs : subs.length + 2 < W) (h6 : Gen.blankSpaceContinue + 1 < W) :
    ∀ l ∈ wrapLine line W init subs, l.length ≤ W := by
  intro l hl
  unfold wrapLine at hl
  simp only at hl
  split at hl
  · rename_i hc
    split at hl
    · simp only [List.mem_singleton] at hl; subst hl; assumption
    · refine textwrapWrap_width W [] _ _ (by simp; omega) ?_ l hl
      have hlead : leadBlanks (expandTabs Gen.tabSize line) < Gen.blankSpaceContinue := by
        simp only [isCommentLine, Bool.and_eq_true, decide_eq_true_eq] at hc
        exact hc.1
      simp only [List.length_append, List.length_take, List.length_singleton]
      omega
  · split at hl
    · simp only [List.mem_singleton] at hl; subst hl
      simpa using (by assumption : init.length + (expandTabs Gen.tabSize line).length ≤ W)
    · have hret : ∀ x ∈ (textwrapWrap W init subs (partitionDollar (expandTabs Gen.tabSize line)).1).filter stripNonEmpty,
          x.length ≤ W := by
        intro x hx
        exact textwrapWrap_width W init subs _ hi (by omega) x (List.mem_filter.mp hx).1
      have hcom : ∀ x ∈ textwrapWrap W subs (subs ++ ['$', ' ']) ('$' :: (partitionDollar (expandTabs Gen.tabSize line)).2.2),
          x.length ≤ W :=
        textwrapWrap_width W subs _ _ (by omega) (by simp; omega)
      split at hl
      · split at hl
        · split at hl
          · rcases mem_dropLast_append _ _ _ hl with h | h
            · exact hret l h
            · subst h; simp only [List.length_append]; assumption
          · rcases List.mem_append.mp hl with h | h
            · exact hret l h
            · exact hcom l h
        · rcases List.mem_append.mp hl with h | h
          · exact hret l h
          · exact hcom l h
      · exact hret l hl

/-! ## `wrap_string_for_mcnp` -/

theorem foldl_wrap_all (P : Str → Prop) (W : Nat) (init subs : Str)
    (hline : ∀ line, ∀ l ∈ wrapLine line W init subs, P l) :
    ∀ (lines : List Str) (acc : List Str × Nat), (∀ l ∈ acc.1, P l) →
      ∀ l ∈ (lines.foldl (fun (acc : List Str × Nat) line =>
        if stripNonEmpty line then
          let buffer := wrapLine line W init subs
          (acc.1 ++ buffer, if buffer.length > 1 then acc.2 + 1 else acc.2)
        else acc) acc).1, P l
  | [], acc, h => by simpa using h
  | line :: rest, acc, h => by
    simp only [List.foldl_cons]
    apply foldl_wrap_all P W init subs hline rest
    split
    · intro l hl
      rcases List.mem_append.mp hl with h1 | h1
      · exact h l h1
      · exact hline line l h1
    · exact h

theorem length_blanks (n : Nat) : (blanks n).length = n := by simp [blanks]

/-- C10_width_string — every line `wrap_string_for_mcnp` produces for line length `W` has at most `W` characters:
    all strings, both values of `is_first_line`, every `W` that leaves two columns behind the continuation indent. -/
theorem C10_width_string (s : Str) (W : Nat) (isFirst : Bool) (hW : Gen.blankSpaceContinue + 2 < W) :
    ∀ l ∈ (wrapStringWith s W isFirst).1, l.length ≤ W := by
  unfold wrapStringWith
  apply foldl_wrap_all (fun l => l.length ≤ W)
  · intro line
    apply wrapLine_width
    · split
      · simp; omega
      · rw [length_blanks]; omega
    · rw [length_blanks]; omega
    · omega
  · simp

theorem lookup_mem {α β} [BEq α] : ∀ (l : List (α × β)) (a : α) (b : β), l.lookup a = some b → ∃ a', (a', b) ∈ l
  | [], _, _, h => by simp [List.lookup] at h
  | (k, v) :: rest, a, b, h => by
    simp only [List.lookup] at h
    split at h
    · cases h; exact ⟨k, List.mem_cons_self⟩
    · obtain ⟨a', h'⟩ := lookup_mem rest a b h
      exact ⟨a', List.mem_cons_of_mem _ h'⟩

theorem getMaxLineLength_mem (v : Version) (n : Nat) (h : getMaxLineLength v = .ok n) :
    ∃ e ∈ Gen.lineLength, e.2 = n := by
  unfold getMaxLineLength at h
  split at h
  · split at h
    · rename_i m hm
      cases h
      obtain ⟨a, ha⟩ := lookup_mem _ _ _ hm
      exact ⟨_, ha, rfl⟩
    · cases h
  · split at h
    · rename_i m hm
      cases h
      obtain ⟨a, ha⟩ := lookup_mem _ _ _ hm
      exact ⟨_, ha, rfl⟩
    · cases h

/-- C10_width — for every version of the code's `LINE_LENGTH` table (consumed from the generated file), every
    string and either `is_first_line`: whenever `wrap_string_for_mcnp` returns, each line fits that version's limit. -/
theorem C10_width (v : Version) (s : Str) (isFirst : Bool) (r : List Str × Nat) (n : Nat)
    (hn : getMaxLineLength v = .ok n) (h : wrapStringForMcnp s v isFirst = .ok r) :
    ∀ l ∈ r.1, l.length ≤ n := by
  obtain ⟨e, he, hen⟩ := getMaxLineLength_mem v n hn
  have hW : Gen.blankSpaceContinue + 2 < n := hen ▸ C10_tables.1 e he
  unfold wrapStringForMcnp at h
  rw [hn] at h
  simp only at h
  split at h
  · cases h
  · cases h
    exact C10_width_string s n isFirst hW

/-- non-vacuity: all three listed versions and every later one have a line length -/
example : getMaxLineLength (6, 1, 0) = .ok 80 ∧ getMaxLineLength (5, 1, 60) = .ok 80 ∧
    getMaxLineLength (6, 2, 0) = .ok 128 ∧ getMaxLineLength (7, 0, 0) = .ok 128 ∧
    getMaxLineLength (5, 1, 0) = .error .unsupportedFeature := by
  refine ⟨?_, ?_, ?_, ?_, ?_⟩ <;> rfl

/-- C10_title_message_width — title and message lines are cut to at most limit columns (all of them are kept since the repair of mcnp_input.py: limit-1 before). -/
theorem sliceTo_length (s : Str) (k : Int) (n : Nat) (h0 : 0 ≤ k) (h : k ≤ n) : (sliceTo s k).length ≤ n := by
  unfold sliceTo
  split
  · simp only [List.length_take]; omega
  · omega

theorem C10_title_message_width (v : Version) (n : Nat) (hn : getMaxLineLength v = .ok n) :
    (∀ title ls, titleFormat title v = .ok ls → ∀ l ∈ ls, l.length ≤ n) ∧
    (∀ msg ls, messageFormat msg v = .ok ls → ∀ l ∈ ls, l.length ≤ n) := by
  obtain ⟨e, he, hen⟩ := getMaxLineLength_mem v n hn
  have hW : Gen.blankSpaceContinue + 2 < n := hen ▸ C10_tables.1 e he
  have h10 : 10 ≤ n := by
    have := C10_tables.1 e he
    revert he this
    subst hen
    intro he
    have : ∀ e ∈ Gen.lineLength, 10 ≤ e.2 := by decide
    exact fun _ => this e he
  constructor
  · intro title ls h l hl
    unfold titleFormat at h
    rw [hn] at h
    cases h
    simp only [List.mem_singleton] at hl
    subst hl
    exact sliceTo_length _ _ _ (by omega) (by omega)
  · intro msg ls h l hl
    unfold messageFormat at h
    rw [hn] at h
    cases h
    simp only [List.mem_append, List.mem_singleton] at hl
    rcases hl with hl | hl
    · cases msg with
      | nil => simp at hl
      | cons m rest =>
        simp only [List.mem_cons, List.mem_map] at hl
        rcases hl with hl | ⟨x, _, hx⟩
        · subst hl
          have := sliceTo_length m ((n : Int) - 9) (n - 9) (by omega) (by omega)
          simp only [List.length_append]
          have h9 : "MESSAGE: ".toList.length = 9 := by decide
          omega
        · subst hx
          exact sliceTo_length _ _ _ (by omega) (by omega)
    · subst hl; simp

/-! ## content: the data words survive wrapping (Spec.Text.words of the continuation lines) -/
open _root_.MontePyVerif.Spec.Text (words wordsAux)

theorem wordsAux_snoc_blank : ∀ (a cur : Str), wordsAux (a ++ [' ']) cur = wordsAux a cur
  | [], cur => by simp [wordsAux]
  | c :: a, cur => by
    simp only [List.cons_append, wordsAux]
    split
    · split <;> simp [wordsAux_snoc_blank a]
    · exact wordsAux_snoc_blank a _

theorem wordsAux_append_blank : ∀ (a b cur : Str),
    wordsAux (a ++ ' ' :: b) cur = wordsAux (a ++ [' ']) cur ++ wordsAux b []
  | [], b, cur => by
    simp only [List.nil_append, wordsAux]
    simp
    split <;> simp
  | c :: a, b, cur => by
    simp only [List.cons_append, wordsAux]
    split
    · split <;> simp [wordsAux_append_blank a b]
    · exact wordsAux_append_blank a b _

/-- the break between `a` and `b` is a word boundary -/
def Sep (a b : Str) : Prop := a = [] ∨ b = [] ∨ (∃ a', a = a' ++ [' ']) ∨ (∃ b', b = ' ' :: b')

theorem words_blank_cons (b : Str) : words (' ' :: b) = words b := by
  simp [words, wordsAux]

/-- reading two pieces separately gives the words of the whole when the break is a word boundary -/
theorem words_append_of_sep (a b : Str) (h : Sep a b) : words (a ++ b) = words a ++ words b := by
  rcases h with h | h | ⟨a', h⟩ | ⟨b', h⟩
  · subst h; simp [words, wordsAux]
  · subst h; simp [words, wordsAux]
  · subst h
    simp only [words, List.append_assoc, List.singleton_append]
    rw [wordsAux_append_blank]
  · subst h
    rw [words_blank_cons]
    simp only [words]
    rw [wordsAux_append_blank, wordsAux_snoc_blank]

theorem words_blanks_append (n : Nat) (b : Str) : words (blanks n ++ b) = words b := by
  induction n with
  | zero => simp [blanks]
  | succ k ih =>
    have : blanks (k + 1) ++ b = ' ' :: (blanks k ++ b) := by simp [blanks, List.replicate_succ]
    rw [this, words_blank_cons, ih]

/-- a blank chunk -/
def WsC (c : Str) : Prop := ∀ x ∈ c, x = ' '

/-- chunk lists as `_split` produces them from munged text: no empty chunk, and of two neighbours one is blanks -/
def Chain : List Str → Prop
  | [] => True
  | [c] => c ≠ []
  | a :: b :: rest => a ≠ [] ∧ (WsC a ∨ WsC b) ∧ Chain (b :: rest)

theorem Chain.head_ne {c : Str} {rest : List Str} (h : Chain (c :: rest)) : c ≠ [] := by
  cases rest with
  | nil => exact h
  | cons b r => exact h.1

theorem Chain.tail {c : Str} {rest : List Str} (h : Chain (c :: rest)) : Chain rest := by
  cases rest with
  | nil => trivial
  | cons b r => exact h.2.2

theorem Chain.drop_left : ∀ (t r : List Str), Chain (t ++ r) → Chain r
  | [], _, h => h
  | _ :: t, r, h => Chain.drop_left t r (Chain.tail h)

theorem flatten_ne_nil_of_chain {c : Str} {rest : List Str} (h : Chain (c :: rest)) : (c :: rest).flatten ≠ [] := by
  have := Chain.head_ne h
  simp only [List.flatten_cons, ne_eq, List.append_eq_nil_iff, not_and]
  intro h1; exact absurd h1 this

theorem sep_prepend (a x r : Str) (hx : x ≠ []) (h : Sep x r) : Sep (a ++ x) r := by
  rcases h with h | h | ⟨x', h⟩ | h
  · exact absurd h hx
  · exact Or.inr (Or.inl h)
  · exact Or.inr (Or.inr (Or.inl ⟨a ++ x', by rw [h, List.append_assoc]⟩))
  · exact Or.inr (Or.inr (Or.inr h))

theorem wsC_ends : ∀ {a : Str}, a ≠ [] → WsC a → ∃ a', a = a' ++ [' ']
  | [], h, _ => absurd rfl h
  | [x], _, hw => ⟨[], by simp [hw x List.mem_cons_self]⟩
  | x :: y :: r, _, hw => by
    obtain ⟨a', h⟩ := wsC_ends (a := y :: r) (by simp) (fun z hz => hw z (List.mem_cons_of_mem _ hz))
    exact ⟨x :: a', by rw [h]; rfl⟩

/-- every place where a chain of chunks can be cut is a word boundary -/
theorem sep_of_chain : ∀ (t r : List Str), Chain (t ++ r) → Sep t.flatten r.flatten
  | [], _, _ => Or.inl rfl
  | [a], [], _ => Or.inr (Or.inl rfl)
  | [a], b :: r, h => by
    have h' : Chain (a :: b :: r) := h
    rcases h'.2.1 with hw | hw
    · obtain ⟨a', ha⟩ := wsC_ends h'.1 hw
      exact Or.inr (Or.inr (Or.inl ⟨a', by simpa using ha⟩))
    · have hb : b ≠ [] := Chain.head_ne h'.2.2
      cases b with
      | nil => exact absurd rfl hb
      | cons x b' =>
        have : x = ' ' := hw x List.mem_cons_self
        subst this
        exact Or.inr (Or.inr (Or.inr ⟨b' ++ r.flatten, by simp⟩))
  | a :: a2 :: t, r, h => by
    have h' : Chain (a :: (a2 :: t ++ r)) := h
    have ih := sep_of_chain (a2 :: t) r (Chain.tail h')
    have hne : (a2 :: t).flatten ≠ [] := by
      have : Chain (a2 :: (t ++ r)) := Chain.tail h'
      have := Chain.head_ne this
      simp only [List.flatten_cons, ne_eq, List.append_eq_nil_iff, not_and]
      intro h1; exact absurd h1 this
    simpa using sep_prepend a _ _ hne ih

/-- without an over-long chunk `_handle_long_word` is never entered -/
theorem oneLine_eq_fillLine (width : Nat) (chunks : List Str) (hb : ∀ c ∈ chunks, c.length ≤ width) :
    oneLine width chunks = fillLine width 0 chunks := by
  unfold oneLine
  have happ := fillLine_append width chunks 0
  generalize fillLine width 0 chunks = r at happ
  obtain ⟨r1, r2⟩ := r
  simp only at happ ⊢
  cases r2 with
  | nil => rfl
  | cons c rest =>
    have : c ∈ chunks := by rw [← happ]; simp
    have := hb c this
    simp only [finishLine]
    rw [if_neg (by omega)]

/-- C10_words, chunk level: when no chunk is longer than what a continuation line can hold and the indents are
    blanks, the words MCNP reads from the wrapped lines are the words of the unwrapped text — for every chunk chain,
    by induction over the greedy fill. -/
theorem wrapChunks_words (W ni ns : Nat) (first : Bool) (chunks : List Str)
    (hc : Chain chunks) (hb : ∀ c ∈ chunks, c.length ≤ W - ni ∧ c.length ≤ W - ns) :
    ((wrapChunks W (blanks ni) (blanks ns) first chunks).map words).flatten = words chunks.flatten := by
  fun_induction wrapChunks W (blanks ni) (blanks ns) first chunks with
  | case1 => simp [words, wordsAux]
  | case2 first c rest indent r hempty ih =>
    have hwid : ∀ x ∈ c :: rest, x.length ≤ W - indent.length := by
      intro x hx
      simp only [indent]
      split <;> simp only [length_blanks]
      · exact (hb x hx).1
      · exact (hb x hx).2
    have heq := oneLine_eq_fillLine _ _ hwid
    have happ := fillLine_append (W - indent.length) (c :: rest) 0
    have h1 : r.1 = [] := by simpa using hempty
    simp only [r] at h1 ih ⊢
    rw [← heq] at happ
    rw [h1] at happ
    simp only [List.nil_append] at happ
    rw [happ] at ih ⊢
    exact ih hc hb
  | case3 first c rest indent r hne ih =>
    have hwid : ∀ x ∈ c :: rest, x.length ≤ W - indent.length := by
      intro x hx
      simp only [indent]
      split <;> simp only [length_blanks]
      · exact (hb x hx).1
      · exact (hb x hx).2
    have heq := oneLine_eq_fillLine _ _ hwid
    have happ := fillLine_append (W - indent.length) (c :: rest) 0
    rw [← heq] at happ
    simp only [r] at ih ⊢
    have hc2 : Chain (oneLine (W - indent.length) (c :: rest)).2 := by
      apply Chain.drop_left (oneLine (W - indent.length) (c :: rest)).1
      rw [happ]; exact hc
    have hb2 : ∀ x ∈ (oneLine (W - indent.length) (c :: rest)).2, x.length ≤ W - ni ∧ x.length ≤ W - ns := by
      intro x hx
      apply hb
      rw [← happ]
      exact List.mem_append_right _ hx
    simp only [List.map_cons, List.flatten_cons]
    rw [ih hc2 hb2]
    have hind : ∃ k, indent = blanks k := by
      simp only [indent]; split
      · exact ⟨ni, rfl⟩
      · exact ⟨ns, rfl⟩
    obtain ⟨k, hk⟩ := hind
    have hw1 : ∀ X, words (indent ++ X) = words X := by
      intro X; rw [hk, words_blanks_append]
    rw [hw1]
    rw [← words_append_of_sep]
    · rw [← List.flatten_append, happ]; rfl
    · apply sep_of_chain
      rw [happ]; exact hc

/-- what `_split` guarantees about its first chunk (needed to push the chain property through the recursion) -/
def HeadProp : List Str → Prop
  | (d :: ds) :: _ => isTwWs d = true → WsC (d :: ds)
  | [] :: _ => False
  | [] => True

theorem isTwWs_blank : isTwWs ' ' = true := by decide

theorem splitChunks_chain : ∀ (t : Str), (∀ x ∈ t, isTwWs x = true → x = ' ') →
    Chain (splitChunks t) ∧ HeadProp (splitChunks t)
  | [], _ => by simp [splitChunks, Chain, HeadProp]
  | c :: rest, hws => by
    have ih := splitChunks_chain rest (fun x hx => hws x (List.mem_cons_of_mem _ hx))
    have hc : isTwWs c = true → c = ' ' := hws c List.mem_cons_self
    unfold splitChunks
    split
    · rename_i d ds more heq
      rw [heq] at ih
      obtain ⟨ihc, ihh⟩ := ih
      simp only [HeadProp] at ihh
      split
      · rename_i hm
        have hm' : isTwWs c = isTwWs d := by simpa using hm
        have hhead : isTwWs c = true → WsC (c :: d :: ds) := by
          intro h1 x hx
          simp only [List.mem_cons] at hx
          rcases hx with rfl | hx
          · exact hc h1
          · exact ihh (hm' ▸ h1) x (by simpa using hx)
        refine ⟨?_, hhead⟩
        cases more with
        | nil => simp [Chain]
        | cons b m =>
          obtain ⟨_, hor, hrest⟩ := ihc
          refine ⟨by simp, ?_, hrest⟩
          rcases hor with hw | hw
          · left
            have hd : d = ' ' := hw d List.mem_cons_self
            apply hhead
            rw [hm', hd]; exact isTwWs_blank
          · right; exact hw
      · rename_i hm
        have hm' : isTwWs c ≠ isTwWs d := by simpa using hm
        refine ⟨⟨by simp, ?_, ihc⟩, ?_⟩
        · cases h1 : isTwWs c with
          | true =>
            left; intro x hx
            simp only [List.mem_singleton] at hx
            subst hx; exact hc h1
          | false =>
            right; apply ihh
            cases h2 : isTwWs d with
            | true => rfl
            | false => rw [h1, h2] at hm'; exact absurd rfl hm'
        · simp only [HeadProp]
          intro h1 x hx
          simp only [List.mem_singleton] at hx
          subst hx; exact hc h1
    · rename_i more heq
      rw [heq] at ih
      exact absurd ih.2 (by simp [HeadProp])
    · simp only [Chain, HeadProp]
      refine ⟨by simp, ?_⟩
      intro h1 x hx
      simp only [List.mem_singleton] at hx
      subst hx; exact hc h1

theorem munge_ws (text : Str) : ∀ x ∈ munge text, isTwWs x = true → x = ' ' := by
  intro x hx hw
  have hflag : Gen.textwrapReplaceWhitespace = true := by decide
  simp only [munge, hflag, if_true, List.mem_map] at hx
  obtain ⟨y, _, hy⟩ := hx
  by_cases h : isTwWs y = true
  · simp [h] at hy; exact hy.symm
  · simp [h] at hy; subst hy; exact absurd hw h

/-- the exception, stated precisely: some chunk of the text (a word, or a run of blanks) is longer than what a
    continuation line can hold -/
def NoLongChunk (W ni ns : Nat) (text : Str) : Prop :=
  ∀ c ∈ splitChunks (munge text), c.length ≤ W - ni ∧ c.length ≤ W - ns

instance (W ni ns : Nat) (text : Str) : Decidable (NoLongChunk W ni ns text) := by
  unfold NoLongChunk; infer_instance

/-- C10_words — `TextWrapper.wrap` as MontePy configures it, with blank indents: for EVERY text and EVERY width,
    if no chunk is over-long, the words MCNP reads from the wrapped lines (each continuation line read by
    `Spec.Text.words`) are exactly the words of the unwrapped text, in order. -/
theorem C10_words (W ni ns : Nat) (text : Str) (h : NoLongChunk W ni ns text) :
    ((textwrapWrap W (blanks ni) (blanks ns) text).map words).flatten = words (munge text) := by
  unfold textwrapWrap
  rw [wrapChunks_words W ni ns true _ (splitChunks_chain _ (munge_ws text)).1 h, splitChunks_flatten]

/-- non-vacuity of the hypothesis -/
example : NoLongChunk 80 0 5 "1 0 -1 -2 imp:n=1 be-met.40t".toList := by decide

/-! ## the content clause at full strength, its refutation by the code, and the partial theorem -/

/-- "the words of the wrapped data are the words of the unwrapped data", for every regime of the code's table and
    every text, with no side condition -/
def C10_content_statement : Prop :=
  ∀ e ∈ Gen.lineLength, ∀ text : Str,
    ((textwrapWrap e.2 [] (blanks Gen.blankSpaceContinue) text).map words).flatten = words (munge text)

def longWordWitness : Str := "1 0 hhhhhhhhhhhhhhhhhhhhhhhhhhhhhhhhhhhhhhhhhhhhhhhhhhhhhhhhhhhhhhhhhhhhhhhhhhhhh".toList

set_option maxRecDepth 4000 in
theorem longWordWitness_wrapped :
    textwrapWrap 80 [] (blanks 5) "1 0 hhhhhhhhhhhhhhhhhhhhhhhhhhhhhhhhhhhhhhhhhhhhhhhhhhhhhhhhhhhhhhhhhhhhhhhhhhhhh".toList = ["1 0 ".toList, "     hhhhhhhhhhhhhhhhhhhhhhhhhhhhhhhhhhhhhhhhhhhhhhhhhhhhhhhhhhhhhhhhhhhhhhhhhhh".toList, "     hh".toList] := by
  simp [textwrapWrap, munge, expandTabs, expandTabsAux, splitChunks, wrapChunks, oneLine, fillLine,
    finishLine, blanks, isTwWs, Gen.textwrapExpandTabs, Gen.textwrapReplaceWhitespace, Gen.textwrapWhitespaceCodes,
    Gen.textwrapTabsize]

set_option maxRecDepth 4000 in
theorem longWordWitness_differs :
    ((textwrapWrap 80 [] (blanks 5) "1 0 hhhhhhhhhhhhhhhhhhhhhhhhhhhhhhhhhhhhhhhhhhhhhhhhhhhhhhhhhhhhhhhhhhhhhhhhhhhhh".toList).map words).flatten ≠ words (munge "1 0 hhhhhhhhhhhhhhhhhhhhhhhhhhhhhhhhhhhhhhhhhhhhhhhhhhhhhhhhhhhhhhhhhhhhhhhhhhhhh".toList) := by
  rw [longWordWitness_wrapped]
  simp [words, wordsAux, munge, expandTabs, expandTabsAux, isTwWs, Gen.textwrapExpandTabs, Gen.textwrapReplaceWhitespace,
    Gen.textwrapWhitespaceCodes, Gen.textwrapTabsize]

/-- C10_content_refuted — the code refutes the unconditional statement: in the 80-column regime the 77-character
    word of `1 0 hhh…h` fits on no continuation line (75 columns) and `break_long_words` cuts it in two
    (known finding C10-F1). -/
theorem C10_content_refuted : ¬ C10_content_statement := by
  intro h
  have h80 : (((6, 1, 0), 80) : (Nat × Nat × Nat) × Nat) ∈ Gen.lineLength := by decide
  exact longWordWitness_differs (h ((6, 1, 0), 80) h80 longWordWitness)

/-- C10_content_data (the partial theorem) — for every regime of the table and every text without an over-long
    chunk the words are preserved. -/
theorem C10_content_data : ∀ e ∈ Gen.lineLength, ∀ text : Str,
    NoLongChunk e.2 0 Gen.blankSpaceContinue text →
    ((textwrapWrap e.2 [] (blanks Gen.blankSpaceContinue) text).map words).flatten = words (munge text) := by
  intro e _ text h
  have := C10_words e.2 0 Gen.blankSpaceContinue text h
  simpa [blanks] using this

example : NoLongChunk 80 0 Gen.blankSpaceContinue
    "mt1 lwtr.20t be-met.40t".toList := by decide

/-! ## indentation of continuation lines; comments stay comments -/

theorem wrapChunks_indent_rest (W : Nat) (init subs : Str) (chunks : List Str) :
    ∀ l ∈ wrapChunks W init subs false chunks, subs <+: l := by
  generalize hf : false = first
  fun_induction wrapChunks W init subs first chunks with
  | case1 => simp
  | case2 first c rest indent r hempty ih => exact ih hf
  | case3 first c rest indent r hne ih =>
    intro l hl
    simp only [List.mem_cons] at hl
    rcases hl with rfl | hl
    · subst hf
      simp only [indent]
      exact List.prefix_append _ _
    · exact ih rfl l hl

/-- C10_indent — every line `TextWrapper.wrap` produces after the first one starts with the subsequent indent
    (for MontePy: `BLANK_SPACE_CONTINUE` blanks for data, `     $ ` for a continued `$` comment, `c ` for a continued
    comment line), for every text and width. -/
theorem C10_indent (W : Nat) (init subs text : Str) :
    ∀ l ∈ (textwrapWrap W init subs text).tail, subs <+: l := by
  unfold textwrapWrap
  generalize splitChunks (munge text) = chunks
  generalize ht : true = first
  fun_induction wrapChunks W init subs first chunks with
  | case1 => simp
  | case2 first c rest indent r hempty ih => exact ih ht
  | case3 first c rest indent r hne ih =>
    simp only [List.tail_cons]
    exact wrapChunks_indent_rest W init subs _

theorem commentWithin_blanks (k n : Nat) (c : Char) (rest : Str) (hk : k < n) (hc : c = 'c' ∨ c = 'C') :
    Spec.Text.commentWithin n (blanks k ++ c :: ' ' :: rest) = true := by
  induction k generalizing n with
  | zero =>
    cases n with
    | zero => omega
    | succ m =>
      simp only [blanks, List.replicate_zero, List.nil_append, Spec.Text.commentWithin]
      rcases hc with rfl | rfl <;> simp
  | succ j ih =>
    cases n with
    | zero => omega
    | succ m =>
      have : blanks (j + 1) ++ c :: ' ' :: rest = ' ' :: (blanks j ++ c :: ' ' :: rest) := by
        simp [blanks, List.replicate_succ]
      rw [this]
      simp only [Spec.Text.commentWithin]
      simpa using ih m (by omega)

/-- C10_comment_stays_comment — (a) a line that starts with the prefix a wrapped C comment is continued with
    (fewer than five blanks, `c`/`C`, a blank) is a comment line for MCNP; (b) every continuation line of a wrapped
    C comment does start with that prefix; (c) a continuation line of a wrapped `$` comment (`     $ …`) carries no
    data word. -/
theorem C10_comment_stays_comment :
    (∀ (k : Nat) (c : Char) (l : Str), k < 5 → (c = 'c' ∨ c = 'C') → (blanks k ++ [c, ' ']) <+: l →
        Spec.Text.isCommentLine l = true) ∧
    (∀ (W : Nat) (pre line : Str), ∀ l ∈ (textwrapWrap W [] pre line).tail, pre <+: l) ∧
    (∀ (l : Str), (blanks 5 ++ ['$', ' ']) <+: l → words (Spec.Text.splitDollar l).1 = []) := by
  refine ⟨?_, ?_, ?_⟩
  · intro k c l hk hc ⟨t, ht⟩
    subst ht
    have := commentWithin_blanks k 5 c t hk hc
    simpa [Spec.Text.isCommentLine] using this
  · intro W pre line
    exact C10_indent W [] pre line
  · intro l ⟨t, ht⟩
    subst ht
    simp [blanks, Spec.Text.splitDollar, words, wordsAux]

/-! ## blank lines; lines that fit -/

theorem not_blank_of_stripNonEmpty (l : Str) (h : stripNonEmpty l = true) : Spec.Text.isBlankLine l = false := by
  simp only [stripNonEmpty, List.any_eq_true, Bool.not_eq_true'] at h
  obtain ⟨c, hc, hs⟩ := h
  cases hb : Spec.Text.isBlankLine l with
  | false => rfl
  | true =>
    simp only [Spec.Text.isBlankLine, List.all_eq_true, beq_iff_eq] at hb
    have := hb c hc
    subst this
    have : pyIsSpace ' ' = true := by decide
    rw [this] at hs; cases hs

/-- C10_noblank_data — the data lines `_wrap_line` produces for a line that had to be wrapped are never blank
    (a blank line would end the block): for every line, width and indents. -/
theorem C10_noblank_data (line : Str) (W : Nat) (init subs : Str)
    (hnc : isCommentLine (expandTabs Gen.tabSize line) = false)
    (hlong : ¬ init.length + (expandTabs Gen.tabSize line).length ≤ W)
    (hnd : (partitionDollar (expandTabs Gen.tabSize line)).2.1 = false) :
    ∀ l ∈ wrapLine line W init subs, Spec.Text.isBlankLine l = false := by
  intro l hl
  unfold wrapLine at hl
  simp only [hnc, hlong, hnd, if_false, Bool.false_eq_true] at hl
  exact not_blank_of_stripNonEmpty l (List.mem_filter.mp hl).2

/-- non-vacuity: `1 0 -1` followed by 100 blanks is such a line in the 80-column regime -/
example : isCommentLine (expandTabs Gen.tabSize ("1 0 -1".toList ++ blanks 100)) = false ∧
    ¬ ([] : Str).length + (expandTabs Gen.tabSize ("1 0 -1".toList ++ blanks 100)).length ≤ 80 ∧
    (partitionDollar (expandTabs Gen.tabSize ("1 0 -1".toList ++ blanks 100))).2.1 = false := by decide

/-- C10_fits_unchanged — a line that fits is written as it is (tabs expanded, initial indent in front): nothing is
    wrapped, so it starts an input / is a comment exactly when the unwrapped line does. -/
theorem C10_fits_unchanged (line : Str) (W : Nat) (init subs : Str) :
    (isCommentLine (expandTabs Gen.tabSize line) = true → (expandTabs Gen.tabSize line).length ≤ W →
      wrapLine line W init subs = [expandTabs Gen.tabSize line]) ∧
    (isCommentLine (expandTabs Gen.tabSize line) = false → init.length + (expandTabs Gen.tabSize line).length ≤ W →
      wrapLine line W init subs = [init ++ expandTabs Gen.tabSize line]) := by
  constructor
  · intro hc hf; unfold wrapLine; simp only [hc, hf, if_true]
  · intro hc hf; unfold wrapLine; simp only [hc, hf, if_true, if_false, Bool.false_eq_true]

end MontePyVerif.C10
