import MontePyVerif.Model.Wrap
import MontePyVerif.Spec.Text
/-! # C10 — written lines obey MCNP's physical line rules without changing content -/
namespace MontePyVerif.C10
open MontePyVerif MontePyVerif.Wrap

/-- what the proofs need from the tables of the code: every regime leaves room behind the continuation indent
    and behind the `     $ ` prefix of a continued comment; the default version is in the table. -/
theorem C10_tables :
    (∀ e ∈ Gen.lineLength, Gen.blankSpaceContinue + 2 < e.2) ∧
    (Gen.lineLength.lookup Gen.defaultVersion).isSome = true ∧
    Gen.textwrapBreakLongWords = true ∧ Gen.textwrapMaxLinesIsNone = true := by decide

/-! ## the greedy-fill invariant of `_wrap_chunks` -/

theorem fillLine_append (width : Nat) : ∀ (chunks : List Str) (curLen : Nat),
    (fillLine width curLen chunks).1 ++ (fillLine width curLen chunks).2 = chunks
  | [], _ => by simp [fillLine]
  | c :: rest, curLen => by
    unfold fillLine
    split
    · simp [fillLine_append width rest (curLen + c.length)]
    · simp

theorem fillLine_len (width : Nat) : ∀ (chunks : List Str) (curLen : Nat), curLen ≤ width →
    curLen + (fillLine width curLen chunks).1.flatten.length ≤ width
  | [], _, h => by simp [fillLine]; exact h
  | c :: rest, curLen, h => by
    unfold fillLine
    split
    · rename_i hfit
      have := fillLine_len width rest (curLen + c.length) hfit
      simp only [List.flatten_cons, List.length_append]; omega
    · simp; exact h

theorem finishLine_flatten (width : Nat) (taken rest : List Str) :
    (finishLine width taken rest).1.flatten ++ (finishLine width taken rest).2.flatten = taken.flatten ++ rest.flatten := by
  cases rest with
  | nil => simp [finishLine]
  | cons c rest' =>
    simp only [finishLine]
    split
    · simp [List.flatten_append, List.append_assoc]
      rw [← List.append_assoc (List.take _ c), List.take_append_drop]
    · rfl

theorem finishLine_len (width : Nat) (taken rest : List Str) (hw : 1 ≤ width) (h : taken.flatten.length ≤ width) :
    (finishLine width taken rest).1.flatten.length ≤ width := by
  cases rest with
  | nil => simpa [finishLine] using h
  | cons c rest' =>
    simp only [finishLine]
    split
    · have : ¬ width < 1 := by omega
      simp only [this, if_false, List.flatten_append, List.length_append, List.flatten_cons, List.flatten_nil,
        List.append_nil, List.length_take]
      omega
    · exact h

theorem oneLine_flatten (width : Nat) (chunks : List Str) :
    (oneLine width chunks).1.flatten ++ (oneLine width chunks).2.flatten = chunks.flatten := by
  unfold oneLine
  rw [finishLine_flatten, ← List.flatten_append, fillLine_append]

theorem oneLine_len (width : Nat) (chunks : List Str) (hw : 1 ≤ width) :
    (oneLine width chunks).1.flatten.length ≤ width := by
  unfold oneLine
  apply finishLine_len _ _ _ hw
  have := fillLine_len width chunks 0 (Nat.zero_le _)
  omega

/-- `_wrap_chunks`: every line fits, provided both indents leave at least one column. -/
theorem wrapChunks_width (W : Nat) (init subs : Str) (hi : init.length < W) (hs : subs.length < W)
    (first : Bool) (chunks : List Str) :
    ∀ l ∈ wrapChunks W init subs first chunks, l.length ≤ W := by
  fun_induction wrapChunks W init subs first chunks with
  | case1 => simp
  | case2 first c rest indent r hempty ih => exact ih
  | case3 first c rest indent r hne ih =>
    intro l hl
    simp only [List.mem_cons] at hl
    rcases hl with rfl | hl
    · have hind : indent.length < W := by
        simp only [indent]; split <;> assumption
      have := oneLine_len (W - indent.length) (c :: rest) (by omega)
      simp only [List.length_append]
      simp only [r] at *
      omega
    · exact ih l hl

/-- the text of a wrapped paragraph with the indents taken off again -/
def unindent (init subs : Str) : Bool → List Str → Str
  | _, [] => []
  | first, l :: ls => l.drop (if first then init.length else subs.length) ++ unindent init subs false ls

/-- `_wrap_chunks` neither loses nor invents a character: taking the indents off and concatenating gives the
    chunks back (greedy-fill invariant, all chunk lists, all widths). -/
theorem wrapChunks_flatten (W : Nat) (init subs : Str) (first : Bool) (chunks : List Str) :
    unindent init subs first (wrapChunks W init subs first chunks) = chunks.flatten := by
  fun_induction wrapChunks W init subs first chunks with
  | case1 => simp [unindent]
  | case2 first c rest indent r hempty ih =>
    rw [ih]
    have h := oneLine_flatten (W - indent.length) (c :: rest)
    have h1 : r.1 = [] := by simpa using hempty
    simp only [r] at h1
    rw [h1] at h
    simpa using h
  | case3 first c rest indent r hne ih =>
    simp only [unindent]
    rw [ih]
    have h := oneLine_flatten (W - indent.length) (c :: rest)
    have : (indent ++ r.1.flatten).drop (if first then init.length else subs.length) = r.1.flatten := by
      have : (if first then init.length else subs.length) = indent.length := by
        simp only [indent]; split <;> rfl
      rw [this, List.drop_left]
    rw [this]
    exact h

end MontePyVerif.C10
