import MontePyVerif.Model.Wrap
import MontePyVerif.Spec.Text
/-! # C10 — written lines obey MCNP's physical line rules without changing content -/
namespace MontePyVerif.C10
open MontePyVerif MontePyVerif.Wrap

/-- what the proofs need from the tables of the code: every regime leaves room behind the continuation indent
    and behind the `     $ ` prefix of a continued comment; the default version is in the table. -/
theorem C10_tables :
    (∀ e ∈ Gen.lineLength, Gen.blankSpaceContinue + 2 < e.2) ∧
    (Gen.lineLength.lookup Gen.defaultVersion).isSome = true ∧
    Gen.textwrapBreakLongWords = true ∧ Gen.textwrapMaxLinesIsNone = true := by decide

end MontePyVerif.C10
