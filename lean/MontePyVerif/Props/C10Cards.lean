import MontePyVerif.Model.Wrap
import MontePyVerif.Spec.Text
/-!
# C10: the per-cell data cards of the data block are inputs of their own

`Importance._format_tree` (data block) joins one card per group of particles with line breaks; the values of a card are
the cells' value nodes with the padding they had in the cell, so a card may end in the continuation mark `&`.
`_drop_final_continuation_mark` is applied to every card (not only to the joined text: seeded change C10e).

* `C10_mark_dropped`: for every body, every padding behind the mark: the mark and the blanks in front of it are dropped.
* `C10_no_mark_left`: what `_drop_final_continuation_mark` returns ends in a mark only when the text ended in two.
* `C10_cards_own_inputs`: lines that start an input and do not end in the mark are read by MCNP's rules
  (`Spec.Text.logicalInputs`) as one input each, for every number of cards and every column limit.
* `C10_cards_merge_refuted`: without the drop the statement is false (`imp:n 1 0 &` / `imp:p 1 0`: one input).
-/
namespace MontePyVerif.C10
open MontePyVerif MontePyVerif.Wrap
open MontePyVerif.Spec.Text (logicalInputs step St Input classify stripAmp finish Line)

/-! ## 1. `_drop_final_continuation_mark` -/

theorem dropWhile_append_all {α} (p : α → Bool) (xs ys : List α) (h : xs.all p = true) :
    (xs ++ ys).dropWhile p = ys.dropWhile p := by
  induction xs with
  | nil => rfl
  | cons x xs ih =>
    simp only [List.all_cons, Bool.and_eq_true] at h
    simp only [List.cons_append, List.dropWhile_cons, h.1, if_true]
    exact ih h.2

theorem pyRstrip_mark (body pad : Str) (hp : pad.all pyIsSpace = true) :
    pyRstrip (body ++ [' ', '&'] ++ pad) = body ++ [' ', '&'] := by
  unfold pyRstrip
  have hr : pad.reverse.all pyIsSpace = true := by simpa using hp
  simp only [List.reverse_append, List.append_assoc]
  rw [dropWhile_append_all _ _ _ hr]
  have : pyIsSpace '&' = false := by decide
  simp [this]

theorem rstripBlanks_snoc_blank (x : Str) : rstripBlanks (x ++ [' ']) = rstripBlanks x := by
  simp [rstripBlanks]

/-- **C10_mark_dropped** — every body, every white space behind the mark: when the mark is not comment text, the text
    comes back without the mark and without the blanks in front of it -/
theorem C10_mark_dropped (body pad : Str) (hp : pad.all pyIsSpace = true)
    (hd : (afterLastNl (body ++ [' ', '&'])).contains '$' = false) :
    dropFinalContinuationMark (body ++ [' ', '&'] ++ pad) = rstripBlanks body := by
  have hs := pyRstrip_mark body pad hp
  have he : endsInMark (body ++ [' ', '&'] ++ pad) = true := by
    simp only [endsInMark, hs, hd]
    simp
  simp only [dropFinalContinuationMark, he, if_true, hs]
  have : (body ++ [' ', '&']).dropLast = body ++ [' '] := by
    rw [show body ++ [' ', '&'] = (body ++ [' ']) ++ ['&'] by simp]
    exact List.dropLast_concat
  rw [this, rstripBlanks_snoc_blank]

/-- two marks at the end: the only texts that keep one (decidable; MontePy's reader does not produce such a padding) -/
def DoubleMark (text : Str) : Bool := endsInMark text && endsInMark (rstripBlanks (pyRstrip text).dropLast)

/-- **C10_no_mark_left** — all texts: the result ends in the mark only if the text ended in two of them -/
theorem C10_no_mark_left (text : Str) (h : DoubleMark text = false) :
    endsInMark (dropFinalContinuationMark text) = false := by
  unfold dropFinalContinuationMark
  by_cases he : endsInMark text = true
  · simp only [he, if_true]
    simpa [DoubleMark, he] using h
  · simp only [he]
    simpa using he

/-- non-vacuity and the excluded class -/
example : DoubleMark "imp:n 1 0 &  ".toList = false ∧ endsInMark "imp:n 1 0 &  ".toList = true
    ∧ dropFinalContinuationMark "imp:n 1 0 &  ".toList = "imp:n 1 0".toList := by decide
example : DoubleMark "imp:n 1 0 & &".toList = true
    ∧ dropFinalContinuationMark "imp:n 1 0 & &".toList = "imp:n 1 0 &".toList := by decide
example : dropFinalContinuationMark "imp:n 1 0 $ a &".toList = "imp:n 1 0 $ a &".toList := by decide

/-! ## 2. cards that start an input and do not end in the mark are inputs of their own -/

/-- a physical line that starts an input (data, not in the continuation columns, with words) and whose data do not end
    in the continuation mark; its words -/
def startsOwnInput (limit : Nat) (l : Str) : Option (List Str) :=
  match classify limit l with
  | .data false ws [] => if ws.isEmpty || (stripAmp ws).2 then none else some ws
  | _ => none

theorem step_own (limit : Nat) (st : St) (l : Str) (ws : List Str) (h : startsOwnInput limit l = some ws)
    (hamp : st.amp = false) (hcur : ∀ i, st.cur = some i → i.words.isEmpty = false) :
    step limit st l = ⟨(match st.cur with | some i => i :: st.done | none => st.done), some ⟨ws, []⟩, false⟩ := by
  unfold startsOwnInput at h
  split at h
  next w hc =>
    split at h
    · cases h
    · rename_i hne
      simp only [Bool.or_eq_true, not_or, Bool.not_eq_true] at hne
      injection h with h; subst h
      have hsa : stripAmp w = (w, false) := by
        have : (stripAmp w).2 = false := hne.2
        unfold stripAmp at this ⊢
        split
        · rename_i hl; simp [hl] at this
        · rfl
      unfold step
      rw [hc]
      simp only [hsa, hne.1, hamp]
      cases hcu : st.cur with
      | none => simp
      | some i =>
        have := hcur i hcu
        simp [this]
  next => cases h

theorem foldl_own (limit : Nat) (lines : List Str) (wss : List (List Str))
    (h : lines.map (startsOwnInput limit) = wss.map some) (st : St)
    (hamp : st.amp = false) (hcur : ∀ i, st.cur = some i → i.words.isEmpty = false) :
    finish (lines.foldl (step limit) st) = finish st ++ wss.map (fun ws => ⟨ws, []⟩) := by
  induction lines generalizing wss st with
  | nil =>
    cases wss with
    | nil => simp
    | cons _ _ => simp at h
  | cons l rest ih =>
    cases wss with
    | nil => simp at h
    | cons ws wss' =>
      simp only [List.map_cons, List.cons.injEq] at h
      have hs := step_own limit st l ws h.1 hamp hcur
      have hne : ws.isEmpty = false := by
        have := h.1
        unfold startsOwnInput at this
        split at this
        · split at this
          · cases this
          · rename_i hx
            injection this with this; subst this
            simp only [Bool.or_eq_true, not_or, Bool.not_eq_true] at hx
            exact hx.1
        · cases this
      simp only [List.foldl_cons]
      rw [ih wss' h.2 (step limit st l) (by rw [hs]) (by rw [hs]; intro i hi; cases hi; exact hne)]
      rw [hs]
      cases hcu : st.cur with
      | none => simp [finish, hcu]
      | some i => simp [finish, hcu]

/-- **C10_cards_own_inputs** — every column limit, every number of cards: if each card, after
    `_drop_final_continuation_mark`, is a line that starts an input and does not end in the mark, the written lines are
    read as exactly one input per card, with the card's words -/
theorem C10_cards_own_inputs (limit : Nat) (cards : List Str) (wss : List (List Str))
    (h : (cards.map dropFinalContinuationMark).map (startsOwnInput limit) = wss.map some) :
    logicalInputs limit (cards.map dropFinalContinuationMark) = wss.map (fun ws => ⟨ws, []⟩) := by
  unfold logicalInputs
  rw [foldl_own limit _ wss h St.init rfl (by intro i hi; cases hi)]
  simp [finish, St.init]

/-- non-vacuity: two cards that end in the mark (with padding) satisfy the hypothesis -/
example : (["imp:n 1 0 &".toList, "imp:p 2 0 &  ".toList].map dropFinalContinuationMark).map (startsOwnInput 80)
    = [["imp:n".toList, "1".toList, "0".toList], ["imp:p".toList, "2".toList, "0".toList]].map some := by decide

/-- the statement without the drop applied to every card -/
def C10_cards_merge_statement : Prop :=
  ∀ (limit : Nat) (cards : List Str) (wss : List (List Str)),
    (cards.map dropFinalContinuationMark).map (startsOwnInput limit) = wss.map some →
    logicalInputs limit cards = wss.map (fun ws => ⟨ws, []⟩)

/-- **C10_cards_merge_refuted** — the cards as the cells' values give them are not inputs of their own:
    `imp:n 1 0 &` / `imp:p 1 0` is one input by MCNP's rules -/
theorem C10_cards_merge_refuted : ¬ C10_cards_merge_statement := by
  intro h
  have := h 80 ["imp:n 1 0 &".toList, "imp:p 1 0".toList]
    [["imp:n".toList, "1".toList, "0".toList], ["imp:p".toList, "1".toList, "0".toList]] (by decide)
  revert this
  decide

end MontePyVerif.C10
