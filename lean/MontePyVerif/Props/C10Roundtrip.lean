import MontePyVerif.Props.C10
import MontePyVerif.Props.C01Blocks
/-!
# C10, end to end: a card wrapped by `wrap_string_for_mcnp` is read back by MCNP's rules as the same card

The reader is `Spec/File.lean` (`startCard`, `contStep`, `words`), the card-level notions are those of
`Props/C01Blocks.lean` (`WCard`, `CardOK`, `readCard`), so that `C10_roundtrip` delivers exactly the hypothesis
`CardOK` that `C01_blocks` asks of every written card, and says what `readCard` of the wrapped card is.
-/
namespace MontePyVerif.C10
open MontePyVerif MontePyVerif.Wrap
open _root_.MontePyVerif.Spec.Text (wordsAux)

/-! ## 1. the shape of what `_wrap_chunks` returns -/

/-- lines = bodies with the initial indent on the first and the subsequent indent on the others -/
def indentLines (init subs : Str) : Bool → List Str → List Str
  | _, [] => []
  | first, b :: bs => ((if first = true then init else subs) ++ b) :: indentLines init subs false bs

theorem finishLine_snd_ne (width : Nat) (taken rest : List Str) (hw : 1 ≤ width) (hr : ∀ c ∈ rest, c ≠ [])
    (hlen : taken.flatten.length ≤ width) :
    ∀ c ∈ (finishLine width taken rest).2, c ≠ [] := by
  cases rest with
  | nil => simp [finishLine]
  | cons c rest' =>
    simp only [finishLine]
    split
    · rename_i hlong
      intro x hx
      simp only [List.mem_cons] at hx
      rcases hx with rfl | hx
      · intro h
        have := congrArg List.length h
        have hnw : ¬ width < 1 := by omega
        simp only [List.length_drop, List.length_nil, hnw, if_false] at this
        omega
      · exact hr x (List.mem_cons_of_mem _ hx)
    · exact hr

theorem fillLine_mem (width : Nat) : ∀ (chunks : List Str) (curLen : Nat),
    (∀ c ∈ (fillLine width curLen chunks).1, c ∈ chunks) ∧ (∀ c ∈ (fillLine width curLen chunks).2, c ∈ chunks) := by
  intro chunks curLen
  have h := fillLine_append width chunks curLen
  constructor
  · intro c hc; rw [← h]; exact List.mem_append_left _ hc
  · intro c hc; rw [← h]; exact List.mem_append_right _ hc

theorem oneLine_snd_ne (width : Nat) (chunks : List Str) (hw : 1 ≤ width) (hne : ∀ c ∈ chunks, c ≠ []) :
    ∀ c ∈ (oneLine width chunks).2, c ≠ [] := by
  unfold oneLine
  apply finishLine_snd_ne _ _ _ hw
  · intro c hc; exact hne c ((fillLine_mem width chunks 0).2 c hc)
  · have := fillLine_len width chunks 0 (Nat.zero_le _); omega

theorem oneLine_fst_flatten_ne (width : Nat) (c : Str) (rest : List Str) (hw : 1 ≤ width)
    (hne : ∀ x ∈ c :: rest, x ≠ []) : (oneLine width (c :: rest)).1.flatten ≠ [] := by
  have hlen := fillLine_fst_nil width c rest
  have hmem := (fillLine_mem width (c :: rest) 0).1
  have hnil := fillLine_nil_left width (c :: rest) 0
  unfold oneLine
  generalize fillLine width 0 (c :: rest) = r at hlen hmem hnil
  obtain ⟨r1, r2⟩ := r
  simp only at hlen hmem hnil ⊢
  cases r1 with
  | nil =>
    have h2 := hnil rfl
    have h3 := hlen rfl
    subst h2
    simp only [finishLine, h3, if_true, List.nil_append, List.flatten_cons, List.flatten_nil, List.append_nil,
      List.length_nil]
    intro h
    have := congrArg List.length h
    simp only [List.length_take, List.length_nil] at this
    split at this <;> omega
  | cons a as =>
    have ha : a ≠ [] := hne a (hmem a List.mem_cons_self)
    cases r2 with
    | nil => simp [finishLine, ha]
    | cons d ds =>
      simp only [finishLine]
      split <;> simp [ha]

/-- `_wrap_chunks` returns non-empty bodies behind the indents, and the bodies concatenate to the text
    (every chunk list without empty chunks, every width that leaves a column behind the indents). -/
theorem wrapChunks_bodies (W : Nat) (init subs : Str) (hi : init.length < W) (hs : subs.length < W)
    (first : Bool) (chunks : List Str) (hne : ∀ c ∈ chunks, c ≠ []) :
    ∃ bodies, wrapChunks W init subs first chunks = indentLines init subs first bodies ∧
      bodies.flatten = chunks.flatten ∧ ∀ b ∈ bodies, b ≠ [] := by
  fun_induction wrapChunks W init subs first chunks with
  | case1 => exact ⟨[], rfl, rfl, by simp⟩
  | case2 first c rest indent r hempty ih =>
    have hind : indent.length < W := by simp only [indent]; split <;> assumption
    have := oneLine_fst_flatten_ne (W - indent.length) c rest (by omega) hne
    have h1 : r.1 = [] := by simpa using hempty
    simp only [r] at h1
    rw [h1] at this
    exact absurd rfl this
  | case3 first c rest indent r hnempty ih =>
    have hind : indent.length < W := by simp only [indent]; split <;> assumption
    obtain ⟨bodies, hb1, hb2, hb3⟩ := ih (oneLine_snd_ne _ _ (by omega) hne)
    refine ⟨r.1.flatten :: bodies, ?_, ?_, ?_⟩
    · simp only [indentLines, hb1, indent]
      congr 1
    · simp only [List.flatten_cons, hb2]
      exact oneLine_flatten (W - indent.length) (c :: rest)
    · intro b hb
      simp only [List.mem_cons] at hb
      rcases hb with rfl | hb
      · exact oneLine_fst_flatten_ne (W - indent.length) c rest (by omega) hne
      · exact hb3 b hb

/-! ## 2. without an over-long chunk the lines are groups of whole chunks, filled greedily -/

theorem fillLine_greedy (width : Nat) : ∀ (chunks : List Str) (curLen : Nat) (c : Str),
    (fillLine width curLen chunks).2.head? = some c →
      width < curLen + (fillLine width curLen chunks).1.flatten.length + c.length
  | [], _, c, h => by simp [fillLine] at h
  | d :: rest, curLen, c, h => by
    unfold fillLine at h ⊢
    split
    · rename_i hfit
      simp only [hfit, if_true] at h
      have := fillLine_greedy width rest (curLen + d.length) c h
      simp only [List.flatten_cons, List.length_append]
      omega
    · rename_i hfit
      simp only [hfit, if_false, List.head?_cons, Option.some.injEq] at h
      subst h
      simp only [List.flatten_nil, List.length_nil]
      omega

/-- `lines` are consecutive non-empty groups of whole chunks behind the indents; a group ends only where the next
    chunk no longer fits -/
def Grouped (W : Nat) (init subs : Str) : Bool → List Str → List Str → Prop
  | _, chunks, [] => chunks = []
  | first, chunks, l :: ls =>
    ∃ g rest, g ≠ [] ∧ chunks = g ++ rest ∧ l = (if first = true then init else subs) ++ g.flatten ∧
      (∀ c, rest.head? = some c → W < (if first = true then init else subs).length + g.flatten.length + c.length) ∧
      Grouped W init subs false rest ls

theorem wrapChunks_grouped (W : Nat) (init subs : Str) (first : Bool) (chunks : List Str)
    (hb : ∀ c ∈ chunks, c.length ≤ W - init.length ∧ c.length ≤ W - subs.length) :
    Grouped W init subs first chunks (wrapChunks W init subs first chunks) := by
  fun_induction wrapChunks W init subs first chunks with
  | case1 => simp [Grouped]
  | case2 first c rest indent r hempty ih =>
    have hwid : ∀ x ∈ c :: rest, x.length ≤ W - indent.length := by
      intro x hx; simp only [indent]; split
      · exact (hb x hx).1
      · exact (hb x hx).2
    have heq := oneLine_eq_fillLine _ _ hwid
    have happ := fillLine_append (W - indent.length) (c :: rest) 0
    have h1 : r.1 = [] := by simpa using hempty
    simp only [r] at h1 ih ⊢
    rw [← heq] at happ
    rw [h1] at happ
    simp only [List.nil_append] at happ
    rw [happ] at ih ⊢
    exact ih hb
  | case3 first c rest indent r hnempty ih =>
    have hwid : ∀ x ∈ c :: rest, x.length ≤ W - indent.length := by
      intro x hx; simp only [indent]; split
      · exact (hb x hx).1
      · exact (hb x hx).2
    have heq := oneLine_eq_fillLine _ _ hwid
    have happ := fillLine_append (W - indent.length) (c :: rest) 0
    have hgr := fillLine_greedy (W - indent.length) (c :: rest) 0
    rw [← heq] at happ hgr
    simp only [r] at ih hnempty ⊢
    have hb2 : ∀ x ∈ (oneLine (W - indent.length) (c :: rest)).2,
        x.length ≤ W - init.length ∧ x.length ≤ W - subs.length := by
      intro x hx; apply hb; rw [← happ]; exact List.mem_append_right _ hx
    refine ⟨(oneLine (W - indent.length) (c :: rest)).1, (oneLine (W - indent.length) (c :: rest)).2, ?_, happ.symm,
      rfl, ?_, ih hb2⟩
    · intro h; rw [h] at hnempty; simp at hnempty
    · intro x hx
      have := hgr x hx
      simp only [indent, dite_eq_ite] at this ⊢
      omega

/-- a word reader that only looks at blank-separated pieces -/
structure WordReader (wf : Str → List Str) : Prop where
  nil : wf [] = []
  sep : ∀ a b, Sep a b → wf (a ++ b) = wf a ++ wf b
  blank : ∀ b, wf (' ' :: b) = wf b

theorem WordReader.blanks {wf : Str → List Str} (h : WordReader wf) (n : Nat) (b : Str) :
    wf (blanks n ++ b) = wf b := by
  induction n with
  | zero => simp [Wrap.blanks]
  | succ k ih =>
    have : Wrap.blanks (k + 1) ++ b = ' ' :: (Wrap.blanks k ++ b) := by simp [Wrap.blanks, List.replicate_succ]
    rw [this, h.blank, ih]

theorem textWords_reader : WordReader Spec.Text.words :=
  ⟨by simp [Spec.Text.words, wordsAux], words_append_of_sep, words_blank_cons⟩

/-- the words of grouped lines are the words of the text, for any blank-separated word reader -/
theorem grouped_words {wf : Str → List Str} (hwf : WordReader wf) (W ni ns : Nat) :
    ∀ (lines : List Str) (first : Bool) (chunks : List Str), Chain chunks →
      Grouped W (blanks ni) (blanks ns) first chunks lines →
      (lines.map wf).flatten = wf chunks.flatten
  | [], _, chunks, _, hg => by
    simp only [Grouped] at hg
    subst hg
    simp [hwf.nil]
  | l :: ls, first, chunks, hc, hg => by
    obtain ⟨g, rest, hgne, hch, hl, _, hrest⟩ := hg
    subst hch
    have ih := grouped_words hwf W ni ns ls false rest (Chain.drop_left g rest hc) hrest
    simp only [List.map_cons, List.flatten_cons, ih, hl]
    have : wf ((if first = true then blanks ni else blanks ns) ++ g.flatten) = wf g.flatten := by
      split <;> exact hwf.blanks _ _
    rw [this, List.flatten_append, hwf.sep _ _ (sep_of_chain g rest hc)]

/-! ## 3. the word splitter of `Spec/File.lean` is such a reader (bridge to C01's reader) -/

theorem fileWordsAux_acc (geo : Bool) : ∀ (s cur : Str) (acc : List Str),
    Spec.File.wordsAux geo s cur acc = acc.reverse ++ Spec.File.wordsAux geo s cur []
  | [], cur, acc => by
    simp only [Spec.File.wordsAux]
    split <;> simp
  | c :: t, cur, acc => by
    simp only [Spec.File.wordsAux]
    split
    · rw [fileWordsAux_acc geo t [] (if cur.isEmpty = true then acc else cur.reverse :: acc),
        fileWordsAux_acc geo t [] (if cur.isEmpty = true then [] else [cur.reverse])]
      split <;> simp
    · split
      · rw [fileWordsAux_acc geo t [] ([c] :: if cur.isEmpty = true then acc else cur.reverse :: acc),
          fileWordsAux_acc geo t [] ([c] :: if cur.isEmpty = true then [] else [cur.reverse])]
        split <;> simp
      · exact fileWordsAux_acc geo t (c :: cur) acc

theorem fileWordsAux_append_blank (geo : Bool) : ∀ (a b cur : Str) (acc : List Str),
    Spec.File.wordsAux geo (a ++ ' ' :: b) cur acc =
      Spec.File.wordsAux geo a cur acc ++ Spec.File.wordsAux geo b [] []
  | [], b, cur, acc => by
    have hs : Spec.File.isSep ' ' = true := by decide
    simp only [List.nil_append, Spec.File.wordsAux, hs, if_true]
    rw [fileWordsAux_acc]
  | c :: a, b, cur, acc => by
    simp only [List.cons_append, Spec.File.wordsAux]
    split
    · exact fileWordsAux_append_blank geo a b _ _
    · split
      · exact fileWordsAux_append_blank geo a b _ _
      · exact fileWordsAux_append_blank geo a b _ _

theorem fileWords_reader : WordReader Spec.File.words := by
  have hb : ∀ b, Spec.File.words (' ' :: b) = Spec.File.words b := by
    intro b
    have hs : Spec.File.isSep ' ' = true := by decide
    simp [Spec.File.words, Spec.File.wordsAux, hs]
  have hsnoc : ∀ a, Spec.File.words (a ++ [' ']) = Spec.File.words a := by
    intro a
    simp only [Spec.File.words]
    rw [fileWordsAux_append_blank]
    simp [Spec.File.wordsAux]
  refine ⟨by simp [Spec.File.words, Spec.File.wordsAux], ?_, hb⟩
  intro a b h
  rcases h with h | h | ⟨a', h⟩ | ⟨b', h⟩
  · subst h; simp [Spec.File.words, Spec.File.wordsAux]
  · subst h; simp [Spec.File.words, Spec.File.wordsAux]
  · subst h
    rw [hsnoc]
    simp only [Spec.File.words, List.append_assoc, List.singleton_append]
    rw [fileWordsAux_append_blank]
  · subst h
    rw [hb]
    simp only [Spec.File.words]
    rw [fileWordsAux_append_blank]

/-- C10_words_file — `C10_words` for the word splitter of `Spec/File.lean` (blanks and `=` separate, parentheses are
    words): every text, every width, blank indents, no over-long chunk. -/
theorem C10_words_file (W ni ns : Nat) (text : Str) (h : NoLongChunk W ni ns text) :
    ((textwrapWrap W (blanks ni) (blanks ns) text).map Spec.File.words).flatten = Spec.File.words (munge text) := by
  unfold textwrapWrap
  have hg := wrapChunks_grouped W (blanks ni) (blanks ns) true (splitChunks (munge text))
    (by simpa [NoLongChunk, length_blanks] using h)
  rw [grouped_words fileWords_reader W ni ns _ true _ (splitChunks_chain _ (munge_ws text)).1 hg, splitChunks_flatten]

/-! ## 4. plain lines; the model's tests and `Spec/File.lean`'s tests are the same tests -/

/-- no white space other than the blank (no tab, no control white space, no Unicode space) -/
def Clean (l : Str) : Prop := ∀ c ∈ l, pyIsSpace c = true → c = ' '

instance (l : Str) : Decidable (Clean l) := by unfold Clean; infer_instance

theorem pyIsSpace_of_isTwWs (c : Char) (h : isTwWs c = true) : pyIsSpace c = true := by
  have hall : ∀ n ∈ Gen.textwrapWhitespaceCodes, Gen.pySpaceCodes.contains n = true := by decide
  simp only [isTwWs, List.contains_iff_mem] at h
  exact hall _ h

theorem Clean.ws {l : Str} (h : Clean l) : ∀ c ∈ l, isTwWs c = true → c = ' ' :=
  fun c hc hw => h c hc (pyIsSpace_of_isTwWs c hw)

theorem Clean.tail {c : Char} {l : Str} (h : Clean (c :: l)) : Clean l :=
  fun x hx => h x (List.mem_cons_of_mem _ hx)

theorem Clean.no_tab {l : Str} (h : Clean l) : ∀ c ∈ l, c ≠ '\t' := by
  intro c hc heq
  subst heq
  have : pyIsSpace '\t' = true := by decide
  have := h _ hc this
  exact absurd this (by decide)

theorem expandTabsAux_clean (n : Nat) : ∀ (l : Str) (col : Nat), Clean l → expandTabsAux n col l = l
  | [], _, _ => rfl
  | c :: rest, col, h => by
    have hc : c ≠ '\t' := h.no_tab c List.mem_cons_self
    have hc' : (c == '\t') = false := by simpa using hc
    unfold expandTabsAux
    simp only [hc', Bool.false_eq_true, if_false]
    split <;> rw [expandTabsAux_clean n rest _ h.tail]

theorem expandTabs_clean (n : Nat) (l : Str) (h : Clean l) : expandTabs n l = l :=
  expandTabsAux_clean n l 0 h

theorem munge_clean (l : Str) (h : Clean l) : munge l = l := by
  have h1 : Gen.textwrapExpandTabs = true := by decide
  have h2 : Gen.textwrapReplaceWhitespace = true := by decide
  simp only [munge, h1, h2, if_true, expandTabs_clean _ l h]
  have : ∀ (m : Str), (∀ c ∈ m, isTwWs c = true → c = ' ') → m.map (fun c => if isTwWs c = true then ' ' else c) = m := by
    intro m
    induction m with
    | nil => intro _; rfl
    | cons x xs ih =>
      intro hm
      simp only [List.map_cons]
      rw [ih (fun c hc => hm c (List.mem_cons_of_mem _ hc))]
      by_cases hx : isTwWs x = true
      · simp [hx, hm x List.mem_cons_self hx]
      · simp [hx]
  exact this l h.ws

theorem leadBlanks_eq (l : Str) : leadBlanks l = (l.takeWhile (· = ' ')).length := by
  fun_induction leadBlanks l with
  | case1 rest ih => simp [List.takeWhile_cons, ih]
  | case2 l hne =>
    cases l with
    | nil => rfl
    | cons c t =>
      have : c ≠ ' ' := by
        intro h; subst h; exact hne t rfl
      simp [List.takeWhile_cons, this]

theorem beq_dec (a b : Char) : (a == b) = decide (a = b) := by
  by_cases h : a = b <;> simp [h]

theorem isCommentLine_eq (l : Str) : isCommentLine l = Spec.File.isCommentCard l := by
  have h5 : Gen.blankSpaceContinue = 5 := rfl
  simp only [isCommentLine, Spec.File.isCommentCard, leadBlanks_eq, h5]
  by_cases hl : (l.takeWhile (· = ' ')).length ≥ 5
  · have : ¬ (l.takeWhile (· = ' ')).length < 5 := by omega
    simp [hl, this]
  · have : (l.takeWhile (· = ' ')).length < 5 := by omega
    simp only [hl, if_false, this, decide_true, Bool.true_and]
    cases l.drop (l.takeWhile (· = ' ')).length with
    | nil => rfl
    | cons c rest =>
      cases rest with
      | nil => simp [beq_dec]
      | cons d r => simp [beq_dec]

theorem splitDollar_eq (l : Str) :
    Spec.File.splitDollar l = ((partitionDollar l).1, if (partitionDollar l).2.1 then some (partitionDollar l).2.2 else none) := by
  induction l with
  | nil => rfl
  | cons c t ih =>
    simp only [Spec.File.splitDollar, partitionDollar]
    by_cases hc : c = '$'
    · simp [hc]
    · have : (c == '$') = false := by simpa using hc
      simp [hc, this, ih]

theorem partitionDollar_no_dollar (l : Str) : '$' ∉ (partitionDollar l).1 := by
  induction l with
  | nil => simp [partitionDollar]
  | cons c t ih =>
    simp only [partitionDollar]
    by_cases hc : (c == '$') = true
    · simp [hc]
    · simp only [hc, Bool.false_eq_true, if_false, List.mem_cons, not_or]
      exact ⟨by intro h; subst h; simp at hc, ih⟩

theorem partitionDollar_append (l : Str) :
    l = (partitionDollar l).1 ++ (if (partitionDollar l).2.1 then '$' :: (partitionDollar l).2.2 else []) := by
  induction l with
  | nil => simp [partitionDollar]
  | cons c t ih =>
    simp only [partitionDollar]
    by_cases hc : (c == '$') = true
    · have : c = '$' := by simpa using hc
      simp [hc, this]
    · simp only [hc, Bool.false_eq_true, if_false, List.cons_append]
      rw [← ih]

theorem splitDollar_of_no_dollar : ∀ (a : Str), '$' ∉ a → Spec.File.splitDollar a = (a, none)
  | [], _ => rfl
  | c :: t, h => by
    have hc : c ≠ '$' := fun e => h (e ▸ List.mem_cons_self)
    have ht : '$' ∉ t := fun e => h (List.mem_cons_of_mem _ e)
    simp [Spec.File.splitDollar, hc, splitDollar_of_no_dollar t ht]

theorem splitDollar_append : ∀ (a t : Str), '$' ∉ a → Spec.File.splitDollar (a ++ '$' :: t) = (a, some t)
  | [], t, _ => by simp [Spec.File.splitDollar]
  | c :: a, t, h => by
    have hc : c ≠ '$' := fun e => h (e ▸ List.mem_cons_self)
    have ha : '$' ∉ a := fun e => h (List.mem_cons_of_mem _ e)
    simp [Spec.File.splitDollar, hc, splitDollar_append a t ha]

theorem not_fileBlank_of_mem (l : Str) (c : Char) (hc : c ∈ l) (h : pyIsSpace c = false) :
    Spec.File.isBlankLine l = false := by
  cases hb : Spec.File.isBlankLine l with
  | false => rfl
  | true =>
    simp only [Spec.File.isBlankLine, List.all_eq_true] at hb
    have := hb c hc
    simp only [Spec.File.isBlankC, Bool.or_eq_true, decide_eq_true_eq] at this
    rcases this with rfl | rfl
    · have : pyIsSpace ' ' = true := by decide
      rw [this] at h; cases h
    · have : pyIsSpace '\t' = true := by decide
      rw [this] at h; cases h

theorem not_fileBlank_of_stripNonEmpty (l : Str) (h : stripNonEmpty l = true) : Spec.File.isBlankLine l = false := by
  simp only [stripNonEmpty, List.any_eq_true, Bool.not_eq_true'] at h
  obtain ⟨c, hc, hs⟩ := h
  exact not_fileBlank_of_mem l c hc hs

/-! ## 5. indentation and comment-card tests on prefixes -/
open _root_.MontePyVerif.Spec.File (isIndented isCommentCard isBlankLine)

theorem takeWhile_blank_append : ∀ (p r : Str),
    (p ++ r).takeWhile (· = ' ') = if p.all (· = ' ') then p ++ r.takeWhile (· = ' ') else p.takeWhile (· = ' ')
  | [], r => by simp
  | c :: p, r => by
    by_cases hc : c = ' '
    · subst hc
      simp only [List.cons_append, List.takeWhile_cons, decide_true, if_true, List.all_cons, Bool.true_and,
        takeWhile_blank_append p r]
      split <;> simp
    · simp [List.takeWhile_cons, hc]

theorem all_blank_takeWhile (p : Str) (h : p.all (· = ' ') = true) : p.takeWhile (· = ' ') = p := by
  induction p with
  | nil => rfl
  | cons c p ih =>
    simp only [List.all_cons, Bool.and_eq_true, decide_eq_true_eq] at h
    simp [List.takeWhile_cons, h.1, ih h.2]

theorem takeWhile_blank_length_le (p : Str) : (p.takeWhile (· = ' ')).length ≤ p.length :=
  (List.takeWhile_sublist _).length_le

theorem isIndented_prefix (p r : Str) (h : 5 ≤ p.length) : isIndented (p ++ r) = isIndented p := by
  simp only [isIndented, takeWhile_blank_append]
  split
  · rename_i hall
    rw [all_blank_takeWhile p hall]
    simp only [List.length_append]
    have : (5 ≤ p.length + (r.takeWhile (· = ' ')).length) := by omega
    simp [this, h]
  · rfl

theorem isIndented_blanks5 (x : Str) : isIndented (blanks 5 ++ x) = true := by
  rw [isIndented_prefix _ _ (by simp [blanks])]
  decide

theorem isIndented_dollar (a t : Str) : isIndented (a ++ '$' :: t) = isIndented a := by
  simp only [isIndented, takeWhile_blank_append]
  split
  · rename_i hall
    rw [all_blank_takeWhile a hall]
    simp [List.takeWhile_cons]
  · rfl

theorem not_comment_of_indented (x : Str) (h : isIndented x = true) : isCommentCard x = false := by
  simp only [isIndented, decide_eq_true_eq] at h
  simp [isCommentCard, h]

theorem drop_append_of_le {α} (p r : List α) (k : Nat) (h : k ≤ p.length) : (p ++ r).drop k = p.drop k ++ r := by
  rw [List.drop_append_of_le_length h]

theorem isCommentCard_prefix (p r : Str) (h : 6 ≤ p.length) : isCommentCard (p ++ r) = isCommentCard p := by
  by_cases hall : p.all (· = ' ') = true
  · -- six or more blanks: neither is a comment card
    have h1 : isIndented p = true := by
      simp only [isIndented, all_blank_takeWhile p hall]; simp; omega
    have h2 : isIndented (p ++ r) = true := by rw [isIndented_prefix _ _ (by omega)]; exact h1
    rw [not_comment_of_indented _ h1, not_comment_of_indented _ h2]
  · have htw : (p ++ r).takeWhile (· = ' ') = p.takeWhile (· = ' ') := by
      rw [takeWhile_blank_append]; simp [hall]
    simp only [isCommentCard, htw]
    split
    · rfl
    · rename_i hlead
      have hle := takeWhile_blank_length_le p
      rw [drop_append_of_le _ _ _ hle]
      have hlen : 2 ≤ (p.drop (p.takeWhile (· = ' ')).length).length := by
        simp only [List.length_drop]; omega
      cases hd : p.drop (p.takeWhile (· = ' ')).length with
      | nil => rw [hd] at hlen; simp at hlen
      | cons c rest =>
        cases rest with
        | nil => rw [hd] at hlen; simp at hlen
        | cons d rr => simp

theorem drop_takeWhile_blank : ∀ (l : Str), l.drop (l.takeWhile (· = ' ')).length = l.dropWhile (· = ' ')
  | [] => rfl
  | c :: l => by
    by_cases hc : c = ' '
    · simp [List.takeWhile_cons, List.dropWhile_cons, hc, drop_takeWhile_blank l]
    · simp [List.takeWhile_cons, List.dropWhile_cons, hc]

theorem takeWhile_blank_eq_blanks : ∀ (l : Str), l.takeWhile (· = ' ') = blanks (l.takeWhile (· = ' ')).length
  | [] => rfl
  | c :: l => by
    by_cases hc : c = ' '
    · have ih := takeWhile_blank_eq_blanks l
      simp only [List.takeWhile_cons, hc, decide_true, if_true, List.length_cons, blanks, List.replicate_succ]
      rw [← blanks, ← ih]
    · simp [List.takeWhile_cons, hc, blanks]

/-- the shape of a comment card -/
theorem commentCard_shape (l : Str) (h : isCommentCard l = true) :
    ∃ k c r, k < 5 ∧ (c = 'c' ∨ c = 'C') ∧ l = blanks k ++ c :: r ∧ (r = [] ∨ ∃ r', r = ' ' :: r') := by
  simp only [isCommentCard] at h
  split at h
  · cases h
  · rename_i hlead
    have hsplit := List.takeWhile_append_dropWhile (p := (· = ' ')) (l := l)
    have hdrop := drop_takeWhile_blank l
    rw [hdrop] at h
    have hbl := takeWhile_blank_eq_blanks l
    cases hdw : l.dropWhile (· = ' ') with
    | nil => rw [hdw] at h; cases h
    | cons c r =>
      rw [hdw] at h
      simp only [Bool.and_eq_true, Bool.or_eq_true, decide_eq_true_eq] at h
      refine ⟨(l.takeWhile (· = ' ')).length, c, r, by omega, h.1, ?_, ?_⟩
      · rw [← hbl, ← hdw, hsplit]
      · cases r with
        | nil => exact Or.inl rfl
        | cons d r' =>
          right
          have := h.2
          simp only [decide_eq_true_eq] at this
          exact ⟨r', by rw [this]⟩

theorem takeWhile_blanks_cons (k : Nat) (c : Char) (r : Str) (hc : c ≠ ' ') :
    (blanks k ++ c :: r).takeWhile (· = ' ') = blanks k := by
  rw [takeWhile_blank_append]
  have : (blanks k).all (· = ' ') = true := by simp [blanks]
  simp [this, List.takeWhile_cons, hc]

theorem isCommentCard_of_shape (k : Nat) (c : Char) (r : Str) (hk : k < 5) (hc : c = 'c' ∨ c = 'C')
    (hr : r = [] ∨ ∃ r', r = ' ' :: r') : isCommentCard (blanks k ++ c :: r) = true := by
  have hcb : c ≠ ' ' := by rcases hc with rfl | rfl <;> decide
  simp only [isCommentCard, takeWhile_blanks_cons k c r hcb, length_blanks]
  have : ¬ k ≥ 5 := by omega
  simp only [this, if_false]
  have : (blanks k ++ c :: r).drop k = c :: r := by
    have := List.drop_left (l₁ := blanks k) (l₂ := c :: r)
    rwa [length_blanks] at this
  rw [this]
  rcases hr with rfl | ⟨r', rfl⟩
  · rcases hc with rfl | rfl <;> simp
  · rcases hc with rfl | rfl <;> simp

/-! ## 6. what a physical line contributes to the card it belongs to (reader of `Spec/File.lean`) -/
open _root_.MontePyVerif.Spec.File (Card startCard contStep stripAmp splitDollar commentText rstrip lstrip isBlankC)
open _root_.MontePyVerif.FileWrite (WCard CardOK ContOK readCard)

/-- text without its blanks and tabs: what is compared of comments (wrapping re-flows them) -/
def sq (s : Str) : Str := s.filter (fun c => !isBlankC c)

theorem sq_append (a b : Str) : sq (a ++ b) = sq a ++ sq b := by simp [sq]

theorem sq_blank_cons (b : Str) : sq (' ' :: b) = sq b := by
  have : isBlankC ' ' = true := by decide
  simp [sq, List.filter_cons, this]

theorem sq_dropWhile : ∀ (s : Str), sq (s.dropWhile isBlankC) = sq s
  | [] => rfl
  | c :: t => by
    by_cases hc : isBlankC c = true
    · simp only [List.dropWhile_cons, hc, if_true, sq_dropWhile t]
      simp [sq, List.filter_cons, hc]
    · simp [List.dropWhile_cons, hc]

theorem sq_lstrip (s : Str) : sq (lstrip s) = sq s := sq_dropWhile s

theorem sq_reverse (s : Str) : sq s.reverse = (sq s).reverse := by simp [sq, List.filter_reverse]

theorem sq_rstrip (s : Str) : sq (rstrip s) = sq s := by
  simp only [rstrip, sq_reverse, sq_dropWhile, List.reverse_reverse]

theorem mem_rstrip (s : Str) (x : Char) (h : x ∈ rstrip s) : x ∈ s := by
  simp only [rstrip, List.mem_reverse] at h
  have := (List.dropWhile_sublist (p := isBlankC) (l := s.reverse)).subset h
  simpa using this

theorem stripAmp_of_no_amp (s : Str) (h : '&' ∉ s) : stripAmp s = (s, false) := by
  unfold stripAmp
  simp only
  split
  · rename_i rest heq
    exfalso
    apply h
    apply mem_rstrip
    have : '&' ∈ (rstrip s).reverse := by rw [heq]; exact List.mem_cons_self
    simpa using this
  · rfl

/-- the data of a data line does not hold the continuation mark -/
def NoAmpL (l : Str) : Prop := isCommentCard l = false → '&' ∉ (splitDollar l).1

/-- words the line adds to its card -/
def cw (l : Str) : List Str := if isCommentCard l = true then [] else Spec.File.words (splitDollar l).1
/-- `$` comment text the line adds -/
def cdl (l : Str) : Str :=
  if isCommentCard l = true then [] else match (splitDollar l).2 with | some t => sq t | none => []
/-- comment-card text the line adds -/
def ccm (l : Str) : Str := if isCommentCard l = true then sq (commentText l) else []

/-- what is observed of a card: its words, its `$` comments and its comment cards without their blanks -/
def obsCard (k : Card) : List Str × Str × Str := (Spec.File.words k.text, sq k.dollar.flatten, sq k.ccomments.flatten)

def obsLines (ls : List Str) : List Str × Str × Str := ((ls.map cw).flatten, (ls.map cdl).flatten, (ls.map ccm).flatten)

theorem fileWords_append_blank (a b : Str) :
    Spec.File.words (a ++ ' ' :: b) = Spec.File.words a ++ Spec.File.words b := by
  simp only [Spec.File.words]; rw [fileWordsAux_append_blank]

theorem startCard_of_noAmp (l : Str) (hn : '&' ∉ (splitDollar l).1) :
    startCard l = (⟨(splitDollar l).1, (match (splitDollar l).2 with | some t => [rstrip (lstrip t)] | none => []), []⟩, false) := by
  simp only [startCard, stripAmp_of_no_amp _ hn]
  rfl

theorem obs_contStep (k : Card) (a : Bool) (l : Str) (hn : NoAmpL l) :
    obsCard (contStep (k, a) l).1 =
      ((obsCard k).1 ++ cw l, (obsCard k).2.1 ++ cdl l, (obsCard k).2.2 ++ ccm l) := by
  by_cases hc : isCommentCard l = true
  · simp [contStep, hc, obsCard, cw, cdl, ccm, sq_append]
  · have hc' : isCommentCard l = false := by simpa using hc
    have hs := startCard_of_noAmp l (hn hc')
    simp only [contStep, hc, if_false, hs, obsCard, cw, cdl, ccm, Bool.false_eq_true, List.append_nil,
      fileWords_append_blank, List.flatten_append, sq_append]
    cases (splitDollar l).2 with
    | none => simp [sq]
    | some t => simp [sq_rstrip, sq_lstrip]

theorem obs_fold : ∀ (ls : List Str) (k : Card) (a : Bool), (∀ l ∈ ls, NoAmpL l) →
    obsCard (ls.foldl contStep (k, a)).1 =
      ((obsCard k).1 ++ (obsLines ls).1, (obsCard k).2.1 ++ (obsLines ls).2.1, (obsCard k).2.2 ++ (obsLines ls).2.2)
  | [], k, a, _ => by simp [obsLines]
  | l :: t, k, a, h => by
    have h1 := obs_contStep k a l (h l List.mem_cons_self)
    have ih := obs_fold t (contStep (k, a) l).1 (contStep (k, a) l).2 (fun x hx => h x (List.mem_cons_of_mem _ hx))
    simp only [List.foldl_cons]
    rw [show contStep (k, a) l = ((contStep (k, a) l).1, (contStep (k, a) l).2) from rfl] 
    rw [ih, h1]
    simp [obsLines, List.append_assoc]

/-- what `readCard` (C01Blocks) sees in a card is the sum of what its lines contribute -/
theorem obs_readCard (c : WCard) (hfirst : isCommentCard c.first = false) (hn : ∀ l ∈ c.lines, NoAmpL l) :
    obsCard (readCard c) = obsLines c.lines := by
  have hf : NoAmpL c.first := hn c.first (by simp [FileWrite.WCard.lines])
  have hs := startCard_of_noAmp c.first (hf hfirst)
  unfold readCard
  rw [show startCard c.first = ((startCard c.first).1, (startCard c.first).2) from rfl]
  rw [obs_fold c.rest _ _ (fun l hl => hn l (by simp [FileWrite.WCard.lines, hl]))]
  simp only [hs, obsCard, obsLines, FileWrite.WCard.lines, List.map_cons, List.flatten_cons, cw, cdl, ccm, hfirst,
    Bool.false_eq_true, if_false]
  cases (splitDollar c.first).2 with
  | none => simp [sq]
  | some t =>
    have h0 : sq [] = [] := rfl
    simp [sq_rstrip, sq_lstrip, h0]

/-! ## 7. the lines `_wrap_line` produces -/

theorem chain_ne : ∀ (cs : List Str), Chain cs → ∀ c ∈ cs, c ≠ []
  | [], _, c, hc => by simp at hc
  | a :: rest, h, c, hc => by
    simp only [List.mem_cons] at hc
    rcases hc with rfl | hc
    · exact Chain.head_ne h
    · exact chain_ne rest (Chain.tail h) c hc

theorem splitChunks_ne (t : Str) (h : Clean t) : ∀ c ∈ splitChunks t, c ≠ [] :=
  chain_ne _ (splitChunks_chain t h.ws).1

theorem indentLines_false (init subs : Str) : ∀ (bs : List Str),
    indentLines init subs false bs = bs.map (subs ++ ·)
  | [] => rfl
  | b :: bs => by simp [indentLines, indentLines_false init subs bs]

theorem indentLines_cons (init subs : Str) (first : Bool) (b : Str) (bs : List Str) :
    indentLines init subs first (b :: bs) = ((if first = true then init else subs) ++ b) :: bs.map (subs ++ ·) := by
  simp [indentLines, indentLines_false]

/-- a well-formed continuation data line -/
structure ContLine (x : Str) : Prop where
  nonblank : isBlankLine x = false
  indented : isIndented x = true
  noamp : '&' ∉ (splitDollar x).1

theorem ContLine.not_comment {x : Str} (h : ContLine x) : isCommentCard x = false :=
  not_comment_of_indented x h.indented

theorem fileWords_blanks (n : Nat) : Spec.File.words (blanks n) = [] := by
  have := fileWords_reader.blanks n []
  simpa [fileWords_reader.nil] using this

/-- a line `     $ y`: a continuation line without data whose `$` comment is `y` -/
theorem dollarLine_facts (y : Str) :
    ContLine (blanks 5 ++ '$' :: y) ∧ cw (blanks 5 ++ '$' :: y) = [] ∧ ccm (blanks 5 ++ '$' :: y) = [] ∧
      cdl (blanks 5 ++ '$' :: y) = sq y := by
  have hnd : '$' ∉ blanks 5 := by decide
  have hsd := splitDollar_append (blanks 5) y hnd
  have hind := isIndented_blanks5 ('$' :: y)
  have hnc := not_comment_of_indented _ hind
  refine ⟨⟨?_, hind, ?_⟩, ?_, ?_, ?_⟩
  · exact not_fileBlank_of_mem _ '$' (by simp) (by decide)
  · rw [hsd]; show '&' ∉ blanks 5; decide
  · simp [cw, hnc, hsd, fileWords_blanks]
  · simp [ccm, hnc]
  · simp [cdl, hnc, hsd]

theorem clean_cons_dollar {t : Str} (h : Clean t) : Clean ('$' :: t) := by
  intro c hc hs
  simp only [List.mem_cons] at hc
  rcases hc with rfl | hc
  · exact absurd hs (by decide)
  · exact h c hc hs

/-- the lines a `$` comment is moved to when it does not fit behind its data: continuation lines without data
    that together carry the comment -/
theorem dollarLines (W : Nat) (hW : 7 < W) (t : Str) (hcl : Clean t) :
    textwrapWrap W (blanks 5) (blanks 5 ++ ['$', ' ']) ('$' :: t) ≠ [] ∧
    (∀ x ∈ textwrapWrap W (blanks 5) (blanks 5 ++ ['$', ' ']) ('$' :: t), ContLine x ∧ cw x = [] ∧ ccm x = []) ∧
    ((textwrapWrap W (blanks 5) (blanks 5 ++ ['$', ' ']) ('$' :: t)).map cdl).flatten = sq t := by
  have hcl' := clean_cons_dollar hcl
  unfold textwrapWrap
  rw [munge_clean _ hcl']
  obtain ⟨bodies, hb1, hb2, hb3⟩ := wrapChunks_bodies W (blanks 5) (blanks 5 ++ ['$', ' ']) (by simp [blanks]; omega)
    (by simp [blanks]; omega) true (splitChunks ('$' :: t)) (splitChunks_ne _ hcl')
  rw [splitChunks_flatten] at hb2
  rw [hb1]
  cases bodies with
  | nil => simp at hb2
  | cons b0 bs =>
    have hb0 : b0 ≠ [] := hb3 b0 List.mem_cons_self
    cases b0 with
    | nil => exact absurd rfl hb0
    | cons x b0' =>
      simp only [List.flatten_cons, List.cons_append, List.cons.injEq] at hb2
      obtain ⟨hx, hrest⟩ := hb2
      subst hx
      rw [indentLines_cons]
      simp only [if_true]
      refine ⟨by simp, ?_, ?_⟩
      · intro y hy
        simp only [List.mem_cons, List.mem_map] at hy
        rcases hy with rfl | ⟨b, _, rfl⟩
        · have := dollarLine_facts b0'
          exact ⟨this.1, this.2.1, this.2.2.1⟩
        · have := dollarLine_facts (' ' :: b)
          simp only [List.append_assoc, List.cons_append, List.nil_append]
          exact ⟨this.1, this.2.1, this.2.2.1⟩
      · simp only [List.map_cons, List.flatten_cons, List.map_map]
        rw [(dollarLine_facts b0').2.2.2]
        have : ∀ (l : List Str), ((l.map (cdl ∘ fun b => (blanks 5 ++ ['$', ' ']) ++ b)).flatten) = sq l.flatten := by
          intro l
          induction l with
          | nil => rfl
          | cons b l ih =>
            simp only [List.map_cons, List.flatten_cons, Function.comp, ih, sq_append]
            have := (dollarLine_facts (' ' :: b)).2.2.2
            simp only [List.append_assoc, List.cons_append, List.nil_append] at this ⊢
            rw [this, sq_blank_cons]
        rw [this, ← sq_append, hrest]

theorem mem_indentLines (init subs : Str) : ∀ (first : Bool) (bodies : List Str) (x : Str),
    x ∈ indentLines init subs first bodies → ∃ b ∈ bodies, x = init ++ b ∨ x = subs ++ b
  | _, [], x, h => by simp [indentLines] at h
  | first, b :: bs, x, h => by
    simp only [indentLines, List.mem_cons] at h
    rcases h with rfl | h
    · refine ⟨b, List.mem_cons_self, ?_⟩
      split
      · exact Or.inl rfl
      · exact Or.inr rfl
    · obtain ⟨b', hb', hx⟩ := mem_indentLines init subs false bs x h
      exact ⟨b', List.mem_cons_of_mem _ hb', hx⟩

theorem body_mem_indentLines (init subs : Str) : ∀ (first : Bool) (bodies : List Str) (b : Str),
    b ∈ bodies → ∃ x ∈ indentLines init subs first bodies, ∃ ind, x = ind ++ b
  | _, [], b, h => by simp at h
  | first, b0 :: bs, b, h => by
    simp only [List.mem_cons] at h
    rcases h with rfl | h
    · exact ⟨(if first = true then init else subs) ++ b, by simp [indentLines], _, rfl⟩
    · obtain ⟨x, hx, ind, hind⟩ := body_mem_indentLines init subs false bs b h
      exact ⟨x, by simp [indentLines, hx], ind, hind⟩

theorem blank_of_clean_not_strip (x : Str) (hcl : Clean x) (h : stripNonEmpty x = false) : x = blanks x.length := by
  induction x with
  | nil => rfl
  | cons c t ih =>
    simp only [stripNonEmpty, List.any_cons, Bool.or_eq_false_iff, Bool.not_eq_false'] at h
    have hc : c = ' ' := hcl c List.mem_cons_self h.1
    subst hc
    have := ih hcl.tail (by simpa [stripNonEmpty] using h.2)
    simp only [List.length_cons, blanks, List.replicate_succ]
    rw [← blanks, ← this]

theorem flatten_map_filter {α β} (p : α → Bool) (f : α → List β) : ∀ (L : List α),
    (∀ x ∈ L, p x = false → f x = []) → ((L.filter p).map f).flatten = (L.map f).flatten
  | [], _ => rfl
  | x :: L, h => by
    have ih := flatten_map_filter p f L (fun y hy => h y (List.mem_cons_of_mem _ hy))
    by_cases hp : p x = true
    · simp [List.filter_cons, hp, ih]
    · have hp' : p x = false := by simpa using hp
      simp [List.filter_cons, hp', ih, h x List.mem_cons_self hp']

theorem tail_filter_subset {α} (p : α → Bool) : ∀ (L : List α), ∀ x ∈ (L.filter p).tail, x ∈ L.tail
  | [], x, h => by simp at h
  | a :: L, x, h => by
    by_cases hp : p a = true
    · simp only [List.filter_cons, hp, if_true, List.tail_cons] at h
      exact (List.mem_filter.mp h).1
    · simp only [List.filter_cons, hp, Bool.false_eq_true, if_false] at h
      have : x ∈ L.filter p := List.mem_of_mem_tail h
      exact (List.mem_filter.mp this).1

theorem grouped_nil_chunks (W : Nat) (init subs : Str) (first : Bool) (lines : List Str)
    (h : Grouped W init subs first [] lines) : lines = [] := by
  cases lines with
  | nil => rfl
  | cons l ls =>
    obtain ⟨g, rest, hg, hch, _⟩ := h
    have : g = [] := by
      have := congrArg List.length hch
      simp at this
      exact List.eq_nil_of_length_eq_zero (by omega)
    exact absurd this hg

theorem isIndented_all_blank (p : Str) (hall : p = blanks p.length) (h : 5 ≤ p.length) : isIndented p = true := by
  rw [hall]
  simp only [isIndented]
  have : (blanks p.length).all (· = ' ') = true := by simp [blanks]
  rw [all_blank_takeWhile _ this]
  simp [length_blanks, h]

/-- the data lines of a wrapped line (`ret` in `_wrap_line`): every one non-blank and without `$`/`&`, all but the
    first indented, the first one indented exactly when the data is, and together they hold the words of the data -/
theorem dataLines (W : Nat) (hW : 7 < W) (d : Str) (hcl : Clean d) (hlong : NoLongChunk W 0 5 d)
    (hamp : '&' ∉ d) (hdol : '$' ∉ d) :
    (∀ x ∈ (textwrapWrap W [] (blanks 5) d).filter stripNonEmpty, isBlankLine x = false ∧ '$' ∉ x ∧ '&' ∉ x) ∧
    (∀ x ∈ ((textwrapWrap W [] (blanks 5) d).filter stripNonEmpty).tail, isIndented x = true) ∧
    (((textwrapWrap W [] (blanks 5) d).filter stripNonEmpty).map Spec.File.words).flatten = Spec.File.words d ∧
    (∀ o os, (textwrapWrap W [] (blanks 5) d).filter stripNonEmpty = o :: os →
      isIndented o = isIndented d ∧
        (o = d ∨ (6 ≤ o.length ∧ isCommentCard o = isCommentCard d) ∨ isIndented o = true)) ∧
    (stripNonEmpty d = true → (textwrapWrap W [] (blanks 5) d).filter stripNonEmpty ≠ []) := by
  have hind := C10_indent W [] (blanks 5) d
  have hwords := C10_words_file W 0 5 d hlong
  have h0 : blanks 0 = ([] : Str) := rfl
  rw [h0] at hwords
  unfold textwrapWrap at hind hwords ⊢
  rw [munge_clean _ hcl] at hind hwords ⊢
  have hb : ∀ c ∈ splitChunks d, c.length ≤ W - ([] : Str).length ∧ c.length ≤ W - (blanks 5).length := by
    simpa [NoLongChunk, munge_clean _ hcl, length_blanks] using hlong
  have hgr := wrapChunks_grouped W [] (blanks 5) true (splitChunks d) hb
  obtain ⟨bodies, hb1, hb2, hb3⟩ := wrapChunks_bodies W [] (blanks 5) (by simp; omega) (by simp [blanks]; omega) true
    (splitChunks d) (splitChunks_ne _ hcl)
  rw [splitChunks_flatten] at hb2
  generalize hL : wrapChunks W [] (blanks 5) true (splitChunks d) = lines0 at *
  have hb5 : blanks 5 = [' ', ' ', ' ', ' ', ' '] := rfl
  -- characters of the lines
  have hchars : ∀ x ∈ lines0, ∀ c ∈ x, c = ' ' ∨ c ∈ d := by
    intro x hx c hc
    rw [hb1] at hx
    obtain ⟨b, hb, hxb⟩ := mem_indentLines _ _ _ _ x hx
    have hbd : ∀ c ∈ b, c ∈ d := by
      intro c hc; rw [← hb2]; exact List.mem_flatten.mpr ⟨b, hb, hc⟩
    rcases hxb with rfl | rfl
    · exact Or.inr (hbd c (by simpa using hc))
    · rcases List.mem_append.mp hc with h | h
      · left; rw [hb5] at h; simpa using h
      · exact Or.inr (hbd c h)
  have hclean : ∀ x ∈ lines0, Clean x := by
    intro x hx c hc hs
    rcases hchars x hx c hc with h | h
    · exact h
    · exact hcl c h hs
  refine ⟨?_, ?_, ?_, ?_, ?_⟩
  · intro x hx
    obtain ⟨hx1, hx2⟩ := List.mem_filter.mp hx
    refine ⟨not_fileBlank_of_stripNonEmpty x hx2, ?_, ?_⟩
    · intro h; rcases hchars x hx1 _ h with h | h
      · exact absurd h (by decide)
      · exact hdol h
    · intro h; rcases hchars x hx1 _ h with h | h
      · exact absurd h (by decide)
      · exact hamp h
  · intro x hx
    have := tail_filter_subset stripNonEmpty lines0 x hx
    obtain ⟨t, ht⟩ := hind x this
    rw [← ht]; exact isIndented_blanks5 t
  · rw [flatten_map_filter stripNonEmpty Spec.File.words lines0, hwords]
    intro x hx hs
    rw [blank_of_clean_not_strip x (hclean x hx) hs]
    exact fileWords_blanks _
  · intro o os hret
    cases lines0 with
    | nil => simp at hret
    | cons l0 ls =>
      obtain ⟨g, rest, hgne, hch, hl0, hbound, hrest⟩ := hgr
      simp only [if_true, List.nil_append, List.length_nil, Nat.zero_add] at hl0 hbound
      have hd : d = l0 ++ rest.flatten := by
        rw [← splitChunks_flatten d, hch, List.flatten_append, hl0]
      have hlen : rest ≠ [] → 6 ≤ l0.length := by
        intro hr
        cases rest with
        | nil => exact absurd rfl hr
        | cons c r =>
          have h1 := hbound c rfl
          have h2 : c.length ≤ W - 5 := by
            have := (hb c (by rw [hch]; simp)).2
            simpa [length_blanks] using this
          rw [← hl0] at h1
          omega
      by_cases hk : stripNonEmpty l0 = true
      · simp only [List.filter_cons, hk, if_true, List.cons.injEq] at hret
        obtain ⟨rfl, _⟩ := hret
        by_cases hr : rest = []
        · subst hr
          simp only [List.flatten_nil, List.append_nil] at hd
          subst hd
          exact ⟨rfl, Or.inl rfl⟩
        · have h6 := hlen hr
          rw [hd]
          exact ⟨(isIndented_prefix _ _ (by omega)).symm, Or.inr (Or.inl ⟨h6, (isCommentCard_prefix _ _ h6).symm⟩)⟩
      · have hk' : stripNonEmpty l0 = false := by simpa using hk
        simp only [List.filter_cons, hk', Bool.false_eq_true, if_false] at hret
        have ho : o ∈ ls := by
          have : o ∈ ls.filter stripNonEmpty := by rw [hret]; exact List.mem_cons_self
          exact (List.mem_filter.mp this).1
        have hoi : isIndented o = true := by
          obtain ⟨t, ht⟩ := hind o (by simpa using ho)
          rw [← ht]; exact isIndented_blanks5 t
        have hr : rest ≠ [] := by
          intro hr; subst hr
          have := grouped_nil_chunks _ _ _ _ _ hrest
          rw [this] at ho; simp at ho
        have h6 := hlen hr
        have hbl := blank_of_clean_not_strip l0 (hclean l0 List.mem_cons_self) hk'
        refine ⟨?_, Or.inr (Or.inr hoi)⟩
        rw [hoi, hd, isIndented_prefix _ _ (by omega), isIndented_all_blank l0 hbl (by omega)]
  · intro hs
    simp only [stripNonEmpty, List.any_eq_true, Bool.not_eq_true'] at hs
    obtain ⟨c, hc, hcs⟩ := hs
    rw [← hb2] at hc
    obtain ⟨b, hb, hcb⟩ := List.mem_flatten.mp hc
    obtain ⟨x, hx, ind, hxi⟩ := body_mem_indentLines [] (blanks 5) true bodies b hb
    rw [← hb1] at hx
    have : x ∈ lines0.filter stripNonEmpty := by
      apply List.mem_filter.mpr
      refine ⟨hx, ?_⟩
      simp only [stripNonEmpty, List.any_eq_true, Bool.not_eq_true']
      exact ⟨c, by rw [hxi]; exact List.mem_append_right _ hcb, hcs⟩
    intro h; rw [h] at this; simp at this

/-- a well-formed data line (first line of a card or continuation) -/
structure DLine (x : Str) : Prop where
  nonblank : isBlankLine x = false
  notcomment : isCommentCard x = false
  noamp : '&' ∉ (splitDollar x).1

theorem ContLine.dline {x : Str} (h : ContLine x) : DLine x := ⟨h.nonblank, h.not_comment, h.noamp⟩

theorem plain_facts (x : Str) (hd : '$' ∉ x) (ha : '&' ∉ x) (hnc : isCommentCard x = false) :
    '&' ∉ (splitDollar x).1 ∧ cw x = Spec.File.words x ∧ cdl x = [] ∧ ccm x = [] := by
  have hs := splitDollar_of_no_dollar x hd
  simp [cw, cdl, ccm, hnc, hs, ha]

theorem attached_facts (a t : Str) (hd : '$' ∉ a) (ha : '&' ∉ a) (hnc : isCommentCard (a ++ '$' :: t) = false) :
    '&' ∉ (splitDollar (a ++ '$' :: t)).1 ∧ cw (a ++ '$' :: t) = Spec.File.words a ∧
      cdl (a ++ '$' :: t) = sq t ∧ ccm (a ++ '$' :: t) = [] := by
  have hs := splitDollar_append a t hd
  simp [cw, cdl, ccm, hnc, hs, ha]

theorem indented_append (o s : Str) (h : isIndented o = true) : isIndented (o ++ s) = true := by
  have h5 : 5 ≤ o.length := by
    simp only [isIndented, decide_eq_true_eq] at h
    have := takeWhile_blank_length_le o
    omega
  rw [isIndented_prefix _ _ h5]; exact h

theorem getLast?_split {α} : ∀ (l : List α) (a : α), l.getLast? = some a → ∃ front, l = front ++ [a] ∧ l.dropLast = front
  | [], a, h => by simp at h
  | [x], a, h => by
    simp only [List.getLast?_singleton, Option.some.injEq] at h
    subst h; exact ⟨[], rfl, rfl⟩
  | x :: y :: r, a, h => by
    have h' : (y :: r).getLast? = some a := by simpa [List.getLast?_cons_cons] using h
    obtain ⟨front, hf, hd⟩ := getLast?_split (y :: r) a h'
    refine ⟨x :: front, by rw [hf]; rfl, ?_⟩
    simp only [List.dropLast_cons₂, hd]

theorem flatten_map_eq_nil {α β} (f : α → List β) (l : List α) (h : ∀ x ∈ l, f x = []) : (l.map f).flatten = [] := by
  induction l with
  | nil => rfl
  | cons a l ih =>
    simp [h a List.mem_cons_self, ih (fun x hx => h x (List.mem_cons_of_mem _ hx))]

theorem flatten_map_congr {α β} (f g : α → List β) (l : List α) (h : ∀ x ∈ l, f x = g x) :
    (l.map f).flatten = (l.map g).flatten := by
  rw [List.map_congr_left h]

/-- the data lines the round trip is proved for (the class `C10_content_data` names, per line):
    no chunk of the data longer than a continuation line holds; no `&` in the data; the data before a `$` is not by
    itself a comment card (`c$ …`); a line that holds only a `$` comment is a continuation line -/
structure DataOK (W : Nat) (L : Str) : Prop where
  long : NoLongChunk W 0 5 (partitionDollar L).1
  amp : '&' ∉ (partitionDollar L).1
  cdollar : isCommentCard (partitionDollar L).1 = false
  only : stripNonEmpty (partitionDollar L).1 = true ∨ isIndented L = true

/-- **a wrapped data line**: `_wrap_line` returns a first line that is indented exactly when the source line is
    and is a well-formed data line, followed by well-formed continuation lines; together they contribute to the card
    exactly the words and the `$` comment of the source line. -/
theorem wrapLine_data (W : Nat) (hW : 7 < W) (L : Str) (hcl : Clean L) (hnb : stripNonEmpty L = true)
    (hnc : isCommentCard L = false) (hok : DataOK W L) :
    ∃ o os, wrapLine L W [] (blanks 5) = o :: os ∧ isIndented o = isIndented L ∧ DLine o ∧
      (∀ x ∈ os, ContLine x) ∧ obsLines (o :: os) = (cw L, cdl L, ccm L) := by
  have hsd := splitDollar_eq L
  have hpa := partitionDollar_append L
  have hnd := partitionDollar_no_dollar L
  obtain ⟨hlong, hamp, hcd, honly⟩ := hok
  have hLnb := not_fileBlank_of_stripNonEmpty L hnb
  have hccmL : ccm L = [] := by simp [ccm, hnc]
  unfold wrapLine
  simp only [expandTabs_clean _ L hcl, isCommentLine_eq, hnc, Bool.false_eq_true, if_false, List.length_nil,
    Nat.zero_add, List.nil_append]
  generalize partitionDollar L = p at *
  obtain ⟨d, has, t⟩ := p
  simp only at hsd hpa hnd hlong hamp hcd honly ⊢
  have hcld : Clean d := by
    intro c hc hs
    exact hcl c (by rw [hpa]; exact List.mem_append_left _ hc) hs
  split
  · -- the line fits: returned as it is
    refine ⟨L, [], rfl, rfl, ⟨hLnb, hnc, by rw [hsd]; exact hamp⟩, by simp, by simp [obsLines]⟩
  · obtain ⟨f1, f2, f3, f4, f5⟩ := dataLines W hW d hcld hlong hamp hnd
    generalize (textwrapWrap W [] (blanks 5) d).filter stripNonEmpty = ret at *
    -- the first data line
    have hhead : ∀ o os, ret = o :: os → ∀ s, isCommentCard (d ++ s) = false → isCommentCard (o ++ s) = false := by
      intro o os hr s hs
      rcases (f4 o os hr).2 with h | ⟨h6, hc⟩ | h
      · rw [h]; exact hs
      · rw [isCommentCard_prefix _ _ h6, hc]; exact hcd
      · exact not_comment_of_indented _ (indented_append o s h)
    have htailc : ∀ o os, ret = o :: os → ∀ x ∈ os, ContLine x ∧ cw x = Spec.File.words x ∧ cdl x = [] ∧ ccm x = [] := by
      intro o os hr x hx
      have hxr : x ∈ ret := by rw [hr]; exact List.mem_cons_of_mem _ hx
      have hxi : isIndented x = true := f2 x (by rw [hr]; exact hx)
      obtain ⟨h1, h2, h3⟩ := f1 x hxr
      have hp := plain_facts x h2 h3 (not_comment_of_indented x hxi)
      exact ⟨⟨h1, hxi, hp.1⟩, hp.2⟩
    cases has with
    | false =>
      simp only [Bool.false_eq_true, if_false, List.append_nil] at hpa hsd ⊢
      subst hpa
      have hne := f5 hnb
      cases ret with
      | nil => exact absurd rfl hne
      | cons o os =>
        obtain ⟨h1, h2, h3⟩ := f1 o List.mem_cons_self
        have hoc : isCommentCard o = false := by
          have := hhead o os rfl [] (by simpa using hnc); simpa using this
        have hp := plain_facts o h2 h3 hoc
        have hLp := plain_facts L hnd hamp hnc
        refine ⟨o, os, rfl, (f4 o os rfl).1, ⟨h1, hoc, hp.1⟩, fun x hx => (htailc o os rfl x hx).1, ?_⟩
        have hcw : ∀ x ∈ o :: os, cw x = Spec.File.words x := by
          intro x hx
          simp only [List.mem_cons] at hx
          rcases hx with rfl | hx
          · exact hp.2.1
          · exact (htailc o os rfl x hx).2.1
        have hcd0 : ∀ x ∈ o :: os, cdl x = [] := by
          intro x hx
          simp only [List.mem_cons] at hx
          rcases hx with rfl | hx
          · exact hp.2.2.1
          · exact (htailc o os rfl x hx).2.2.1
        have hcc0 : ∀ x ∈ o :: os, ccm x = [] := by
          intro x hx
          simp only [List.mem_cons] at hx
          rcases hx with rfl | hx
          · exact hp.2.2.2
          · exact (htailc o os rfl x hx).2.2.2
        simp only [obsLines]
        rw [flatten_map_congr _ _ _ hcw, f3, flatten_map_eq_nil _ _ hcd0, flatten_map_eq_nil _ _ hcc0,
          hLp.2.1, hLp.2.2.1, hLp.2.2.2]
    | true =>
      simp only [if_true] at hpa hsd ⊢
      have hLc : isCommentCard (d ++ '$' :: t) = false := by rw [← hpa]; exact hnc
      have hLf := attached_facts d t hnd hamp hLc
      rw [← hpa] at hLf
      obtain ⟨dl1, dl2, dl3⟩ := dollarLines W hW t (by
        intro c hc hs
        exact hcl c (by rw [hpa]; exact List.mem_append_right _ (List.mem_cons_of_mem _ hc)) hs)
      generalize textwrapWrap W (blanks 5) (blanks 5 ++ ['$', ' ']) ('$' :: t) = cl at *
      have hclcw : ∀ x ∈ cl, cw x = [] := fun x hx => (dl2 x hx).2.1
      have hclcc : ∀ x ∈ cl, ccm x = [] := fun x hx => (dl2 x hx).2.2
      -- facts about all of ret
      have hretcw : ∀ o os, ret = o :: os → (ret.map cw).flatten = Spec.File.words d ∧
          (ret.map cdl).flatten = [] ∧ (ret.map ccm).flatten = [] := by
        intro o os hr
        obtain ⟨h1, h2, h3⟩ := f1 o (by rw [hr]; exact List.mem_cons_self)
        have hoc : isCommentCard o = false := by
          have := hhead o os hr [] (by simpa using hcd); simpa using this
        have hp := plain_facts o h2 h3 hoc
        have hall : ∀ x ∈ ret, cw x = Spec.File.words x ∧ cdl x = [] ∧ ccm x = [] := by
          intro x hx
          rw [hr] at hx
          simp only [List.mem_cons] at hx
          rcases hx with rfl | hx
          · exact hp.2
          · exact (htailc o os hr x hx).2
        refine ⟨?_, flatten_map_eq_nil _ _ (fun x hx => (hall x hx).2.1), flatten_map_eq_nil _ _ (fun x hx => (hall x hx).2.2)⟩
        rw [flatten_map_congr _ _ _ (fun x hx => (hall x hx).1), f3]
      split
      · rename_i last hlast
        obtain ⟨front, hfront, hdrop⟩ := getLast?_split ret last hlast
        split
        · -- the comment is put back behind the last data line
          rw [hdrop]
          have hlr : last ∈ ret := by rw [hfront]; simp
          obtain ⟨l1, l2, l3⟩ := f1 last hlr
          cases front with
          | nil =>
            simp only [List.nil_append] at hfront ⊢
            have hlc : isCommentCard (last ++ '$' :: t) = false := hhead last [] hfront _ hLc
            have haf := attached_facts last t l2 l3 hlc
            refine ⟨last ++ '$' :: t, [], rfl, ?_, ⟨?_, hlc, haf.1⟩, by simp, ?_⟩
            · rw [isIndented_dollar, (f4 last [] hfront).1, hpa, isIndented_dollar]
            · exact not_fileBlank_of_mem _ '$' (by simp) (by decide)
            · have hw := (hretcw last [] hfront).1
              rw [hfront] at hw
              simp only [List.map_cons, List.map_nil, List.flatten_cons, List.flatten_nil, List.append_nil] at hw
              have hlp := plain_facts last l2 l3 (by have := hhead last [] hfront [] (by simpa using hcd); simpa using this)
              rw [hlp.2.1] at hw
              simp only [obsLines, List.map_cons, List.map_nil, List.flatten_cons, List.flatten_nil, List.append_nil,
                haf.2.1, haf.2.2.1, haf.2.2.2, hw, hLf.2.1, hLf.2.2.1, hccmL]
          | cons o os' =>
            have hr : ret = o :: (os' ++ [last]) := by rw [hfront]; rfl
            have hli : isIndented last = true := f2 last (by rw [hr]; simp)
            have hlc : isCommentCard (last ++ '$' :: t) = false :=
              not_comment_of_indented _ (indented_append _ _ hli)
            have haf := attached_facts last t l2 l3 hlc
            obtain ⟨h1, h2, h3⟩ := f1 o (by rw [hr]; exact List.mem_cons_self)
            have hoc : isCommentCard o = false := by
              have := hhead o _ hr [] (by simpa using hcd); simpa using this
            have hp := plain_facts o h2 h3 hoc
            refine ⟨o, os' ++ [last ++ '$' :: t], rfl, ?_, ⟨h1, hoc, hp.1⟩, ?_, ?_⟩
            · rw [(f4 o _ hr).1, hpa, isIndented_dollar]
            · intro x hx
              simp only [List.mem_append, List.mem_singleton] at hx
              rcases hx with hx | rfl
              · exact (htailc o _ hr x (List.mem_append_left _ hx)).1
              · exact ⟨not_fileBlank_of_mem _ '$' (by simp) (by decide), indented_append _ _ hli, haf.1⟩
            · obtain ⟨hw, hdz, hcz⟩ := hretcw o _ hr
              rw [hr] at hw hdz hcz
              have hlp := (htailc o _ hr last (by simp)).2
              simp only [List.map_cons, List.map_append, List.map_nil, List.flatten_cons, List.flatten_append,
                List.flatten_nil, List.append_nil, hlp.1, hlp.2.1, hlp.2.2] at hw hdz hcz
              simp only [obsLines, List.map_cons, List.map_append, List.map_nil, List.flatten_cons,
                List.flatten_append, List.flatten_nil, List.append_nil, haf.2.1, haf.2.2.1, haf.2.2.2,
                hLf.2.1, hLf.2.2.1, hccmL, hw]
              have hd1 : cdl o ++ (os'.map cdl).flatten = [] := by
                have := hdz; simpa using this
              have hc1 : ccm o ++ (os'.map ccm).flatten = [] := by
                have := hcz; simpa using this
              simp only [List.append_eq_nil_iff] at hd1 hc1
              simp [hd1.1, hd1.2, hc1.1, hc1.2]
        · -- the comment goes on continuation lines of its own
          cases ret with
          | nil => simp at hlast
          | cons o os =>
            obtain ⟨h1, h2, h3⟩ := f1 o List.mem_cons_self
            have hoc : isCommentCard o = false := by
              have := hhead o os rfl [] (by simpa using hcd); simpa using this
            have hp := plain_facts o h2 h3 hoc
            refine ⟨o, os ++ cl, rfl, ?_, ⟨h1, hoc, hp.1⟩, ?_, ?_⟩
            · rw [(f4 o os rfl).1, hpa, isIndented_dollar]
            · intro x hx
              rcases List.mem_append.mp hx with hx | hx
              · exact (htailc o os rfl x hx).1
              · exact (dl2 x hx).1
            · obtain ⟨hw, hdz, hcz⟩ := hretcw o os rfl
              have : o :: (os ++ cl) = (o :: os) ++ cl := rfl
              rw [this]
              simp only [obsLines, List.map_append, List.flatten_append, hw, hdz, hcz, dl3,
                flatten_map_eq_nil _ _ hclcw, flatten_map_eq_nil _ _ hclcc, List.append_nil, List.nil_append,
                hLf.2.1, hLf.2.2.1, hccmL]
      · -- no data line at all: the line holds only a `$` comment
        rename_i hnone
        have hrn : ret = [] := by
          cases ret with
          | nil => rfl
          | cons a r => simp [List.getLast?_cons] at hnone
        subst hrn
        simp only [List.nil_append]
        have hLi : isIndented L = true := by
          rcases honly with h | h
          · exact absurd rfl (f5 h)
          · exact h
        have hwd : Spec.File.words d = [] := by simpa using f3.symm
        cases cl with
        | nil => exact absurd rfl dl1
        | cons o os =>
          have ho := (dl2 o List.mem_cons_self).1
          refine ⟨o, os, rfl, by rw [ho.indented, hLi], ho.dline, fun x hx => (dl2 x (List.mem_cons_of_mem _ hx)).1, ?_⟩
          simp only [obsLines, dl3, flatten_map_eq_nil _ _ hclcw, flatten_map_eq_nil _ _ hclcc, hLf.2.1, hLf.2.2.1,
            hccmL, hwd]

/-! ### comment cards -/

theorem lstrip_blanks_cons (k : Nat) (c : Char) (y : Str) (hc : isBlankC c = false) :
    lstrip (blanks k ++ c :: y) = c :: y := by
  induction k with
  | zero => simp [blanks, lstrip, List.dropWhile_cons, hc]
  | succ j ih =>
    have : blanks (j + 1) ++ c :: y = ' ' :: (blanks j ++ c :: y) := by simp [blanks, List.replicate_succ]
    have hb : isBlankC ' ' = true := by decide
    rw [this]
    simp only [lstrip, List.dropWhile_cons, hb, if_true]
    exact ih

/-- what a comment card of the shape `blanks k ++ c :: y` contributes -/
theorem commentLine_facts (k : Nat) (c : Char) (y : Str) (hk : k < 5) (hc : c = 'c' ∨ c = 'C')
    (hy : y = [] ∨ ∃ y', y = ' ' :: y') :
    isCommentCard (blanks k ++ c :: y) = true ∧ isBlankLine (blanks k ++ c :: y) = false ∧
      cw (blanks k ++ c :: y) = [] ∧ cdl (blanks k ++ c :: y) = [] ∧ ccm (blanks k ++ c :: y) = sq y := by
  have hcc := isCommentCard_of_shape k c y hk hc hy
  have hcb : isBlankC c = false := by rcases hc with rfl | rfl <;> decide
  have hcs : pyIsSpace c = false := by rcases hc with rfl | rfl <;> decide
  refine ⟨hcc, not_fileBlank_of_mem _ c (by simp) hcs, by simp [cw, hcc], by simp [cdl, hcc], ?_⟩
  simp only [ccm, hcc, if_true, commentText, sq_lstrip, sq_rstrip, lstrip_blanks_cons k c y hcb, List.drop_one,
    List.tail_cons]

/-- C comment cards the round trip is proved for: no chunk of the comment longer than a continuation `c ` line holds -/
def CommentOK (W : Nat) (L : Str) : Prop := NoLongChunk W 0 ((L.takeWhile (· = ' ')).length + 2) L

/-- **a wrapped comment card**: every line `_wrap_line` returns is a non-blank comment card, and together they carry
    the text of the source comment. -/
theorem wrapLine_comment (W : Nat) (hW : 7 < W) (L init : Str) (hcl : Clean L) (hc : isCommentCard L = true)
    (hok : CommentOK W L) :
    wrapLine L W init (blanks 5) ≠ [] ∧
    (∀ x ∈ wrapLine L W init (blanks 5), isBlankLine x = false ∧ isCommentCard x = true) ∧
    obsLines (wrapLine L W init (blanks 5)) = (cw L, cdl L, ccm L) := by
  obtain ⟨k, c, r, hk, hcC, hL, hr⟩ := commentCard_shape L hc
  have hcb : c ≠ ' ' := by rcases hcC with rfl | rfl <;> decide
  have hLf := commentLine_facts k c r hk hcC hr
  rw [← hL] at hLf
  have hlead : (L.takeWhile (· = ' ')).length = k := by
    rw [hL, takeWhile_blanks_cons k c r hcb, length_blanks]
  unfold wrapLine
  simp only [expandTabs_clean _ L hcl, isCommentLine_eq, hc, if_true, leadBlanks_eq, hlead]
  split
  · refine ⟨by simp, ?_, by simp [obsLines]⟩
    intro x hx
    simp only [List.mem_singleton] at hx
    subst hx
    exact ⟨hLf.2.1, hLf.1⟩
  · have hpre : L.take (k + 1) ++ [' '] = blanks k ++ [c, ' '] := by
      rw [hL]
      have : (blanks k ++ c :: r).take (k + 1) = blanks k ++ [c] := by
        rw [List.take_append, length_blanks]
        have h1 : (blanks k).take (k + 1) = blanks k := List.take_of_length_le (by simp [blanks])
        have h2 : k + 1 - k = 1 := by omega
        simp [h1, h2]
      rw [this]; simp
    rw [hpre]
    unfold textwrapWrap
    rw [munge_clean _ hcl]
    have hplen : (blanks k ++ [c, ' ']).length = k + 2 := by simp [blanks]
    have hb : ∀ x ∈ splitChunks L, x.length ≤ W - ([] : Str).length ∧ x.length ≤ W - (blanks k ++ [c, ' ']).length := by
      have := hok
      simp only [CommentOK, NoLongChunk, munge_clean _ hcl, hlead] at this
      intro x hx
      have := this x hx
      simp only [List.length_nil, hplen]
      exact this
    have hgr := wrapChunks_grouped W [] (blanks k ++ [c, ' ']) true (splitChunks L) hb
    obtain ⟨bodies, hb1, hb2, hb3⟩ := wrapChunks_bodies W [] (blanks k ++ [c, ' ']) (by simp; omega)
      (by rw [hplen]; omega) true (splitChunks L) (splitChunks_ne _ hcl)
    rw [splitChunks_flatten] at hb2
    rw [hb1] at hgr ⊢
    cases bodies with
    | nil =>
      simp only [List.flatten_nil] at hb2
      rw [hL] at hb2
      simp at hb2
    | cons b0 bs =>
      rw [indentLines_cons] at hgr ⊢
      simp only [if_true, List.nil_append] at hgr ⊢
      simp only [List.flatten_cons] at hb2
      -- the first body is long enough to hold the `c`
      have hlen : k + 1 ≤ b0.length := by
        obtain ⟨g, rest, hgne, hch, hl0, hbound, hrest⟩ := hgr
        simp only [if_true, List.nil_append, List.length_nil, Nat.zero_add] at hl0 hbound
        cases rest with
        | nil =>
          have hbsn : bs.map ((blanks k ++ [c, ' ']) ++ ·) = [] := by
            cases hm : bs.map ((blanks k ++ [c, ' ']) ++ ·) with
            | nil => rfl
            | cons a as =>
              rw [hm] at hrest
              have := grouped_nil_chunks _ _ _ _ _ hrest
              cases this
          have : bs = [] := by simpa using hbsn
          subst this
          simp only [List.flatten_nil, List.append_nil] at hb2
          rw [hb2, hL]; simp [blanks]
        | cons x xs =>
          have h1 := hbound x rfl
          have h2 := (hb x (by rw [hch]; simp)).2
          rw [hplen] at h2
          rw [← hl0] at h1
          omega
      -- so it has the shape of a comment card
      obtain ⟨r0, hb0, hr0⟩ : ∃ r0, b0 = blanks k ++ c :: r0 ∧ r = r0 ++ bs.flatten := by
        have heq : b0 ++ bs.flatten = (blanks k ++ [c]) ++ r := by rw [hb2, hL]; simp
        rcases List.append_eq_append_iff.mp heq with ⟨a', ha1, ha2⟩ | ⟨c', hc1, hc2⟩
        · have : a' = [] := by
            have := congrArg List.length ha1
            simp only [List.length_append, length_blanks, List.length_singleton] at this
            exact List.eq_nil_of_length_eq_zero (by omega)
          subst this
          refine ⟨[], ?_, ?_⟩
          · simp only [List.append_nil] at ha1; rw [← ha1]
          · simpa using ha2.symm
        · exact ⟨c', by rw [hc1]; simp, hc2⟩
      have hr0s : r0 = [] ∨ ∃ y', r0 = ' ' :: y' := by
        cases r0 with
        | nil => exact Or.inl rfl
        | cons x y' =>
          right
          rcases hr with hr | ⟨r', hr'⟩
          · rw [hr] at hr0; simp at hr0
          · rw [hr'] at hr0
            simp only [List.cons_append, List.cons.injEq] at hr0
            exact ⟨y', by rw [← hr0.1]⟩
      have hf0 := commentLine_facts k c r0 hk hcC hr0s
      rw [← hb0] at hf0
      have hfb : ∀ b, isCommentCard ((blanks k ++ [c, ' ']) ++ b) = true ∧ isBlankLine ((blanks k ++ [c, ' ']) ++ b) = false ∧
          cw ((blanks k ++ [c, ' ']) ++ b) = [] ∧ cdl ((blanks k ++ [c, ' ']) ++ b) = [] ∧
          ccm ((blanks k ++ [c, ' ']) ++ b) = sq b := by
        intro b
        have := commentLine_facts k c (' ' :: b) hk hcC (Or.inr ⟨b, rfl⟩)
        simp only [List.append_assoc, List.cons_append, List.nil_append, sq_blank_cons] at this ⊢
        exact this
      refine ⟨by simp, ?_, ?_⟩
      · intro x hx
        simp only [List.mem_cons, List.mem_map] at hx
        rcases hx with rfl | ⟨b, _, rfl⟩
        · exact ⟨hf0.2.1, hf0.1⟩
        · exact ⟨(hfb b).2.1, (hfb b).1⟩
      · have hsum : ∀ (l : List Str),
            ((l.map ((blanks k ++ [c, ' ']) ++ ·)).map cw).flatten = [] ∧
            ((l.map ((blanks k ++ [c, ' ']) ++ ·)).map cdl).flatten = [] ∧
            ((l.map ((blanks k ++ [c, ' ']) ++ ·)).map ccm).flatten = sq l.flatten := by
          intro l
          induction l with
          | nil => exact ⟨rfl, rfl, rfl⟩
          | cons b l ih =>
            simp only [List.map_cons, List.flatten_cons, (hfb b).2.2.1, (hfb b).2.2.2.1, (hfb b).2.2.2.2, ih.1, ih.2.1,
              ih.2.2, sq_append, List.nil_append]
            exact ⟨trivial, trivial, trivial⟩
        simp only [obsLines, List.map_cons, List.flatten_cons, hf0.2.2.1, hf0.2.2.2.1, hf0.2.2.2.2, (hsum bs).1,
          (hsum bs).2.1, (hsum bs).2.2, List.nil_append, hLf.2.2.1, hLf.2.2.2.1, hLf.2.2.2.2, hr0, sq_append]

/-! ## 8. the whole card -/

/-- the physical source lines the round trip is proved for -/
structure LineOK (W : Nat) (L : Str) : Prop where
  clean : Clean L
  nonblank : stripNonEmpty L = true
  ok : if isCommentCard L = true then CommentOK W L else DataOK W L

/-- what `wrap_string_for_mcnp(…, is_first_line=True)` returns for these source lines -/
def wrapCard (W : Nat) (ls : List Str) : List Str := ls.flatMap (fun l => wrapLine l W [] (blanks 5))

theorem wrapStringWith_eq (s : Str) (W : Nat) :
    (wrapStringWith s W true).1 = wrapCard W ((splitLines s).filter stripNonEmpty) := by
  unfold wrapStringWith wrapCard
  have h5 : blanks Gen.blankSpaceContinue = blanks 5 := rfl
  simp only [if_true, h5]
  have : ∀ (ls : List Str) (acc : List Str × Nat),
      (ls.foldl (fun (acc : List Str × Nat) line =>
        if stripNonEmpty line = true then
          (acc.1 ++ wrapLine line W [] (blanks 5),
            if (wrapLine line W [] (blanks 5)).length > 1 then acc.2 + 1 else acc.2)
        else acc) acc).1 = acc.1 ++ (ls.filter stripNonEmpty).flatMap (fun l => wrapLine l W [] (blanks 5)) := by
    intro ls
    induction ls with
    | nil => intro acc; simp
    | cons l t ih =>
      intro acc
      simp only [List.foldl_cons]
      rw [ih]
      by_cases hl : stripNonEmpty l = true
      · simp [hl, List.filter_cons, List.append_assoc]
      · simp [hl, List.filter_cons]
  simpa using this (splitLines s) ([], 0)

theorem LineOK.noAmpL {W : Nat} {L : Str} (h : LineOK W L) : NoAmpL L := by
  intro hc
  have := h.ok
  simp only [hc, Bool.false_eq_true, if_false] at this
  rw [splitDollar_eq]
  exact this.amp

/-- a line that may follow the first line of a card -/
def GoodCont (x : Str) : Prop :=
  isBlankLine x = false ∧ (isCommentCard x = true ∨ (isIndented x = true ∧ '&' ∉ (splitDollar x).1))

theorem ContLine.good {x : Str} (h : ContLine x) : GoodCont x := ⟨h.nonblank, Or.inr ⟨h.indented, h.noamp⟩⟩

theorem contOK_of_good : ∀ (ls : List Str), (∀ x ∈ ls, GoodCont x) → ContOK false ls
  | [], _ => by simp [ContOK]
  | l :: t, h => by
    have ih := contOK_of_good t (fun x hx => h x (List.mem_cons_of_mem _ hx))
    obtain ⟨hnb, hor⟩ := h l List.mem_cons_self
    simp only [ContOK]
    refine ⟨hnb, ?_⟩
    by_cases hc : isCommentCard l = true
    · simp [hc, ih]
    · rcases hor with h1 | ⟨h1, h2⟩
      · exact absurd h1 hc
      · simp only [hc, Bool.false_eq_true, if_false]
        rw [startCard_of_noAmp l h2]
        exact ⟨Or.inr h1, ih⟩

theorem good_of_contOK : ∀ (ls : List Str), ContOK false ls → (∀ l ∈ ls, NoAmpL l) →
    ∀ l ∈ ls, isBlankLine l = false ∧ (isCommentCard l = true ∨ isIndented l = true)
  | [], _, _, l, hl => by simp at hl
  | a :: t, h, hn, l, hl => by
    simp only [ContOK] at h
    obtain ⟨hnb, hrest⟩ := h
    by_cases hc : isCommentCard a = true
    · simp only [hc, if_true] at hrest
      simp only [List.mem_cons] at hl
      rcases hl with rfl | hl
      · exact ⟨hnb, Or.inl hc⟩
      · exact good_of_contOK t hrest (fun x hx => hn x (List.mem_cons_of_mem _ hx)) l hl
    · simp only [hc, Bool.false_eq_true, if_false] at hrest
      have hc' : isCommentCard a = false := by simpa using hc
      have hna := hn a List.mem_cons_self hc'
      rw [startCard_of_noAmp a hna] at hrest
      simp only [List.mem_cons] at hl
      rcases hl with rfl | hl
      · rcases hrest.1 with h | h
        · cases h
        · exact ⟨hnb, Or.inr h⟩
      · exact good_of_contOK t hrest.2 (fun x hx => hn x (List.mem_cons_of_mem _ hx)) l hl

theorem obsLines_append (a b : List Str) :
    obsLines (a ++ b) = ((obsLines a).1 ++ (obsLines b).1, (obsLines a).2.1 ++ (obsLines b).2.1,
      (obsLines a).2.2 ++ (obsLines b).2.2) := by
  simp [obsLines]

/-- what the wrapped lines of one source line contribute is what the source line contributes -/
theorem wrapLine_obs (W : Nat) (hW : 7 < W) (L : Str) (h : LineOK W L) :
    obsLines (wrapLine L W [] (blanks 5)) = (cw L, cdl L, ccm L) := by
  by_cases hc : isCommentCard L = true
  · have hok := h.ok; simp only [hc, if_true] at hok
    exact (wrapLine_comment W hW L [] h.clean hc hok).2.2
  · have hc' : isCommentCard L = false := by simpa using hc
    have hok := h.ok; simp only [hc', Bool.false_eq_true, if_false] at hok
    obtain ⟨o, os, he, _, _, _, hobs⟩ := wrapLine_data W hW L h.clean h.nonblank hc' hok
    rw [he]; exact hobs

theorem wrapCard_obs (W : Nat) (hW : 7 < W) : ∀ (ls : List Str), (∀ l ∈ ls, LineOK W l) →
    obsLines (wrapCard W ls) = obsLines ls
  | [], _ => rfl
  | l :: t, h => by
    have ih := wrapCard_obs W hW t (fun x hx => h x (List.mem_cons_of_mem _ hx))
    have h1 := wrapLine_obs W hW l (h l List.mem_cons_self)
    have : wrapCard W (l :: t) = wrapLine l W [] (blanks 5) ++ wrapCard W t := by simp [wrapCard]
    rw [this, obsLines_append, ih, h1]
    simp [obsLines]

/-- every line wrapped from a continuation line of the source is a good continuation line -/
theorem wrapLine_good (W : Nat) (hW : 7 < W) (L : Str) (h : LineOK W L)
    (hsrc : isCommentCard L = true ∨ isIndented L = true) : ∀ x ∈ wrapLine L W [] (blanks 5), GoodCont x := by
  intro x hx
  by_cases hc : isCommentCard L = true
  · have hok := h.ok; simp only [hc, if_true] at hok
    have := (wrapLine_comment W hW L [] h.clean hc hok).2.1 x hx
    exact ⟨this.1, Or.inl this.2⟩
  · have hc' : isCommentCard L = false := by simpa using hc
    have hi : isIndented L = true := by
      rcases hsrc with h1 | h1
      · exact absurd h1 hc
      · exact h1
    have hok := h.ok; simp only [hc', Bool.false_eq_true, if_false] at hok
    obtain ⟨o, os, he, hio, hdo, hos, _⟩ := wrapLine_data W hW L h.clean h.nonblank hc' hok
    rw [he] at hx
    simp only [List.mem_cons] at hx
    rcases hx with rfl | hx
    · exact ⟨hdo.nonblank, Or.inr ⟨by rw [hio, hi], hdo.noamp⟩⟩
    · exact (hos x hx).good

theorem GoodCont.noAmpL {x : Str} (h : GoodCont x) : NoAmpL x := by
  intro hc
  rcases h.2 with h1 | h1
  · rw [h1] at hc; cases hc
  · exact h1.2

/-- **C10_roundtrip_card** — a well-formed card (`CardOK` of C01Blocks) whose lines are in the class `LineOK`,
    wrapped line by line as `wrap_string_for_mcnp` does: the result is again a well-formed card — its first line is
    not blank, not a comment card and not pushed into the continuation columns, every further line is a comment card
    or an indented data line, none is blank, the last does not end in `&` — and the reader of `Spec/File.lean` reads
    in it the same words, the same `$` comment text and the same comment-card text as in the unwrapped card. -/
theorem C10_roundtrip_card (W : Nat) (hW : 7 < W) (src : WCard) (hok : CardOK src)
    (hcls : ∀ l ∈ src.lines, LineOK W l) :
    ∃ o os, wrapCard W src.lines = o :: os ∧ CardOK ⟨o, os⟩ ∧
      obsCard (readCard ⟨o, os⟩) = obsCard (readCard src) := by
  obtain ⟨f, rest⟩ := src
  obtain ⟨hfnb, hfnc, hfni, hcont⟩ := hok
  simp only at hfnb hfnc hfni hcont
  have hlf : LineOK W f := hcls f (by simp [FileWrite.WCard.lines])
  have hlr : ∀ l ∈ rest, LineOK W l := fun l hl => hcls l (by simp [FileWrite.WCard.lines, hl])
  have hnaf := hlf.noAmpL hfnc
  rw [startCard_of_noAmp f hnaf] at hcont
  simp only at hcont
  have hgood := good_of_contOK rest hcont (fun l hl => (hlr l hl).noAmpL)
  have hokf := hlf.ok; simp only [hfnc, Bool.false_eq_true, if_false] at hokf
  obtain ⟨o, more, he, hio, hdo, hmore, _⟩ := wrapLine_data W hW f hlf.clean hlf.nonblank hfnc hokf
  have hout : wrapCard W (FileWrite.WCard.lines ⟨f, rest⟩) = o :: (more ++ wrapCard W rest) := by
    simp only [FileWrite.WCard.lines, wrapCard, List.flatMap_cons, he, List.cons_append]
  have hrestgood : ∀ x ∈ more ++ wrapCard W rest, GoodCont x := by
    intro x hx
    rcases List.mem_append.mp hx with hx | hx
    · exact (hmore x hx).good
    · simp only [wrapCard, List.mem_flatMap] at hx
      obtain ⟨l, hl, hxl⟩ := hx
      exact wrapLine_good W hW l (hlr l hl) (hgood l hl).2 x hxl
  refine ⟨o, more ++ wrapCard W rest, hout, ?_, ?_⟩
  · refine ⟨hdo.nonblank, hdo.notcomment, by rw [hio]; exact hfni, ?_⟩
    simp only
    rw [startCard_of_noAmp o hdo.noamp]
    exact contOK_of_good _ hrestgood
  · rw [obs_readCard ⟨o, more ++ wrapCard W rest⟩ hdo.notcomment, obs_readCard ⟨f, rest⟩ hfnc]
    · show obsLines (o :: (more ++ wrapCard W rest)) = _
      rw [← hout]; exact wrapCard_obs W hW _ hcls
    · intro l hl; exact (hcls l hl).noAmpL
    · intro l hl
      simp only [FileWrite.WCard.lines, List.mem_cons] at hl
      rcases hl with rfl | hl
      · exact fun _ => hdo.noamp
      · exact (hrestgood l hl).noAmpL

/-- **C10_roundtrip** (partial: the class `LineOK` excludes the recorded finding C10-F1, a word longer than
    limit-5 columns, together with `&` inside data, `c$ …`, tabs/control white space and un-indented `$`-only
    lines) — for every regime of the code's `LINE_LENGTH` table and every string `s` handed to
    `wrap_string_for_mcnp(s, v, True)` whose non-blank lines form a well-formed card of that class: the lines
    returned form a well-formed card (`CardOK`, the hypothesis of `C01_blocks`) in which MCNP's rules
    (`Spec/File.lean`: `readCard`, `words`) read the same words and the same comment text. -/
theorem C10_roundtrip : ∀ e ∈ Gen.lineLength, ∀ (s : Str) (src : WCard),
    (splitLines s).filter stripNonEmpty = src.lines → CardOK src → (∀ l ∈ src.lines, LineOK e.2 l) →
    ∃ o os, (wrapStringWith s e.2 true).1 = o :: os ∧ CardOK ⟨o, os⟩ ∧
      obsCard (readCard ⟨o, os⟩) = obsCard (readCard src) := by
  intro e he s src hs hok hcls
  have hW : 7 < e.2 := by
    have := C10_tables.1 e he
    have h5 : Gen.blankSpaceContinue = 5 := rfl
    omega
  rw [wrapStringWith_eq, hs]
  exact C10_roundtrip_card e.2 hW src hok hcls

/-! ### non-vacuity: a card of the 80-column regime that has to be wrapped (a `$` comment that does not fit, a
    98-column comment card, a continuation line).  The strings are written as character lists so that `decide`
    evaluates them in the kernel without unpacking string literals. -/

theorem lineOK_data (W : Nat) (L : Str) (hc : Clean L) (hn : stripNonEmpty L = true) (hnc : isCommentCard L = false)
    (hd : DataOK W L) : LineOK W L := ⟨hc, hn, by simp only [hnc, Bool.false_eq_true, if_false]; exact hd⟩

theorem lineOK_comment (W : Nat) (L : Str) (hc : Clean L) (hn : stripNonEmpty L = true) (hcc : isCommentCard L = true)
    (hd : CommentOK W L) : LineOK W L := ⟨hc, hn, by simp only [hcc, if_true]; exact hd⟩

/-- `1 0 -1 -2 -3 -4 -5 -6 -7 -8 -9 -10 -11 -12 -13 -14 -15 -16 imp:n=1 $ this dollar comment is too long` -/
def exLine1 : Str := ['1', ' ', '0', ' ', '-', '1', ' ', '-', '2', ' ', '-', '3', ' ', '-', '4', ' ', '-', '5', ' ', '-', '6', ' ', '-', '7', ' ', '-', '8', ' ', '-', '9', ' ', '-', '1', '0', ' ', '-', '1', '1', ' ', '-', '1', '2', ' ', '-', '1', '3', ' ', '-', '1', '4', ' ', '-', '1', '5', ' ', '-', '1', '6', ' ', 'i', 'm', 'p', ':', 'n', '=', '1', ' ', '$', ' ', 't', 'h', 'i', 's', ' ', 'd', 'o', 'l', 'l', 'a', 'r', ' ', 'c', 'o', 'm', 'm', 'e', 'n', 't', ' ', 'i', 's', ' ', 't', 'o', 'o', ' ', 'l', 'o', 'n', 'g']
/-- `c this is a very long comment line that is longer than eighty columns but shorter than 128 columns` -/
def exLine2 : Str := ['c', ' ', 't', 'h', 'i', 's', ' ', 'i', 's', ' ', 'a', ' ', 'v', 'e', 'r', 'y', ' ', 'l', 'o', 'n', 'g', ' ', 'c', 'o', 'm', 'm', 'e', 'n', 't', ' ', 'l', 'i', 'n', 'e', ' ', 't', 'h', 'a', 't', ' ', 'i', 's', ' ', 'l', 'o', 'n', 'g', 'e', 'r', ' ', 't', 'h', 'a', 'n', ' ', 'e', 'i', 'g', 'h', 't', 'y', ' ', 'c', 'o', 'l', 'u', 'm', 'n', 's', ' ', 'b', 'u', 't', ' ', 's', 'h', 'o', 'r', 't', 'e', 'r', ' ', 't', 'h', 'a', 'n', ' ', '1', '2', '8', ' ', 'c', 'o', 'l', 'u', 'm', 'n', 's']
/-- `     vol=2 u=3` -/
def exLine3 : Str := [' ', ' ', ' ', ' ', ' ', 'v', 'o', 'l', '=', '2', ' ', 'u', '=', '3']
/-- the three lines with line ends and an empty line in between, as handed to `wrap_string_for_mcnp` -/
def exString : Str := ['1', ' ', '0', ' ', '-', '1', ' ', '-', '2', ' ', '-', '3', ' ', '-', '4', ' ', '-', '5', ' ', '-', '6', ' ', '-', '7', ' ', '-', '8', ' ', '-', '9', ' ', '-', '1', '0', ' ', '-', '1', '1', ' ', '-', '1', '2', ' ', '-', '1', '3', ' ', '-', '1', '4', ' ', '-', '1', '5', ' ', '-', '1', '6', ' ', 'i', 'm', 'p', ':', 'n', '=', '1', ' ', '$', ' ', 't', 'h', 'i', 's', ' ', 'd', 'o', 'l', 'l', 'a', 'r', ' ', 'c', 'o', 'm', 'm', 'e', 'n', 't', ' ', 'i', 's', ' ', 't', 'o', 'o', ' ', 'l', 'o', 'n', 'g', '\n', 'c', ' ', 't', 'h', 'i', 's', ' ', 'i', 's', ' ', 'a', ' ', 'v', 'e', 'r', 'y', ' ', 'l', 'o', 'n', 'g', ' ', 'c', 'o', 'm', 'm', 'e', 'n', 't', ' ', 'l', 'i', 'n', 'e', ' ', 't', 'h', 'a', 't', ' ', 'i', 's', ' ', 'l', 'o', 'n', 'g', 'e', 'r', ' ', 't', 'h', 'a', 'n', ' ', 'e', 'i', 'g', 'h', 't', 'y', ' ', 'c', 'o', 'l', 'u', 'm', 'n', 's', ' ', 'b', 'u', 't', ' ', 's', 'h', 'o', 'r', 't', 'e', 'r', ' ', 't', 'h', 'a', 'n', ' ', '1', '2', '8', ' ', 'c', 'o', 'l', 'u', 'm', 'n', 's', '\n', '\n', ' ', ' ', ' ', ' ', ' ', 'v', 'o', 'l', '=', '2', ' ', 'u', '=', '3', '\n']

def exCard : WCard := ⟨exLine1, [exLine2, exLine3]⟩

theorem exCard_ok : CardOK exCard := (FileWrite.cardOKb_iff exCard).mp (by decide)

theorem exCard_lines : ∀ l ∈ exCard.lines, LineOK 80 l := by
  have h1 : LineOK 80 exLine1 :=
    lineOK_data _ _ (by decide) (by decide) (by decide) ⟨by decide, by decide, by decide, by decide⟩
  have h2 : LineOK 80 exLine2 :=
    lineOK_comment _ _ (by decide) (by decide) (by decide) (by unfold CommentOK; decide)
  have h3 : LineOK 80 exLine3 :=
    lineOK_data _ _ (by decide) (by decide) (by decide) ⟨by decide, by decide, by decide, by decide⟩
  intro l hl
  simp only [exCard, FileWrite.WCard.lines, List.mem_cons, List.mem_nil_iff, or_false] at hl
  rcases hl with rfl | rfl | rfl
  · exact h1
  · exact h2
  · exact h3

/-- the hypotheses of `C10_roundtrip` hold for it, two of its lines are longer than 80 columns, and so the theorem
    applies to a card that really is wrapped -/
example : 80 < exLine1.length ∧ 80 < exLine2.length := by decide

example : ∃ o os, (wrapStringWith exString 80 true).1 = o :: os ∧ CardOK ⟨o, os⟩ ∧
    obsCard (readCard ⟨o, os⟩) = obsCard (readCard exCard) :=
  C10_roundtrip ((6, 1, 0), 80) (by decide) exString exCard (by decide) exCard_ok exCard_lines

/-! ## 9. the start rule and the blank-line rule as statements of their own -/

theorem not_indented_of_comment (x : Str) (h : isCommentCard x = true) : isIndented x = false := by
  cases hi : isIndented x with
  | false => rfl
  | true => rw [not_comment_of_indented x hi] at h; cases h

/-- **C10_start** — for every source line of the class `LineOK`: the first line `_wrap_line` returns is indented
    exactly when the source line is (an input's first line is not pushed into the continuation columns, a
    continuation line stays one) and is a comment card exactly when the source line is; every further line starts
    with at least `BLANK_SPACE_CONTINUE` blanks or is a comment card. -/
theorem C10_start (W : Nat) (hW : 7 < W) (L : Str) (h : LineOK W L) :
    ∃ o os, wrapLine L W [] (blanks Gen.blankSpaceContinue) = o :: os ∧
      isIndented o = isIndented L ∧ isCommentCard o = isCommentCard L ∧
      ∀ x ∈ os, isIndented x = true ∨ isCommentCard x = true := by
  have h5 : blanks Gen.blankSpaceContinue = blanks 5 := rfl
  rw [h5]
  by_cases hc : isCommentCard L = true
  · have hok := h.ok; simp only [hc, if_true] at hok
    obtain ⟨hne, hall, _⟩ := wrapLine_comment W hW L [] h.clean hc hok
    cases hw : wrapLine L W [] (blanks 5) with
    | nil => exact absurd hw hne
    | cons o os =>
      rw [hw] at hall
      have ho := (hall o List.mem_cons_self).2
      refine ⟨o, os, rfl, ?_, by rw [ho, hc], fun x hx => Or.inr (hall x (List.mem_cons_of_mem _ hx)).2⟩
      rw [not_indented_of_comment o ho, not_indented_of_comment L hc]
  · have hc' : isCommentCard L = false := by simpa using hc
    have hok := h.ok; simp only [hc', Bool.false_eq_true, if_false] at hok
    obtain ⟨o, os, he, hio, hdo, hos, _⟩ := wrapLine_data W hW L h.clean h.nonblank hc' hok
    exact ⟨o, os, he, hio, by rw [hdo.notcomment, hc'], fun x hx => Or.inl (hos x hx).indented⟩

theorem textBlank_of_fileBlank (x : Str) (h : isBlankLine x = false) : Spec.Text.isBlankLine x = false := by
  cases ht : Spec.Text.isBlankLine x with
  | false => rfl
  | true =>
    simp only [Spec.Text.isBlankLine, List.all_eq_true, beq_iff_eq] at ht
    have : isBlankLine x = true := by
      simp only [Spec.File.isBlankLine, List.all_eq_true]
      intro c hc
      rw [ht c hc]; decide
    rw [this] at h; cases h

/-- **C10_noblank** — no line `_wrap_line` produces is blank (a blank line would end the block), in every branch:
    lines that fit, wrapped data, a `$` comment put back behind its data or moved to lines of its own, wrapped comment
    cards.  Hypotheses: the source line is not blank and holds no white space but blanks; for a comment card, no
    word longer than a continuation `c ` line (otherwise nothing about the data: over-long words included). -/
theorem C10_noblank (W : Nat) (hW : 7 < W) (L : Str) (hcl : Clean L) (hnb : stripNonEmpty L = true)
    (hcm : isCommentCard L = true → CommentOK W L) :
    ∀ x ∈ wrapLine L W [] (blanks Gen.blankSpaceContinue),
      isBlankLine x = false ∧ Spec.Text.isBlankLine x = false := by
  have h5 : blanks Gen.blankSpaceContinue = blanks 5 := rfl
  rw [h5]
  suffices hx : ∀ x ∈ wrapLine L W [] (blanks 5), isBlankLine x = false from
    fun x hxm => ⟨hx x hxm, textBlank_of_fileBlank x (hx x hxm)⟩
  by_cases hc : isCommentCard L = true
  · exact fun x hx => ((wrapLine_comment W hW L [] hcl hc (hcm hc)).2.1 x hx).1
  · have hc' : isCommentCard L = false := by simpa using hc
    have hpa := partitionDollar_append L
    unfold wrapLine
    simp only [expandTabs_clean _ L hcl, isCommentLine_eq, hc', Bool.false_eq_true, if_false, List.length_nil,
      Nat.zero_add, List.nil_append]
    generalize partitionDollar L = p at *
    obtain ⟨d, has, t⟩ := p
    simp only at hpa ⊢
    have hret : ∀ x ∈ (textwrapWrap W [] (blanks 5) d).filter stripNonEmpty, isBlankLine x = false :=
      fun x hx => not_fileBlank_of_stripNonEmpty x (List.mem_filter.mp hx).2
    split
    · intro x hx
      simp only [List.mem_singleton] at hx
      subst hx
      exact not_fileBlank_of_stripNonEmpty _ hnb
    · cases has with
      | false => simpa using hret
      | true =>
        simp only [if_true] at hpa ⊢
        have hclt : Clean t := by
          intro c hc hs
          exact hcl c (by rw [hpa]; exact List.mem_append_right _ (List.mem_cons_of_mem _ hc)) hs
        have hdl := (dollarLines W hW t hclt).2.1
        split
        · split
          · intro x hx
            rcases mem_dropLast_append _ _ _ hx with h | h
            · exact hret x h
            · subst h
              exact not_fileBlank_of_mem _ '$' (by simp) (by decide)
          · intro x hx
            rcases List.mem_append.mp hx with h | h
            · exact hret x h
            · exact (hdl x h).1.nonblank
        · intro x hx
          rcases List.mem_append.mp hx with h | h
          · exact hret x h
          · exact (hdl x h).1.nonblank

/-- **C10_data_stays_data** (the converse of `C10_comment_stays_comment`) — for every data line of the class `LineOK`
    (in particular one whose first word merely begins with `c`/`C` in columns 1-5: `c14`, `cf4`, `cut:n`, `ctme` …):
    no line `_wrap_line` returns is a comment card, the lines contribute no comment-card text, and their data words are
    exactly the words of the source line.  (`C10_start` gives the first half for the first line only — its
    continuation clause allows "indented or comment card"; here every continuation line is indented.) -/
theorem C10_data_stays_data (W : Nat) (hW : 7 < W) (L : Str) (h : LineOK W L) (hd : isCommentCard L = false) :
    (∀ x ∈ wrapLine L W [] (blanks Gen.blankSpaceContinue), isCommentCard x = false) ∧
    (obsLines (wrapLine L W [] (blanks Gen.blankSpaceContinue))).1 = Spec.File.words (splitDollar L).1 ∧
    (obsLines (wrapLine L W [] (blanks Gen.blankSpaceContinue))).2.2 = [] := by
  have h5 : blanks Gen.blankSpaceContinue = blanks 5 := rfl
  rw [h5]
  have hok := h.ok; simp only [hd, Bool.false_eq_true, if_false] at hok
  obtain ⟨o, os, he, _, hdo, hos, hobs⟩ := wrapLine_data W hW L h.clean h.nonblank hd hok
  rw [he, hobs]
  refine ⟨?_, by simp [cw, hd], by simp [ccm, hd]⟩
  intro x hx
  simp only [List.mem_cons] at hx
  rcases hx with rfl | hx
  · exact hdo.notcomment
  · exact (hos x hx).not_comment

/-- `c14 -1.0 -0.9 -0.8 -0.7 -0.6 -0.5 -0.4 -0.3 -0.2 -0.1 0.0 0.1 0.2 0.3 0.4 0.5 0.6 0.7 0.8 0.9 1.0` (100 columns): the cosine bins of tally 14 -/
def exC14 : Str := ['c', '1', '4', ' ', '-', '1', '.', '0', ' ', '-', '0', '.', '9', ' ', '-', '0', '.', '8', ' ', '-', '0', '.', '7', ' ', '-', '0', '.', '6', ' ', '-', '0', '.', '5', ' ', '-', '0', '.', '4', ' ', '-', '0', '.', '3', ' ', '-', '0', '.', '2', ' ', '-', '0', '.', '1', ' ', '0', '.', '0', ' ', '0', '.', '1', ' ', '0', '.', '2', ' ', '0', '.', '3', ' ', '0', '.', '4', ' ', '0', '.', '5', ' ', '0', '.', '6', ' ', '0', '.', '7', ' ', '0', '.', '8', ' ', '0', '.', '9', ' ', '1', '.', '0']
/-- `  C14 -1.0 -0.9 -0.8 -0.7 -0.6 -0.5 -0.4 -0.3 -0.2 -0.1 0.0 0.1 0.2 0.3 0.4 0.5 0.6 0.7 0.8 0.9 1.0 $ cosine bins` -/
def exC14b : Str := [' ', ' ', 'C', '1', '4', ' ', '-', '1', '.', '0', ' ', '-', '0', '.', '9', ' ', '-', '0', '.', '8', ' ', '-', '0', '.', '7', ' ', '-', '0', '.', '6', ' ', '-', '0', '.', '5', ' ', '-', '0', '.', '4', ' ', '-', '0', '.', '3', ' ', '-', '0', '.', '2', ' ', '-', '0', '.', '1', ' ', '0', '.', '0', ' ', '0', '.', '1', ' ', '0', '.', '2', ' ', '0', '.', '3', ' ', '0', '.', '4', ' ', '0', '.', '5', ' ', '0', '.', '6', ' ', '0', '.', '7', ' ', '0', '.', '8', ' ', '0', '.', '9', ' ', '1', '.', '0', ' ', '$', ' ', 'c', 'o', 's', 'i', 'n', 'e', ' ', 'b', 'i', 'n', 's']

theorem exC14_ok : LineOK 80 exC14 ∧ LineOK 80 exC14b :=
  ⟨lineOK_data _ _ (by decide) (by decide) (by decide) ⟨by decide, by decide, by decide, by decide⟩,
   lineOK_data _ _ (by decide) (by decide) (by decide) ⟨by decide, by decide, by decide, by decide⟩⟩

/-- non-vacuity on the look-alike family: both lines are data for MCNP (`isCommentCard = false`), are longer than 80
    columns, are in the class, and so none of the lines they are wrapped into is a comment card -/
example : isCommentCard exC14 = false ∧ isCommentCard exC14b = false ∧ 80 < exC14.length ∧ 80 < exC14b.length := by decide

example : (∀ x ∈ wrapLine exC14 80 [] (blanks Gen.blankSpaceContinue), isCommentCard x = false) ∧
    (∀ x ∈ wrapLine exC14b 80 [] (blanks Gen.blankSpaceContinue), isCommentCard x = false) :=
  ⟨(C10_data_stays_data 80 (by omega) exC14 exC14_ok.1 (by decide)).1,
   (C10_data_stays_data 80 (by omega) exC14b exC14_ok.2 (by decide)).1⟩

/-! ## 10. without the class: refuted by the code (finding C10-F1) -/

/-- `1 0 ` followed by a word of 77 `h` -/
def longLine : Str := ['1', ' ', '0', ' ', 'h', 'h', 'h', 'h', 'h', 'h', 'h', 'h', 'h', 'h', 'h', 'h', 'h', 'h', 'h', 'h', 'h', 'h', 'h', 'h', 'h', 'h', 'h', 'h', 'h', 'h', 'h', 'h', 'h', 'h', 'h', 'h', 'h', 'h', 'h', 'h', 'h', 'h', 'h', 'h', 'h', 'h', 'h', 'h', 'h', 'h', 'h', 'h', 'h', 'h', 'h', 'h', 'h', 'h', 'h', 'h', 'h', 'h', 'h', 'h', 'h', 'h', 'h', 'h', 'h', 'h', 'h', 'h', 'h', 'h', 'h', 'h', 'h', 'h', 'h', 'h', 'h']

set_option maxRecDepth 8000 in
theorem longLine_wrapped : wrapLine longLine 80 [] (blanks 5) = [['1', ' ', '0', ' '], [' ', ' ', ' ', ' ', ' ', 'h', 'h', 'h', 'h', 'h', 'h', 'h', 'h', 'h', 'h', 'h', 'h', 'h', 'h', 'h', 'h', 'h', 'h', 'h', 'h', 'h', 'h', 'h', 'h', 'h', 'h', 'h', 'h', 'h', 'h', 'h', 'h', 'h', 'h', 'h', 'h', 'h', 'h', 'h', 'h', 'h', 'h', 'h', 'h', 'h', 'h', 'h', 'h', 'h', 'h', 'h', 'h', 'h', 'h', 'h', 'h', 'h', 'h', 'h', 'h', 'h', 'h', 'h', 'h', 'h', 'h', 'h', 'h', 'h', 'h', 'h', 'h', 'h', 'h', 'h'], [' ', ' ', ' ', ' ', ' ', 'h', 'h']] := by
  have hcl : Clean longLine := by decide
  have hnc : isCommentCard longLine = false := by decide
  have hp : partitionDollar longLine = (longLine, false, []) := by decide
  have hfit : ¬ ([] : Str).length + longLine.length ≤ 80 := by decide
  unfold wrapLine
  simp only [expandTabs_clean _ _ hcl, isCommentLine_eq, hnc, hfit, hp, Bool.false_eq_true, if_false]
  have hw : textwrapWrap 80 [] (blanks 5) longLine = [['1', ' ', '0', ' '], [' ', ' ', ' ', ' ', ' ', 'h', 'h', 'h', 'h', 'h', 'h', 'h', 'h', 'h', 'h', 'h', 'h', 'h', 'h', 'h', 'h', 'h', 'h', 'h', 'h', 'h', 'h', 'h', 'h', 'h', 'h', 'h', 'h', 'h', 'h', 'h', 'h', 'h', 'h', 'h', 'h', 'h', 'h', 'h', 'h', 'h', 'h', 'h', 'h', 'h', 'h', 'h', 'h', 'h', 'h', 'h', 'h', 'h', 'h', 'h', 'h', 'h', 'h', 'h', 'h', 'h', 'h', 'h', 'h', 'h', 'h', 'h', 'h', 'h', 'h', 'h', 'h', 'h', 'h', 'h'], [' ', ' ', ' ', ' ', ' ', 'h', 'h']] := by
    simp [longLine, textwrapWrap, munge, expandTabs, expandTabsAux, splitChunks, wrapChunks, oneLine, fillLine,
      finishLine, blanks, isTwWs, Gen.textwrapExpandTabs, Gen.textwrapReplaceWhitespace, Gen.textwrapWhitespaceCodes,
      Gen.textwrapTabsize]
  rw [hw]
  decide

/-- the round trip claimed for every card of plain, non-blank lines — without the class `LineOK` -/
def C10_roundtrip_statement : Prop :=
  ∀ e ∈ Gen.lineLength, ∀ (s : Str) (src : WCard),
    (splitLines s).filter stripNonEmpty = src.lines → CardOK src → (∀ l ∈ src.lines, Clean l) →
    ∃ o os, (wrapStringWith s e.2 true).1 = o :: os ∧ CardOK ⟨o, os⟩ ∧
      obsCard (readCard ⟨o, os⟩) = obsCard (readCard src)

/-- **C10_roundtrip_refuted** — the code refutes it (finding C10-F1): in the 80-column regime the card `1 0 h…h` with a
    77-character word is written on three lines and read back with the words `1 0 h×75 hh`. -/
theorem C10_roundtrip_refuted : ¬ C10_roundtrip_statement := by
  intro h
  have hcl : ∀ l ∈ (⟨longLine, []⟩ : WCard).lines, Clean l := by
    intro l hl
    simp only [FileWrite.WCard.lines, List.mem_cons, List.mem_nil_iff, or_false] at hl
    subst hl; decide
  obtain ⟨o, os, he, _, hobs⟩ := h ((6, 1, 0), 80) (by decide) longLine ⟨longLine, []⟩ (by decide)
    ((FileWrite.cardOKb_iff _).mp (by decide)) hcl
  rw [wrapStringWith_eq] at he
  have hsl : (splitLines longLine).filter stripNonEmpty = [longLine] := by decide
  rw [hsl] at he
  simp only [wrapCard, List.flatMap_cons, List.flatMap_nil, List.append_nil, longLine_wrapped] at he
  injection he with h1 h2
  subst h1 h2
  have := congrArg Prod.fst hobs
  revert this
  decide
end MontePyVerif.C10
