import MontePyVerif.Props.C10
import MontePyVerif.Props.C01Blocks
/-!
# C10, end to end: a card wrapped by `wrap_string_for_mcnp` is read back by MCNP's rules as the same card

The reader is `Spec/File.lean` (`startCard`, `contStep`, `words`), the card-level notions are those of
`Props/C01Blocks.lean` (`WCard`, `CardOK`, `readCard`), so that `C10_roundtrip` delivers exactly the hypothesis
`CardOK` that `C01_blocks` asks of every written card, and says what `readCard` of the wrapped card is.
-/
namespace MontePyVerif.C10
open MontePyVerif MontePyVerif.Wrap
open _root_.MontePyVerif.Spec.Text (wordsAux)

/-! ## 1. the shape of what `_wrap_chunks` returns -/

/-- lines = bodies with the initial indent on the first and the subsequent indent on the others -/
def indentLines (init subs : Str) : Bool → List Str → List Str
  | _, [] => []
  | first, b :: bs => ((if first = true then init else subs) ++ b) :: indentLines init subs false bs

theorem finishLine_snd_ne (width : Nat) (taken rest : List Str) (hw : 1 ≤ width) (hr : ∀ c ∈ rest, c ≠ [])
    (hlen : taken.flatten.length ≤ width) :
    ∀ c ∈ (finishLine width taken rest).2, c ≠ [] := by
  cases rest with
  | nil => simp [finishLine]
  | cons c rest' =>
    simp only [finishLine]
    split
    · rename_i hlong
      intro x hx
      simp only [List.mem_cons] at hx
      rcases hx with rfl | hx
      · intro h
        have := congrArg List.length h
        have hnw : ¬ width < 1 := by omega
        simp only [List.length_drop, List.length_nil, hnw, if_false] at this
        omega
      · exact hr x (List.mem_cons_of_mem _ hx)
    · exact hr

theorem fillLine_mem (width : Nat) : ∀ (chunks : List Str) (curLen : Nat),
    (∀ c ∈ (fillLine width curLen chunks).1, c ∈ chunks) ∧ (∀ c ∈ (fillLine width curLen chunks).2, c ∈ chunks) := by
  intro chunks curLen
  have h := fillLine_append width chunks curLen
  constructor
  · intro c hc; rw [← h]; exact List.mem_append_left _ hc
  · intro c hc; rw [← h]; exact List.mem_append_right _ hc

theorem oneLine_snd_ne (width : Nat) (chunks : List Str) (hw : 1 ≤ width) (hne : ∀ c ∈ chunks, c ≠ []) :
    ∀ c ∈ (oneLine width chunks).2, c ≠ [] := by
  unfold oneLine
  apply finishLine_snd_ne _ _ _ hw
  · intro c hc; exact hne c ((fillLine_mem width chunks 0).2 c hc)
  · have := fillLine_len width chunks 0 (Nat.zero_le _); omega

theorem oneLine_fst_flatten_ne (width : Nat) (c : Str) (rest : List Str) (hw : 1 ≤ width)
    (hne : ∀ x ∈ c :: rest, x ≠ []) : (oneLine width (c :: rest)).1.flatten ≠ [] := by
  have hlen := fillLine_fst_nil width c rest
  have hmem := (fillLine_mem width (c :: rest) 0).1
  have hnil := fillLine_nil_left width (c :: rest) 0
  unfold oneLine
  generalize fillLine width 0 (c :: rest) = r at hlen hmem hnil
  obtain ⟨r1, r2⟩ := r
  simp only at hlen hmem hnil ⊢
  cases r1 with
  | nil =>
    have h2 := hnil rfl
    have h3 := hlen rfl
    subst h2
    simp only [finishLine, h3, if_true, List.nil_append, List.flatten_cons, List.flatten_nil, List.append_nil,
      List.length_nil]
    intro h
    have := congrArg List.length h
    simp only [List.length_take, List.length_nil] at this
    split at this <;> omega
  | cons a as =>
    have ha : a ≠ [] := hne a (hmem a List.mem_cons_self)
    cases r2 with
    | nil => simp [finishLine, ha]
    | cons d ds =>
      simp only [finishLine]
      split <;> simp [ha]

/-- `_wrap_chunks` returns non-empty bodies behind the indents, and the bodies concatenate to the text
    (every chunk list without empty chunks, every width that leaves a column behind the indents). -/
theorem wrapChunks_bodies (W : Nat) (init subs : Str) (hi : init.length < W) (hs : subs.length < W)
    (first : Bool) (chunks : List Str) (hne : ∀ c ∈ chunks, c ≠ []) :
    ∃ bodies, wrapChunks W init subs first chunks = indentLines init subs first bodies ∧
      bodies.flatten = chunks.flatten ∧ ∀ b ∈ bodies, b ≠ [] := by
  fun_induction wrapChunks W init subs first chunks with
  | case1 => exact ⟨[], rfl, rfl, by simp⟩
  | case2 first c rest indent r hempty ih =>
    have hind : indent.length < W := by simp only [indent]; split <;> assumption
    have := oneLine_fst_flatten_ne (W - indent.length) c rest (by omega) hne
    have h1 : r.1 = [] := by simpa using hempty
    simp only [r] at h1
    rw [h1] at this
    exact absurd rfl this
  | case3 first c rest indent r hnempty ih =>
    have hind : indent.length < W := by simp only [indent]; split <;> assumption
    obtain ⟨bodies, hb1, hb2, hb3⟩ := ih (oneLine_snd_ne _ _ (by omega) hne)
    refine ⟨r.1.flatten :: bodies, ?_, ?_, ?_⟩
    · simp only [indentLines, hb1, indent]
      congr 1
    · simp only [List.flatten_cons, hb2]
      exact oneLine_flatten (W - indent.length) (c :: rest)
    · intro b hb
      simp only [List.mem_cons] at hb
      rcases hb with rfl | hb
      · exact oneLine_fst_flatten_ne (W - indent.length) c rest (by omega) hne
      · exact hb3 b hb

/-! ## 2. without an over-long chunk the lines are groups of whole chunks, filled greedily -/

theorem fillLine_greedy (width : Nat) : ∀ (chunks : List Str) (curLen : Nat) (c : Str),
    (fillLine width curLen chunks).2.head? = some c →
      width < curLen + (fillLine width curLen chunks).1.flatten.length + c.length
  | [], _, c, h => by simp [fillLine] at h
  | d :: rest, curLen, c, h => by
    unfold fillLine at h ⊢
    split
    · rename_i hfit
      simp only [hfit, if_true] at h
      have := fillLine_greedy width rest (curLen + d.length) c h
      simp only [List.flatten_cons, List.length_append]
      omega
    · rename_i hfit
      simp only [hfit, if_false, List.head?_cons, Option.some.injEq] at h
      subst h
      simp only [List.flatten_nil, List.length_nil]
      omega

/-- `lines` are consecutive non-empty groups of whole chunks behind the indents; a group ends only where the next
    chunk no longer fits -/
def Grouped (W : Nat) (init subs : Str) : Bool → List Str → List Str → Prop
  | _, chunks, [] => chunks = []
  | first, chunks, l :: ls =>
    ∃ g rest, g ≠ [] ∧ chunks = g ++ rest ∧ l = (if first = true then init else subs) ++ g.flatten ∧
      (∀ c, rest.head? = some c → W < (if first = true then init else subs).length + g.flatten.length + c.length) ∧
      Grouped W init subs false rest ls

theorem wrapChunks_grouped (W : Nat) (init subs : Str) (first : Bool) (chunks : List Str)
    (hb : ∀ c ∈ chunks, c.length ≤ W - init.length ∧ c.length ≤ W - subs.length) :
    Grouped W init subs first chunks (wrapChunks W init subs first chunks) := by
  fun_induction wrapChunks W init subs first chunks with
  | case1 => simp [Grouped]
  | case2 first c rest indent r hempty ih =>
    have hwid : ∀ x ∈ c :: rest, x.length ≤ W - indent.length := by
      intro x hx; simp only [indent]; split
      · exact (hb x hx).1
      · exact (hb x hx).2
    have heq := oneLine_eq_fillLine _ _ hwid
    have happ := fillLine_append (W - indent.length) (c :: rest) 0
    have h1 : r.1 = [] := by simpa using hempty
    simp only [r] at h1 ih ⊢
    rw [← heq] at happ
    rw [h1] at happ
    simp only [List.nil_append] at happ
    rw [happ] at ih ⊢
    exact ih hb
  | case3 first c rest indent r hnempty ih =>
    have hwid : ∀ x ∈ c :: rest, x.length ≤ W - indent.length := by
      intro x hx; simp only [indent]; split
      · exact (hb x hx).1
      · exact (hb x hx).2
    have heq := oneLine_eq_fillLine _ _ hwid
    have happ := fillLine_append (W - indent.length) (c :: rest) 0
    have hgr := fillLine_greedy (W - indent.length) (c :: rest) 0
    rw [← heq] at happ hgr
    simp only [r] at ih hnempty ⊢
    have hb2 : ∀ x ∈ (oneLine (W - indent.length) (c :: rest)).2,
        x.length ≤ W - init.length ∧ x.length ≤ W - subs.length := by
      intro x hx; apply hb; rw [← happ]; exact List.mem_append_right _ hx
    refine ⟨(oneLine (W - indent.length) (c :: rest)).1, (oneLine (W - indent.length) (c :: rest)).2, ?_, happ.symm,
      rfl, ?_, ih hb2⟩
    · intro h; rw [h] at hnempty; simp at hnempty
    · intro x hx
      have := hgr x hx
      simp only [indent, dite_eq_ite] at this ⊢
      omega

/-- a word reader that only looks at blank-separated pieces -/
structure WordReader (wf : Str → List Str) : Prop where
  nil : wf [] = []
  sep : ∀ a b, Sep a b → wf (a ++ b) = wf a ++ wf b
  blank : ∀ b, wf (' ' :: b) = wf b

theorem WordReader.blanks {wf : Str → List Str} (h : WordReader wf) (n : Nat) (b : Str) :
    wf (blanks n ++ b) = wf b := by
  induction n with
  | zero => simp [Wrap.blanks]
  | succ k ih =>
    have : Wrap.blanks (k + 1) ++ b = ' ' :: (Wrap.blanks k ++ b) := by simp [Wrap.blanks, List.replicate_succ]
    rw [this, h.blank, ih]

theorem textWords_reader : WordReader Spec.Text.words :=
  ⟨by simp [Spec.Text.words, wordsAux], words_append_of_sep, words_blank_cons⟩

/-- the words of grouped lines are the words of the text, for any blank-separated word reader -/
theorem grouped_words {wf : Str → List Str} (hwf : WordReader wf) (W ni ns : Nat) :
    ∀ (lines : List Str) (first : Bool) (chunks : List Str), Chain chunks →
      Grouped W (blanks ni) (blanks ns) first chunks lines →
      (lines.map wf).flatten = wf chunks.flatten
  | [], _, chunks, _, hg => by
    simp only [Grouped] at hg
    subst hg
    simp [hwf.nil]
  | l :: ls, first, chunks, hc, hg => by
    obtain ⟨g, rest, hgne, hch, hl, _, hrest⟩ := hg
    subst hch
    have ih := grouped_words hwf W ni ns ls false rest (Chain.drop_left g rest hc) hrest
    simp only [List.map_cons, List.flatten_cons, ih, hl]
    have : wf ((if first = true then blanks ni else blanks ns) ++ g.flatten) = wf g.flatten := by
      split <;> exact hwf.blanks _ _
    rw [this, List.flatten_append, hwf.sep _ _ (sep_of_chain g rest hc)]

/-! ## 3. the word splitter of `Spec/File.lean` is such a reader (bridge to C01's reader) -/

theorem fileWordsAux_acc (geo : Bool) : ∀ (s cur : Str) (acc : List Str),
    Spec.File.wordsAux geo s cur acc = acc.reverse ++ Spec.File.wordsAux geo s cur []
  | [], cur, acc => by
    simp only [Spec.File.wordsAux]
    split <;> simp
  | c :: t, cur, acc => by
    simp only [Spec.File.wordsAux]
    split
    · rw [fileWordsAux_acc geo t [] (if cur.isEmpty = true then acc else cur.reverse :: acc),
        fileWordsAux_acc geo t [] (if cur.isEmpty = true then [] else [cur.reverse])]
      split <;> simp
    · split
      · rw [fileWordsAux_acc geo t [] ([c] :: if cur.isEmpty = true then acc else cur.reverse :: acc),
          fileWordsAux_acc geo t [] ([c] :: if cur.isEmpty = true then [] else [cur.reverse])]
        split <;> simp
      · exact fileWordsAux_acc geo t (c :: cur) acc

theorem fileWordsAux_append_blank (geo : Bool) : ∀ (a b cur : Str) (acc : List Str),
    Spec.File.wordsAux geo (a ++ ' ' :: b) cur acc =
      Spec.File.wordsAux geo a cur acc ++ Spec.File.wordsAux geo b [] []
  | [], b, cur, acc => by
    have hs : Spec.File.isSep ' ' = true := by decide
    simp only [List.nil_append, Spec.File.wordsAux, hs, if_true]
    rw [fileWordsAux_acc]
  | c :: a, b, cur, acc => by
    simp only [List.cons_append, Spec.File.wordsAux]
    split
    · exact fileWordsAux_append_blank geo a b _ _
    · split
      · exact fileWordsAux_append_blank geo a b _ _
      · exact fileWordsAux_append_blank geo a b _ _

theorem fileWords_reader : WordReader Spec.File.words := by
  have hb : ∀ b, Spec.File.words (' ' :: b) = Spec.File.words b := by
    intro b
    have hs : Spec.File.isSep ' ' = true := by decide
    simp [Spec.File.words, Spec.File.wordsAux, hs]
  have hsnoc : ∀ a, Spec.File.words (a ++ [' ']) = Spec.File.words a := by
    intro a
    simp only [Spec.File.words]
    rw [fileWordsAux_append_blank]
    simp [Spec.File.wordsAux]
  refine ⟨by simp [Spec.File.words, Spec.File.wordsAux], ?_, hb⟩
  intro a b h
  rcases h with h | h | ⟨a', h⟩ | ⟨b', h⟩
  · subst h; simp [Spec.File.words, Spec.File.wordsAux]
  · subst h; simp [Spec.File.words, Spec.File.wordsAux]
  · subst h
    rw [hsnoc]
    simp only [Spec.File.words, List.append_assoc, List.singleton_append]
    rw [fileWordsAux_append_blank]
  · subst h
    rw [hb]
    simp only [Spec.File.words]
    rw [fileWordsAux_append_blank]

/-- C10_words_file — `C10_words` for the word splitter of `Spec/File.lean` (blanks and `=` separate, parentheses are
    words): every text, every width, blank indents, no over-long chunk. -/
theorem C10_words_file (W ni ns : Nat) (text : Str) (h : NoLongChunk W ni ns text) :
    ((textwrapWrap W (blanks ni) (blanks ns) text).map Spec.File.words).flatten = Spec.File.words (munge text) := by
  unfold textwrapWrap
  have hg := wrapChunks_grouped W (blanks ni) (blanks ns) true (splitChunks (munge text))
    (by simpa [NoLongChunk, length_blanks] using h)
  rw [grouped_words fileWords_reader W ni ns _ true _ (splitChunks_chain _ (munge_ws text)).1 hg, splitChunks_flatten]

/-! ## 4. plain lines; the model's tests and `Spec/File.lean`'s tests are the same tests -/

/-- no white space other than the blank (no tab, no control white space, no Unicode space) -/
def Clean (l : Str) : Prop := ∀ c ∈ l, pyIsSpace c = true → c = ' '

instance (l : Str) : Decidable (Clean l) := by unfold Clean; infer_instance

theorem pyIsSpace_of_isTwWs (c : Char) (h : isTwWs c = true) : pyIsSpace c = true := by
  have hall : ∀ n ∈ Gen.textwrapWhitespaceCodes, Gen.pySpaceCodes.contains n = true := by decide
  simp only [isTwWs, List.contains_iff_mem] at h
  exact hall _ h

theorem Clean.ws {l : Str} (h : Clean l) : ∀ c ∈ l, isTwWs c = true → c = ' ' :=
  fun c hc hw => h c hc (pyIsSpace_of_isTwWs c hw)

theorem Clean.tail {c : Char} {l : Str} (h : Clean (c :: l)) : Clean l :=
  fun x hx => h x (List.mem_cons_of_mem _ hx)

theorem Clean.no_tab {l : Str} (h : Clean l) : ∀ c ∈ l, c ≠ '\t' := by
  intro c hc heq
  subst heq
  have : pyIsSpace '\t' = true := by decide
  have := h _ hc this
  exact absurd this (by decide)

theorem expandTabsAux_clean (n : Nat) : ∀ (l : Str) (col : Nat), Clean l → expandTabsAux n col l = l
  | [], _, _ => rfl
  | c :: rest, col, h => by
    have hc : c ≠ '\t' := h.no_tab c List.mem_cons_self
    have hc' : (c == '\t') = false := by simpa using hc
    unfold expandTabsAux
    simp only [hc', Bool.false_eq_true, if_false]
    split <;> rw [expandTabsAux_clean n rest _ h.tail]

theorem expandTabs_clean (n : Nat) (l : Str) (h : Clean l) : expandTabs n l = l :=
  expandTabsAux_clean n l 0 h

theorem munge_clean (l : Str) (h : Clean l) : munge l = l := by
  have h1 : Gen.textwrapExpandTabs = true := by decide
  have h2 : Gen.textwrapReplaceWhitespace = true := by decide
  simp only [munge, h1, h2, if_true, expandTabs_clean _ l h]
  have : ∀ (m : Str), (∀ c ∈ m, isTwWs c = true → c = ' ') → m.map (fun c => if isTwWs c = true then ' ' else c) = m := by
    intro m
    induction m with
    | nil => intro _; rfl
    | cons x xs ih =>
      intro hm
      simp only [List.map_cons]
      rw [ih (fun c hc => hm c (List.mem_cons_of_mem _ hc))]
      by_cases hx : isTwWs x = true
      · simp [hx, hm x List.mem_cons_self hx]
      · simp [hx]
  exact this l h.ws

theorem leadBlanks_eq (l : Str) : leadBlanks l = (l.takeWhile (· = ' ')).length := by
  fun_induction leadBlanks l with
  | case1 rest ih => simp [List.takeWhile_cons, ih]
  | case2 l hne =>
    cases l with
    | nil => rfl
    | cons c t =>
      have : c ≠ ' ' := by
        intro h; subst h; exact hne t rfl
      simp [List.takeWhile_cons, this]

theorem beq_dec (a b : Char) : (a == b) = decide (a = b) := by
  by_cases h : a = b <;> simp [h]

theorem isCommentLine_eq (l : Str) : isCommentLine l = Spec.File.isCommentCard l := by
  have h5 : Gen.blankSpaceContinue = 5 := rfl
  simp only [isCommentLine, Spec.File.isCommentCard, leadBlanks_eq, h5]
  by_cases hl : (l.takeWhile (· = ' ')).length ≥ 5
  · have : ¬ (l.takeWhile (· = ' ')).length < 5 := by omega
    simp [hl, this]
  · have : (l.takeWhile (· = ' ')).length < 5 := by omega
    simp only [hl, if_false, this, decide_true, Bool.true_and]
    cases l.drop (l.takeWhile (· = ' ')).length with
    | nil => rfl
    | cons c rest =>
      cases rest with
      | nil => simp [beq_dec]
      | cons d r => simp [beq_dec]

theorem splitDollar_eq (l : Str) :
    Spec.File.splitDollar l = ((partitionDollar l).1, if (partitionDollar l).2.1 then some (partitionDollar l).2.2 else none) := by
  induction l with
  | nil => rfl
  | cons c t ih =>
    simp only [Spec.File.splitDollar, partitionDollar]
    by_cases hc : c = '$'
    · simp [hc]
    · have : (c == '$') = false := by simpa using hc
      simp [hc, this, ih]

theorem partitionDollar_no_dollar (l : Str) : '$' ∉ (partitionDollar l).1 := by
  induction l with
  | nil => simp [partitionDollar]
  | cons c t ih =>
    simp only [partitionDollar]
    by_cases hc : (c == '$') = true
    · simp [hc]
    · simp only [hc, Bool.false_eq_true, if_false, List.mem_cons, not_or]
      exact ⟨by intro h; subst h; simp at hc, ih⟩

theorem partitionDollar_append (l : Str) :
    l = (partitionDollar l).1 ++ (if (partitionDollar l).2.1 then '$' :: (partitionDollar l).2.2 else []) := by
  induction l with
  | nil => simp [partitionDollar]
  | cons c t ih =>
    simp only [partitionDollar]
    by_cases hc : (c == '$') = true
    · have : c = '$' := by simpa using hc
      simp [hc, this]
    · simp only [hc, Bool.false_eq_true, if_false, List.cons_append]
      rw [← ih]

theorem splitDollar_of_no_dollar : ∀ (a : Str), '$' ∉ a → Spec.File.splitDollar a = (a, none)
  | [], _ => rfl
  | c :: t, h => by
    have hc : c ≠ '$' := fun e => h (e ▸ List.mem_cons_self)
    have ht : '$' ∉ t := fun e => h (List.mem_cons_of_mem _ e)
    simp [Spec.File.splitDollar, hc, splitDollar_of_no_dollar t ht]

theorem splitDollar_append : ∀ (a t : Str), '$' ∉ a → Spec.File.splitDollar (a ++ '$' :: t) = (a, some t)
  | [], t, _ => by simp [Spec.File.splitDollar]
  | c :: a, t, h => by
    have hc : c ≠ '$' := fun e => h (e ▸ List.mem_cons_self)
    have ha : '$' ∉ a := fun e => h (List.mem_cons_of_mem _ e)
    simp [Spec.File.splitDollar, hc, splitDollar_append a t ha]

theorem not_fileBlank_of_mem (l : Str) (c : Char) (hc : c ∈ l) (h : pyIsSpace c = false) :
    Spec.File.isBlankLine l = false := by
  cases hb : Spec.File.isBlankLine l with
  | false => rfl
  | true =>
    simp only [Spec.File.isBlankLine, List.all_eq_true] at hb
    have := hb c hc
    simp only [Spec.File.isBlankC, Bool.or_eq_true, decide_eq_true_eq] at this
    rcases this with rfl | rfl
    · have : pyIsSpace ' ' = true := by decide
      rw [this] at h; cases h
    · have : pyIsSpace '\t' = true := by decide
      rw [this] at h; cases h

theorem not_fileBlank_of_stripNonEmpty (l : Str) (h : stripNonEmpty l = true) : Spec.File.isBlankLine l = false := by
  simp only [stripNonEmpty, List.any_eq_true, Bool.not_eq_true'] at h
  obtain ⟨c, hc, hs⟩ := h
  exact not_fileBlank_of_mem l c hc hs

end MontePyVerif.C10
